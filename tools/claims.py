# Claims table: executed by gen_manifest.py. One claim() per property the analyser decides.
T = "static analysis over type-checked SSA (go/packages+go/ssa): "

claim("C03", T + "gate-dominates-effect, never-after and must-pass-through rules over the 37 live Run methods and RunTx",
      "Decides on every CFG path of every live handler that state mutators lie inside the deliver-only region, that no rejecting return is reachable after the first mutator, that every accepted deliver path sets the signer's nonce to tx.Nonce, that no other code writes nonces, and that RunTx's failure branch performs only whitelisted, balance-capped fee effects on the payer. A structural necessary condition, not the behaviour: amounts and module internals are not decided.",
      "Trusted: go/types+go/ssa lowering; module mutators do what their names say; panics inside a deliver block are C07's concern.",
      "DESIGN.md §4 C03")

PENDING = "check not built yet in this round; see DESIGN.md §4 for the planned static rule"
for p in ["C01","C02","C04","C05","C06","C07","C08","C09","C10","C11","C13","C14","C15","C16","C17","C18","C19","C20","C21","C22","C23","C24","C25","C26","C27","C28","C29"]:
    if p not in CLAIMS:
        NOT_APPLICABLE[p] = PENDING
NOT_APPLICABLE["C12"] = "Bancor formula accuracy is a numeric error bound over big.Float Exp/Log for all supplies/reserves/ratios; no clause of it is visible in the shape of the code, and bounding floating-point error is outside static analysis as available here (DESIGN.md §5)."
