# Claims table: executed by gen_manifest.py. One claim() per property the analyser decides.
T = "static analysis over type-checked SSA (go/packages+go/ssa, x/tools v0.29.0): "
TRUST = "Trusted: go/types+go/ssa lowering; VTA call graph restricted to repository packages; state-module mutators do what their names say. "

claim("C03", T + "gate-dominates-effect, never-after and must-pass-through rules over the 37 live Run methods and RunTx",
      "Decides on every CFG path of every live handler that state mutators lie inside the deliver-only region, that no rejecting return is reachable after the first mutator, that every accepted deliver path sets the signer's nonce to tx.Nonce, that no other code writes nonces, and that RunTx's failure branch performs only whitelisted, balance-capped fee effects on the payer. A structural necessary condition, not the behaviour: amounts and module internals are not decided.",
      TRUST + "Panics inside a deliver block are C07's concern.", "DESIGN.md §4 C03")

claim("C04", T + "gate recognition with exact constant/relation normal forms (chain id, nonce+1) dominating the dispatch; field-writer rule on the nonce register",
      "Decides that the dispatch to Run is dominated by `tx.ChainID == CurrentChainID` and by the exact test `GetNonce(tx.Sender())+1 == tx.Nonce`, that every accepted path stores tx.Nonce for the signer, and that GetNonce/SetNonce read/write the Nonce field with no other writer. Accepted ⇒ stored+1 = nonce ∧ stored' = nonce, hence replays and stale nonces meet the gate. Not decided: hash collisions.",
      TRUST, "DESIGN.md §4 C04")

claim("C08", T + "call-graph reachability from the ABCI entry points + AST idiom classification of every map range + forbidden-source inventory",
      "Decides, over all repository code reachable from InitChain/BeginBlock/DeliverTx/EndBlock/Commit, that every map range is order-insensitive by a recognised idiom (collect-then-sort, commutative fold, keyed insert/delete, unique-match search, loop-invariant assignment) with an explicit table of confirmed order-neutral callees, and that no wall-clock/random/env/goroutine/select source is reachable except confirmed statistics/shutdown sites. Necessary conditions only: library nondeterminism and unsynchronised reads are not decided.",
      TRUST + "The orderNeutral callee table and the source exception table were confirmed by reading.", "DESIGN.md §4 C08")

claim("C09", T + "cache-coherence rule on AppDB (saver guard flags vs mutators), key agreement, saver reachability from Commit, classification of Blockchain's volatile fields",
      "Decides that every cached AppDB record is saved under guards that every mutator arms, is saved from Commit when block execution can mutate it, is loaded from the key it is saved to, and that every field of minter.Blockchain is configuration, rebuilt by initState, or block-local. Found and repaired the emission dirty-flag defect. Not decided: equality of reloaded module caches with in-memory ones.",
      TRUST, "DESIGN.md §4 C09")

claim("C10", T + "dominance ordering of the commit path's durable writes; write-set inventory after the height marker (known findings)",
      "Decides the order Check ≺ CommitEvents ≺ State.Commit ≺ SetLastBlockHash ≺ SetLastHeight, provenance of the stored hash/height, saver.Commit ≺ SaveVersion ≺ SetImmutableTree, that every state module is handed to tree.Commit, that Info reports the persisted pair; reports every durable app-DB write after the height marker — five exist today and are recorded as known findings (genuine crash windows), any other is a violation. Not decided: iavl/goleveldb durability.",
      TRUST, "DESIGN.md §4 C10")

claim("C11", T + "field coverage (writer in exporter-reachable code, reader in importer-reachable code) over AppState and nested structs; map-range order rule on Export code",
      "Decides that every field of types.AppState and its nested structs is written by export-reachable code and read by import-reachable code (found and repaired: HaltBlocks never imported), and that Export's map iterations are order-insensitive. Not decided: Verify(), value equality, behaviour of the new chain.",
      TRUST + "Exemptions (Note, legacy Version, opaque BitArray) are listed with reasons in c11.go.", "DESIGN.md §4 C11")

claim("C20", T + "recognition of the exact strict 3·voted > 2·total normal form over big.Int with float-taint check on the decision slice; gate rules on vote handlers",
      "Decides that each vote-based accepting return of the three tally functions is governed by the exact strict integer test against blockchain.totalPower with no float in its data dependences (found and repaired: float64(2./3.) threshold), that leader replacement is strict, that stop/SetNewCommissions/AddVersion are gated by the tally, and that vote handlers reject past heights, duplicates and non-owners and record under the key the duplicate test reads. Not decided: that validatorsPowers holds the right stakes.",
      TRUST, "DESIGN.md §4 C20")

claim("C26", T + "must-pass-through (debit ⇒ replay guard advanced) over deliver-mode RunTx and the live Runs; free-rejection rule for pre-dispatch returns",
      "Decides that every accepted path advances the signer's nonce, that every pre-dispatch rejection executes no mutator, and that every payer debit inside RunTx is followed by a replay-guard advance. The failure-fee debit is not: a genuine violation recorded as a known finding (same failed bytes are charged on every redelivery; reproduced). Any other unguarded debit is reported.",
      TRUST + "Tendermint's mempool cache is outside the repository and not relied on.", "DESIGN.md §4 C26")

claim("C29", T + "table agreement (AppDB keys = Snapshot list = Restore cases), WaitGroup ordering rules, loader cache rule",
      "Decides that the record set used by the AppDB equals what Snapshot exports and Restore accepts, that every store write waits for a running snapshot, that Snapshot reads before releasing and releases on every return, that Commit raises the WaitGroup before spawning the snapshot, that loaders never cache empty reads, and the C09 dirty-flag rule. Not decided: IAVL export/import, chunking, later behaviour.",
      TRUST, "DESIGN.md §4 C29")

claim("C16", T + "provenance of release heights at every fund-freezing site, who-may-release rule on BeginBlock, interprocedural gate facts (callee-returned-nil summaries) for the move target and the LockStake gate",
      "Decides that every site freezing funds computes block+GetUnbondPeriod / currentBlock+GetMovePeriod / gated DueBlock, that only BeginBlock releases frozen funds, only for its own height, crediting balances only without a move target and delegating only with one, that MoveStake is accepted only towards an existing candidate (found and repaired) and UnbondV3 only when not stake-locked. Not decided: numeric period values, what happens when the move target disappears before maturity (C07 finding).",
      TRUST, "DESIGN.md §4 C16")

claim("C25", T + "must-hold lockset dataflow per function with caller-held summaries; guarded-by table over map fields shared between API-reachable and consensus-reachable code; re-acquisition and release-on-every-return rules; check-then-insert rule (deciding lookup under the insert's write lock); alias tracing of in-place big.Int operations in API code back to read methods that hand out stored amounts",
      "Decides that every map operation on a state/events map field shared between API readers and block execution holds the field's guard (found and repaired: swapPools, events store id tables), that no API-reachable path re-acquires a mutex block execution write-locks (found and repaired: GetLockStakeUntilBlock), that every acquisition is released on every normal return, that a cached record is inserted only by a lookup-and-insert under one write lock wherever API and block execution can both load it (found and repaired: seven lazy loaders lost block execution's update to a racing query), that API code never does in-place arithmetic on an amount object owned by the state, that API code calls no mutator, that bulk loaders are called by the API only on private historic states, and that the node is wired through the serialising local ABCI client. Not decided: races on non-map fields, lock-order cycles, the order-book lists.",
      TRUST + "Guard table confirmed by reading; Tendermint's local client serialises ABCI calls.", "DESIGN.md §4 C25")

claim("C05", T + "provenance of the account argument of every debit-like mutator; interprocedural gate facts per handler against a table of required ownership gates; gate inventory of the multisig arm of RunTx",
      "Decides that every debit/withdrawal in live transaction code names tx.Sender() (RedeemCheck: the check's issuer), that no protocol code debits balances, that each object-editing handler is dominated by its owner/control/ticker-owner/order-owner/multisig gate comparing a state lookup keyed by the transaction's own data with tx.Sender(), and that multisig dispatch is dominated by membership, count, recovery, duplicate and threshold gates with weights taken from recovered signers; the signed hash covers all nine signed fields. Not decided: cryptography, fill/slash fairness.",
      TRUST, "DESIGN.md §4 C05")

claim("C18", T + "gate facts for jail/absent/byzantine paths, constant evaluation, call ordering by dominance, guard/marker rule (fields read by the skip gate ∩ fields written by the punishment) over transitive field-effect summaries",
      "Decides that switching on is gated by the jail test and Punish jails for GetJailPeriod, that absent punish/switch-off are gated by `> 12` (of 24) and punish by non-grace, that byzantine punishment runs frozen-funds ≺ validator ≺ candidate behind the skip gates, and that the skip gate reads state the punishment writes (found and repaired: duplicate evidence in one block was punished twice). Not decided: the 5 % arithmetic.",
      TRUST, "DESIGN.md §4 C18")

claim("C21", T + "interprocedural gate facts at every value-moving effect of the live RedeemCheck handler, must-pass-through for UseCheck, marker rule on the used-check set, argument provenance of the transfer",
      "Decides that every redemption effect is dominated by the chain-id, due-block, once-only, gas-coin, gas-price and lock-proof gates on the check decoded from data.RawCheck (the proof message binding tx.Sender()), that UseCheck runs on every accepted path and keys the set IsCheckUsed reads by check.Hash() (persisted), and that exactly check.Value of check.Coin moves from the issuer to tx.Sender() with the fee taken from the issuer in the check's gas coin. Not decided: signature soundness, RLP canonicity (C23).",
      TRUST, "DESIGN.md §4 C21")

claim("C22", T + "provenance of coin ids (GetNextCoinID → Create* → SetCoinsCount) with must-pass-through, who-may-call on creators and the counter, gate facts for ticker uniqueness/ownership and minting",
      "Decides that every creating handler uses App().GetNextCoinID() as the new id and stores it back on every accepted path, that nothing else creates coins or moves the counter, that tickers are registered only after the uniqueness and allowed-symbol gates, that recreate/re-own/mint are owner-gated, that pool tokens have no ticker owner and MintToken rejects coins without symbol info, and that minting is bounded by mintability and max supply. Not decided: version numbering arithmetic.",
      TRUST, "DESIGN.md §4 C22")

claim("C01", T + "who-may-write on value-holding fields, sibling pairing (order-fill credit loop after every Pair*WithOrders), sibling agreement of the fee block frozen to exact origin signatures, move-not-copy pairing, slash accounting pairing, carry rule on validator rebuild",
      "Whole-history conservation is arithmetic and is not decided. Decides the pairing skeleton: holding fields are written only in their module; all 42 order-filling swaps credit the filled orders' owners in the coin sold into the pool on every path; the fee block of each of the 37 live Runs matches a confirmed signature of amount sources; frozen funds are moved, not copied; slashed amounts reach total-slashed / burn volume+reserve; accumulated rewards survive a validator rebuild (known finding: lost on public-key change, reproduced).",
      TRUST + "Amounts inside module mutators are not examined.", "DESIGN.md §4 C01")

claim("C02", T + "path-sensitive coverage: enumeration of all acyclic CFG paths to every balance debit with branch facts, phi resolution along the path and infeasible-path pruning; recognised sufficiency-gate normal forms; gate rules for volume/reserve mutations",
      "Decides that every SubBalance in a live deliver block is covered on every path by a sufficiency gate on the same account and coin (equal syntactically, by alias, or by an equality fact on that path) whose amount contains the debited value (or a pool-module charge bounded by it, or exactly the balance read), with the Multisend helper and the route's last-iteration debit as named idioms; every AddVolume lies behind a max-supply gate and every bancor SubReserve behind a reserve-underflow gate on every feasible path. Not decided: stakes, frozen funds, pool reserves, order volumes; numeric sufficiency when deliver recomputes a trade.",
      TRUST + "Assumes a pool-module mutator never charges more than the maximum amount it is given.", "DESIGN.md §4 C02")


claim("C13", T + "sibling pairing with argument provenance over the three live pool handlers (PairCreate/PairMint/PairBurn ↔ pool-token volume and balance mutators)",
      "K non-decrease, rounding and proportional-share arithmetic are numeric and NOT decided. Decides the pool-token pairing: pool creation registers the token with the returned liquidity, credits liquidity − Bound to the sender and exactly Bound to the zero address (which no transaction can debit, C05.debitor); adding liquidity passes the token's Volume() as total supply, mints and credits exactly the returned liquidity and debits the returned amounts; removing liquidity burns exactly data.Liquidity from volume and sender and credits the returned amounts; all on the token of the pool the data names.",
      TRUST + "Pair-level arithmetic inside the swap module is not examined.", "DESIGN.md §4 C13")

claim("C24", T + "field coverage over every convert/compile pair, dispatch-table exhaustiveness over every AddEvent argument type, key/count agreement and integer-width rule on the id tables",
      "Decides that every event field is read by convert and written by compile from the compact field of the same name (addresses/keys through the id tables), that every event type ever handed to AddEvent is registered and dispatched by both CommitEvents and LoadEvents, that the id tables are saved and loaded under the same keys with the count the loaders' bounds assume, and that id types are wide enough — the uint16 public-key id is not (known finding, reproduced). Not decided: amino/JSON encoding, big.Int string round trips.",
      TRUST, "DESIGN.md §4 C24")

claim("C27", T + "dataflow shape of the fee computation: price-table field provenance per live handler, field coverage of commission.Price across import/vote/export/event/fee code, formula recognition in tx.Price/MulGasPrice/RunTx, burn pairing for ticker fees",
      "Decides that every live handler's price comes from fields of the price table (found and repaired: CreateToken charged the CreateCoin entry), that every table field travels through import, vote, export, event and at least one fee computation, that RunTx computes gasPrice·(type price + bytes·PayloadByte), converts it through the pool only when the table coin is not the base coin and hands exactly that to Run, that the base value reaches the reward pool, and that ticker fees are taken out of the pool and credited to the zero address only for CreateCoin/CreateToken. Not decided: that the cheaper route is numerically cheaper; rounding.",
      TRUST, "DESIGN.md §4 C27")


claim("C06", T + "control-dependence and value-selection analysis of the execution-mode flags (comma-ok results of the context type assertions) over RunTx, the live Runs and their helpers; dispatch/argument agreement of CheckTx and DeliverTx; post-dispatch return classification",
      "Numeric agreement of the check-time simulation with deliver-time execution is NOT decided. Decides that CheckTx and DeliverTx run the same executor on the same bytes for the same block number over two views of one state, that no rejecting return, response-code store or verdict-relevant value depends on the execution mode (beyond the CheckTx-only gas-price floor and mempool rule the property excludes, and the failure-fee region), and that RunTx never turns an accepted Run into a rejection afterwards (found and repaired: non-positive ticker price).",
      TRUST + "Read methods return the same values through CheckState as through the State it wraps.", "DESIGN.md §4 C06")


claim("C07", T + "panic-site inventory over call-graph reachability from the ABCI methods with io/table classification; derived partial-mutator set with pre-check-sibling facts (incl. exhaustive error-switch analysis against the callee's possible error values); path-sensitive validation of fee-swap amounts; checked-here/unchecked-there nil rule with caller gates for block-level lookups; type-assertion gating",
      "Arithmetic, bounds, nil *big.Int, third-party and RLP-internal panics are NOT decided. Decides that every explicit panic/exit site reachable from DeliverTx/CheckTx/BeginBlock/EndBlock/Commit is governed by a storage/encoder error or is in the confirmed table; that every state mutator that can panic on its arguments is called from deliver blocks only behind its pre-check sibling on the same arguments; that the amount sold by every fee swap was produced or validated by a successful CalculateCommission/CheckSwap on every path (found and repaired: dust failure fee crashed DeliverTx); that block-level code does not dereference a may-return-nil lookup unchecked (two genuine crashes recorded as known findings: matured move to a removed candidate; reward payout after a validator key change); and that type assertions on the decoded data are gated by the matching tx type.",
      TRUST + "A pre-check sibling rejects exactly the arguments its mutator panics on.", "DESIGN.md §4 C07")


claim("C14", T + "interprocedural gate facts for the owner / once-only gates of the live RemoveLimitOrder handler; same-object rule (the order whose WantSell is refunded is the object handed to updateOrders) with must-pass-through on every refunding return; provenance of the credited (account, coin, volume) in the handler, ExpireOrders and the minimum-volume closer; who-may-call on the removal functions",
      "Price, priority order, partial-fill price retention and the sorted-id caches are NOT decided. Decides that an order is cancelled only by its owner, only once (already-used / empty gates in the handler and in removeLimitOrder, which closes the order on every refunding path), and that exactly the remaining WantSell of the live order — the object that is closed, not the stored copy — is returned in the order's sell coin to the owner by cancellation, expiry and minimum-volume closing, with the supply checker told the same amount.",
      TRUST + "updateOrders subtracts the amounts of the orders it is given from the live orders with those ids.", "DESIGN.md §4 C14")


claim("C15", T + "forward dataflow of the user's limit field into a rejecting comparison (direct Cmp with polarity check, or the CheckSwap argument of the matching direction) outside the deliver block; polarity of the limit rejections inside CheckSwap; origin agreement between result tags and the sender's balance changes; whole-balance provenance in sell-all handlers",
      "That deliver-time recomputation reproduces the checked amounts is arithmetic and NOT decided. Decides that in each of the six live trading handlers MinimumValueToBuy / MaximumValueToSell reaches, before the deliver block, a comparison with the calculated amount whose failing edge rejects with the right polarity; that tx.return / tx.sell_amount print amounts with the same call-result origins as an amount credited to or debited from the sender; and that sell-all handlers debit an amount derived from the sender's whole balance of the sold coin.",
      TRUST, "DESIGN.md §4 C15")


claim("C23", T + "who-may-decode inventory (only rlp.DecodeBytes with its error returned), struct-tag walk over every type reachable from the decoded roots with a gate rule for `tail` fields, gate facts and argument provenance in the two signature-recovery functions, structural check of ValidateSignatureValues",
      "The RLP decoder's canonical-size checks, curve arithmetic and byte round trips are NOT decided. Decides that transaction, data, signature and check bytes are decoded only by rlp.DecodeBytes (trailing input rejected) with the error returned; that no decoded type carries a lenient rlp tag and every `tail` field is rejected when non-empty by its live handler; that both recovery functions reach Ecrecover only behind the one-byte V bound and ValidateSignatureValues(byte(V−27), R, S, true) on the R, S they serialise; that ValidateSignatureValues rejects s > N/2 under that flag and v ∉ {0,1}; and that Transaction.Sender / Check.Sender recover from their own hash and signature.",
      TRUST, "DESIGN.md §4 C23")


claim("C17", T + "gate facts on the selection site of GetNewCandidates, constant evaluation (1000 BIP, 64, tail index 100), list provenance through updateValidators, dominance of the keep-validator gate over every effect of DeleteCandidate, same-object provenance of kicked stakes and comparison polarity",
      "That the comparator orders by stake, proportionality and all arithmetic are NOT decided. Decides that validators are drawn only from the ordered candidate list, online and with at least BipToPip(1000) of stake, cut to at most 64, that the same list reaches the state and Tendermint with power floored at 1 and power-0 updates for dropped validators, that a current validator is never deleted, that exactly the candidates ranked beyond 100 are deleted with every stake and pending update frozen at full value for the unbond period, and that at a full candidate the incoming stake loses only to a strictly greater smallest stake, the loser going to the waitlist with its own owner, full value and coin.",
      TRUST, "DESIGN.md §4 C17")


claim("C19", T + "gate facts on the accrual and dropped-validator sites of EndBlock, pairing of every reward credit with its supply-checker report in all four PayRewards versions, zeroing and remainder-guard rules, recipient/rate constants, provenance of the extra reward into emission and volume, carry rule on the validator-set rebuild",
      "Proportionality of the split and all reward arithmetic are NOT decided. Decides that rewards accrue only to validators that are present and not marked to drop, with each accrued share subtracted from the remainder that goes to total slashed; that a dropped validator's accumulated reward returns to the pool and is zeroed; that every payout credit is reported with the same value, DAO and developers get their shares at the 10 % constants, the accumulator is zeroed and a negative remainder (over-payment) fail-stops; that the locked-stake bonus is added to both emission and volume; and the carry rule (known finding: accrued rewards lost on a public-key change).",
      TRUST, "DESIGN.md §4 C19")

claim("C28", T + "constant evaluation of the emission cap, gate facts for the cap comparison in BeginBlock and EndBlock, path-sensitive window rule (every feasible path to the re-pricing call carries height mod period == 1 and never-priced or 12 ≤ header hour ≤ 14 and header gap > 3 h), provenance of the minted, burned and counted amounts",
      "The 350·p^¼ formula, the −10 % rule and the recovery steps are arithmetic and NOT decided. Decides that the cap is 10^10 BIP, that re-pricing, reward reads and emission advances happen only below the cap and the reward is zeroed at it, that the reward is re-priced only inside the height/hour/3-hour window measured on the block header's time, and that each block advances the emission counter by the state's per-block value, burns the positive withheld difference to the zero address and reports reward-plus-burn as minted base-coin volume.",
      TRUST, "DESIGN.md §4 C28")

PENDING = "check not built yet in this round; see DESIGN.md §4 for the planned static rule"
for p in ["C%02d" % i for i in range(1, 30)]:
    if p not in CLAIMS and p != "C12":
        NOT_APPLICABLE[p] = PENDING
NOT_APPLICABLE["C12"] = "Bancor formula accuracy is a numeric error bound over big.Float Exp/Log for all supplies/reserves/ratios; no clause of it is visible in the shape of the code, and bounding floating-point error is outside static analysis as available here (DESIGN.md §5)."
