#!/usr/bin/env python3
"""usage: keep_seeds.py <seed-root> <matrix.log> — copies every seed that has a verified.json with
build=ok, demo failing with / passing without the patch and an unchanged baseline into
/verif/seeded/<id>/ (patch.diff, demo_test.go, meta.json). meta.json = the author's description plus
what was confirmed here and which rules detect the change on the current tree (from the matrix)."""
import json, os, re, shutil, sys
root, matrix = sys.argv[1], sys.argv[2]
det = {}
for l in open(matrix):
    m = re.match(r'^(C\d+[a-z]): (.*)$', l.strip())
    if m:
        det[m.group(1)] = m.group(2)
kept = []
arr = json.load(open('/verif/tools/arrival.json'))
for d in sorted(os.listdir(root)):
    sd = os.path.join(root, d)
    if not re.match(r'^C\d+[a-z]$', d) or not os.path.isfile(os.path.join(sd, 'verified.json')):
        continue
    if d in arr.get('rejected', {}):
        print(d, 'REJECTED:', arr['rejected'][d][:100])
        continue
    v = json.load(open(os.path.join(sd, 'verified.json')))
    ok = v.get('build') == 'ok' and v.get('demo_with_patch') == 'fail' and v.get('demo_without_patch') == 'pass' and 'missing 0' in v.get('baseline', '')
    if not ok:
        print(d, 'NOT KEPT:', v)
        continue
    meta = json.load(open(os.path.join(sd, 'meta.json')))
    rules = det.get(d, '')
    out = {
        'id': d,
        'property': meta.get('property', d[:3]),
        'summary': meta.get('summary', ''),
        'why_it_breaks': meta.get('why_it_breaks', ''),
        'needs_to_manifest': meta.get('needs_to_manifest', ''),
        'how_to_run_demo': meta.get('how_to_run_demo', ''),
        'author': 'independent sub-agent given only the property text and a scratch worktree',
        'confirmed_here': {
            'how': 'tools/verify_seed.sh in a scratch worktree of /repo HEAD %s: patch applies, go build ./... ok, the demonstration fails with the patch and passes without it, the 729 baseline tests still pass with it' % v.get('head', ''),
            'demo_with_patch': v.get('demo_with_patch'), 'demo_without_patch': v.get('demo_without_patch'), 'baseline_with_patch': v.get('baseline'),
        },
    }
    if rules.startswith('STALE'):
        out['detected_by'] = []
        out['status'] = 'stale: no longer applies to the current tree'
    elif rules == 'MISSED' or rules == '':
        out['detected_by'] = []
        out['status'] = 'missed'
    else:
        out['detected_by'] = rules.split()
        out['status'] = 'detected'
    out['caught_on_arrival'] = True if d in arr['caught'] else False if d in arr['missed'] else None
    dst = os.path.join('/verif/seeded', d)
    os.makedirs(dst, exist_ok=True)
    # keep an existing note about why a seed is missed
    old = os.path.join(dst, 'meta.json')
    if os.path.isfile(old):
        o = json.load(open(old))
        if 'note' in o:
            out['note'] = o['note']
    shutil.copy(os.path.join(sd, 'patch.diff'), dst)
    shutil.copy(os.path.join(sd, 'demo_test.go'), dst)
    json.dump(out, open(old, 'w'), indent=1)
    kept.append((d, out['status'], ' '.join(out['detected_by'])))
for k in kept:
    print('%-6s %-9s %s' % k)
