#!/bin/bash
# usage: verify_seed.sh <seed_dir> <name>
# Confirms a seeded change in its own scratch worktree of /repo's HEAD: the patch applies and
# builds, the demonstration fails with it and passes without it, and the baseline suite still
# passes with it. Writes <seed_dir>/verified.json and removes the worktree.
set -u
seed="$1"; name="$2"
export GOFLAGS=-mod=mod GOPROXY=off GOSUMDB=off GOTOOLCHAIN=local
wt=/tmp/sv_$name
git -C /repo worktree remove --force $wt 2>/dev/null
git -C /repo worktree add -q --detach $wt HEAD || exit 2
res() { python3 - "$seed/verified.json" "$@" <<'P'
import json,sys
out=sys.argv[1]; kv=dict(a.split('=',1) for a in sys.argv[2:])
json.dump(kv,open(out,'w'),indent=1)
P
}
pkgdir=$(head -1 "$seed/demo_test.go" | sed 's/.*package dir: *//; s/[[:space:]]*$//')
run=$(python3 -c "import json;print(json.load(open('$seed/meta.json'))['how_to_run_demo'])")
cd $wt
if ! git apply "$seed/patch.diff"; then res applies=false; git -C /repo worktree remove --force $wt; exit 1; fi
cp "$seed/demo_test.go" "$pkgdir/zz_seed_test.go"
build=ok; go build ./... >/dev/null 2>&1 || build=FAIL
with=$(eval "$run" 2>&1 | tail -3 | tr '\n' ' ')
withrc=pass; echo "$with" | grep -q "^ok\| ok " || withrc=fail
rm -f "$pkgdir/zz_seed_test.go"
base=$(/verif/tools/baseline_compare.sh $wt 2>&1 | head -1)
git checkout -q -- .
cp "$seed/demo_test.go" "$pkgdir/zz_seed_test.go"
without=$(eval "$run" 2>&1 | tail -3 | tr '\n' ' ')
withoutrc=pass; echo "$without" | grep -q "^ok\| ok " || withoutrc=fail
rm -f "$pkgdir/zz_seed_test.go"
cd /
git -C /repo worktree remove --force $wt
res applies=true build=$build demo_with_patch=$withrc demo_without_patch=$withoutrc "baseline=$base" "head=$(git -C /repo rev-parse --short HEAD)"
echo "$name: build=$build with=$withrc without=$withoutrc base=[$base]"
