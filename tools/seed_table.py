#!/usr/bin/env python3
"""prints the markdown table of DESIGN.md §10 from /verif/seeded/*/meta.json"""
import json, os, re
rows = []
for d in sorted(os.listdir('/verif/seeded')):
    f = os.path.join('/verif/seeded', d, 'meta.json')
    if not os.path.isfile(f):
        continue
    m = json.load(open(f))
    site = m.get('summary', '')
    site = re.split(r'[:(]', site, 1)[0].strip()
    if len(site) > 60:
        site = site[:57] + '...'
    needs = m.get('needs_to_manifest', '').replace('\n', ' ').replace('|', '/')
    if len(needs) > 110:
        needs = needs[:107] + '...'
    arr = m.get('caught_on_arrival')
    rows.append('| %s | %s | %s | %s | %s |' % (d, site, needs, {True: 'yes', False: 'no', None: '?'}[arr], ' '.join(m.get('detected_by', [])) or '**missed** (see note)'))
print('| id | changed site | needs, to manifest | caught on arrival | rules that report it now |')
print('|---|---|---|---|---|')
print('\n'.join(rows))
