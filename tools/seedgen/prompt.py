#!/usr/bin/env python3
"""Prints the prompt given to an independent sub-agent asked to seed a property-breaking change.
Only the property's title and statement are disclosed (nothing from /verif)."""
import json, sys
pid = sys.argv[1]
n = sys.argv[2] if len(sys.argv) > 2 else "TWO"
hint = sys.argv[3] if len(sys.argv) > 3 else ""
for l in open('/verif/properties.jsonl'):
    p = json.loads(l)
    if p['id'] == pid:
        break
else:
    sys.exit('no such property')
print(f"""You are helping to test a verification tool by writing realistic faulty variants of a code base. Work ONLY inside the git worktree at /tmp/wt_{pid} (a checkout of MinterTeam/minter-go-node: a Tendermint ABCI blockchain node written in Go — coin creation, bonding-curve conversions, swap pools with limit orders, staking/delegation, multisig, checks, validator rewards over an IAVL state; main code under coreV2/). Do NOT modify /repo, and do NOT read or list anything under /verif. Do NOT use `git stash` (the stash is shared by all worktrees of the repository and other agents work in sibling worktrees): to set a change aside use `git diff > file; git checkout -- .` and `git apply file`.

Environment: there is no network. Start every shell command with
  export GOFLAGS=-mod=mod GOPROXY=off GOSUMDB=off GOTOOLCHAIN=local
`go build ./...` and `go test -vet=off -count=1 ./...` work offline (the full suite takes several minutes; single packages are much quicker). NOTE: on the unchanged tree 20 tests already fail (coreV2/minter TestBlockchain_UpdateCommission, 3 in coreV2/state/accounts|candidates, 16 in coreV2/transaction: TestAddOrderSwapPoolData_* and TestLockStakeTx) and the `tests` package aborts; 'the suite still passes' means: no test that passes on the unchanged tree fails with your change. Existing tests (e.g. coreV2/transaction/*_test.go, coreV2/minter/*_test.go, coreV2/state/*_test.go) show how to set up a state, keys, candidates and a Blockchain for a test.

The property (it must hold of the node, for every input / history / schedule / crash point):
  {p['id']}: {p['title']}
  {p['statement']}

Task: produce {n} independent source changes ("seeds", named a, b, ... touching different mechanisms or sites) to non-test .go files of the repository, each of which
 1. genuinely breaks the property above (an observable behavioural violation, not just a code-style change);
 2. still compiles (`go build ./...`) and leaves the existing test suite passing (`go test -vet=off -count=1 ./...`; at the very least run every package under coreV2/ plus any package you touched, and say what you ran);
 3. is realistic and subtle — the kind of slip a maintainer could make in a refactoring or feature patch — and needs something specific to manifest: a particular interleaving, a crash or fault at a particular point, a multi-step sequence of operations, an unusual input, or two cooperating sites that each look fine alone. It must NOT be something ordinary use would expose at once;
 4. comes with a demonstration: one new Go test file that FAILS with the change applied and PASSES on the unchanged tree.
{hint}
Deliverables: for each seed x write a directory /tmp/seed_out/{pid}x/ (e.g. /tmp/seed_out/{pid}a/) containing
 - patch.diff : the output of `git diff` in the worktree containing only the seed's source change (no test file); it must apply with `git apply` to a clean checkout of HEAD;
 - demo_test.go : the demonstration. Its FIRST line must be the comment `// package dir: <directory relative to the repo root, e.g. coreV2/transaction>`; the file will be copied into that directory as zz_seed_test.go, so its package clause must fit that directory; test function names must start with TestSeed;
 - meta.json : {{"property": "{pid}", "summary": "<what was changed>", "why_it_breaks": "<...>", "needs_to_manifest": "<what specific input/sequence/interleaving/crash point is needed>", "how_to_run_demo": "go test -vet=off -count=1 -run 'TestSeed...' ./<dir>/", "tests_run": "<what you ran and the outcome>"}}.
Finish one seed completely (verify: demo fails with the patch, passes without it, suite passes with it), save its three files, then `git checkout -- . && git clean -fdq` before starting the next. Leave the worktree clean at the end. Your final message: three or four lines per seed (what, where, how it manifests).""")
