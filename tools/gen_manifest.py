#!/usr/bin/env python3
"""Regenerates /verif/MANIFEST.json from the table below (kept next to the rules so that the
claims stay in step with what cmd/mvcheck actually decides)."""
import json, os, sys

HERE = os.path.dirname(os.path.dirname(os.path.abspath(__file__)))

# property -> (technique, level text, level note, design ref)
CLAIMS = {}

def claim(pid, technique, text, note, ref):
    CLAIMS[pid] = dict(technique=technique, text=text, note=note, ref=ref)

NOT_APPLICABLE = {}

exec(open(os.path.join(HERE, "tools", "claims.py")).read())

props = [json.loads(l)["id"] for l in open(os.path.join(HERE, "properties.jsonl"))]
checks = []
for pid in props:
    if pid not in CLAIMS:
        continue
    c = CLAIMS[pid]
    checks.append({
        "property_id": pid,
        "quick_cmd": f"./check.sh {pid} quick",
        "thorough_cmd": f"./check.sh {pid} thorough",
        "evidence_file": f"/verif/evidence/{pid}.json",
        "replay_cmd_template": "cat {path}",
        "engine": "mvcheck",
        "level_claimed": {"category": "other", "text": c["text"], "design_ref": c["ref"]},
        "level_note": c["note"],
        "technique": c["technique"],
    })
na = []
for pid in props:
    if pid in CLAIMS:
        continue
    if pid not in NOT_APPLICABLE:
        sys.exit(f"{pid}: neither claimed nor listed as not applicable")
    na.append({"property_id": pid, "reason": NOT_APPLICABLE[pid]})

manifest = {
    "version": 1,
    "setup_cmd": "cd /verif && GOFLAGS=-mod=mod GOPROXY=off GOSUMDB=off GOTOOLCHAIN=local GOWORK=off go build -o bin/mvcheck ./cmd/mvcheck && (cd /repo && GOFLAGS=-mod=mod GOPROXY=off GOSUMDB=off GOTOOLCHAIN=local go build ./... )",
    "hooks": {
        "guard": "verif",
        "enable": "none: static analysis needs no instrumentation; no hook commits exist",
        "baseline_off_cmd": "cd /repo && GOFLAGS=-mod=mod GOPROXY=off GOSUMDB=off go test -json -vet=off -count=1 -timeout 25m ./...",
        "source_commits": [],
        "add_only": True,
    },
    "engines": [{
        "name": "mvcheck",
        "path": "/verif/cmd/mvcheck",
        "serves_properties": [c["property_id"] for c in checks],
        "kind_free_text": "repository-specific static analyser over go/packages + go/types + go/ssa (x/tools v0.29.0): gate-dominates-effect, must-pass-through, provenance/access-path, sibling pairing, who-may-call, field coverage, lockset and map-range order rules; no repository code is executed",
    }],
    "checks": checks,
    "not_applicable": na,
    "notes": "All claims are level 'other': each check decides a named structural necessary condition of its property on every path of the current source (see DESIGN.md §4 and each evidence file's explanation) and says which clauses it does not decide. known_findings.json lists genuine defects recorded rather than repaired.",
}
json.dump(manifest, open(os.path.join(HERE, "MANIFEST.json"), "w"), indent=1)
print(f"{len(checks)} claimed, {len(na)} not applicable")
