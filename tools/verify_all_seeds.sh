#!/bin/bash
# usage: verify_all_seeds.sh <dir-with-seed-dirs> [names...]; verifies each seed sequentially
src="$1"; shift
names="$*"
[ -z "$names" ] && names=$(ls -d $src/C[0-9]*[a-z] 2>/dev/null | xargs -n1 basename)
for n in $names; do
  [ -f "$src/$n/patch.diff" ] || continue
  [ -f "$src/$n/verified.json" ] && { echo "$n: already verified"; continue; }
  /verif/tools/verify_seed.sh "$src/$n" "$n"
done
