#!/bin/bash
# usage: seed_matrix.sh <seed-root> [ids...]
# Applies every seeded patch to a scratch worktree of /repo's HEAD (outside /repo and /verif), runs all
# rule sets on it and prints "<id>: <rules that fail>" — which checks catch which change.
set -u
root="$1"; shift
ids="$*"; [ -z "$ids" ] && ids=$(ls -d $root/C[0-9]*[a-z] | xargs -n1 basename)
cd /verif || exit 2
export GOFLAGS=-mod=mod GOPROXY=off GOSUMDB=off GOTOOLCHAIN=local GOWORK=off
# MVCHECK=<binary>: use that analyser (e.g. one built from an earlier commit, to measure what the
# checks caught when a batch of seeds arrived) instead of building the current sources
if [ -n "${MVCHECK:-}" ]; then cp "$MVCHECK" /var/tmp/mvcheck.matrix; else
go build -o bin/mvcheck ./cmd/mvcheck || exit 2
cp bin/mvcheck /var/tmp/mvcheck.matrix; fi
wt=/var/tmp/mvmatrix_wt
git -C /repo worktree remove --force $wt 2>/dev/null
git -C /repo worktree add -q --detach $wt HEAD || exit 2
for id in $ids; do
  p="$root/$id/patch.diff"; [ -f "$p" ] || continue
  if ! git -C $wt apply "$p" 2>/dev/null; then echo "$id: STALE (patch does not apply to HEAD)"; continue; fi
  rules=$(/var/tmp/mvcheck.matrix -property all -no-evidence -repo $wt -verif /verif 2>&1 | grep '^FAIL' | awk '{print $3}' | cut -d'|' -f1 | sort -u | tr '\n' ' ')
  echo "$id: ${rules:-MISSED}"
  git -C $wt checkout -q -- . ; git -C $wt clean -fdq
done
git -C /repo worktree remove --force $wt
rm -f /var/tmp/mvcheck.matrix
