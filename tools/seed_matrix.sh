#!/bin/bash
# usage: [MVCHECK=<binary>] [JOBS=n] seed_matrix.sh <seed-root> [ids...]
# Applies every seeded patch to a scratch worktree of /repo's HEAD (outside /repo and /verif), runs all
# rule sets on it and prints "<id>: <rules that fail>" — which checks catch which change.
# MVCHECK=<binary>: use that analyser (e.g. one built from an earlier commit, to measure what the
# checks caught when a batch of seeds arrived) instead of building the current sources.
# JOBS: number of seeds analysed in parallel (each in its own worktree; default 4).
set -u
root="$1"; shift
ids="$*"; [ -z "$ids" ] && ids=$(ls -d $root/C[0-9]*[a-z] | xargs -n1 basename)
cd /verif || exit 2
export GOFLAGS=-mod=mod GOPROXY=off GOSUMDB=off GOTOOLCHAIN=local GOWORK=off
bin=/var/tmp/mvcheck.matrix.$$
if [ -n "${MVCHECK:-}" ]; then cp "$MVCHECK" $bin; else
go build -o bin/mvcheck ./cmd/mvcheck || exit 2
cp bin/mvcheck $bin; fi
jobs=${JOBS:-4}
one() {
  id="$1"; slot="$2"
  p="$root/$id/patch.diff"; [ -f "$p" ] || return
  wt=/var/tmp/mvmatrix_wt_$$_$slot
  if [ ! -d $wt ]; then git -C /repo worktree add -q --detach $wt HEAD || return; fi
  if ! git -C $wt apply "$p" 2>/dev/null; then echo "$id: STALE (patch does not apply to HEAD)"; return; fi
  rules=$($bin -property all -no-evidence -repo $wt -verif /verif 2>&1 | grep '^FAIL' | awk '{print $3}' | cut -d'|' -f1 | sort -u | tr '\n' ' ')
  echo "$id: ${rules:-MISSED}"
  git -C $wt checkout -q -- . ; git -C $wt clean -fdq
}
export -f one; export root bin
# distribute ids over the slots round-robin; each slot processes its ids sequentially
i=0
for id in $ids; do slot=$((i % jobs)); echo "$id" >> /var/tmp/mvmatrix_ids_$$_$slot; i=$((i+1)); done
for slot in $(seq 0 $((jobs-1))); do
  [ -f /var/tmp/mvmatrix_ids_$$_$slot ] || continue
  ( while read id; do one "$id" "$slot"; done < /var/tmp/mvmatrix_ids_$$_$slot ) &
done
wait
for slot in $(seq 0 $((jobs-1))); do
  git -C /repo worktree remove --force /var/tmp/mvmatrix_wt_$$_$slot 2>/dev/null
  rm -f /var/tmp/mvmatrix_ids_$$_$slot
done
rm -f $bin
