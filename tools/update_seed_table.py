#!/usr/bin/env python3
"""regenerates the table between the SEED-TABLE markers of DESIGN.md from seeded/*/meta.json"""
import subprocess, re
t = subprocess.check_output(['python3', '/verif/tools/seed_table.py'], text=True)
p = '/verif/DESIGN.md'
s = open(p).read()
s = re.sub(r'<!-- SEED-TABLE-BEGIN -->.*<!-- SEED-TABLE-END -->', lambda m: '<!-- SEED-TABLE-BEGIN -->\n' + t + '<!-- SEED-TABLE-END -->', s, flags=re.S)
open(p, 'w').write(s)
