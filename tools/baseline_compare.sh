#!/bin/bash
# Runs the repository's test suite (hooks off; there are none) and compares the set of passing
# tests with BASELINE.json's stable_pass list. Prints missing tests; exit 0 iff none missing.
export GOFLAGS=-mod=mod GOPROXY=off GOSUMDB=off GOTOOLCHAIN=local
out=$(mktemp /tmp/gotest.XXXXXX.json)
(cd "${1:-/repo}" && go test -json -vet=off -count=1 -timeout 25m ./... > "$out" 2>/dev/null)
python3 - "$out" <<'P'
import json,sys
passed=set()
for l in open(sys.argv[1]):
    try: e=json.loads(l)
    except: continue
    if e.get("Action")=="pass" and e.get("Test"):
        passed.add(e["Package"]+"::"+e["Test"])
base=set(json.load(open("/root/.vp/BASELINE.json"))["stable_pass"])
missing=sorted(base-passed)
print("passed",len(passed),"baseline",len(base),"missing",len(missing))
for m in missing[:40]: print("  MISSING",m)
sys.exit(1 if missing else 0)
P
rc=$?
rm -f "$out"
exit $rc
