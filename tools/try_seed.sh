#!/bin/bash
# usage: try_seed.sh <patch.diff> [property ...]
# Applies a seeded change to /repo, runs the analyser (all claimed properties, or the given ones)
# without touching evidence, prints which obligations fail, and reverts /repo.
set -u
patch="$1"; shift
cd /verif || exit 2
export GOFLAGS=-mod=mod GOPROXY=off GOSUMDB=off GOTOOLCHAIN=local GOWORK=off
[ -n "${VERIF_NOBUILD:-}" ] || go build -o bin/mvcheck ./cmd/mvcheck || exit 2
if ! git -C /repo diff --quiet; then echo "/repo has uncommitted changes; refusing"; exit 2; fi
if ! git -C /repo apply --check "$patch" 2>/dev/null; then echo "PATCH DOES NOT APPLY to current /repo: $patch"; git -C /repo apply --check "$patch"; exit 3; fi
git -C /repo apply "$patch"
props="${*:-all}"
for p in $props; do
  ${MVCHECK:-bin/mvcheck} -property "$p" -no-evidence -repo /repo 2>&1 | grep -E "^FAIL|^ERROR|unknown" | cut -c1-330
done
git -C /repo checkout -- .
echo "(reverted)"
