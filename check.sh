#!/bin/sh
# usage: check.sh <property-id> [quick|thorough]
# Rebuilds the analyser from /verif's sources (cached build, <1 s) and decides one property on
# /repo's current working tree.
cd "$(dirname "$0")" || exit 2
export GOFLAGS=-mod=mod GOPROXY=off GOSUMDB=off GOTOOLCHAIN=local GOWORK=off
unset GOWORK_FILE
go build -o bin/mvcheck ./cmd/mvcheck || { echo "VIOLATION property=$1 replay=none: analyser failed to build"; exit 1; }
tier="${2:-${VERIF_TIER:-quick}}"
exec bin/mvcheck -property "$1" -tier "$tier" -repo "${VERIF_REPO:-/repo}"
