// mvcheck decides one property of /repo by static analysis and writes its evidence file.
package main

import (
	"encoding/json"
	"flag"
	"fmt"
	"os"
	"os/exec"
	"path/filepath"
	"sort"
	"strconv"
	"strings"
	"time"

	"golang.org/x/tools/go/ssa"

	"verif/internal/core"
	"verif/internal/rules"
)

var debugHook func()

func main() {
	prop := flag.String("property", "", "property id (C01…) or 'all'")
	tier := flag.String("tier", "quick", "quick|thorough")
	repo := flag.String("repo", "/repo", "repository root")
	verif := flag.String("verif", "", "verif dir (default: directory above the binary, or cwd)")
	explain := flag.String("explain", "", "print only the obligation rule|key")
	dump := flag.String("dump", "", "debug: dump facts (live|calls:<fn>)")
	noEvidence := flag.Bool("no-evidence", false, "do not write evidence (selftest on scratch copies)")
	envFlag := flag.String("env", "", "extra environment for the package loader, e.g. CGO_ENABLED=0")
	flag.Parse()
	t0 := time.Now()
	if t := os.Getenv("VERIF_TIER"); t != "" && !isFlagSet("tier") {
		*tier = t
	}
	seed := 0
	if s := os.Getenv("VERIF_SEED"); s != "" {
		seed, _ = strconv.Atoi(s)
	}
	vdir := *verif
	if vdir == "" {
		vdir, _ = os.Getwd()
		if exe, err := os.Executable(); err == nil {
			d := filepath.Dir(filepath.Dir(exe))
			if _, err := os.Stat(filepath.Join(d, "MANIFEST.json")); err == nil {
				vdir = d
			}
		}
	}
	var loadEnv []string
	if *envFlag != "" {
		loadEnv = strings.Fields(*envFlag)
	}
	c, err := core.Load(*repo, nil, loadEnv)
	if err != nil {
		fmt.Printf("ERROR %v\n", err)
		if *prop != "" && *prop != "all" {
			fmt.Printf("VIOLATION property=%s replay=none: the tree could not be loaded, no verdict\n", *prop)
		}
		os.Exit(1)
	}
	c.Tier = *tier
	if *dump != "" {
		doDump(c, *dump)
		return
	}
	ids := []string{*prop}
	if *prop == "all" {
		ids = rules.IDs()
	}
	exit := 0
	for _, id := range ids {
		rs := rules.Get(id)
		if rs == nil {
			fmt.Printf("unknown or unclaimed property %q\n", id)
			os.Exit(2)
		}
		c.Property = id
		func() {
			defer func() {
				if r := recover(); r != nil {
					c.Unk("internal", "panic", 0, fmt.Sprintf("checker panic: %v", r))
					if os.Getenv("VERIF_DEBUG") != "" {
						panic(r)
					}
				}
			}()
			rs.Run(c)
		}()
		if *explain != "" {
			for _, o := range c.Obs {
				if o.Property == id && strings.HasPrefix(o.Rule+"|"+o.Key, *explain) {
					fmt.Printf("%s %s|%s at %s\n  %s\n", o.Status, o.Rule, o.Key, o.Pos, o.Detail)
				}
			}
			continue
		}
		if *noEvidence {
			bad := 0
			known, _ := core.LoadKnown(filepath.Join(vdir, "known_findings.json"))
			isKnown := func(o core.Ob) bool {
				for _, k := range known {
					if k.Status == "open" && k.Property == o.Property && k.Rule == o.Rule && k.Key == o.Key {
						return true
					}
				}
				return false
			}
			for _, o := range c.Obs {
				if o.Property == id && o.Status != core.Discharged && !isKnown(o) {
					bad++
					fmt.Printf("FAIL %s %s|%s at %s: %s\n", id, o.Rule, o.Key, o.Pos, o.Detail)
				}
			}
			if bad > 0 {
				exit = 1
			}
			nob := 0
			for _, o := range c.Obs {
				if o.Property == id {
					nob++
				}
			}
			fmt.Printf("SUMMARY %d obligations, %d not discharged, %d packages, %d functions\n", nob, bad, c.Stats["packages"], c.Stats["functions"])
			continue
		}
		var extra map[string]interface{}
		if *tier == "thorough" {
			extra = thoroughExtras(c, id, *repo, vdir)
		}
		if e := core.Emit(c, rs.Meta, vdir, seed, t0, extra); e > exit {
			exit = e
		}
	}
	if os.Getenv("VERIF_DEBUG") != "" && debugHook != nil {
		debugHook()
	}
	os.Exit(exit)
}

// thoroughExtras deepens a check beyond the quick tier:
//   - the property's rules are evaluated a second time on the CGO_ENABLED=0 file set (other files
//     are selected by build constraints: crypto/signature_nocgo.go instead of signature_cgo.go);
//     obligations that fail there are added to the verdict under a "nocgo:" key prefix;
//   - every confirmed seeded change under seeded/ that names this property as detecting it is applied
//     to a scratch copy of the CURRENT /repo (outside /repo and /verif, removed immediately) and the
//     analyser is run on it in a separate process: the change must make the property's check fail.
//     The outcome is reported in the evidence (mutants_detected / mutants_missed / mutants_stale);
//     it never changes the verdict on /repo itself.
func thoroughExtras(c *core.Ctx, id, repo, vdir string) map[string]interface{} {
	extra := map[string]interface{}{}
	// ---- second build configuration
	if os.Getenv("VERIF_NO_ALTCONFIG") == "" {
		cmd := exec.Command(selfExe(), "-property", id, "-no-evidence", "-repo", repo, "-verif", vdir, "-env", "CGO_ENABLED=0")
		cmd.Env = append(os.Environ(), "VERIF_NO_ALTCONFIG=1")
		out, _ := cmd.CombinedOutput()
		summary := ""
		nbad := 0
		for _, line := range strings.Split(string(out), "\n") {
			switch {
			case strings.HasPrefix(line, "SUMMARY "):
				summary = strings.TrimPrefix(line, "SUMMARY ")
			case strings.HasPrefix(line, "ERROR "):
				summary = "could not be loaded (not part of the verdict): " + strings.TrimPrefix(line, "ERROR ")
			case strings.HasPrefix(line, "FAIL "+id+" "):
				// FAIL <id> <rule>|<key> at <pos>: <detail>
				rest := strings.TrimPrefix(line, "FAIL "+id+" ")
				rk, tail, _ := strings.Cut(rest, " at ")
				rule, key, _ := strings.Cut(rk, "|")
				pos, detail, _ := strings.Cut(tail, ": ")
				nbad++
				c.Obs = append(c.Obs, core.Ob{Property: id, Rule: rule, Key: "nocgo:" + key, Pos: pos, Status: core.Violated, Detail: "[CGO_ENABLED=0 file set] " + detail})
			}
		}
		if summary == "" {
			summary = "no result (the sub-process printed nothing recognisable)"
		}
		extra["nocgo_configuration"] = "rules re-evaluated on the CGO_ENABLED=0 file set: " + summary
	}
	// ---- seeded changes
	entries, _ := os.ReadDir(filepath.Join(vdir, "seeded"))
	var results []map[string]interface{}
	detected, missed, stale := 0, 0, 0
	self := selfExe()
	for _, e := range entries {
		if !e.IsDir() {
			continue
		}
		dir := filepath.Join(vdir, "seeded", e.Name())
		meta := readJSON(filepath.Join(dir, "meta.json"))
		if meta == nil {
			continue
		}
		want := false
		var expect []string
		if db, ok := meta["detected_by"].([]interface{}); ok {
			for _, x := range db {
				if r, ok := x.(string); ok && strings.HasPrefix(r, id+".") {
					want = true
					expect = append(expect, r)
				}
			}
		}
		if !want {
			continue
		}
		res := map[string]interface{}{"seed": e.Name(), "expected_rules": expect}
		scratch, err := os.MkdirTemp("/var/tmp", "mvseed-")
		if err != nil {
			res["outcome"] = "skipped: " + err.Error()
			results = append(results, res)
			continue
		}
		func() {
			defer os.RemoveAll(scratch)
			if out, err := exec.Command("cp", "-a", repo+"/.", scratch).CombinedOutput(); err != nil {
				res["outcome"] = "skipped: copy failed: " + string(out)
				return
			}
			if out, err := exec.Command("git", "-C", scratch, "apply", filepath.Join(dir, "patch.diff")).CombinedOutput(); err != nil {
				stale++
				res["outcome"] = "stale: the seeded patch no longer applies to the current tree: " + strings.TrimSpace(string(out))
				return
			}
			cmd := exec.Command(self, "-property", id, "-no-evidence", "-repo", scratch, "-verif", vdir)
			cmd.Env = append(os.Environ(), "VERIF_NO_ALTCONFIG=1")
			out, _ := cmd.CombinedOutput()
			var hits []string
			for _, line := range strings.Split(string(out), "\n") {
				if !strings.HasPrefix(line, "FAIL ") {
					continue
				}
				for _, r := range expect {
					if strings.Contains(line, " "+r+"|") {
						if len(line) > 240 {
							line = line[:240]
						}
						hits = append(hits, line)
					}
				}
			}
			if len(hits) > 0 {
				detected++
				res["outcome"] = "detected"
				res["report"] = hits[0]
			} else {
				missed++
				res["outcome"] = "MISSED: the seeded change no longer makes the expected rule fail"
			}
		}()
		results = append(results, res)
	}
	extra["mutants"] = results
	extra["mutants_detected"] = detected
	extra["mutants_missed"] = missed
	extra["mutants_stale"] = stale
	if missed > 0 {
		fmt.Printf("note: %d seeded change(s) recorded as detected by %s are no longer detected (checker regression; see evidence)\n", missed, id)
	}
	return extra
}

func selfExe() string {
	if e, err := os.Executable(); err == nil {
		return e
	}
	return os.Args[0]
}

func readJSON(path string) map[string]interface{} {
	b, err := os.ReadFile(path)
	if err != nil {
		return nil
	}
	var m map[string]interface{}
	if json.Unmarshal(b, &m) != nil {
		return nil
	}
	return m
}

func isFlagSet(name string) bool {
	set := false
	flag.Visit(func(f *flag.Flag) {
		if f.Name == name {
			set = true
		}
	})
	return set
}

func doDump(c *core.Ctx, what string) {
	switch {
	case what == "live":
		hs, err := c.Live()
		if err != nil {
			fmt.Println("ERR", err)
			return
		}
		for _, h := range hs {
			fmt.Printf("0x%02x %-28s %-28s %s\n", h.Code, h.ConstName, h.TypeName, core.ShortFn(h.Run))
		}
		fmt.Println("RunTx:", core.ShortFn(c.RunTx()))
	case strings.HasPrefix(what, "calls:"):
		fn := c.Fn(strings.TrimPrefix(what, "calls:"))
		if fn == nil {
			fmt.Println("no such fn")
			return
		}
		for _, s := range core.SitesDeep(fn) {
			var args []string
			for i := 0; ; i++ {
				a := s.Arg(i)
				if a == nil {
					break
				}
				args = append(args, core.Path(a))
			}
			fmt.Printf("%s b%d %s(%s)\n", c.PosStr(s.Pos()), s.Block().Index, s.Callee, strings.Join(args, " | "))
		}
	case strings.HasPrefix(what, "facts:"):
		// facts holding at the first state mutator of the named function
		fn := c.Fn(strings.TrimPrefix(what, "facts:"))
		if fn == nil {
			fmt.Println("no such fn")
			return
		}
		m := rules.BuildRunModel(c, nil, fn)
		if len(m.Mutators) == 0 {
			fmt.Println("no mutators")
			return
		}
		for _, f := range c.FactsAt(m.Mutators[0].Site.Instr, 4) {
			desc := core.Short(f.Cond.String())
			if cf, ok := f.AsCall(); ok {
				var args []string
				for i := 0; i < 4; i++ {
					if p := cf.ArgPath(i); p != "" {
						args = append(args, p)
					}
				}
				desc = fmt.Sprintf("%s(%s) recv=%s op=%v k=%d", cf.Name, strings.Join(args, ", "), cf.RecvPath(), cf.Op, cf.Const)
			}
			fmt.Printf("d%d %-5v %s   [%s] via %v\n", f.Depth, f.Truth, desc, c.PosStr(f.Cond.Pos()), f.Via)
		}
	case what == "fees":
		groups := map[string][]string{}
		for _, m := range rules.LiveModels(c, "dump") {
			sig := rules.FeeSignatureString(m)
			groups[sig] = append(groups[sig], m.H.TypeName)
		}
		for sig, hs := range groups {
			fmt.Printf("%d handlers: %v\n    %s\n", len(hs), hs, strings.ReplaceAll(sig, " ; ", "\n    "))
		}
	case what == "paramnames":
		os.Stdout.Write(c.DumpParamNames())
	case what == "lockorder":
		rules.DumpLockOrder(c)
	case what == "panics":
		reach := rules.ConsensusReach(c, "dump")
		var fns []*ssa.Function
		for fn := range reach {
			fns = append(fns, fn)
		}
		sort.Slice(fns, func(i, j int) bool { return fns[i].String() < fns[j].String() })
		for _, fn := range fns {
			for _, b := range fn.Blocks {
				for _, in := range b.Instrs {
					switch x := in.(type) {
					case *ssa.Panic:
						fmt.Printf("%s\t%s\tpanic(%s)\tvia %s\n", c.PosStr(x.Pos()), core.ShortFn(fn), core.Short(x.X.Type().String()), core.PathTo(reach, fn))
					case ssa.CallInstruction:
						n := core.CalleeName(x.Common())
						if strings.Contains(n, "Panic") || strings.Contains(n, "Fatal") || n == "os.Exit" {
							fmt.Printf("%s\t%s\t%s\tvia %s\n", c.PosStr(x.Pos()), core.ShortFn(fn), n, core.PathTo(reach, fn))
						}
					}
				}
			}
		}
	case what == "fns":
		for _, f := range c.AllFns {
			fmt.Println(core.ShortFn(f))
		}
	}
}

func init() {
	debugHook = func() {
		var ks []string
		for k := range rules.SeenRepoCallees {
			ks = append(ks, k)
		}
		sort.Strings(ks)
		for _, k := range ks {
			fmt.Println("  unlisted repo callee in a map-range body:", k)
		}
	}
}
