package core

import (
	"go/token"
	"go/types"
	"strings"

	"golang.org/x/tools/go/ssa"
)

// Fact is a condition known to hold (with polarity) at a program point, possibly inside a callee
// whose "returned nil / returned true" outcome is known to hold at that point.
type Fact struct {
	Cond  ssa.Value // normalised: negations stripped into Truth
	Truth bool
	Fn    *ssa.Function
	// Subst maps a parameter name of Fn to the access path of the corresponding argument in the
	// outermost function (composed along the call chain). Paths of values inside Fn are rewritten
	// with it by (Fact).Path.
	Subst map[string]string
	Depth int
	// Via is the call chain (callee names) through which this fact was imported.
	Via []string
	// OutcomeOf is set on synthetic facts meaning "this call returned nil (or true/false, see
	// Truth) in result position OutcomeIdx"; Cond is then the call itself.
	OutcomeOf  *ssa.Call
	OutcomeIdx int
	// ArgVals, for facts imported from a helper called directly by the outermost function
	// (Depth 1): the helper's parameter (by reference name) → the caller's argument value.
	ArgVals map[string]ssa.Value
}

// CallerValue returns, for a value of the fact's helper that is one of its parameters, the value
// the outermost function passed for it (nil when unknown).
func (f Fact) CallerValue(v ssa.Value) ssa.Value {
	if f.ArgVals == nil {
		return nil
	}
	if p, ok := Unwrap(v).(*ssa.Parameter); ok {
		return f.ArgVals[ParamName(p)]
	}
	// a field of a struct handed over by value (`f.sender` of `f delegateFunds`): the value the
	// caller put into that field of the literal it passed
	var param *ssa.Parameter
	field := -1
	switch x := Unwrap(v).(type) {
	case *ssa.Field:
		if p, ok := Unwrap(x.X).(*ssa.Parameter); ok {
			param, field = p, x.Field
		}
	case *ssa.UnOp:
		if fa, ok := x.X.(*ssa.FieldAddr); ok && x.Op == token.MUL {
			if al, ok := fa.X.(*ssa.Alloc); ok {
				// the local copy of a by-value struct parameter
				for _, r := range *al.Referrers() {
					if st, ok := r.(*ssa.Store); ok && st.Addr == ssa.Value(al) {
						if p, ok := Unwrap(st.Val).(*ssa.Parameter); ok {
							param, field = p, fa.Field
						}
					}
				}
			}
		}
	}
	if param == nil {
		return nil
	}
	arg := f.ArgVals[ParamName(param)]
	if arg == nil {
		return nil
	}
	ld, ok := Unwrap(arg).(*ssa.UnOp)
	if !ok || ld.Op != token.MUL {
		return nil
	}
	lit, ok := ld.X.(*ssa.Alloc)
	if !ok {
		return nil
	}
	var val ssa.Value
	n := 0
	for _, r := range *lit.Referrers() {
		fa, ok := r.(*ssa.FieldAddr)
		if !ok || fa.Field != field {
			continue
		}
		for _, rr := range *fa.Referrers() {
			if st, ok := rr.(*ssa.Store); ok && st.Addr == ssa.Value(fa) {
				val = st.Val
				n++
			}
		}
	}
	if n != 1 {
		return nil
	}
	return val
}

// ReturnedNil reports whether the fact says that a call of a function whose short name ends
// with nameSuffix returned nil/true (the accepting outcome).
func (f Fact) ReturnedOK(nameSuffix string) bool {
	return f.OutcomeOf != nil && f.Truth && len(f.Via) > 0 && strings.HasSuffix(f.Via[len(f.Via)-1], nameSuffix)
}

// Path renders v (a value of f.Fn) as an access path in terms of the outermost function.
func (f Fact) Path(v ssa.Value) string {
	p := Path(v)
	return substPath(p, f.Subst)
}

func substPath(p string, subst map[string]string) string {
	if p == "" || len(subst) == 0 {
		return p
	}
	// rewrite every identifier-start occurrence of a parameter name; paths are built from
	// identifiers joined by '.', '(', ',', ')' and '#'
	var out strings.Builder
	i := 0
	for i < len(p) {
		j := i
		for j < len(p) && (p[j] == '_' || p[j] >= '0' && p[j] <= '9' || p[j] >= 'a' && p[j] <= 'z' || p[j] >= 'A' && p[j] <= 'Z') {
			j++
		}
		if j > i {
			tok := p[i:j]
			atStart := i == 0 || p[i-1] == '(' || p[i-1] == ',' || p[i-1] == '&'
			if r, ok := subst[tok]; ok && atStart {
				out.WriteString(r)
			} else {
				out.WriteString(tok)
			}
			i = j
			continue
		}
		out.WriteByte(p[i])
		i++
	}
	return out.String()
}

// normCond strips logical negation.
func normCond(v ssa.Value, truth bool) (ssa.Value, bool) {
	for {
		u, ok := v.(*ssa.UnOp)
		if !ok || u.Op != token.NOT {
			return v, truth
		}
		v, truth = u.X, !truth
	}
}

// FactsAt returns the facts holding whenever `in` executes, following callee outcomes to `depth`.
func (c *Ctx) FactsAt(in ssa.Instruction, depth int) []Fact {
	return c.factsAt(in, depth, nil, nil, 0)
}

func (c *Ctx) factsAt(in ssa.Instruction, depth int, subst map[string]string, via []string, d int) []Fact {
	var out []Fact
	fn := in.Parent()
	for _, g := range GatesBefore(in) {
		cond, truth := normCond(g.If.Cond, g.PassTrue)
		out = append(out, Fact{Cond: cond, Truth: truth, Fn: fn, Subst: subst, Depth: d, Via: via})
		if depth <= 0 {
			continue
		}
		out = append(out, c.calleeFacts(cond, truth, fn, depth, subst, via, d)...)
	}
	return out
}

// EdgeFacts returns the facts implied by taking one conditional edge: the condition itself with
// its polarity plus, to `depth`, the facts of the callee outcome it fixes.
func (c *Ctx) EdgeFacts(e Edge, depth int) []Fact {
	cond, truth := normCond(e.If.Cond, e.Taken)
	fn := e.If.Parent()
	out := []Fact{{Cond: cond, Truth: truth, Fn: fn}}
	if depth > 0 {
		out = append(out, c.calleeFacts(cond, truth, fn, depth, nil, nil, 0)...)
	}
	return out
}

// calleeFacts imports facts from a callee whose outcome is fixed by (cond, truth).
func (c *Ctx) calleeFacts(cond ssa.Value, truth bool, fn *ssa.Function, depth int, subst map[string]string, via []string, d int) []Fact {
	// x == nil (truth) / x != nil (!truth)  ⇒ callee returned nil in result position idx
	if bin, ok := cond.(*ssa.BinOp); ok && (bin.Op == token.EQL || bin.Op == token.NEQ) {
		var x ssa.Value
		if isNilConst(bin.Y) {
			x = bin.X
		} else if isNilConst(bin.X) {
			x = bin.Y
		}
		if x != nil {
			isNil := (bin.Op == token.EQL) == truth
			if !isNil {
				return nil
			}
			call, idx := callOf(x)
			if call == nil {
				return nil
			}
			return c.outcomeFacts(call, idx, outcomeNil, depth, subst, via, d)
		}
	}
	// boolean call result: callee returned `truth`
	if call, ok := Unwrap(cond).(*ssa.Call); ok {
		if b, isB := call.Type().Underlying().(*types.Basic); isB && b.Kind() == types.Bool {
			if truth {
				return c.outcomeFacts(call, 0, outcomeTrue, depth, subst, via, d)
			}
			return c.outcomeFacts(call, 0, outcomeFalse, depth, subst, via, d)
		}
	}
	return nil
}

func isNilConst(v ssa.Value) bool {
	k, ok := Unwrap(v).(*ssa.Const)
	return ok && k.Value == nil
}

// callOf: v is a call result, or the idx-th extract of one.
func callOf(v ssa.Value) (*ssa.Call, int) {
	v = Unwrap(v)
	switch x := v.(type) {
	case *ssa.Call:
		return x, 0
	case *ssa.Extract:
		if call, ok := x.Tuple.(*ssa.Call); ok {
			return call, x.Index
		}
	}
	return nil, 0
}

type outcome int

const (
	outcomeNil outcome = iota
	outcomeTrue
	outcomeFalse
)

// outcomeFacts: facts that hold on EVERY path on which the static callee of call returns the
// given outcome in result position idx.
func (c *Ctx) outcomeFacts(call *ssa.Call, idx int, oc outcome, depth int, subst map[string]string, via []string, d int) []Fact {
	callee := call.Call.StaticCallee()
	if callee == nil || callee.Blocks == nil || !c.InRepo(callee) {
		return nil
	}
	// compose the substitution: callee param name → outer path of the argument
	ns := map[string]string{}
	for i, p := range callee.Params {
		if i < len(call.Call.Args) {
			ap := substPath(Path(call.Call.Args[i]), subst)
			if ap != "" {
				ns[ParamName(p)] = strings.TrimPrefix(ap, "&")
			}
		}
	}
	nvia := append(append([]string{}, via...), ShortFn(callee))
	var argVals map[string]ssa.Value
	if d == 0 {
		argVals = map[string]ssa.Value{}
		for i, p := range callee.Params {
			if i < len(call.Call.Args) {
				argVals[ParamName(p)] = call.Call.Args[i]
			}
		}
	}
	defer func() {
		_ = argVals
	}()
	// the outcome itself is a fact: "callee returned nil/true/false in result idx"
	self := Fact{Cond: call, Truth: oc != outcomeFalse, Fn: call.Parent(), Subst: subst, Depth: d, Via: nvia, OutcomeOf: call, OutcomeIdx: idx}
	if depth <= 0 {
		return []Fact{self}
	}
	var acc []Fact
	first := true
	matched := 0
	for _, r := range Returns(callee) {
		if callee.Recover != nil && r.Block() == callee.Recover {
			continue
		}
		if idx >= len(r.Results) {
			continue
		}
		for _, rv := range returnAlternatives(r.Results[idx]) {
			var facts []Fact
			switch classifyOutcome(rv.val, oc) {
			case 1: // definitely this outcome
				facts = c.factsAtWithEdge(r, rv, depth-1, ns, nvia, d+1)
			case 0: // definitely not
				continue
			default: // depends on a nested call: tail call g(...)
				if inner, iidx := callOf(rv.val); inner != nil {
					facts = c.factsAtWithEdge(r, rv, depth-1, ns, nvia, d+1)
					facts = append(facts, c.outcomeFacts(inner, iidx, oc, depth-1, ns, nvia, d+1)...)
				} else if _, isCmp := Unwrap(rv.val).(*ssa.BinOp); isCmp && oc != outcomeNil {
					// `return a || b` / `return x.f() != K`: on this alternative the outcome IS the
					// comparison — it holds (or fails) together with what led here
					facts = c.factsAtWithEdge(r, rv, depth-1, ns, nvia, d+1)
					cond, truth := normCond(Unwrap(rv.val), oc == outcomeTrue)
					facts = append(facts, Fact{Cond: cond, Truth: truth, Fn: callee, Subst: ns, Depth: d + 1, Via: nvia})
					if depth-1 > 0 {
						facts = append(facts, c.calleeFacts(cond, truth, callee, depth-1, ns, nvia, d+1)...)
					}
				} else {
					// unknown value: this path may produce the outcome with no facts at all
					facts = nil
				}
			}
			matched++
			if first {
				acc = facts
				first = false
			} else {
				acc = intersectFacts(acc, facts)
			}
		}
	}
	if matched == 0 {
		return []Fact{self}
	}
	if argVals != nil {
		for i := range acc {
			if acc[i].Depth == 1 && acc[i].Fn == callee {
				acc[i].ArgVals = argVals
			}
		}
	}
	return append(acc, self)
}

type retAlt struct {
	val  ssa.Value
	pred *ssa.BasicBlock // for phi alternatives: the predecessor block the value flows from
}

// returnAlternatives splits a returned phi into its incoming values.
func returnAlternatives(v ssa.Value) []retAlt {
	if ph, ok := v.(*ssa.Phi); ok {
		var out []retAlt
		for i, e := range ph.Edges {
			out = append(out, retAlt{val: e, pred: ph.Block().Preds[i]})
		}
		return out
	}
	// defer-spilled result cell
	if ld, ok := v.(*ssa.UnOp); ok && ld.Op == token.MUL {
		if al, ok := ld.X.(*ssa.Alloc); ok {
			var out []retAlt
			for _, r := range *al.Referrers() {
				if st, ok := r.(*ssa.Store); ok && st.Addr == al {
					out = append(out, retAlt{val: st.Val, pred: st.Block()})
				}
			}
			if len(out) > 0 {
				return out
			}
		}
	}
	return []retAlt{{val: v}}
}

// factsAtWithEdge: facts at the return, or — for a phi alternative — at the end of the
// predecessor block the value comes from.
func (c *Ctx) factsAtWithEdge(r *ssa.Return, alt retAlt, depth int, subst map[string]string, via []string, d int) []Fact {
	if alt.pred != nil && len(alt.pred.Instrs) > 0 {
		last := alt.pred.Instrs[len(alt.pred.Instrs)-1]
		facts := c.factsAt(last, depth, subst, via, d)
		// the branch taken out of pred towards the phi block
		if iff, ok := last.(*ssa.If); ok {
			pb := r.Block()
			if ph, ok2 := r.Results[0].(*ssa.Phi); ok2 {
				pb = ph.Block()
			}
			if alt.pred.Succs[0] == pb && alt.pred.Succs[1] != pb {
				cond, truth := normCond(iff.Cond, true)
				facts = append(facts, Fact{Cond: cond, Truth: truth, Fn: r.Parent(), Subst: subst, Depth: d, Via: via})
			} else if alt.pred.Succs[1] == pb && alt.pred.Succs[0] != pb {
				cond, truth := normCond(iff.Cond, false)
				facts = append(facts, Fact{Cond: cond, Truth: truth, Fn: r.Parent(), Subst: subst, Depth: d, Via: via})
			}
		}
		return facts
	}
	return c.factsAt(r, depth, subst, via, d)
}

// classifyOutcome: 1 = value is definitely the outcome, 0 = definitely not, -1 = unknown.
func classifyOutcome(v ssa.Value, oc outcome) int {
	u := Unwrap(v)
	switch oc {
	case outcomeNil:
		if k, ok := u.(*ssa.Const); ok {
			if k.Value == nil {
				return 1
			}
			return 0
		}
		switch u.(type) {
		case *ssa.Alloc, *ssa.MakeInterface, *ssa.FieldAddr, *ssa.IndexAddr, *ssa.MakeSlice, *ssa.MakeMap:
			return 0
		}
		if call, ok := u.(*ssa.Call); ok {
			// errors.New / fmt.Errorf / &T{} constructors never return nil
			n := CalleeName(&call.Call)
			if n == "errors.New" || n == "fmt.Errorf" || strings.HasPrefix(n, "coreV2/code.New") {
				return 0
			}
		}
		return -1
	case outcomeTrue, outcomeFalse:
		if k, ok := u.(*ssa.Const); ok && k.Value != nil {
			b := k.Value.String() == "true"
			if b == (oc == outcomeTrue) {
				return 1
			}
			return 0
		}
		return -1
	}
	return -1
}

func intersectFacts(a, b []Fact) []Fact {
	var out []Fact
	for _, x := range a {
		for _, y := range b {
			if x.Cond == y.Cond && x.Truth == y.Truth {
				out = append(out, x)
				break
			}
		}
	}
	return out
}

// ---------------------------------------------------------------- fact matchers

// CallFact describes a fact whose condition is (a comparison of) a call result.
type CallFact struct {
	Fact
	Call  *ssa.Call
	Name  string      // callee / interface method name (module prefix stripped)
	Op    token.Token // ILLEGAL for a plain boolean call; else the comparison operator applied to the result
	Const int64       // comparison constant when Op != ILLEGAL
}

// AsCall interprets the fact as `call(...)` [is Truth] or `call(...) <op> const` [is Truth].
func (f Fact) AsCall() (CallFact, bool) {
	v := f.Cond
	if call, ok := Unwrap(v).(*ssa.Call); ok {
		return CallFact{Fact: f, Call: call, Name: CalleeName(&call.Call)}, true
	}
	if bin, ok := v.(*ssa.BinOp); ok {
		if call, ok := Unwrap(bin.X).(*ssa.Call); ok {
			if k, ok := ConstInt(bin.Y); ok {
				return CallFact{Fact: f, Call: call, Name: CalleeName(&call.Call), Op: bin.Op, Const: k}, true
			}
		}
		if call, ok := Unwrap(bin.Y).(*ssa.Call); ok {
			if k, ok := ConstInt(bin.X); ok {
				return CallFact{Fact: f, Call: call, Name: CalleeName(&call.Call), Op: flipOp(bin.Op), Const: k}, true
			}
		}
	}
	return CallFact{}, false
}

func flipOp(op token.Token) token.Token {
	switch op {
	case token.LSS:
		return token.GTR
	case token.GTR:
		return token.LSS
	case token.LEQ:
		return token.GEQ
	case token.GEQ:
		return token.LEQ
	}
	return op
}

// ArgPath returns the outer access path of the i-th source-level argument of the fact's call.
func (cf CallFact) ArgPath(i int) string {
	s := &Site{Instr: cf.Call, Common: &cf.Call.Call}
	a := s.Arg(i)
	if a == nil {
		return ""
	}
	return strings.TrimPrefix(cf.Fact.Path(a), "&")
}

// RecvPath returns the outer access path of the receiver.
func (cf CallFact) RecvPath() string {
	s := &Site{Instr: cf.Call, Common: &cf.Call.Call}
	r := s.Recv()
	if r == nil {
		return ""
	}
	return strings.TrimPrefix(cf.Fact.Path(r), "&")
}

// MethodName returns the bare method/function name of the fact's call.
func (cf CallFact) MethodName() string {
	n := cf.Name
	if i := strings.LastIndex(n, "."); i >= 0 {
		n = n[i+1:]
	}
	return n
}

// EdgeFactAlts refines EdgeFacts for a decision that fixes a callee outcome (`h(…) != nil`
// false, `ok(…)` true): besides the facts that hold on every path of the callee producing that
// outcome (what EdgeFacts gives), it returns the alternatives — one fact set per acyclic callee
// path to such a return — so that a caller can reason per alternative, exactly as if the helper's
// body were still written inline (a helper with `if a == b { check X } else { check Y; check Z }`
// has no common fact, but each of its two accepting paths has what the inline code had).
// alts is nil when the decision fixes no callee outcome or the callee has too many paths.
func (c *Ctx) EdgeFactAlts(e Edge, depth int) (must []Fact, alts [][]Fact) {
	must = c.EdgeFacts(e, depth)
	if depth <= 0 {
		return must, nil
	}
	cond, truth := normCond(e.If.Cond, e.Taken)
	var call *ssa.Call
	idx := 0
	oc := outcomeNil
	if bin, ok := cond.(*ssa.BinOp); ok && (bin.Op == token.EQL || bin.Op == token.NEQ) {
		var x ssa.Value
		if isNilConst(bin.Y) {
			x = bin.X
		} else if isNilConst(bin.X) {
			x = bin.Y
		}
		if x == nil || (bin.Op == token.EQL) != truth {
			return must, nil
		}
		call, idx = callOf(x)
	} else if cl, ok := Unwrap(cond).(*ssa.Call); ok {
		if b, isB := cl.Type().Underlying().(*types.Basic); isB && b.Kind() == types.Bool {
			call = cl
			if truth {
				oc = outcomeTrue
			} else {
				oc = outcomeFalse
			}
		}
	}
	if call == nil {
		return must, nil
	}
	callee := call.Call.StaticCallee()
	if callee == nil || callee.Blocks == nil || !c.InRepo(callee) {
		return must, nil
	}
	ns := map[string]string{}
	av := map[string]ssa.Value{}
	for i, p := range callee.Params {
		if i < len(call.Call.Args) {
			av[ParamName(p)] = call.Call.Args[i]
			if ap := Path(call.Call.Args[i]); ap != "" {
				ns[ParamName(p)] = strings.TrimPrefix(ap, "&")
			}
		}
	}
	via := []string{ShortFn(callee)}
	const maxAlts = 48
	for _, r := range Returns(callee) {
		if callee.Recover != nil && r.Block() == callee.Recover {
			continue
		}
		if idx >= len(r.Results) {
			continue
		}
		for _, rv := range returnAlternatives(r.Results[idx]) {
			if classifyOutcome(rv.val, oc) != 1 {
				if classifyOutcome(rv.val, oc) == 0 {
					continue
				}
				return must, nil // a nested call decides: keep to the must facts
			}
			var target ssa.Instruction = r
			var extra []Fact
			if rv.pred != nil && len(rv.pred.Instrs) > 0 {
				target = rv.pred.Instrs[len(rv.pred.Instrs)-1]
				extra = c.factsAtWithEdge(r, rv, 0, ns, via, 1)
				// keep only the branch fact of the predecessor's own terminator
				if len(extra) > 0 {
					extra = extra[len(extra)-1:]
				}
			}
			paths, ok := PathsTo(target, maxAlts)
			if !ok {
				return must, nil
			}
			for _, p := range paths {
				var fs []Fact
				for _, ed := range p.Edges {
					cnd, tr := normCond(ed.If.Cond, ed.Taken)
					fs = append(fs, Fact{Cond: cnd, Truth: tr, Fn: callee, Subst: ns, Depth: 1, Via: via, ArgVals: av})
					fs = append(fs, c.calleeFacts(cnd, tr, callee, depth-1, ns, via, 1)...)
				}
				if _, isIf := target.(*ssa.If); isIf {
					fs = append(fs, extra...)
				}
				alts = append(alts, fs)
				if len(alts) > maxAlts {
					return must, nil
				}
			}
		}
	}
	return must, alts
}
