// Package core loads /repo (type-checked syntax + SSA for the repository's own packages,
// export data for dependencies), and offers the lookup, obligation and reporting plumbing all
// rules share. Nothing in here runs repository code.
package core

import (
	"fmt"
	"go/ast"
	"go/token"
	"go/types"
	"os"
	"path/filepath"
	"sort"
	"strings"
	"time"

	"golang.org/x/tools/go/packages"
	"golang.org/x/tools/go/ssa"
	"golang.org/x/tools/go/ssa/ssautil"
)

const ModPath = "github.com/MinterTeam/minter-go-node"

// Status of an obligation.
type Status string

const (
	Discharged Status = "discharged"
	Violated   Status = "violated"
	Undecided  Status = "undecided"
)

// Ob is one proof obligation: a rule instance at one construct.
type Ob struct {
	Property string `json:"property"`
	Rule     string `json:"rule"`
	Key      string `json:"key"` // rule + construct, never a line number
	Pos      string `json:"pos"` // file:line for the reader
	Status   Status `json:"status"`
	Detail   string `json:"detail"`
}

// Ctx is the loaded program plus the obligation sink.
type Ctx struct {
	RepoDir string
	Tier    string
	Fset    *token.FileSet
	Pkgs    []*packages.Package
	PkgBy   map[string]*packages.Package // by short path (module prefix stripped)
	Prog    *ssa.Program
	SSAPkgs map[string]*ssa.Package
	Funcs   map[string]*ssa.Function // every repo function incl. anonymous, by ShortName
	AllFns  []*ssa.Function          // deterministic order
	Obs     []Ob
	Stats   map[string]int
	LoadDur time.Duration
	Notes   []string

	cg *CallGraph
	// property currently being decided (set by the driver)
	Property string
	keySeen  map[string]int
}

// Load type-checks the repository and builds SSA. Any type error is fatal (no verdict).
func Load(repo string, tags []string, env []string) (*Ctx, error) {
	t0 := time.Now()
	cfg := &packages.Config{
		Mode:  packages.LoadSyntax,
		Dir:   repo,
		Tests: false,
		Env:   append(append(os.Environ(), "GOFLAGS=-mod=mod", "GOPROXY=off", "GOSUMDB=off", "GOTOOLCHAIN=local", "GOWORK=off"), env...),
	}
	if len(tags) > 0 {
		cfg.BuildFlags = []string{"-tags=" + strings.Join(tags, ",")}
	}
	pkgs, err := packages.Load(cfg, "./...")
	if err != nil {
		return nil, fmt.Errorf("load: %w", err)
	}
	var errs []string
	packages.Visit(pkgs, nil, func(p *packages.Package) {
		for _, e := range p.Errors {
			errs = append(errs, e.Error())
		}
	})
	if len(errs) > 0 {
		return nil, fmt.Errorf("type errors in %s (no verdict): %s", repo, strings.Join(errs, "; "))
	}
	if len(pkgs) < 40 {
		return nil, fmt.Errorf("only %d packages loaded from %s (floor 40): refusing to analyse a partial tree", len(pkgs), repo)
	}
	sort.Slice(pkgs, func(i, j int) bool { return pkgs[i].PkgPath < pkgs[j].PkgPath })
	prog, spkgs := ssautil.Packages(pkgs, ssa.InstantiateGenerics)
	prog.Build()
	c := &Ctx{
		RepoDir: repo,
		Fset:    prog.Fset,
		Pkgs:    pkgs,
		PkgBy:   map[string]*packages.Package{},
		Prog:    prog,
		SSAPkgs: map[string]*ssa.Package{},
		Funcs:   map[string]*ssa.Function{},
		Stats:   map[string]int{},
		keySeen: map[string]int{},
	}
	for i, p := range pkgs {
		sp := Short(p.PkgPath)
		c.PkgBy[sp] = p
		if spkgs[i] != nil {
			c.SSAPkgs[sp] = spkgs[i]
		}
	}
	for fn := range ssautil.AllFunctions(prog) {
		if fn.Pkg == nil && fn.Origin() == nil && fn.Parent() == nil {
			// wrappers/thunks of repo methods have Pkg==nil; keep those whose object is in repo
		}
		if !c.InRepo(fn) {
			continue
		}
		if fn.Blocks == nil {
			continue
		}
		name := ShortFn(fn)
		if old, ok := c.Funcs[name]; ok && old != fn {
			// synthetic duplicates (bound-method closures / wrappers) share names; prefer source one
			if old.Synthetic == "" {
				continue
			}
		}
		c.Funcs[name] = fn
	}
	names := make([]string, 0, len(c.Funcs))
	for n := range c.Funcs {
		names = append(names, n)
	}
	sort.Strings(names)
	for _, n := range names {
		c.AllFns = append(c.AllFns, c.Funcs[n])
	}
	c.Stats["packages"] = len(pkgs)
	c.Stats["functions"] = len(c.AllFns)
	c.LoadDur = time.Since(t0)
	return c, nil
}

// Short strips the module prefix.
func Short(s string) string {
	return strings.ReplaceAll(s, ModPath+"/", "")
}

// ShortFn is the stable display/lookup name of a function.
func ShortFn(fn *ssa.Function) string {
	return Short(fn.String())
}

// InRepo reports whether fn's code lives in the repository module.
func (c *Ctx) InRepo(fn *ssa.Function) bool {
	if fn == nil {
		return false
	}
	f := fn
	for f.Parent() != nil {
		f = f.Parent()
	}
	if f.Pkg != nil {
		return strings.HasPrefix(f.Pkg.Pkg.Path(), ModPath)
	}
	if o := f.Object(); o != nil && o.Pkg() != nil {
		return strings.HasPrefix(o.Pkg().Path(), ModPath)
	}
	if f.Origin() != nil {
		return c.InRepo(f.Origin())
	}
	return false
}

// Fn returns the named function or nil.
func (c *Ctx) Fn(name string) *ssa.Function { return c.Funcs[name] }

// MustFn returns the function or records an unresolved-anchor obligation (which fails the check).
func (c *Ctx) MustFn(rule, name string) *ssa.Function {
	fn := c.Funcs[name]
	if fn == nil {
		c.Add(rule, "anchor:"+name, token.NoPos, Undecided, "anchor function "+name+" not found in the tree; the rule cannot be evaluated")
	}
	return fn
}

// PosStr renders a position relative to the repo.
func (c *Ctx) PosStr(p token.Pos) string {
	if !p.IsValid() {
		return ""
	}
	pp := c.Fset.Position(p)
	rel, err := filepath.Rel(c.RepoDir, pp.Filename)
	if err != nil {
		rel = pp.Filename
	}
	return fmt.Sprintf("%s:%d", rel, pp.Line)
}

// Add records an obligation. Keys are made unique by an ordinal suffix when the same
// rule/construct pair repeats (ordinal within the construct, in deterministic visiting order).
func (c *Ctx) Add(rule, key string, pos token.Pos, st Status, detail string) {
	full := rule + "|" + key
	c.keySeen[full]++
	if n := c.keySeen[full]; n > 1 {
		key = fmt.Sprintf("%s#%d", key, n)
	}
	c.Obs = append(c.Obs, Ob{Property: c.Property, Rule: rule, Key: key, Pos: c.PosStr(pos), Status: st, Detail: detail})
}

// OK / Bad / Unk are shorthands.
func (c *Ctx) OK(rule, key string, pos token.Pos, detail string) {
	c.Add(rule, key, pos, Discharged, detail)
}
func (c *Ctx) Bad(rule, key string, pos token.Pos, detail string) {
	c.Add(rule, key, pos, Violated, detail)
}
func (c *Ctx) Unk(rule, key string, pos token.Pos, detail string) {
	c.Add(rule, key, pos, Undecided, detail)
}

// Check records Discharged when ok, else Violated.
func (c *Ctx) Check(ok bool, rule, key string, pos token.Pos, good, bad string) {
	if ok {
		c.OK(rule, key, pos, good)
	} else {
		c.Bad(rule, key, pos, bad)
	}
}

// Floor fails the rule when fewer than min instances were matched (a rule that matches nothing
// passes vacuously forever; it is not allowed to).
func (c *Ctx) Floor(rule string, got, min int, what string) {
	if got < min {
		c.Add(rule, "floor", token.NoPos, Undecided, fmt.Sprintf("only %d %s matched; at least %d were confirmed by hand on the reference tree — the recogniser no longer sees the code it is meant to check", got, what, min))
	} else {
		c.Add(rule, "floor", token.NoPos, Discharged, fmt.Sprintf("%d %s matched (floor %d)", got, what, min))
	}
}

// Count returns the number of obligations recorded so far for a rule.
func (c *Ctx) Count(rule string) int {
	n := 0
	for _, o := range c.Obs {
		if o.Rule == rule && o.Key != "floor" {
			n++
		}
	}
	return n
}

// CountKeyPrefix returns the number of obligations of a rule whose key starts with prefix.
func (c *Ctx) CountKeyPrefix(rule, prefix string) int {
	n := 0
	for _, o := range c.Obs {
		if o.Rule == rule && strings.HasPrefix(o.Key, prefix) {
			n++
		}
	}
	return n
}

// Named returns the named type pkgShort.Name or nil.
func (c *Ctx) Named(pkgShort, name string) *types.Named {
	p := c.PkgBy[pkgShort]
	if p == nil {
		return nil
	}
	o := p.Types.Scope().Lookup(name)
	if o == nil {
		return nil
	}
	n, _ := o.Type().(*types.Named)
	return n
}

// FileOf returns the *ast.File containing pos.
func (c *Ctx) FileOf(pos token.Pos) (*packages.Package, *ast.File) {
	for _, p := range c.Pkgs {
		for _, f := range p.Syntax {
			if f.Pos() <= pos && pos <= f.End() {
				return p, f
			}
		}
	}
	return nil, nil
}

// SrcFuncs returns the source-level (non-synthetic) functions of a package, including anonymous.
func (c *Ctx) SrcFuncs(pkgShort string) []*ssa.Function {
	var out []*ssa.Function
	for _, fn := range c.AllFns {
		if fn.Synthetic != "" {
			continue
		}
		f := fn
		for f.Parent() != nil {
			f = f.Parent()
		}
		if f.Pkg != nil && Short(f.Pkg.Pkg.Path()) == pkgShort {
			out = append(out, fn)
		}
	}
	return out
}

// PkgOf returns the short package path of a function ("" if unknown).
func PkgOf(fn *ssa.Function) string {
	f := fn
	for f.Parent() != nil {
		f = f.Parent()
	}
	if f.Pkg != nil {
		return Short(f.Pkg.Pkg.Path())
	}
	if o := f.Object(); o != nil && o.Pkg() != nil {
		return Short(o.Pkg().Path())
	}
	return ""
}
