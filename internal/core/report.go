package core

import (
	"encoding/json"
	"fmt"
	"os"
	"path/filepath"
	"regexp"
	"sort"
	"strings"
	"time"
)

// KnownFinding is one entry of /verif/known_findings.json.
type KnownFinding struct {
	Property string `json:"property"`
	Rule     string `json:"rule"`
	Key      string `json:"key"`
	Status   string `json:"status"` // "open" or "fixed"
	Commit   string `json:"commit,omitempty"`
	What     string `json:"what"`
}

type knownFile struct {
	Findings []KnownFinding `json:"findings"`
	Fixed    []string       `json:"fixed_log,omitempty"`
}

// LoadKnown reads the committed known-findings file (read-only at run time).
func LoadKnown(path string) ([]KnownFinding, error) {
	b, err := os.ReadFile(path)
	if err != nil {
		if os.IsNotExist(err) {
			return nil, nil
		}
		return nil, err
	}
	var kf knownFile
	if err := json.Unmarshal(b, &kf); err != nil {
		return nil, err
	}
	return kf.Findings, nil
}

var unsafeChars = regexp.MustCompile(`[^A-Za-z0-9_.-]+`)

// Evidence mirrors EVIDENCE.schema.json.
type Evidence struct {
	PropertyID  string                 `json:"property_id"`
	Tier        string                 `json:"tier"`
	Seed        int                    `json:"seed"`
	Level       string                 `json:"level"`
	Coverage    map[string]interface{} `json:"coverage"`
	Assumptions []string               `json:"assumptions"`
	WallS       float64                `json:"wall_s"`
	Violations  int                    `json:"violations"`
}

// PropertyMeta is the static description a property's rule set supplies for evidence.
type PropertyMeta struct {
	ID          string
	Explanation string   // what structural clause is decided and what is not
	Assumptions []string // trusted base
	Rules       []string // human-readable rule list
}

// Emit writes evidence and replay files, prints VIOLATION / KNOWN-FINDING lines and returns the
// process exit code.
func Emit(c *Ctx, meta PropertyMeta, verifDir string, seed int, t0 time.Time, extra map[string]interface{}) int {
	known, err := LoadKnown(filepath.Join(verifDir, "known_findings.json"))
	if err != nil {
		fmt.Printf("ERROR reading known_findings.json: %v\n", err)
		return 2
	}
	open := map[string]KnownFinding{}
	for _, k := range known {
		if k.Property == meta.ID && k.Status == "open" {
			open[k.Rule+"|"+k.Key] = k
		}
	}
	var obs []Ob
	for _, o := range c.Obs {
		if o.Property == meta.ID {
			obs = append(obs, o)
		}
	}
	perRule := map[string][2]int{}
	discharged, violations, knownHits := 0, 0, 0
	findDir := filepath.Join(verifDir, "findings", meta.ID)
	os.RemoveAll(findDir)
	var violLines []string
	usedKnown := map[string]bool{}
	for _, o := range obs {
		pr := perRule[o.Rule]
		pr[0]++
		if o.Status == Discharged {
			discharged++
			pr[1]++
			perRule[o.Rule] = pr
			continue
		}
		perRule[o.Rule] = pr
		if k, ok := open[o.Rule+"|"+o.Key]; ok {
			knownHits++
			usedKnown[o.Rule+"|"+o.Key] = true
			fmt.Printf("KNOWN-FINDING: property=%s %s %s at %s: %s\n", meta.ID, o.Rule, o.Key, o.Pos, k.What)
			continue
		}
		violations++
		os.MkdirAll(findDir, 0o755)
		name := unsafeChars.ReplaceAllString(o.Rule+"__"+o.Key, "_")
		if len(name) > 150 {
			name = name[:150]
		}
		p := filepath.Join(findDir, name+".json")
		b, _ := json.MarshalIndent(map[string]interface{}{
			"property": meta.ID, "rule": o.Rule, "key": o.Key, "pos": o.Pos, "status": o.Status, "detail": o.Detail,
			"replay": fmt.Sprintf("bin/mvcheck -property %s -tier %s -explain %q", meta.ID, c.Tier, o.Rule+"|"+o.Key),
		}, "", " ")
		os.WriteFile(p, b, 0o644)
		violLines = append(violLines, fmt.Sprintf("VIOLATION property=%s replay=%s", meta.ID, p))
		fmt.Printf("  [%s] %s %s at %s: %s\n", o.Status, o.Rule, o.Key, o.Pos, o.Detail)
	}
	// a known finding that no longer fires is only reported as information
	for key, k := range open {
		if !usedKnown[key] {
			fmt.Printf("note: known finding %s %s no longer fires on this tree (%s)\n", k.Rule, k.Key, k.What)
		}
	}
	// samples: a spread of actual obligations
	var samples []interface{}
	step := len(obs)/12 + 1
	for i := 0; i < len(obs); i += step {
		samples = append(samples, obs[i])
	}
	for _, o := range obs {
		if o.Status != Discharged && len(samples) < 40 {
			samples = append(samples, o)
		}
	}
	rules := make([]string, 0, len(perRule))
	for r := range perRule {
		rules = append(rules, r)
	}
	sort.Strings(rules)
	ruleCounts := map[string]interface{}{}
	for _, r := range rules {
		ruleCounts[r] = map[string]int{"obligations": perRule[r][0], "discharged": perRule[r][1]}
	}
	distinct := map[string]bool{}
	for _, o := range obs {
		distinct[o.Rule+"|"+o.Key] = true
	}
	cov := map[string]interface{}{
		"explanation":         meta.Explanation,
		"obligations":         len(obs),
		"discharged":          discharged,
		"known_findings_open": knownHits,
		"evaluations":         len(obs),
		"distinct_nontrivial": len(distinct),
		"rule":                "one obligation per (rule, construct) instance enumerated from /repo's type-checked SSA on this run; distinct = distinct rule|construct keys; every instance is non-trivial in the sense that it names a concrete call site / function / field that the rule had to decide",
		"per_rule":            ruleCounts,
		"rules":               meta.Rules,
		"samples":             samples,
		"exhaustive":          true,
		"packages_analysed":   c.Stats["packages"],
		"functions_analysed":  c.Stats["functions"],
		"checker_cmd":         fmt.Sprintf("bin/mvcheck -property %s -tier %s", meta.ID, c.Tier),
		"trusted_base":        []string{"go/types + go/ssa of golang.org/x/tools v0.29.0", "CHA/VTA call-graph resolution restricted to repository packages", "library semantics of sync, sort, math/big, iavl, tm-db"},
		"load_seconds":        c.LoadDur.Seconds(),
		"notes":               c.Notes,
	}
	for k, v := range extra {
		cov[k] = v
	}
	ev := Evidence{
		PropertyID:  meta.ID,
		Tier:        c.Tier,
		Seed:        seed,
		Level:       "other",
		Coverage:    cov,
		Assumptions: meta.Assumptions,
		WallS:       time.Since(t0).Seconds(),
		Violations:  violations,
	}
	os.MkdirAll(filepath.Join(verifDir, "evidence"), 0o755)
	b, _ := json.MarshalIndent(ev, "", " ")
	if err := os.WriteFile(filepath.Join(verifDir, "evidence", meta.ID+".json"), b, 0o644); err != nil {
		fmt.Printf("ERROR writing evidence: %v\n", err)
		return 2
	}
	fmt.Printf("%s tier=%s: %d obligations, %d discharged, %d known findings, %d violations (%d packages, %d functions, %.1fs)\n",
		meta.ID, c.Tier, len(obs), discharged, knownHits, violations, c.Stats["packages"], c.Stats["functions"], time.Since(t0).Seconds())
	for _, r := range rules {
		fmt.Printf("  rule %-22s %3d/%3d\n", r, perRule[r][1], perRule[r][0])
	}
	if len(obs) == 0 {
		fmt.Printf("VIOLATION property=%s replay=%s\n", meta.ID, "none: no obligations were generated (checker broken)")
		return 1
	}
	if violations > 0 {
		fmt.Println(strings.Join(violLines, "\n"))
		return 1
	}
	return 0
}
