package core

import (
	"fmt"
	"go/constant"
	"go/token"
	"go/types"
	"sort"
	"strings"

	"golang.org/x/tools/go/callgraph"
	"golang.org/x/tools/go/callgraph/cha"
	"golang.org/x/tools/go/callgraph/vta"
	"golang.org/x/tools/go/ssa"
	"golang.org/x/tools/go/ssa/ssautil"
)

// ---------------------------------------------------------------- call sites

// Site is one call instruction.
type Site struct {
	Fn     *ssa.Function
	Instr  ssa.CallInstruction
	Common *ssa.CallCommon
	Callee string // resolved name: static callee or interface method (module prefix stripped)
}

func (s *Site) Pos() token.Pos {
	if p := s.Instr.Pos(); p.IsValid() {
		return p
	}
	return s.Common.Pos()
}

// Block returns the basic block of the call.
func (s *Site) Block() *ssa.BasicBlock { return s.Instr.Block() }

// Arg returns the i-th source-level argument (receiver excluded).
func (s *Site) Arg(i int) ssa.Value {
	args := s.Common.Args
	if !s.Common.IsInvoke() {
		if sc := s.Common.StaticCallee(); sc != nil && sc.Signature.Recv() != nil {
			if len(args) == 0 {
				return nil
			}
			args = args[1:]
		}
	}
	if i < 0 || i >= len(args) {
		return nil
	}
	return args[i]
}

// Recv returns the receiver value (nil for plain functions).
func (s *Site) Recv() ssa.Value {
	if s.Common.IsInvoke() {
		return s.Common.Value
	}
	if sc := s.Common.StaticCallee(); sc != nil && sc.Signature.Recv() != nil && len(s.Common.Args) > 0 {
		return s.Common.Args[0]
	}
	return nil
}

// Value returns the call's result value (nil for defer/go).
func (s *Site) Value() ssa.Value {
	if v, ok := s.Instr.(*ssa.Call); ok {
		return v
	}
	return nil
}

// CalleeName resolves the callee of a call: a static callee's short name, or for interface
// calls "(pkg.Iface).Method". Calls of function values give "".
func CalleeName(cc *ssa.CallCommon) string {
	if cc.IsInvoke() {
		return Short(cc.Method.FullName())
	}
	if sc := cc.StaticCallee(); sc != nil {
		// bound method closures and wrappers: report the underlying method
		if sc.Synthetic != "" {
			if o := sc.Object(); o != nil {
				if f, ok := o.(*types.Func); ok {
					return Short(f.FullName())
				}
			}
		}
		if sc.Origin() != nil {
			return ShortFn(sc.Origin())
		}
		return ShortFn(sc)
	}
	if b, ok := cc.Value.(*ssa.Builtin); ok {
		return "builtin." + b.Name()
	}
	return ""
}

var normMemo = map[*ssa.CallCommon]*ssa.CallCommon{}

// NormCall sees through a one-line wrapper of a math/big operation: for a call of a repository
// function whose whole body is `return <fresh big value>.Op(<its parameters / constants>)`
// (clone(x) = big.NewInt(0).Set(x), sub(a, b) = new(big.Int).Sub(a, b), neg(x) …) it returns
// the call of Op itself with the wrapper's arguments in place of the parameters; any other call
// is returned unchanged. Rules that recognise big.NewInt(0).Set(x) as "a copy of x" then see
// clone(x) the same way.
func NormCall(cc *ssa.CallCommon) *ssa.CallCommon {
	if n, ok := normMemo[cc]; ok {
		return n
	}
	out := cc
	defer func() { normMemo[cc] = out }()
	h := cc.StaticCallee()
	if cc.IsInvoke() || h == nil || len(h.Blocks) != 1 || h.Pkg == nil || !strings.HasPrefix(h.Pkg.Pkg.Path(), ModPath) || h.Signature.Recv() != nil || h.Signature.Results().Len() != 1 {
		return out
	}
	b := h.Blocks[0]
	ret, ok := b.Instrs[len(b.Instrs)-1].(*ssa.Return)
	if !ok || len(ret.Results) != 1 {
		return out
	}
	inner, ok := Unwrap(ret.Results[0]).(*ssa.Call)
	if !ok {
		return out
	}
	op := inner.Call.StaticCallee()
	if op == nil || op.Pkg == nil || op.Pkg.Pkg.Path() != "math/big" || op.Signature.Recv() == nil || len(inner.Call.Args) == 0 {
		return out
	}
	fresh := func(v ssa.Value) bool {
		switch x := Unwrap(v).(type) {
		case *ssa.Alloc:
			return true
		case *ssa.Const:
			return true
		case *ssa.Call:
			n := CalleeName(&x.Call)
			if n == "math/big.NewInt" || n == "math/big.NewFloat" {
				_, isConst := Unwrap(x.Call.Args[0]).(*ssa.Const)
				return isConst
			}
		}
		return false
	}
	if !fresh(inner.Call.Args[0]) {
		return out
	}
	// every instruction of the body serves that one expression
	calls := 0
	for _, in := range b.Instrs {
		if _, isCall := in.(*ssa.Call); isCall {
			calls++
		}
	}
	if calls > 4 {
		return out
	}
	args := []ssa.Value{inner.Call.Args[0]}
	for _, a := range inner.Call.Args[1:] {
		if p, isParam := Unwrap(a).(*ssa.Parameter); isParam {
			idx := -1
			for i, q := range h.Params {
				if q == p {
					idx = i
				}
			}
			if idx < 0 || idx >= len(cc.Args) {
				return out
			}
			args = append(args, cc.Args[idx])
			continue
		}
		if !fresh(a) {
			return out
		}
		args = append(args, a)
	}
	out = &ssa.CallCommon{Value: op, Args: args}
	return out
}

// Sites lists every call instruction of fn (not of nested closures) in block/instruction order.
func Sites(fn *ssa.Function) []*Site {
	var out []*Site
	for _, b := range fn.Blocks {
		for _, in := range b.Instrs {
			if ci, ok := in.(ssa.CallInstruction); ok {
				cc := NormCall(ci.Common())
				out = append(out, &Site{Fn: fn, Instr: ci, Common: cc, Callee: CalleeName(cc)})
			}
		}
	}
	return out
}

// SitesDeep also descends into anonymous functions defined inside fn.
func SitesDeep(fn *ssa.Function) []*Site {
	out := Sites(fn)
	for _, a := range fn.AnonFuncs {
		out = append(out, SitesDeep(a)...)
	}
	return out
}

// CallsTo filters the sites of fn by callee name (exact) — any of names.
func CallsTo(fn *ssa.Function, names ...string) []*Site {
	var out []*Site
	for _, s := range Sites(fn) {
		for _, n := range names {
			if s.Callee == n {
				out = append(out, s)
				break
			}
		}
	}
	return out
}

// MethodIs reports whether the site calls a method called name whose receiver's named type (or
// interface) is pkgShort.typeName — regardless of pointer-ness. typeName may be "*" for any.
func (s *Site) MethodIs(pkgShort, typeName, name string) bool {
	var f *types.Func
	if s.Common.IsInvoke() {
		f = s.Common.Method
	} else if sc := s.Common.StaticCallee(); sc != nil {
		if o, ok := sc.Object().(*types.Func); ok {
			f = o
		}
	}
	if f == nil || f.Name() != name {
		return false
	}
	sig := f.Type().(*types.Signature)
	if sig.Recv() == nil {
		return false
	}
	t := sig.Recv().Type()
	if p, ok := t.(*types.Pointer); ok {
		t = p.Elem()
	}
	n, ok := t.(*types.Named)
	if !ok {
		return false
	}
	if n.Obj().Pkg() == nil || Short(n.Obj().Pkg().Path()) != pkgShort {
		return false
	}
	return typeName == "*" || n.Obj().Name() == typeName
}

// ---------------------------------------------------------------- CFG helpers

// InstrIndex returns the index of in within its block.
func InstrIndex(in ssa.Instruction) int {
	for i, x := range in.Block().Instrs {
		if x == in {
			return i
		}
	}
	return -1
}

// Dominates reports whether instruction a strictly precedes b on every path from entry to b.
func Dominates(a, b ssa.Instruction) bool {
	ba, bb := a.Block(), b.Block()
	if ba == bb {
		return InstrIndex(a) < InstrIndex(b)
	}
	return ba.Dominates(bb)
}

// ReachFrom returns the set of blocks reachable from start (inclusive) without entering any
// block in avoid.
func ReachFrom(start *ssa.BasicBlock, avoid map[*ssa.BasicBlock]bool) map[*ssa.BasicBlock]bool {
	seen := map[*ssa.BasicBlock]bool{}
	if start == nil || avoid[start] {
		return seen
	}
	stack := []*ssa.BasicBlock{start}
	seen[start] = true
	for len(stack) > 0 {
		b := stack[len(stack)-1]
		stack = stack[:len(stack)-1]
		for _, s := range b.Succs {
			if !seen[s] && !avoid[s] {
				seen[s] = true
				stack = append(stack, s)
			}
		}
	}
	return seen
}

// If returns the terminating If of a block, or nil.
func IfOf(b *ssa.BasicBlock) *ssa.If {
	if len(b.Instrs) == 0 {
		return nil
	}
	i, _ := b.Instrs[len(b.Instrs)-1].(*ssa.If)
	return i
}

// Gate describes a conditional that stands in front of a target instruction: every path to the
// target passes through If and leaves it by the PassTrue edge.
type Gate struct {
	If       *ssa.If
	PassTrue bool // the edge taken towards the target is the "true" edge
}

// GatesBefore returns all conditionals g such that g.If's block dominates target's block and
// target is unreachable from exactly one of the two successors without passing through the If's
// block again. These are the conditions known to hold (with polarity) at target.
func GatesBefore(target ssa.Instruction) []Gate {
	var out []Gate
	tb := target.Block()
	fn := tb.Parent()
	for _, b := range fn.Blocks {
		iff := IfOf(b)
		if iff == nil {
			continue
		}
		if !(b == tb && false) && !b.Dominates(tb) {
			continue
		}
		if b == tb {
			continue // the If terminates the block: target is before it
		}
		avoid := map[*ssa.BasicBlock]bool{b: true}
		rt := ReachFrom(b.Succs[0], avoid)[tb]
		rf := ReachFrom(b.Succs[1], avoid)[tb]
		if rt && !rf {
			out = append(out, Gate{If: iff, PassTrue: true})
		} else if rf && !rt {
			out = append(out, Gate{If: iff, PassTrue: false})
		}
	}
	return out
}

// Returns lists the Return instructions of fn.
func Returns(fn *ssa.Function) []*ssa.Return {
	var out []*ssa.Return
	for _, b := range fn.Blocks {
		if len(b.Instrs) == 0 {
			continue
		}
		if r, ok := b.Instrs[len(b.Instrs)-1].(*ssa.Return); ok {
			out = append(out, r)
		}
	}
	return out
}

// ---------------------------------------------------------------- value helpers

// Unwrap strips conversions, ChangeType, MakeInterface and single-predecessor phis.
func Unwrap(v ssa.Value) ssa.Value {
	for {
		switch x := v.(type) {
		case *ssa.ChangeType:
			v = x.X
		case *ssa.Convert:
			v = x.X
		case *ssa.MakeInterface:
			v = x.X
		case *ssa.ChangeInterface:
			v = x.X
		case *ssa.Phi:
			// a phi whose edges are all the same value
			var one ssa.Value
			same := true
			for _, e := range x.Edges {
				if e == x {
					continue
				}
				if one == nil {
					one = e
				} else if one != e {
					same = false
				}
			}
			if !same || one == nil {
				return v
			}
			v = one
		default:
			return v
		}
	}
}

// ConstInt returns the integer value of an SSA constant.
func ConstInt(v ssa.Value) (int64, bool) {
	c, ok := Unwrap(v).(*ssa.Const)
	if !ok || c.Value == nil {
		return 0, false
	}
	if c.Value.Kind() != constant.Int {
		return 0, false
	}
	return c.Int64(), true
}

// StoredValue returns, for an Alloc that is a local variable cell (not lifted, e.g. captured or
// spilled), the single value stored into it if there is exactly one store in the function.
func StoredValue(a *ssa.Alloc) ssa.Value {
	var val ssa.Value
	n := 0
	for _, r := range *a.Referrers() {
		if st, ok := r.(*ssa.Store); ok && st.Addr == a {
			val = st.Val
			n++
		}
	}
	if n == 1 {
		return val
	}
	return nil
}

// Path canonicalises a value into an access path when it is built from parameters, field
// selections, single-store locals, zero-arg accessor calls and constants; otherwise "".
// Examples: "tx.Nonce", "data.Coin", "tx.Sender()#0", "tx.CommissionCoin()", "const:0".
func Path(v ssa.Value) string {
	return pathDepth(v, 0)
}

func pathDepth(v ssa.Value, d int) string {
	if d > 40 || v == nil {
		return ""
	}
	v = Unwrap(v)
	switch x := v.(type) {
	case *ssa.Parameter:
		return ParamName(x)
	case *ssa.FreeVar:
		return x.Name()
	case *ssa.Const:
		if x.Value == nil {
			return "const:nil"
		}
		return "const:" + x.Value.ExactString()
	case *ssa.Global:
		return "global:" + x.Name()
	case *ssa.Alloc:
		// spilled parameter / single-store local: name of the cell
		if sv := StoredValue(x); sv != nil {
			if p := pathDepth(sv, d+1); p != "" {
				return p
			}
		}
		// a cell with several stores has no stable path (see SameCell); a cell with none is a
		// zero-initialised local or a spilled composite
		if n := storeCount(x); n == 0 && x.Comment != "" {
			return "&" + x.Comment
		}
		return ""
	case *ssa.UnOp:
		if x.Op == token.MUL {
			in := pathDepth(x.X, d+1)
			if in == "" {
				return ""
			}
			return strings.TrimPrefix(in, "&")
		}
		return ""
	case *ssa.FieldAddr:
		base := pathDepth(x.X, d+1)
		if base == "" {
			return ""
		}
		return "&" + strings.TrimPrefix(base, "&") + "." + fieldName(x.X.Type(), x.Field)
	case *ssa.Field:
		base := pathDepth(x.X, d+1)
		if base == "" {
			return ""
		}
		return strings.TrimPrefix(base, "&") + "." + fieldName(x.X.Type(), x.Field)
	case *ssa.Extract:
		base := pathDepth(x.Tuple, d+1)
		if base == "" {
			return ""
		}
		return fmt.Sprintf("%s#%d", base, x.Index)
	case *ssa.Call:
		name := CalleeName(&x.Call)
		if name == "" {
			return ""
		}
		short := name
		if i := strings.LastIndex(short, "."); i >= 0 {
			short = short[i+1:]
		}
		var parts []string
		args := x.Call.Args
		recv := ""
		if x.Call.IsInvoke() {
			recv = pathDepth(x.Call.Value, d+1)
		} else if sc := x.Call.StaticCallee(); sc != nil && sc.Signature.Recv() != nil && len(args) > 0 {
			recv = pathDepth(args[0], d+1)
			args = args[1:]
		} else {
			recv = "fn"
		}
		if recv == "" {
			return ""
		}
		for _, a := range args {
			p := pathDepth(a, d+1)
			if p == "" {
				return ""
			}
			parts = append(parts, p)
		}
		return strings.TrimPrefix(recv, "&") + "." + short + "(" + strings.Join(parts, ",") + ")"
	case *ssa.Phi:
		// a merged source variable: named by the variable and the merge point, so that one phi
		// always has one path and two different phis never share one
		if x.Comment != "" {
			return fmt.Sprintf("φ%s@%d", x.Comment, x.Block().Index)
		}
		return ""
	case *ssa.IndexAddr:
		base := pathDepth(x.X, d+1)
		if base == "" {
			return ""
		}
		return "&" + strings.TrimPrefix(base, "&") + "[" + indexPath(x.Index, d) + "]"
	case *ssa.Index:
		base := pathDepth(x.X, d+1)
		if base == "" {
			return ""
		}
		return strings.TrimPrefix(base, "&") + "[" + indexPath(x.Index, d) + "]"
	case *ssa.Lookup:
		base := pathDepth(x.X, d+1)
		if base == "" {
			return ""
		}
		return strings.TrimPrefix(base, "&") + "[" + indexPath(x.Index, d) + "]"
	case *ssa.Slice:
		// addr[:] of an array value
		if x.Low == nil && x.High == nil {
			return pathDepth(x.X, d+1)
		}
		base := pathDepth(x.X, d+1)
		if base == "" {
			return ""
		}
		lo, hi := "", ""
		if x.Low != nil {
			lo = indexPath(x.Low, d)
		}
		if x.High != nil {
			hi = indexPath(x.High, d)
		}
		return strings.TrimPrefix(base, "&") + "[" + lo + ":" + hi + "]"
	case *ssa.TypeAssert:
		base := pathDepth(x.X, d+1)
		if base == "" {
			return ""
		}
		return base + ".(" + Short(types.TypeString(x.AssertedType, nil)) + ")"
	}
	return ""
}

// indexPath renders an index expression; loop induction variables and other non-path values
// become "*" (an element, unspecified which). Paths containing "[*]" never compare equal in
// SamePath unless the SSA values are identical.
func indexPath(v ssa.Value, d int) string {
	if p := pathDepth(v, d+1); p != "" {
		return p
	}
	return "*"
}

func fieldName(t types.Type, idx int) string {
	if p, ok := t.Underlying().(*types.Pointer); ok {
		t = p.Elem()
	}
	if st, ok := t.Underlying().(*types.Struct); ok && idx < st.NumFields() {
		return st.Field(idx).Name()
	}
	return fmt.Sprintf("f%d", idx)
}

func storeCount(a *ssa.Alloc) int {
	n := 0
	for _, r := range *a.Referrers() {
		if st, ok := r.(*ssa.Store); ok && st.Addr == a {
			n++
		}
	}
	return n
}

// SameCell reports whether a and b are loads of the same local cell that must observe the same
// stored value: one load dominates the other and no store to the cell is reachable from the
// dominating load.
func SameCell(a, b ssa.Value) bool {
	la, ok1 := Unwrap(a).(*ssa.UnOp)
	lb, ok2 := Unwrap(b).(*ssa.UnOp)
	if !ok1 || !ok2 || la.Op != token.MUL || lb.Op != token.MUL || la.X != lb.X {
		return false
	}
	al, ok := la.X.(*ssa.Alloc)
	if !ok {
		return false
	}
	first, second := la, lb
	if !Dominates(first, second) {
		first, second = lb, la
		if !Dominates(first, second) {
			return false
		}
	}
	reach := ReachFrom(first.Block(), nil)
	for _, r := range *al.Referrers() {
		st, ok := r.(*ssa.Store)
		if !ok || st.Addr != al {
			continue
		}
		sb := st.Block()
		if sb == first.Block() {
			if InstrIndex(st) > InstrIndex(first) {
				return false
			}
			// a store earlier in the same block is only re-executed if the block is in a cycle
			for _, s := range sb.Succs {
				if ReachFrom(s, nil)[sb] {
					return false
				}
			}
			continue
		}
		if reach[sb] {
			return false
		}
	}
	return true
}

// SameValue: identical SSA value, equal stable access paths, or loads of one unchanged cell.
func SameValue(a, b ssa.Value) bool {
	return SamePath(a, b) || SameCell(a, b)
}

// SamePath reports whether a and b are the same SSA value or have equal non-empty access paths.
func SamePath(a, b ssa.Value) bool {
	if a == nil || b == nil {
		return false
	}
	if Unwrap(a) == Unwrap(b) {
		return true
	}
	pa, pb := Path(a), Path(b)
	if strings.Contains(pa, "[*]") {
		return false
	}
	return pa != "" && strings.TrimPrefix(pa, "&") == strings.TrimPrefix(pb, "&")
}

// Origins computes the backward slice of v through phis, conversions, extracts, loads from
// single-cell locals, and returns the set of leaf values (calls, params, consts, field loads...).
func Origins(v ssa.Value) []ssa.Value {
	seen := map[ssa.Value]bool{}
	var leaves []ssa.Value
	var walk func(ssa.Value)
	walk = func(v ssa.Value) {
		if v == nil || seen[v] {
			return
		}
		seen[v] = true
		switch x := v.(type) {
		case *ssa.Phi:
			for _, e := range x.Edges {
				walk(e)
			}
		case *ssa.ChangeType:
			walk(x.X)
		case *ssa.Convert:
			walk(x.X)
		case *ssa.MakeInterface:
			walk(x.X)
		case *ssa.UnOp:
			if x.Op == token.MUL {
				if a, ok := x.X.(*ssa.Alloc); ok {
					n := 0
					for _, r := range *a.Referrers() {
						if st, ok := r.(*ssa.Store); ok && st.Addr == a {
							walk(st.Val)
							n++
						}
					}
					if n > 0 {
						return
					}
				}
			}
			leaves = append(leaves, v)
		default:
			leaves = append(leaves, v)
		}
	}
	walk(v)
	return leaves
}

// DependsOn reports whether v's data-dependence closure (operands, transitively, within the
// function; through allocs' stores) contains a value satisfying pred.
func DependsOn(v ssa.Value, pred func(ssa.Value) bool) bool {
	seen := map[ssa.Value]bool{}
	var walk func(ssa.Value) bool
	walk = func(v ssa.Value) bool {
		if v == nil || seen[v] {
			return false
		}
		seen[v] = true
		if pred(v) {
			return true
		}
		if a, ok := v.(*ssa.Alloc); ok {
			for _, r := range *a.Referrers() {
				switch rr := r.(type) {
				case *ssa.Store:
					if rr.Addr == a && walk(rr.Val) {
						return true
					}
				case *ssa.IndexAddr, *ssa.FieldAddr:
					// element / field stores of a composite built in this cell
					for _, er := range *rr.(ssa.Value).Referrers() {
						if st, ok := er.(*ssa.Store); ok && st.Addr == rr.(ssa.Value) && walk(st.Val) {
							return true
						}
					}
				}
			}
			return false
		}
		in, ok := v.(ssa.Instruction)
		if !ok {
			return false
		}
		for _, op := range in.Operands(nil) {
			if op != nil && *op != nil && walk(*op) {
				return true
			}
		}
		// out-parameter flow: a buffer (slice/alloc/new object) passed to a call is assumed to be
		// filled from that call's other arguments (binary.PutUint64(h, x), z.Add(x, y), …)
		switch v.(type) {
		case *ssa.MakeSlice, *ssa.Alloc, *ssa.Slice, *ssa.Call:
			if refs := v.Referrers(); refs != nil {
				for _, r := range *refs {
					ci, ok := r.(ssa.CallInstruction)
					if !ok {
						continue
					}
					cc := ci.Common()
					isArg := false
					for _, a := range cc.Args {
						if a == v {
							isArg = true
						}
					}
					if !isArg {
						continue
					}
					for _, a := range cc.Args {
						if a != v && walk(a) {
							return true
						}
					}
				}
			}
		}
		return false
	}
	return walk(v)
}

// ---------------------------------------------------------------- call graph

// CallGraph is a CHA (optionally VTA-refined) call graph restricted to repo functions.
type CallGraph struct {
	G     *callgraph.Graph
	Edges map[*ssa.Function][]*ssa.Function
}

// CG builds (once) the call graph. In the thorough tier it is refined with VTA.
func (c *Ctx) CG() *CallGraph {
	if c.cg != nil {
		return c.cg
	}
	g := cha.CallGraph(c.Prog)
	// VTA in every tier: CHA alone resolves calls of function values to every address-taken
	// function of that signature, which drags cmd/, cli/ and statistics code into "consensus
	// reachable" code (+3 s)
	g = vta.CallGraph(ssautil.AllFunctions(c.Prog), g)
	cg := &CallGraph{G: g, Edges: map[*ssa.Function][]*ssa.Function{}}
	for fn, n := range g.Nodes {
		if fn == nil || !c.InRepo(fn) {
			continue
		}
		seen := map[*ssa.Function]bool{}
		for _, e := range n.Out {
			cal := e.Callee.Func
			if cal == nil || seen[cal] || !c.InRepo(cal) {
				continue
			}
			seen[cal] = true
			cg.Edges[fn] = append(cg.Edges[fn], cal)
		}
		// closures defined in fn are considered reachable from fn (they may be called later)
		for _, a := range fn.AnonFuncs {
			if !seen[a] {
				seen[a] = true
				cg.Edges[fn] = append(cg.Edges[fn], a)
			}
		}
		sort.Slice(cg.Edges[fn], func(i, j int) bool { return cg.Edges[fn][i].String() < cg.Edges[fn][j].String() })
	}
	c.cg = cg
	return cg
}

// Reachable returns the repo functions reachable from roots; stop(fn) prunes expansion below fn
// (fn itself is still included).
func (cg *CallGraph) Reachable(roots []*ssa.Function, stop func(*ssa.Function) bool) map[*ssa.Function]*ssa.Function {
	parent := map[*ssa.Function]*ssa.Function{}
	var q []*ssa.Function
	for _, r := range roots {
		if r == nil {
			continue
		}
		if _, ok := parent[r]; !ok {
			parent[r] = nil
			q = append(q, r)
		}
	}
	for len(q) > 0 {
		f := q[0]
		q = q[1:]
		if stop != nil && stop(f) {
			continue
		}
		for _, cal := range cg.Edges[f] {
			if _, ok := parent[cal]; !ok {
				parent[cal] = f
				q = append(q, cal)
			}
		}
	}
	return parent
}

// PathTo renders the call chain root → … → fn from a parent map.
func PathTo(parent map[*ssa.Function]*ssa.Function, fn *ssa.Function) string {
	var chain []string
	for f := fn; f != nil; f = parent[f] {
		chain = append(chain, ShortFn(f))
		if len(chain) > 40 {
			break
		}
	}
	for i, j := 0, len(chain)-1; i < j; i, j = i+1, j-1 {
		chain[i], chain[j] = chain[j], chain[i]
	}
	return strings.Join(chain, " → ")
}

// Callers returns the repo functions with a call edge to fn.
func (cg *CallGraph) Callers(fn *ssa.Function) []*ssa.Function {
	var out []*ssa.Function
	for f, cs := range cg.Edges {
		for _, c := range cs {
			if c == fn {
				out = append(out, f)
				break
			}
		}
	}
	sort.Slice(out, func(i, j int) bool { return out[i].String() < out[j].String() })
	return out
}

// ResultOrigins returns the origin values of the i-th result over all normal returns of fn
// (the synthetic recover block of functions with defers is skipped; defer-spilled results are
// followed through their cell).
func ResultOrigins(fn *ssa.Function, i int) []ssa.Value {
	var out []ssa.Value
	for _, r := range Returns(fn) {
		if fn.Recover != nil && r.Block() == fn.Recover {
			continue
		}
		if i >= len(r.Results) {
			continue
		}
		out = append(out, Origins(r.Results[i])...)
	}
	return out
}

// ---------------------------------------------------------------- a function and its helpers

// Helpers returns the unexported functions of fn's own package that only fn's group calls
// (transitively, to a small depth): blocks of fn that were moved into functions of their own.
// Rules anchored at fn look at fn together with these, so that extracting a block into a helper
// changes no verdict.
func (c *Ctx) Helpers(fn *ssa.Function) []*ssa.Function {
	group := map[*ssa.Function]bool{fn: true}
	var out []*ssa.Function
	cg := c.CG()
	for round := 0; round < 3; round++ {
		added := false
		var members []*ssa.Function
		for g := range group {
			members = append(members, g)
		}
		sort.Slice(members, func(i, j int) bool { return members[i].String() < members[j].String() })
		for _, g := range members {
			for _, s := range Sites(g) {
				h := s.Common.StaticCallee()
				if h == nil || group[h] || h.Blocks == nil || !c.InRepo(h) || PkgOf(h) != PkgOf(fn) {
					continue
				}
				if h.Object() == nil || h.Object().Exported() {
					continue
				}
				only := true
				for _, cl := range cg.Callers(h) {
					root := cl
					for root.Parent() != nil {
						root = root.Parent()
					}
					if !group[root] {
						only = false
					}
				}
				// a helper shared by siblings (the three executors' checkMultiSignature, the two
				// delegate handlers' checkDelegateFunds) is part of each caller's group as well,
				// as long as it is small: what it does, each of its callers does
				if !only && sharedHelper(h) {
					only = true
				}
				if only {
					group[h] = true
					out = append(out, h)
					added = true
				}
			}
		}
		if !added {
			break
		}
	}
	sort.Slice(out, func(i, j int) bool { return out[i].String() < out[j].String() })
	return out
}

// sharedHelper: an unexported function small enough to be a block that was factored out of
// several callers (at most 60 instructions in at most 12 blocks... measured in call sites: ≤ 25).
func sharedHelper(h *ssa.Function) bool {
	if h.Object() == nil || h.Object().Exported() || len(h.Blocks) > 40 {
		return false
	}
	return len(Sites(h)) <= 40
}

// GroupSites lists the call sites of fn, of the closures defined in it, and of its helpers.
func (c *Ctx) GroupSites(fn *ssa.Function) []*Site {
	out := SitesDeep(fn)
	for _, h := range c.Helpers(fn) {
		out = append(out, SitesDeep(h)...)
	}
	return out
}

// GroupRoot returns the function whose group (fn plus helpers) contains h: h itself when it is
// exported or has callers outside any single group.
func (c *Ctx) GroupRoot(h *ssa.Function) *ssa.Function {
	cur := h
	for i := 0; i < 3; i++ {
		if cur.Object() == nil || cur.Object().Exported() {
			return cur
		}
		var root *ssa.Function
		for _, cl := range c.CG().Callers(cur) {
			r := cl
			for r.Parent() != nil {
				r = r.Parent()
			}
			if PkgOf(r) != PkgOf(cur) {
				return cur
			}
			if root == nil {
				root = r
			} else if root != r {
				return cur
			}
		}
		if root == nil || root == cur {
			return cur
		}
		cur = root
	}
	return cur
}

// CallerArg: v is a parameter of a function that has exactly one static call site in the
// repository: the argument passed there (resolved repeatedly, so a value handed down through
// two helpers is traced to where it was computed). Otherwise v itself.
func (c *Ctx) CallerArg(v ssa.Value) ssa.Value {
	for i := 0; i < 3; i++ {
		p, ok := Unwrap(v).(*ssa.Parameter)
		if !ok {
			return v
		}
		fn := p.Parent()
		idx := -1
		for k, q := range fn.Params {
			if q == p {
				idx = k
			}
		}
		var arg ssa.Value
		n := 0
		for _, cl := range c.CG().Callers(fn) {
			for _, s := range Sites(cl) {
				if s.Common.StaticCallee() == fn && idx >= 0 && idx < len(s.Common.Args) {
					n++
					arg = s.Common.Args[idx]
				}
			}
		}
		if n != 1 || arg == nil {
			return v
		}
		v = arg
	}
	return v
}
