package core

import (
	"fmt"
	"go/constant"
	"go/token"
	"go/types"
	"sort"

	"golang.org/x/tools/go/ssa"
)

const (
	PkgTx    = "coreV2/transaction"
	PkgState = "coreV2/state"
	PkgMint  = "coreV2/minter"
)

// Handler is one live transaction type.
type Handler struct {
	ConstName string       // TypeSend
	Code      int64        // 0x01
	Type      *types.Named // SendData
	TypeName  string
	Run       *ssa.Function // the source-level Run method (value or pointer receiver)
	Basic     *ssa.Function // basicCheck, if any
}

// TxTypeConsts lists the constants of type transaction.TxType.
func (c *Ctx) TxTypeConsts() map[string]int64 {
	out := map[string]int64{}
	p := c.PkgBy[PkgTx]
	if p == nil {
		return out
	}
	tt := p.Types.Scope().Lookup("TxType")
	if tt == nil {
		return out
	}
	for _, n := range p.Types.Scope().Names() {
		if k, ok := p.Types.Scope().Lookup(n).(*types.Const); ok && types.Identical(k.Type(), tt.Type()) {
			if v, ok := constant.Int64Val(k.Val()); ok {
				out[n] = v
			}
		}
	}
	return out
}

// resolveData abstractly interprets a `func(TxType) (Data, bool)` decoder for one constant.
func (c *Ctx) resolveData(fn *ssa.Function, val int64, depth int) (*types.Named, bool, error) {
	if fn == nil || len(fn.Params) != 1 || depth > 10 {
		return nil, false, fmt.Errorf("unexpected decoder shape")
	}
	param := fn.Params[0]
	b := fn.Blocks[0]
	for steps := 0; steps < 10000; steps++ {
		last := b.Instrs[len(b.Instrs)-1]
		switch t := last.(type) {
		case *ssa.If:
			bin, ok := t.Cond.(*ssa.BinOp)
			if !ok || bin.Op != token.EQL {
				return nil, false, fmt.Errorf("decoder %s: condition is not an equality on the type byte", ShortFn(fn))
			}
			var k ssa.Value
			if Unwrap(bin.X) == param {
				k = bin.Y
			} else if Unwrap(bin.Y) == param {
				k = bin.X
			} else {
				return nil, false, fmt.Errorf("decoder %s: condition does not test the parameter", ShortFn(fn))
			}
			kv, ok := ConstInt(k)
			if !ok {
				return nil, false, fmt.Errorf("decoder %s: non-constant case", ShortFn(fn))
			}
			if kv == val {
				b = b.Succs[0]
			} else {
				b = b.Succs[1]
			}
		case *ssa.Jump:
			b = b.Succs[0]
		case *ssa.Return:
			r0 := t.Results[0]
			switch x := r0.(type) {
			case *ssa.MakeInterface:
				tt := x.X.Type()
				if p, ok := tt.(*types.Pointer); ok {
					tt = p.Elem()
				}
				n, _ := tt.(*types.Named)
				if n == nil {
					return nil, false, fmt.Errorf("decoder %s: unnamed data type", ShortFn(fn))
				}
				return n, true, nil
			case *ssa.Const:
				return nil, false, nil
			case *ssa.Extract:
				call, ok := x.Tuple.(*ssa.Call)
				if !ok || call.Call.StaticCallee() == nil {
					return nil, false, fmt.Errorf("decoder %s: dynamic delegate", ShortFn(fn))
				}
				return c.resolveData(call.Call.StaticCallee(), val, depth+1)
			}
			return nil, false, fmt.Errorf("decoder %s: unrecognised return", ShortFn(fn))
		default:
			return nil, false, fmt.Errorf("decoder %s: unexpected terminator", ShortFn(fn))
		}
	}
	return nil, false, fmt.Errorf("decoder loop")
}

// LiveDecoder finds the decoder function the node's executor is built with:
// minter.GetExecutor → transaction.NewExecutorV3(<decoder>).
func (c *Ctx) LiveDecoder() (*ssa.Function, *ssa.Function, error) {
	ge := c.Fn(PkgMint + ".GetExecutor")
	if ge == nil {
		return nil, nil, fmt.Errorf("minter.GetExecutor not found")
	}
	var dec, ctor *ssa.Function
	for _, r := range Returns(ge) {
		call, ok := Unwrap(r.Results[0]).(*ssa.Call)
		if !ok || call.Call.StaticCallee() == nil || len(call.Call.Args) != 1 {
			return nil, nil, fmt.Errorf("GetExecutor: unrecognised return")
		}
		var d *ssa.Function
		switch a := call.Call.Args[0].(type) {
		case *ssa.Function:
			d = a
		default:
			return nil, nil, fmt.Errorf("GetExecutor: decoder argument is not a function constant")
		}
		if dec != nil && (dec != d || ctor != call.Call.StaticCallee()) {
			return nil, nil, fmt.Errorf("GetExecutor returns different executors on different paths; LIVE set is version dependent")
		}
		dec, ctor = d, call.Call.StaticCallee()
	}
	if dec == nil {
		return nil, nil, fmt.Errorf("GetExecutor: no return")
	}
	return dec, ctor, nil
}

var liveCache []*Handler

// Unregistered lists TxType constants without a live handler.
var Unregistered []string

// Live returns the live transaction handlers, derived from the executor's decoder.
func (c *Ctx) Live() ([]*Handler, error) {
	if liveCache != nil {
		return liveCache, nil
	}
	dec, _, err := c.LiveDecoder()
	if err != nil {
		return nil, err
	}
	consts := c.TxTypeConsts()
	var names []string
	for n := range consts {
		names = append(names, n)
	}
	sort.Slice(names, func(i, j int) bool { return consts[names[i]] < consts[names[j]] })
	var out []*Handler
	for _, n := range names {
		t, ok, err := c.resolveData(dec, consts[n], 0)
		if err != nil {
			return nil, err
		}
		if !ok {
			// a type byte no decoder registers is rejected at decode time ("tx type is not
			// registered"); it has no handler to analyse
			Unregistered = append(Unregistered, n)
			continue
		}
		h := &Handler{ConstName: n, Code: consts[n], Type: t, TypeName: t.Obj().Name()}
		h.Run = c.Method(t, "Run")
		h.Basic = c.Method(t, "basicCheck")
		if h.Run == nil {
			return nil, fmt.Errorf("%s has no Run method with a body", h.TypeName)
		}
		out = append(out, h)
	}
	liveCache = out
	return out, nil
}

// Method returns the source-level method `name` declared on t or *t.
func (c *Ctx) Method(t *types.Named, name string) *ssa.Function {
	for _, recv := range []types.Type{t, types.NewPointer(t)} {
		ms := c.Prog.MethodSets.MethodSet(recv)
		for i := 0; i < ms.Len(); i++ {
			sel := ms.At(i)
			if sel.Obj().Name() != name {
				continue
			}
			fn := c.Prog.FuncValue(sel.Obj().(*types.Func))
			if fn != nil && fn.Blocks != nil {
				return fn
			}
		}
	}
	return nil
}

// RunTx returns the live executor's RunTx.
func (c *Ctx) RunTx() *ssa.Function {
	_, ctor, err := c.LiveDecoder()
	if err != nil || ctor == nil {
		return nil
	}
	// the constructor returns &T{...}; find T's RunTx
	for _, r := range Returns(ctor) {
		v := Unwrap(r.Results[0])
		t := v.Type()
		if p, ok := t.(*types.Pointer); ok {
			if n, ok := p.Elem().(*types.Named); ok {
				return c.Method(n, "RunTx")
			}
		}
	}
	return nil
}
