package core

import (
	"go/token"
	"go/types"

	"golang.org/x/tools/go/ssa"
)

// FieldRef is one access to a struct field.
type FieldRef struct {
	Fn    *ssa.Function
	Instr ssa.Instruction // the Store (write) or the FieldAddr/Field (read)
	Addr  *ssa.FieldAddr  // nil for value Field reads
	Write bool
	// InPlace is set for a call of a mutating method (e.g. (*big.Int).Add) whose receiver is the
	// value loaded from the field.
	InPlace string
}

type fieldKey struct {
	obj *types.TypeName
	f   string
}

type fieldIndex struct {
	refs map[fieldKey][]*FieldRef
}

var fidx *fieldIndex

func structOf(t types.Type) (*types.Named, *types.Struct) {
	if p, ok := t.Underlying().(*types.Pointer); ok {
		t = p.Elem()
	}
	n, _ := t.(*types.Named)
	st, _ := t.Underlying().(*types.Struct)
	return n, st
}

func (c *Ctx) buildFieldIndex() {
	if fidx != nil {
		return
	}
	fidx = &fieldIndex{refs: map[fieldKey][]*FieldRef{}}
	for _, fn := range c.AllFns {
		for _, b := range fn.Blocks {
			for _, in := range b.Instrs {
				switch x := in.(type) {
				case *ssa.FieldAddr:
					n, st := structOf(x.X.Type())
					if n == nil || st == nil {
						continue
					}
					k := fieldKey{n.Obj(), st.Field(x.Field).Name()}
					wrote := false
					read := false
					for _, r := range *x.Referrers() {
						switch rr := r.(type) {
						case *ssa.Store:
							if rr.Addr == x {
								fidx.refs[k] = append(fidx.refs[k], &FieldRef{Fn: fn, Instr: rr, Addr: x, Write: true})
								wrote = true
							} else {
								read = true
							}
						case *ssa.UnOp:
							read = true
							// in-place mutation through the loaded pointer
							for _, lr := range *rr.Referrers() {
								if call, ok := lr.(ssa.CallInstruction); ok {
									cc := call.Common()
									if !cc.IsInvoke() && cc.StaticCallee() != nil && len(cc.Args) > 0 && cc.Args[0] == rr {
										name := cc.StaticCallee().Name()
										if cc.StaticCallee().Signature.Recv() != nil && bigMut[name] && isBig(cc.Args[0].Type()) {
											fidx.refs[k] = append(fidx.refs[k], &FieldRef{Fn: fn, Instr: call, Addr: x, Write: true, InPlace: name})
										}
									}
								}
							}
						case *ssa.FieldAddr, *ssa.IndexAddr:
							// nested composite literal / element write: &x.F.G = v writes (part of) F
							if addrWritten(rr.(ssa.Value), 0) {
								fidx.refs[k] = append(fidx.refs[k], &FieldRef{Fn: fn, Instr: rr.(ssa.Instruction), Addr: x, Write: true})
							} else {
								read = true
							}
						case *ssa.MapUpdate:
							// m.field[k] = v where field is the map: x is loaded first (UnOp), so this
							// case is reached only for address-of uses
							read = true
						default:
							read = true
						}
					}
					_ = wrote
					if read || len(*x.Referrers()) == 0 {
						fidx.refs[k] = append(fidx.refs[k], &FieldRef{Fn: fn, Instr: x, Addr: x})
					}
				case *ssa.Field:
					n, st := structOf(x.X.Type())
					if n == nil || st == nil {
						continue
					}
					k := fieldKey{n.Obj(), st.Field(x.Field).Name()}
					fidx.refs[k] = append(fidx.refs[k], &FieldRef{Fn: fn, Instr: x})
				}
			}
		}
	}
}

// addrWritten: some store goes through address a (directly or through nested field/index addresses).
func addrWritten(a ssa.Value, d int) bool {
	if d > 4 || a.Referrers() == nil {
		return false
	}
	for _, r := range *a.Referrers() {
		switch rr := r.(type) {
		case *ssa.Store:
			if rr.Addr == a {
				return true
			}
		case *ssa.FieldAddr:
			if addrWritten(rr, d+1) {
				return true
			}
		case *ssa.IndexAddr:
			if addrWritten(rr, d+1) {
				return true
			}
		}
	}
	return false
}

var bigMut = map[string]bool{"Add": true, "Sub": true, "Mul": true, "Div": true, "Set": true, "SetInt64": true, "SetUint64": true, "Neg": true, "Quo": true, "Rem": true, "Mod": true, "SetBytes": true, "SetString": true, "Exp": true, "Lsh": true, "Rsh": true, "Abs": true, "QuoRem": true, "DivMod": true, "Sqrt": true, "SetBit": true, "And": true, "Or": true, "Xor": true, "Not": true}

func isBig(t types.Type) bool {
	p, ok := t.(*types.Pointer)
	if !ok {
		return false
	}
	n, ok := p.Elem().(*types.Named)
	return ok && n.Obj().Pkg() != nil && n.Obj().Pkg().Path() == "math/big"
}

// FieldRefs returns every access of field `field` of named struct type t in repo code.
func (c *Ctx) FieldRefs(t *types.Named, field string) []*FieldRef {
	c.buildFieldIndex()
	if t == nil {
		return nil
	}
	return fidx.refs[fieldKey{t.Obj(), field}]
}

// FieldWrites filters FieldRefs to writes.
func (c *Ctx) FieldWrites(t *types.Named, field string) []*FieldRef {
	var out []*FieldRef
	for _, r := range c.FieldRefs(t, field) {
		if r.Write {
			out = append(out, r)
		}
	}
	return out
}

// FieldReads filters FieldRefs to reads.
func (c *Ctx) FieldReads(t *types.Named, field string) []*FieldRef {
	var out []*FieldRef
	for _, r := range c.FieldRefs(t, field) {
		if !r.Write {
			out = append(out, r)
		}
	}
	return out
}

// Pos of the reference.
func (r *FieldRef) Pos() token.Pos {
	if p := r.Instr.Pos(); p.IsValid() {
		return p
	}
	if r.Addr != nil {
		return r.Addr.Pos()
	}
	return token.NoPos
}

// StructFields lists the field names of a named struct type.
func StructFields(t *types.Named) []string {
	st, ok := t.Underlying().(*types.Struct)
	if !ok {
		return nil
	}
	var out []string
	for i := 0; i < st.NumFields(); i++ {
		out = append(out, st.Field(i).Name())
	}
	return out
}
