package core

import (
	_ "embed"
	"encoding/json"
	"sort"

	"golang.org/x/tools/go/ssa"
)

// Parameter names are the roots of access paths ("tx.Nonce", "data.Coin", "height"), and the
// rules were written against the names the repository used when they were confirmed. Renaming
// a parameter or a receiver is a behaviour-preserving edit and must not change any verdict, so
// paths are rendered with the *reference* name of the parameter at that position: the table
// below (generated from the reference tree with `mvcheck -dump paramnames`) maps a function to
// the names its parameters had then. A function that is not in the table, or whose number of
// parameters changed, is rendered with its current names.

//go:embed paramnames.json
var paramNamesJSON []byte

var refParamNames map[string][]string

func init() {
	refParamNames = map[string][]string{}
	if len(paramNamesJSON) > 0 {
		_ = json.Unmarshal(paramNamesJSON, &refParamNames)
	}
}

// ParamName is the name a parameter is rendered with in access paths.
func ParamName(p *ssa.Parameter) string {
	fn := p.Parent()
	if fn == nil {
		return p.Name()
	}
	ref, ok := refParamNames[fn.String()]
	if !ok || len(ref) != len(fn.Params) {
		return p.Name()
	}
	for i, q := range fn.Params {
		if q == p {
			if ref[i] == "" {
				return p.Name()
			}
			return ref[i]
		}
	}
	return p.Name()
}

// DumpParamNames renders the reference table for the loaded program.
func (c *Ctx) DumpParamNames() []byte {
	out := map[string][]string{}
	var keys []string
	for _, fn := range c.AllFns {
		if len(fn.Params) == 0 || fn.Synthetic != "" {
			continue
		}
		var names []string
		for _, p := range fn.Params {
			names = append(names, p.Name())
		}
		out[fn.String()] = names
		keys = append(keys, fn.String())
	}
	sort.Strings(keys)
	b, _ := json.MarshalIndent(out, "", " ")
	return b
}
