package core

import (
	"go/types"
	"sort"
	"strings"

	"golang.org/x/tools/go/ssa"
)

// LockSet maps a mutex access path ("s.muPairs") to the strongest mode held: 'W' or 'R'.
type LockSet map[string]byte

func (l LockSet) clone() LockSet {
	o := LockSet{}
	for k, v := range l {
		o[k] = v
	}
	return o
}

func meet(a, b LockSet) LockSet {
	o := LockSet{}
	for k, v := range a {
		if w, ok := b[k]; ok {
			if v == 'R' || w == 'R' {
				o[k] = 'R'
			} else {
				o[k] = 'W'
			}
		}
	}
	return o
}

func equalLS(a, b LockSet) bool {
	if len(a) != len(b) {
		return false
	}
	for k, v := range a {
		if b[k] != v {
			return false
		}
	}
	return true
}

func (l LockSet) String() string {
	var ks []string
	for k, v := range l {
		ks = append(ks, k+":"+string(v))
	}
	sort.Strings(ks)
	return "{" + strings.Join(ks, " ") + "}"
}

// LockOp describes a sync.Mutex/RWMutex operation at a call site.
type LockOp struct {
	Path    string // access path of the mutex
	Acquire bool
	Mode    byte // 'W' or 'R'
	Defer   bool
}

// lockOp recognises mutex operations.
func lockOp(s *Site) (LockOp, bool) {
	var name string
	switch s.Callee {
	case "(*sync.Mutex).Lock", "(*sync.RWMutex).Lock":
		name = "Lock"
	case "(*sync.Mutex).Unlock", "(*sync.RWMutex).Unlock":
		name = "Unlock"
	case "(*sync.RWMutex).RLock":
		name = "RLock"
	case "(*sync.RWMutex).RUnlock":
		name = "RUnlock"
	default:
		return LockOp{}, false
	}
	p := LockKey(s.Recv())
	_, isDefer := s.Instr.(*ssa.Defer)
	op := LockOp{Path: p, Defer: isDefer}
	switch name {
	case "Lock":
		op.Acquire, op.Mode = true, 'W'
	case "RLock":
		op.Acquire, op.Mode = true, 'R'
	case "Unlock":
		op.Mode = 'W'
	case "RUnlock":
		op.Mode = 'R'
	}
	return op, true
}

// LockKey names a mutex: its access path when it has one, otherwise the identity of the SSA
// value holding the object plus the field name (two `&x.mu` instructions on the same x agree).
func LockKey(recv ssa.Value) string {
	if recv == nil {
		return "?"
	}
	if p := strings.TrimPrefix(Path(recv), "&"); p != "" && !strings.Contains(p, "[*]") {
		return p
	}
	if ld, ok := recv.(*ssa.UnOp); ok {
		// a mutex held by pointer: `pair.lockOrders` loaded from its field
		if fa, ok := ld.X.(*ssa.FieldAddr); ok {
			base := Unwrap(fa.X)
			return "v:" + base.Name() + "@" + base.Parent().Name() + ".*" + fieldName(fa.X.Type(), fa.Field)
		}
	}
	if fa, ok := recv.(*ssa.FieldAddr); ok {
		base := Unwrap(fa.X)
		return "v:" + base.Name() + "@" + base.Parent().Name() + "." + fieldName(fa.X.Type(), fa.Field)
	}
	return "v:" + recv.Name()
}

// LockInfo is the result of the must-hold lockset analysis of one function.
type LockInfo struct {
	Fn    *ssa.Function
	Entry LockSet                     // locks held on entry (from callers), in the callee's own terms
	At    map[ssa.Instruction]LockSet // lockset BEFORE each call / map access instruction
	In    map[*ssa.BasicBlock]LockSet // lockset at block entry
	Acq   []LockAcq                   // acquisitions with the lockset held at that point
}

// LockAcq is one acquisition.
type LockAcq struct {
	Site *Site
	Op   LockOp
	Held LockSet
}

type lockAnalysis struct {
	c     *Ctx
	infos map[*ssa.Function]*LockInfo
}

var lockCache *lockAnalysis

// Locks runs (once) the lockset analysis over all repo functions, with entry locksets derived
// from callers to a fixpoint (bounded).
func (c *Ctx) Locks() map[*ssa.Function]*LockInfo {
	if lockCache != nil {
		return lockCache.infos
	}
	la := &lockAnalysis{c: c, infos: map[*ssa.Function]*LockInfo{}}
	for _, fn := range c.AllFns {
		if fn.Blocks == nil {
			continue
		}
		la.infos[fn] = la.analyse(fn, LockSet{})
	}
	// entry locksets from static callers, iterated
	for round := 0; round < 4; round++ {
		changed := false
		entry := map[*ssa.Function]LockSet{}
		seen := map[*ssa.Function]bool{}
		blocked := map[*ssa.Function]bool{}
		for _, fn := range c.AllFns {
			info := la.infos[fn]
			if info == nil {
				continue
			}
			for _, b := range fn.Blocks {
				for _, in := range b.Instrs {
					ci, ok := in.(ssa.CallInstruction)
					if !ok {
						continue
					}
					cc := ci.Common()
					callee := cc.StaticCallee()
					if callee == nil || la.infos[callee] == nil {
						continue
					}
					if _, isGo := in.(*ssa.Go); isGo {
						blocked[callee] = true
						continue
					}
					held := info.At[in]
					// translate: locks whose path starts with an argument's path → callee param name
					tr := LockSet{}
					for i, p := range callee.Params {
						if i >= len(cc.Args) {
							break
						}
						ap := strings.TrimPrefix(Path(cc.Args[i]), "&")
						if ap == "" || strings.Contains(ap, "[*]") {
							continue
						}
						for lk, mode := range held {
							if lk == ap || strings.HasPrefix(lk, ap+".") {
								tr[ParamName(p)+strings.TrimPrefix(lk, ap)] = mode
							}
						}
					}
					if !seen[callee] {
						seen[callee] = true
						entry[callee] = tr
					} else {
						entry[callee] = meet(entry[callee], tr)
					}
				}
			}
		}
		for fn, info := range la.infos {
			e := LockSet{}
			if seen[fn] && !blocked[fn] && !c.mayBeCalledDynamically(fn) {
				e = entry[fn]
			}
			if !equalLS(e, info.Entry) {
				la.infos[fn] = la.analyse(fn, e)
				changed = true
			}
		}
		if !changed {
			break
		}
	}
	lockCache = la
	return la.infos
}

// mayBeCalledDynamically: the function's address is taken or it implements an interface method
// that is invoked somewhere — then callers cannot be enumerated statically.
func (c *Ctx) mayBeCalledDynamically(fn *ssa.Function) bool {
	if fn.Parent() != nil {
		return true // closures are called through values
	}
	if refs := fn.Referrers(); refs != nil {
		for _, r := range *refs {
			if ci, ok := r.(ssa.CallInstruction); ok && ci.Common().Value == fn {
				continue
			}
			return true // address taken (stored, passed, bound)
		}
	}
	// exported methods of types that satisfy repo interfaces are reachable through invoke; the
	// conservative answer for methods is: exported ⇒ dynamic
	if fn.Signature.Recv() != nil && fn.Object() != nil && fn.Object().Exported() {
		return true
	}
	// unexported methods can still satisfy unexported interface methods in the same package
	if fn.Signature.Recv() != nil && c.implementsSomeInterfaceMethod(fn) {
		return true
	}
	return false
}

var ifaceMethodNames map[string]bool

func (c *Ctx) implementsSomeInterfaceMethod(fn *ssa.Function) bool {
	if ifaceMethodNames == nil {
		ifaceMethodNames = map[string]bool{}
		for _, p := range c.Pkgs {
			sc := p.Types.Scope()
			for _, n := range sc.Names() {
				tn, ok := sc.Lookup(n).(*types.TypeName)
				if !ok {
					continue
				}
				if it, ok := tn.Type().Underlying().(*types.Interface); ok {
					for i := 0; i < it.NumMethods(); i++ {
						ifaceMethodNames[it.Method(i).Name()] = true
					}
				}
			}
		}
	}
	return ifaceMethodNames[fn.Name()]
}

func (la *lockAnalysis) analyse(fn *ssa.Function, entry LockSet) *LockInfo {
	info := &LockInfo{Fn: fn, Entry: entry, At: map[ssa.Instruction]LockSet{}, In: map[*ssa.BasicBlock]LockSet{}}
	if len(fn.Blocks) == 0 {
		return info
	}
	out := map[*ssa.BasicBlock]LockSet{}
	info.In[fn.Blocks[0]] = entry.clone()
	work := []*ssa.BasicBlock{fn.Blocks[0]}
	inWork := map[*ssa.BasicBlock]bool{fn.Blocks[0]: true}
	visited := map[*ssa.BasicBlock]bool{}
	transfer := func(b *ssa.BasicBlock, in LockSet, record bool) LockSet {
		cur := in.clone()
		for _, ins := range b.Instrs {
			switch ins.(type) {
			case ssa.CallInstruction, *ssa.Lookup, *ssa.MapUpdate, *ssa.Range, *ssa.Next:
				if record {
					info.At[ins] = cur.clone()
				}
			}
			ci, ok := ins.(ssa.CallInstruction)
			if !ok {
				continue
			}
			s := &Site{Fn: fn, Instr: ci, Common: ci.Common(), Callee: CalleeName(ci.Common())}
			op, isLock := lockOp(s)
			if !isLock {
				continue
			}
			if op.Defer {
				continue // released at function exit: stays held for the rest of the body
			}
			if op.Acquire {
				if record {
					info.Acq = append(info.Acq, LockAcq{Site: s, Op: op, Held: cur.clone()})
				}
				if cur[op.Path] != 'W' {
					cur[op.Path] = op.Mode
				}
			} else {
				delete(cur, op.Path)
			}
		}
		return cur
	}
	for len(work) > 0 {
		b := work[0]
		work = work[1:]
		inWork[b] = false
		o := transfer(b, info.In[b], false)
		if visited[b] && equalLS(o, out[b]) {
			continue
		}
		visited[b] = true
		out[b] = o
		for _, s := range b.Succs {
			var ni LockSet
			if cur, ok := info.In[s]; ok {
				ni = meet(cur, o)
			} else {
				ni = o.clone()
			}
			if cur, ok := info.In[s]; !ok || !equalLS(cur, ni) {
				info.In[s] = ni
				if !inWork[s] {
					work = append(work, s)
					inWork[s] = true
				}
			}
		}
	}
	for _, b := range fn.Blocks {
		if in, ok := info.In[b]; ok {
			transfer(b, in, true)
		}
	}
	return info
}
