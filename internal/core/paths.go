package core

import (
	"golang.org/x/tools/go/ssa"
)

// Edge is one conditional decision on a path.
type Edge struct {
	If    *ssa.If
	Taken bool // true edge taken
}

// CFGPath is one acyclic path: the blocks visited and the conditional decisions taken.
type CFGPath struct {
	Blocks []*ssa.BasicBlock
	Edges  []Edge
}

// PathsTo enumerates the acyclic CFG paths from the function entry to the block of target.
// Blocks that cannot reach the target are never entered, so rejecting branches are pruned.
// Returns ok=false when more than max paths exist.
func PathsTo(target ssa.Instruction, max int) ([]CFGPath, bool) {
	tb := target.Block()
	fn := tb.Parent()
	can := map[*ssa.BasicBlock]bool{}
	for _, b := range fn.Blocks {
		if ReachFrom(b, nil)[tb] {
			can[b] = true
		}
	}
	var out []CFGPath
	onPath := map[*ssa.BasicBlock]bool{}
	var cur []Edge
	var blocks []*ssa.BasicBlock
	overflow := false
	var dfs func(b *ssa.BasicBlock)
	dfs = func(b *ssa.BasicBlock) {
		if overflow {
			return
		}
		blocks = append(blocks, b)
		defer func() { blocks = blocks[:len(blocks)-1] }()
		if b == tb {
			p := CFGPath{Blocks: append([]*ssa.BasicBlock{}, blocks...), Edges: append([]Edge{}, cur...)}
			out = append(out, p)
			if len(out) > max {
				overflow = true
			}
			return
		}
		onPath[b] = true
		defer func() { onPath[b] = false }()
		iff := IfOf(b)
		for i, s := range b.Succs {
			if !can[s] || onPath[s] {
				continue
			}
			if iff != nil {
				cur = append(cur, Edge{If: iff, Taken: i == 0})
				dfs(s)
				cur = cur[:len(cur)-1]
			} else {
				dfs(s)
			}
		}
	}
	if len(fn.Blocks) > 0 && can[fn.Blocks[0]] {
		dfs(fn.Blocks[0])
	}
	return out, !overflow
}

// Resolve follows phis along the path: a phi in block B takes the value of the edge from the
// block that precedes B on the path. Other values are returned unchanged. Valid only for the
// first traversal of each block (acyclic paths).
func (p CFGPath) Resolve(v ssa.Value) ssa.Value {
	for i := 0; i < 20; i++ {
		v = Unwrap(v)
		ph, ok := v.(*ssa.Phi)
		if !ok {
			return v
		}
		b := ph.Block()
		idx := -1
		for k, blk := range p.Blocks {
			if blk == b {
				idx = k
				break
			}
		}
		if idx <= 0 {
			return v
		}
		prev := p.Blocks[idx-1]
		found := false
		for k, pred := range b.Preds {
			if pred == prev && k < len(ph.Edges) {
				v = ph.Edges[k]
				found = true
				break
			}
		}
		if !found {
			return v
		}
	}
	return v
}

// InCycle reports whether block b lies on a CFG cycle.
func InCycle(b *ssa.BasicBlock) bool {
	for _, s := range b.Succs {
		if ReachFrom(s, nil)[b] {
			return true
		}
	}
	return false
}
