package rules

import (
	"fmt"
	"go/token"
	"math/big"
	"strings"

	"golang.org/x/tools/go/ssa"

	"verif/internal/core"
)

// C13.formula — the pool arithmetic of the live pair type, as written.
//
// Whether a trade can shrink reserve0·reserve1, and whether add-then-remove can pay out more than
// was put in, follows (by arithmetic that is not done here) from five small functions computing
// exactly what they are documented to compute, INCLUDING the direction every quotient is rounded
// in. That part is in the shape of the code: each function is straight-line math/big code with a
// few guards. For every path to every return the returned value is recovered from the def-use
// chain with one transfer function per math/big method (the evaluator of C12) and compared, as a
// rational function of the arguments and the two reserves with opaque integer-quotient terms, with
// the documented form:
//
//	CalculateBuyForSell(a)     = r1 − ⌊r0·r1 / (r0 + a·(1 − 2/1000))⌋ − 1       (out, rounded down, −1)
//	CalculateSellForBuy(b)     = ⌊(⌊r0·r1·1000/(r1 − b)⌋ − 1000·r0) / 998⌋ + 1    (in, rounded down, +1), only with b < r1
//	CalculateAddLiquidity(a,T) = (⌊T·a/r0⌋, ⌊a·r1/r0⌋ or that + 1)               (minted share rounded DOWN)
//	Amounts(l,T)               = (⌊l·r0/T⌋, ⌊l·r1/T⌋)                            (paid share rounded DOWN)
//	checkSwap(i0,i1,o0,o1) returns nil only on paths that established o0 ≤ r0, o1 ≤ r1 and
//	    ((i0−o0+r0)·1000 − 2·i0)·((i1−o1+r1)·1000 − 2·i1) ≥ r0·r1·10^6
//
// A quotient written at another scale, operands in another order, or the arithmetic moved into a
// straight-line helper are the same term. What is not decided: that these forms imply the
// property (they do, by a pencil argument), and anything about the order-fill calculations.
func checkPoolFormulas(c *core.Ctx, rule string) {
	t := c.Named(core.PkgState+"/swap", "PairV2")
	if t == nil {
		c.Unk(rule, "swap.PairV2", token.NoPos, "type not found")
		return
	}
	al := &algebra{}
	r0, r1 := al.atom("reserve", "reserve0"), al.atom("reserve", "reserve1")
	k := func(n int64) ratf { return rint(n) }
	idiv := func(a, b ratf) ratf { return intdivAtom(al, a, b) }

	// evaluation of one function: every acyclic path to every return
	eval := func(fn *ssa.Function) ([]retEval, bool) {
		recv := fn.Params[0]
		ofRecv := func(v ssa.Value) bool {
			return core.DependsOn(v, func(x ssa.Value) bool { return x == ssa.Value(recv) })
		}
		hook := func(v ssa.Value) (ratf, bool) {
			ld, ok := v.(*ssa.UnOp)
			if !ok || ld.Op != token.MUL {
				return ratf{}, false
			}
			fa, ok := ld.X.(*ssa.FieldAddr)
			if !ok || !ofRecv(fa.X) {
				return ratf{}, false
			}
			switch fieldNameOf(fa) {
			case "Reserve0":
				return r0, true
			case "Reserve1":
				return r1, true
			}
			return ratf{}, false
		}
		tupleHook := func(in *ssa.Call) ([]interface{}, bool) {
			h := in.Call.StaticCallee()
			if h == nil || h.Name() != "Reserves" || !strings.HasSuffix(core.PkgOf(h), "/swap") || len(core.NormCall(&in.Call).Args) != 1 || !ofRecv(core.NormCall(&in.Call).Args[0]) {
				return nil, false
			}
			// only the pair's own reserves (not those of p.reverse() or of a scratch copy)
			if core.DependsOn(core.NormCall(&in.Call).Args[0], func(x ssa.Value) bool { _, isCall := x.(*ssa.Call); return isCall }) {
				return nil, false
			}
			return []interface{}{&bobj{val: r0, param: -1}, &bobj{val: r1, param: -1}}, true
		}
		return evalAll(c, al, fn, 512, func(ev *pathEval) { ev.hook, ev.tupleHook = hook, tupleHook })
	}
	param := func(fn *ssa.Function, i int) ratf { return al.atom("param", core.ParamName(fn.Params[i])) }
	// the value a path returns in result slot i: (value, isNil, ok)
	resultOf := func(ev retEval, i int) (ratf, bool, bool) {
		if i >= len(ev.res) {
			return ratf{}, false, false
		}
		o, isObj := ev.res[i].(*bobj)
		if !isObj {
			return ratf{}, false, false
		}
		if o == nil {
			return ratf{}, true, true
		}
		return o.val, false, true
	}
	n := 0
	method := func(name string) *ssa.Function {
		fn := c.Method(t, name)
		if fn == nil || fn.Blocks == nil {
			c.Unk(rule, "PairV2."+name, token.NoPos, "method not found")
			return nil
		}
		return fn
	}
	// spilled named results: the evaluator reads what the return instruction returns, so nothing
	// special is needed for `return amount0, amount1` of named results

	// ---- exact-in price
	if fn := method("CalculateBuyForSell"); fn != nil {
		a := param(fn, 1)
		want := rsub(rsub(r1, idiv(rmul(rmul(r0, r1), k(1000)), radd(rmul(k(998), a), rmul(k(1000), r0)))), k(1))
		evs, ok := eval(fn)
		if !ok {
			c.Unk(rule, "CalculateBuyForSell/paths", fn.Pos(), "the return paths could not be enumerated")
		}
		some := false
		for i, ev := range evs {
			v, isNil, ok := resultOf(ev, 0)
			key := fmt.Sprintf("CalculateBuyForSell/return-path#%d", i+1)
			n++
			switch {
			case !ok:
				c.Unk(rule, key, ev.ret.Pos(), "unexpected result")
			case isNil:
				c.OK(rule, key, ev.ret.Pos(), "returns nil (no trade)")
			default:
				some = some || requal(v, want)
				c.Check(requal(v, want), rule, key, ev.ret.Pos(), "returns reserve1 − ⌊reserve0·reserve1·1000/(998·amountIn + 1000·reserve0)⌋ − 1",
					"the amount bought for an exact sale is "+al.String(v)+", not reserve1 − ⌊reserve0·reserve1/(reserve0 + 0.998·amountIn)⌋ − 1: the fee, the operands or the direction of rounding changed, and a trade can then take more out of the pool than the constant product allows")
			}
		}
		c.Check(some, rule, "CalculateBuyForSell/general", fn.Pos(), "the documented form is computed on some path", "no path of CalculateBuyForSell computes the documented amount")
	}
	// ---- exact-out price
	if fn := method("CalculateSellForBuy"); fn != nil {
		b := param(fn, 1)
		inner := idiv(rmul(rmul(r0, r1), k(1000)), rsub(r1, b))
		want := radd(idiv(rsub(inner, rmul(k(1000), r0)), k(998)), k(1))
		evs, ok := eval(fn)
		if !ok {
			c.Unk(rule, "CalculateSellForBuy/paths", fn.Pos(), "the return paths could not be enumerated")
		}
		some := false
		for i, ev := range evs {
			v, isNil, ok := resultOf(ev, 0)
			key := fmt.Sprintf("CalculateSellForBuy/return-path#%d", i+1)
			n++
			switch {
			case !ok:
				c.Unk(rule, key, ev.ret.Pos(), "unexpected result")
			case isNil:
				c.OK(rule, key, ev.ret.Pos(), "returns nil (no trade)")
			default:
				some = some || requal(v, want)
				below := diffSigns(ev.conds, b, r1)
				c.Check(requal(v, want) && !below[0] && !below[1], rule, key, ev.ret.Pos(), "returns ⌊(⌊reserve0·reserve1·1000/(reserve1 − amountOut)⌋ − 1000·reserve0)/998⌋ + 1, computed only with amountOut < reserve1",
					fmt.Sprintf("the amount to sell for an exact purchase is %s (amountOut < reserve1 established on the path: %v), not ⌊(⌊reserve0·reserve1/(reserve1 − amountOut)⌋ − reserve0)/0.998⌋ + 1 guarded by amountOut < reserve1: the fee, the operands, the direction of rounding or the guard of the denominator changed, and a purchase can then be underpaid", al.String(v), !below[0] && !below[1]))
			}
		}
		c.Check(some, rule, "CalculateSellForBuy/general", fn.Pos(), "the documented form is computed on some path", "no path of CalculateSellForBuy computes the documented amount")
	}
	// ---- shares
	if fn := method("CalculateAddLiquidity"); fn != nil {
		a, T := param(fn, 1), param(fn, 2)
		wantL := idiv(rmul(T, a), r0)
		wantD := idiv(rmul(a, r1), r0)
		evs, ok := eval(fn)
		if !ok {
			c.Unk(rule, "CalculateAddLiquidity/paths", fn.Pos(), "the return paths could not be enumerated")
		}
		for i, ev := range evs {
			l, nilL, ok1 := resultOf(ev, 0)
			d, nilD, ok2 := resultOf(ev, 1)
			key := fmt.Sprintf("CalculateAddLiquidity/return-path#%d", i+1)
			n++
			if !ok1 || !ok2 || nilL || nilD {
				c.Unk(rule, key, ev.ret.Pos(), "unexpected result")
				continue
			}
			c.Check(requal(l, wantL), rule, key+"/liquidity", ev.ret.Pos(), "minted pool tokens = ⌊totalSupply·amount0/reserve0⌋ (rounded down)",
				"the pool tokens minted for a deposit are "+al.String(l)+", not ⌊totalSupply·amount0/reserve0⌋: a share that is not rounded DOWN is worth more than the deposit, and adding then removing liquidity pays out more than was put in")
			c.Check(requal(d, wantD) || requal(d, radd(wantD, k(1))), rule, key+"/deposit", ev.ret.Pos(), "second deposit = ⌊amount0·reserve1/reserve0⌋ (or that + 1)",
				"the second coin's deposit is "+al.String(d)+", not amount0·reserve1/reserve0: the provider no longer deposits in the ratio of the reserves")
		}
	}
	if fn := method("Amounts"); fn != nil {
		l, T := param(fn, 1), param(fn, 2)
		evs, ok := eval(fn)
		if !ok {
			c.Unk(rule, "Amounts/paths", fn.Pos(), "the return paths could not be enumerated")
		}
		for i, ev := range evs {
			a0, nil0, ok1 := resultOf(ev, 0)
			a1, nil1, ok2 := resultOf(ev, 1)
			key := fmt.Sprintf("Amounts/return-path#%d", i+1)
			n++
			if !ok1 || !ok2 || nil0 || nil1 {
				c.Unk(rule, key, ev.ret.Pos(), "unexpected result")
				continue
			}
			c.Check(requal(a0, idiv(rmul(l, r0), T)) && requal(a1, idiv(rmul(l, r1), T)), rule, key, ev.ret.Pos(), "paid out = (⌊liquidity·reserve0/totalSupply⌋, ⌊liquidity·reserve1/totalSupply⌋), both rounded down",
				"removing liquidity pays ("+al.String(a0)+", "+al.String(a1)+"), not the holder's share of each reserve rounded DOWN: the holder can receive more than the proportional share")
		}
	}
	// ---- K
	if fn := method("checkSwap"); fn != nil {
		i0, i1, o0, o1 := param(fn, 1), param(fn, 2), param(fn, 3), param(fn, 4)
		b0 := rsub(rmul(radd(rsub(i0, o0), r0), k(1000)), rmul(i0, k(2)))
		b1 := rsub(rmul(radd(rsub(i1, o1), r1), k(1000)), rmul(i1, k(2)))
		EA, EB := rmul(b0, b1), rmul(rmul(r0, r1), k(1000000))
		evs, ok := eval(fn)
		if !ok {
			c.Unk(rule, "checkSwap/paths", fn.Pos(), "the return paths could not be enumerated")
		}
		accepting := 0
		for i, ev := range evs {
			if len(ev.ret.Results) != 1 {
				continue
			}
			kc, isConst := ev.ev.resolve(ev.ret.Results[0]).(*ssa.Const)
			if !isConst || !kc.IsNil() {
				continue // a rejecting path
			}
			accepting++
			n++
			key := fmt.Sprintf("checkSwap/accepting-path#%d", i+1)
			out0, out1 := diffSigns(ev.conds, o0, r0), diffSigns(ev.conds, o1, r1)
			kOK := false
			for _, pc := range ev.conds {
				if pc.kind != "cmp" {
					continue
				}
				alw := pc.allowed()
				// a·s == EA and b·s == EB for one positive constant s, and a ≥ b established
				if s, ok := constScale(pc.a, EA); ok && s.Sign() > 0 && requal(pc.b, rmul(EB, rconst(s))) && !alw[-1] {
					kOK = true
				}
				if s, ok := constScale(pc.b, EA); ok && s.Sign() > 0 && requal(pc.a, rmul(EB, rconst(s))) && !alw[1] {
					kOK = true
				}
			}
			c.Check(!out0[1] && !out1[1] && kOK, rule, key, ev.ret.Pos(), "accepts only with amount0Out ≤ reserve0, amount1Out ≤ reserve1 and adjusted balance product ≥ reserve0·reserve1·10^6",
				fmt.Sprintf("checkSwap accepts a trade on a path that did not establish all of: amount0Out ≤ reserve0 (%v), amount1Out ≤ reserve1 (%v), ((in0−out0+reserve0)·1000 − 2·in0)·((in1−out1+reserve1)·1000 − 2·in1) ≥ reserve0·reserve1·10^6 (%v) — a trade that shrinks the constant product, or pays out more than the pool holds, passes the check every swap relies on", !out0[1], !out1[1], kOK))
		}
		c.Check(accepting > 0, rule, "checkSwap/accepting", fn.Pos(), "checkSwap has an accepting path", "checkSwap never accepts")
	}
	c.Floor(rule, n, 8, "return paths of the pool arithmetic")
}

// diffSigns: which signs of x − y the path allows, from Cmp(x, y) / Cmp(y, x) decisions and from
// Sign() decisions on x − y or y − x.
func diffSigns(conds []pathCond, x, y ratf) map[int]bool {
	out := cmpOf(conds, x, y)
	d := rsub(x, y)
	for _, pc := range conds {
		var alw map[int]bool
		switch {
		case pc.kind == "sign" && requal(pc.a, d):
			alw = pc.allowed()
		case pc.kind == "sign" && requal(pc.a, rneg(d)):
			alw = map[int]bool{}
			for s := range pc.allowed() {
				alw[-s] = true
			}
		case pc.kind == "cmp" && requal(rsub(pc.a, pc.b), d):
			alw = pc.allowed()
		case pc.kind == "cmp" && requal(rsub(pc.a, pc.b), rneg(d)):
			alw = map[int]bool{}
			for s := range pc.allowed() {
				alw[-s] = true
			}
		default:
			continue
		}
		for s := range out {
			if !alw[s] {
				delete(out, s)
			}
		}
	}
	return out
}

// constScale: the constant s with a == e·s, for polynomial a and e.
func constScale(a, e ratf) (*big.Rat, bool) {
	if len(a.den) != 1 || a.den[""] == nil || len(e.den) != 1 || e.den[""] == nil {
		return nil, false
	}
	for key, ce := range e.num {
		ca, ok := a.num[key]
		if !ok || ce.Sign() == 0 {
			return nil, false
		}
		s := new(big.Rat).Quo(ca, ce)
		s.Mul(s, new(big.Rat).Quo(e.den[""], a.den[""]))
		if requal(a, rmul(e, rconst(s))) {
			return s, true
		}
		return nil, false
	}
	return nil, false
}
