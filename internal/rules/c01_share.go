package rules

import (
	"fmt"
	"go/types"
	"sort"
	"strings"

	"golang.org/x/tools/go/ssa"

	"verif/internal/core"
)

// C01.share — one amount object, one owner. A state-module method *retains* a *big.Int
// parameter when it stores the pointer itself (not a copy) into a state object: Coins.Create
// keeps `volume` and `reserve`, Accounts.SetBalance keeps `amount`. The modules then update
// their amounts in place (AddVolume: volume.Add(volume, x)), so an object retained by two cells
// makes every later change of one appear in the other — value is created or destroyed without
// any transaction moving it, and the supply checker (which is told deltas) does not notice.
// Decided: in the transaction and state packages no value is handed to two retaining
// parameters, and no state-owned amount (a stored field, or the result of an accessor that
// returns the stored object) is handed to a retaining parameter.

var retainCache = map[*ssa.Function][]int{}

// retainedParams: indices (into Params / call Args) of the *big.Int parameters fn retains.
func retainedParams(c *core.Ctx, fn *ssa.Function, depth int) []int {
	if v, ok := retainCache[fn]; ok {
		return v
	}
	retainCache[fn] = nil
	if fn.Blocks == nil || depth > 4 {
		return nil
	}
	var out []int
	for i, p := range fn.Params {
		if !isBigIntPtr(p.Type()) {
			continue
		}
		if retains(c, fn, p, depth) {
			out = append(out, i)
		}
	}
	retainCache[fn] = out
	return out
}

// stateStruct: the struct type is declared in a state package.
func stateStructAddr(addr ssa.Value) bool {
	switch a := addr.(type) {
	case *ssa.FieldAddr:
		return strings.HasPrefix(structPkg(a), core.PkgState+"/")
	case *ssa.IndexAddr:
		// an element of a slice/array reached from a state struct field
		if ld, ok := core.Unwrap(a.X).(*ssa.UnOp); ok {
			if fa, ok := ld.X.(*ssa.FieldAddr); ok {
				return strings.HasPrefix(structPkg(fa), core.PkgState+"/")
			}
		}
	}
	return false
}

func retains(c *core.Ctx, fn *ssa.Function, p *ssa.Parameter, depth int) bool {
	for _, r := range *p.Referrers() {
		switch x := r.(type) {
		case *ssa.Store:
			if core.Unwrap(x.Val) == ssa.Value(p) && stateStructAddr(x.Addr) {
				return true
			}
		case *ssa.MapUpdate:
			if core.Unwrap(x.Value) == ssa.Value(p) {
				if ld, ok := core.Unwrap(x.Map).(*ssa.UnOp); ok {
					if fa, ok := ld.X.(*ssa.FieldAddr); ok && strings.HasPrefix(structPkg(fa), core.PkgState+"/") {
						return true
					}
				}
			}
		case ssa.CallInstruction:
			cc := x.Common()
			var callees []*ssa.Function
			if sc := cc.StaticCallee(); sc != nil {
				callees = append(callees, sc)
			} else if cc.IsInvoke() {
				callees = stateImpls(c, cc)
			}
			for _, callee := range callees {
				if !c.InRepo(callee) || !(strings.HasPrefix(core.PkgOf(callee), core.PkgState+"/") || core.PkgOf(callee) == core.PkgState) {
					continue
				}
				for _, pi := range retainedParams(c, callee, depth+1) {
					ai := pi
					if cc.IsInvoke() {
						ai = pi - 1 // Args exclude the receiver for invoke calls
					}
					if ai >= 0 && ai < len(cc.Args) && core.Unwrap(cc.Args[ai]) == ssa.Value(p) {
						return true
					}
				}
			}
		}
	}
	return false
}

// stateImpls: the state-package methods an interface call may reach.
func stateImpls(c *core.Ctx, cc *ssa.CallCommon) []*ssa.Function {
	it, ok := cc.Value.Type().Underlying().(*types.Interface)
	if !ok {
		return nil
	}
	var out []*ssa.Function
	for _, fn := range c.AllFns {
		if fn.Synthetic != "" || fn.Signature.Recv() == nil || fn.Name() != cc.Method.Name() || fn.Blocks == nil {
			continue
		}
		if !strings.HasPrefix(core.PkgOf(fn), core.PkgState+"/") {
			continue
		}
		if types.Implements(fn.Signature.Recv().Type(), it) {
			out = append(out, fn)
		}
	}
	return out
}

type retainUse struct {
	site   *core.Site
	callee *ssa.Function
	param  int
	val    ssa.Value
}

func checkShare(c *core.Ctx, rule string) {
	nSites, nFns := 0, 0
	for _, fn := range c.AllFns {
		pk := core.PkgOf(fn)
		if !(pk == core.PkgTx || strings.HasPrefix(pk, core.PkgState+"/") || pk == core.PkgState || pk == "coreV2/minter") || fn.Blocks == nil {
			continue
		}
		var uses []retainUse
		for _, s := range core.Sites(fn) {
			var callees []*ssa.Function
			if sc := s.Common.StaticCallee(); sc != nil {
				callees = append(callees, sc)
			} else if s.Common.IsInvoke() {
				callees = stateImpls(c, s.Common)
			}
			for _, callee := range callees {
				if !c.InRepo(callee) || !(strings.HasPrefix(core.PkgOf(callee), core.PkgState+"/") || core.PkgOf(callee) == core.PkgState) {
					continue
				}
				for _, pi := range retainedParams(c, callee, 0) {
					ai := pi
					if s.Common.IsInvoke() {
						ai = pi - 1
					}
					if ai < 0 || ai >= len(s.Common.Args) {
						continue
					}
					uses = append(uses, retainUse{site: s, callee: callee, param: pi, val: s.Common.Args[ai]})
				}
			}
		}
		if len(uses) == 0 {
			continue
		}
		nFns++
		sort.SliceStable(uses, func(i, j int) bool { return uses[i].site.Pos() < uses[j].site.Pos() })
		ord := map[string]int{}
		for i, u := range uses {
			nSites++
			k := core.ShortFn(fn) + "/" + u.callee.Name() + "." + core.ParamName(u.callee.Params[u.param])
			ord[k]++
			key := fmt.Sprintf("%s#%d", k, ord[k])
			// (a) the same object handed to another retaining parameter
			dup := -1
			for j, w := range uses {
				if j == i || (w.site == u.site && w.param == u.param && w.callee == u.callee) {
					continue
				}
				if w.site == u.site && w.param == u.param {
					continue // the same call resolved to several implementations
				}
				if (core.Unwrap(w.val) == core.Unwrap(u.val) || (core.Path(u.val) != "" && core.SamePath(w.val, u.val))) && !isFreshEachTime(u.val) && coExecutable(u.site, w.site, core.Unwrap(u.val)) {
					dup = j
					break
				}
			}
			if dup >= 0 {
				w := uses[dup]
				c.Bad(rule, key, u.site.Pos(), fmt.Sprintf("the amount object passed here is kept by %s (parameter %s) and the very same object is also kept by %s (parameter %s) at %s: two state cells share one big.Int, so an in-place change of one changes the other",
					core.ShortFn(u.callee), u.callee.Params[u.param].Name(), core.ShortFn(w.callee), w.callee.Params[w.param].Name(), c.PosStr(w.site.Pos())))
				continue
			}
			// (b) a state-owned object handed over: the new cell aliases the cell it was read from
			if ok, why := stateOwned(c, u.val, 0, map[ssa.Value]bool{}); ok && !sameCellWriteBack(u) {
				c.Bad(rule, key, u.site.Pos(), fmt.Sprintf("%s keeps the object passed as %s, and the object passed is itself stored in the state (%s): two state cells share one big.Int", core.ShortFn(u.callee), u.callee.Params[u.param].Name(), why))
				continue
			}
			c.OK(rule, key, u.site.Pos(), "the retained amount object has no other owner")
		}
	}
	c.Floor(rule, nSites, 20, "arguments handed to amount-retaining parameters of state methods")
	_ = nFns
}

// isFreshEachTime: a constant nil (no object).
func isFreshEachTime(v ssa.Value) bool {
	k, ok := core.Unwrap(v).(*ssa.Const)
	return ok && k.IsNil()
}

// sameCellWriteBack: a method of a state object stores a field of that very object back
// through its own setter (no second cell is involved).
func sameCellWriteBack(u retainUse) bool {
	return false
}

// coExecutable: both calls can execute on one path that creates the value once (exclusive
// branches do not, and in a loop the value defined in the body is a new object per iteration).
func coExecutable(a, b *core.Site, def ssa.Value) bool {
	ba, bb := a.Block(), b.Block()
	if ba == bb {
		return true
	}
	avoid := map[*ssa.BasicBlock]bool{}
	if in, ok := def.(ssa.Instruction); ok && in.Block() != nil && in.Block() != ba && in.Block() != bb {
		avoid[in.Block()] = true
	}
	return core.ReachFrom(ba, avoid)[bb] || core.ReachFrom(bb, avoid)[ba]
}
