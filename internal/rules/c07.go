package rules

import (
	"fmt"
	"go/token"
	"go/types"
	"sort"
	"strings"

	"golang.org/x/tools/go/ssa"

	"verif/internal/core"
)

func init() {
	register(&RuleSet{
		Meta: core.PropertyMeta{
			ID: "C07",
			Explanation: "Arithmetic panics (nil *big.Int, index arithmetic other than the padding idiom, divisions other than those of C07.divzero), third-party code, the RLP decoder's internals and resource exhaustion are NOT decided. Decided, over all repository code reachable from DeliverTx/CheckTx/BeginBlock/EndBlock/Commit (live handlers only), four structural panic classes: " +
				"(inventory) every explicit panic / log.Panic* / log.Fatal* / os.Exit site is classified: `io` = dominated by the error edge of a database, tree or encoder call inside a storage package (this node's own data), or listed in the confirmed table with a reason; an unlisted site is a violation, so a new panic on an input path cannot appear silently; " +
				"(precheck) a state mutator that can panic on its arguments (derived: a non-io panic in it or in its same-module callees) is 'partial'; every call of a partial mutator from a live handler's deliver block must be dominated by the outcome of its registered pre-check sibling on the same arguments (CheckMint→PairMint, CheckBurn→PairBurn, CheckCreate→PairCreate, IsBlockedPubKey→ChangePubKey, WaitList.Get≠nil→Waitlist.Delete, symbol-exists→Recreate*, IsOrderAlreadyUsed→PairRemoveLimitOrder …); a partial mutator with no registered pre-check is a violation; " +
				"(feeswap) the amount handed to the fee swap PairSellWithOrders(commissionCoin, base, amount, 0) is, on every acyclic path, an amount that a successful CalculateCommission / CheckSwap on the same pool produced or validated — selling an unvalidated amount panics inside the pool (found and repaired: the balance-capped failure fee was validated only for custom-coin price tables; 1 pip of a pool token crashed DeliverTx); " +
				"(nil) in block-level protocol code (BeginBlock/EndBlock outside RunTx) the result of a may-return-nil state lookup is not dereferenced unless dominated by a nil test of that value or listed with the invariant that excludes nil; " +
				"(assert) single-value type assertions on tx.decodedData in RunTx are dominated by the matching tx.Type test; " +
				"(pricenil) CommissionData of every live type — evaluated by RunTx before the data is validated — returns only price-table fields and arithmetic over them, never a map element, nil or a value of unknown origin; " +
				"(pricecoin) a commission vote is recorded only for the base coin or a coin that has a swap pool with the base coin: RunTx converts every fee through that pool without checking that it exists; " +
				"(pad) a slice bound, make length or index of the form `constant − n` with n derived from a len(…) — the fixed-width padding of a signature part or check lock decoded from a transaction — is governed by a comparison that excludes n > constant, or n is the length of an array, or the integer was range-checked by crypto.ValidateSignatureValues.",
			Assumptions: append([]string{"a pre-check sibling rejects exactly the arguments on which its mutator panics (their arithmetic is not compared)"}, stdAssumptions...),
			Rules:       []string{"C07.inventory", "C07.precheck", "C07.feeswap", "C07.nil", "C07.assert", "C07.pricenil", "C07.pricecoin", "C07.divzero", "C07.pad"},
		},
		Run: runC07,
	})
}

// ---------------------------------------------------------------- reachability

// CrashReach: repo functions reachable from the ABCI methods that process untrusted input.
func CrashReach(c *core.Ctx, rule string) map[*ssa.Function]*ssa.Function {
	live := map[*ssa.Function]bool{}
	if hs, err := c.Live(); err == nil {
		for _, h := range hs {
			live[h.Run] = true
		}
	}
	runTx := c.RunTx()
	var roots []*ssa.Function
	for _, n := range []string{"BeginBlock", "DeliverTx", "CheckTx", "EndBlock", "Commit"} {
		if fn := c.MustFn(rule, "(*coreV2/minter.Blockchain)."+n); fn != nil {
			roots = append(roots, fn)
		}
	}
	return c.CG().Reachable(roots, func(fn *ssa.Function) bool {
		if strings.HasPrefix(core.PkgOf(fn), core.PkgTx) && fn.Signature.Recv() != nil {
			switch fn.Name() {
			case "Run":
				return !live[fn] && !isWrapperOfLive(fn, live)
			case "RunTx":
				return fn != runTx && !strings.Contains(fn.Synthetic, "wrapper")
			}
		}
		return false
	})
}

// ---------------------------------------------------------------- panic sites

type panicSite struct {
	fn    *ssa.Function
	instr ssa.Instruction
	what  string // "panic" | "log.Panicf" | "os.Exit" …
	io    string // non-empty: the failing library call that governs it
}

var storagePkgs = []string{"coreV2/state", "coreV2/appdb", "coreV2/events", "tree"}

func inStoragePkg(fn *ssa.Function) bool {
	p := core.PkgOf(fn)
	for _, s := range storagePkgs {
		if p == s || strings.HasPrefix(p, s+"/") {
			return true
		}
	}
	return false
}

var panicCache = map[*ssa.Function][]panicSite{}

func panicSitesOf(c *core.Ctx, fn *ssa.Function) []panicSite {
	if v, ok := panicCache[fn]; ok {
		return v
	}
	var out []panicSite
	for _, b := range fn.Blocks {
		for _, in := range b.Instrs {
			var what string
			switch x := in.(type) {
			case *ssa.Panic:
				what = "panic"
			case ssa.CallInstruction:
				n := core.CalleeName(x.Common())
				if strings.HasPrefix(n, "log.Panic") || strings.HasPrefix(n, "log.Fatal") || n == "os.Exit" || strings.HasSuffix(n, ".Fatal") || strings.HasSuffix(n, ".Fatalf") || strings.HasSuffix(n, ".Panic") || strings.HasSuffix(n, ".Panicf") {
					what = n
				}
			}
			if what == "" {
				continue
			}
			ps := panicSite{fn: fn, instr: in, what: what}
			ps.io = ioGoverned(c, in)
			out = append(out, ps)
		}
	}
	panicCache[fn] = out
	return out
}

// ioGoverned: the site is dominated by the true edge of `err != nil` where err is a result of a
// call into a library (database, tree, codec) — or into the repository's own rlp / tree packages —
// made from a storage package, or of an Encode/Marshal call anywhere. Returns the call's name.
func ioGoverned(c *core.Ctx, in ssa.Instruction) string {
	fn := in.Parent()
	for _, g := range core.GatesBefore(in) {
		bin, ok := g.If.Cond.(*ssa.BinOp)
		if !ok || !(bin.Op == token.NEQ && g.PassTrue || bin.Op == token.EQL && !g.PassTrue) {
			continue
		}
		var x ssa.Value
		if isNil(bin.Y) {
			x = bin.X
		} else if isNil(bin.X) {
			x = bin.Y
		} else {
			continue
		}
		if !isErrorType(x.Type()) {
			continue
		}
		for _, o := range core.Origins(x) {
			var call *ssa.Call
			switch v := o.(type) {
			case *ssa.Call:
				call = v
			case *ssa.Extract:
				call, _ = v.Tuple.(*ssa.Call)
			}
			if call == nil {
				continue
			}
			name := core.CalleeName(core.NormCall(&call.Call))
			if name == "" {
				continue
			}
			lib := !strings.Contains(name, "coreV2/") && !strings.HasPrefix(name, "(*coreV2") && !strings.HasPrefix(name, "helpers.") && !strings.HasPrefix(name, "cmd/") && !strings.HasPrefix(name, "api/")
			encode := strings.Contains(name, "Encode") || strings.Contains(name, "Marshal")
			if lib && (encode && !strings.Contains(name, "Unmarshal") || inStoragePkg(fn)) {
				return name
			}
		}
	}
	return ""
}

// inventoryCeil: number of non-io fail-stop sites per exempted function when it was confirmed
// (functions not listed: 1).
var inventoryCeil = map[string]int{
	"(*coreV2/minter.Blockchain).Commit":                        6,
	"(*coreV2/state/swap.PairV2).BuyWithOrders":                 2,
	"(*coreV2/state/swap.PairV2).SellWithOrders":                3,
	"(*coreV2/state/swap.PairV2).calculateBuyForSellWithOrders": 3,
	"(*coreV2/state/swap.PairV2).calculateSellForBuyWithOrders": 3,
	"(*coreV2/state/waitlist.WaitList).Delete":                  2,
}

func isErrorType(t types.Type) bool {
	n, ok := t.(*types.Named)
	return ok && n.Obj().Pkg() == nil && n.Obj().Name() == "error"
}

// inventoryTable: function → reason, for non-io panic sites confirmed by reading. A site in a
// function that is not listed here fails C07.inventory.
var inventoryTable = map[string]string{
	// ---- deliberate fail-stop / halting
	"(*coreV2/minter.Blockchain).Commit":    "fail-stop: state invariant checker (stateDeliver.Check), events/tree commit errors; os.Exit only after a voted halt (`stopped`), the behaviour the halt vote asks for",
	"(*coreV2/minter.Blockchain).stop":      "os.Exit after a halt decided by >2/3 of the voting power or an operator signal; the documented behaviour",
	"(*coreV2/minter.Blockchain).initState": "start-up: cannot open the state database",
	// ---- partial mutators: discharged call site by call site by C07.precheck / C07.feeswap
	"(*coreV2/state/swap.PairV2).Mint":                          "precheck: CheckMint",
	"(*coreV2/state/swap.PairV2).Create":                        "precheck: CheckCreate",
	"(*coreV2/state/swap.PairV2).Burn":                          "precheck: CheckBurn",
	"(*coreV2/state/swap.PairV2).SellWithOrders":                "precheck: CheckSwap / CalculateCommission on the same pool (C07.feeswap for fee swaps; route swaps: numeric agreement of the check loop, declined)",
	"(*coreV2/state/swap.PairV2).BuyWithOrders":                 "precheck: CheckSwap on the same pool (route swaps: numeric agreement declined)",
	"(*coreV2/state/swap.PairV2).calculateBuyForSellWithOrders": "order-book consistency assertions (an order in the sorted list that cannot be loaded / has a non-positive volume): storage invariants of the order cache, declined under C14",
	"(*coreV2/state/swap.PairV2).calculateSellForBuyWithOrders": "order-book consistency assertions, as above",
	"(*coreV2/state/swap.SwapV2).PairSellWithOrders":            "amount1Out < minAmount1Out: every live caller passes big.NewInt(0) (checked: C07.precheck const-arg) except SellAllCoin (frozen exception, see precheckTable)",
	"(*coreV2/state/swap.SwapV2).PairBuyWithOrders":             "amount1Out > maxAmount0In compares the requested output with the input bound (a no-op comparison in practice); callers pass values validated by CheckSwap",
	"(*coreV2/state/swap.SwapV2).ReturnPair":                    "identical coins: every handler rejects coin0 == coin1 before (C07.precheck: CreateSwapPool/AddLimitOrder identical-coin gates)",
	"(*coreV2/state/swap.SwapV2).Pair":                          "identical coins / undecodable pool record: callers pass distinct coins (gated) or stored pool keys",
	"(*coreV2/state/swap.SwapV2).ExpireOrders$1":                "iteration over this node's own stored order index",
	"(*coreV2/state/swap.Limit).isEmpty":                        "order with exactly one zero side: storage invariant of orders (both sides are zeroed together)",
	"(*coreV2/state/candidates.Candidates).ChangePubKey":        "precheck: IsBlockedPubKey",
	"(*coreV2/state/coins.Coins).Recreate":                      "precheck: symbol exists",
	"(*coreV2/state/coins.Coins).RecreateToken":                 "precheck: symbol exists",
	"(*coreV2/state/waitlist.WaitList).Delete":                  "precheck: WaitList.Get != nil",
	"(coreV2/transaction.RemoveLimitOrderData).Run":             "precheck: IsOrderAlreadyUsed (the deliver block re-asserts it)",
	"(*coreV2/state/candidates.Candidates).setPubKeyID":         "id == 0: callers pass maxID+1 (getOrNewID), the id of an existing candidate (ChangePubKey, whose handler is owner-gated: C07.precheck) or a genesis id (import)",
	"(*coreV2/state/waitlist.WaitList).AddWaitList":             "precheck: the candidate exists (C07.precheck: Exists(pubkey) gate of Unbond/MoveStake)",
	"helpers.StringToBigInt":                                    "callers on crash-reachable paths are restricted to functions that pass literals compiled into the binary (C07.inventory callers rule)",
	// ---- enumerations and constants
	"(coreV2/events.Role).String":                 "switch over the four Role constants; Role values are produced only by NewRole / constants",
	"coreV2/events.NewRole":                       "switch over the four role strings the reward code passes as constants",
	"coreV2/types.getBaseCoin":                    "switch over the chain id constant compiled into the node",
	"coreV2/state/accounts.CreateMultisigAddress": "rlp encoding of an in-memory struct of an address and a counter (cannot fail)",
	"coreV2/transaction.rlpHash":                  "rlp encoding of an in-memory transaction (cannot fail for decoded values)",
	"coreV2/check.rlpHash":                        "rlp encoding of an in-memory check",
	"coreV2/transaction.EncodeError":              "json encoding of an in-memory error struct",
	"(*coreV2/transaction.tagPoolChange).string":  "json encoding of an in-memory tag struct",
	"(*coreV2/transaction.tagPoolsChange).string": "json encoding of an in-memory tag struct",
	"(*coreV2/state/commission.Price).Encode":     "rlp encoding of an in-memory price table",
	// ---- reward / price machinery fed by state, not by request bytes
	"(*coreV2/state/validators.Validators).PayRewardsV3":    "negative remainder assertion over amounts computed from stakes (arithmetic, declined under C19)",
	"(*coreV2/state/validators.Validators).PayRewardsV4":    "as PayRewardsV3",
	"(*coreV2/state/validators.Validators).PayRewardsV5Bug": "as PayRewardsV3",
	"(*coreV2/state/validators.Validators).PayRewardsV5Fix": "as PayRewardsV3",
	"math.Log":  "domain assertion of the repository's big-float math on the reward price (state-derived, arithmetic declined under C28)",
	"math.Pow":  "as math.Log",
	"math.Sqrt": "as math.Log",
	"math.agm":  "as math.Log",
	// ---- legacy V1 pool module: CHA keeps it reachable through the swap interfaces although state.State wires SwapV2
	"legacy:coreV2/state/swap.Swap": "methods of the superseded V1 pool module (Swap/Pair); the live state uses SwapV2/PairV2 (C07.inventory verifies State.Swapper() returns SwapV2)",
}

// inventoryCallers: for helper functions that panic on bad input, the only functions allowed to
// call them on crash-reachable paths.
var inventoryCallers = map[string]map[string]string{
	"helpers.StringToBigInt": {
		"(*coreV2/state/candidates.Candidates).FixStakesAfter10509400": "hard-coded correction table (string literals)",
		"(*coreV2/state/commission.Commission).Export":                 "not on a consensus path; export of in-memory big.Int strings",
	},
}

func legacyV1(fn *ssa.Function) bool {
	n := core.ShortFn(fn)
	return strings.HasPrefix(n, "(*coreV2/state/swap.Swap).") || strings.HasPrefix(n, "(*coreV2/state/swap.Pair).") || n == "coreV2/state/swap.pricePath"
}

// ---------------------------------------------------------------- partial mutators

var partialCache = map[*ssa.Function][]panicSite{}

// partialPanics: non-io panic sites in fn or in repo callees of the same module (depth ≤ 3),
// excluding storage getters (`get`, `load*`, `Load*`, Commit) whose panics are io by table.
func partialPanics(c *core.Ctx, fn *ssa.Function, depth int, seen map[*ssa.Function]bool) []panicSite {
	if depth == 3 {
		if v, ok := partialCache[fn]; ok {
			return v
		}
	}
	var out []panicSite
	if seen[fn] {
		return nil
	}
	seen[fn] = true
	for _, ps := range panicSitesOf(c, fn) {
		if ps.io == "" {
			out = append(out, ps)
		}
	}
	if depth > 0 {
		for _, s := range core.Sites(fn) {
			cal := s.Common.StaticCallee()
			if cal == nil || cal.Blocks == nil || !c.InRepo(cal) || core.PkgOf(cal) != core.PkgOf(fn) {
				continue
			}
			out = append(out, partialPanics(c, cal, depth-1, seen)...)
		}
	}
	if depth == 3 {
		partialCache[fn] = out
	}
	return out
}

// ---------------------------------------------------------------- precheck table

// nilErrFact: some fact says "<call named *name> returned a nil error" (err != nil is false).
func factCallOutcome(facts []core.Fact, method string, want func(cf core.CallFact, isNilCmp bool, eq bool) bool) bool {
	for _, f := range facts {
		// boolean / integer comparison forms
		if cf, ok := f.AsCall(); ok && cf.MethodName() == method {
			if want(cf, false, false) {
				return true
			}
		}
		// nil comparison forms
		if bin, ok := f.Cond.(*ssa.BinOp); ok && (bin.Op == token.EQL || bin.Op == token.NEQ) {
			var x ssa.Value
			if isNil(bin.Y) {
				x = bin.X
			} else if isNil(bin.X) {
				x = bin.Y
			}
			if x == nil {
				continue
			}
			var call *ssa.Call
			switch v := core.Unwrap(x).(type) {
			case *ssa.Call:
				call = v
			case *ssa.Extract:
				call, _ = v.Tuple.(*ssa.Call)
			}
			if call == nil {
				continue
			}
			name := core.CalleeName(core.NormCall(&call.Call))
			if i := strings.LastIndex(name, "."); i >= 0 {
				name = name[i+1:]
			}
			if name != method {
				continue
			}
			isNilNow := (bin.Op == token.EQL) == f.Truth
			cf := core.CallFact{Fact: f, Call: call, Name: core.CalleeName(core.NormCall(&call.Call))}
			if want(cf, true, isNilNow) {
				return true
			}
		}
	}
	return false
}

// possibleErrors: the set of package-level error variables the (static or CHA-resolved) callees of
// call may return in result position idx, plus whether anything else (unknown) may be returned.
func possibleErrors(c *core.Ctx, caller *ssa.Function, call *ssa.Call, idx int) (map[string]bool, bool) {
	var targets []*ssa.Function
	if sc := call.Call.StaticCallee(); sc != nil {
		targets = append(targets, sc)
	} else if call.Call.IsInvoke() {
		for _, cal := range c.CG().Edges[caller] {
			if cal.Name() == call.Call.Method.Name() && cal.Signature.Recv() != nil && cal.Synthetic == "" {
				targets = append(targets, cal)
			}
		}
	}
	if len(targets) == 0 {
		return nil, true
	}
	out := map[string]bool{}
	for _, t := range targets {
		if t.Blocks == nil {
			return nil, true
		}
		for _, o := range core.ResultOrigins(t, idx) {
			if isNil(o) {
				continue
			}
			if ld, ok := o.(*ssa.UnOp); ok && ld.Op == token.MUL {
				if g, ok := ld.X.(*ssa.Global); ok {
					out[g.Name()] = true
					continue
				}
			}
			return nil, true
		}
	}
	return out, false
}

// errSwitchCleared: the site is reachable from `err := call(...)` only with err == nil or after
// every error value the callee can return has been excluded by an `err == ErrX` test whose true
// edge cannot reach the site (the handlers' idiom: `if err != nil { if err == A {return…} else if
// err == B {return…} }` which falls through for any other error).
func errSwitchCleared(c *core.Ctx, s *core.Site, method string, pairs [][2]int, pre ...string) bool {
	fn := s.Fn
	for _, cs := range core.Sites(fn) {
		call, ok := cs.Instr.(*ssa.Call)
		if !ok || methodName(cs) != method || !core.Dominates(call, s.Instr) {
			continue
		}
		match := true
		for _, pr := range pairs {
			if !core.SameValue(cs.Arg(pr[0]), s.Arg(pr[1])) {
				match = false
			}
		}
		if !match || !isErrorType(call.Type()) {
			continue
		}
		possible, unknown := possibleErrors(c, fn, call, 0)
		if unknown {
			continue
		}
		// the `err != nil` branch
		var head *ssa.If
		var errSucc, nilSucc *ssa.BasicBlock
		for _, r := range *call.Referrers() {
			bin, ok := r.(*ssa.BinOp)
			if !ok || !(bin.Op == token.NEQ || bin.Op == token.EQL) || !(isNil(bin.X) || isNil(bin.Y)) {
				continue
			}
			for _, rr := range *bin.Referrers() {
				if iff, ok := rr.(*ssa.If); ok {
					head = iff
					if bin.Op == token.NEQ {
						errSucc, nilSucc = iff.Block().Succs[0], iff.Block().Succs[1]
					} else {
						errSucc, nilSucc = iff.Block().Succs[1], iff.Block().Succs[0]
					}
				}
			}
		}
		if head == nil || !head.Block().Dominates(s.Block()) {
			continue
		}
		fromNil := core.ReachFrom(nilSucc, map[*ssa.BasicBlock]bool{head.Block(): true})
		// enumerate paths inside the error region until they leave it (join with the nil side)
		okAll := true
		var dfs func(b *ssa.BasicBlock, excluded map[string]bool, depth int)
		dfs = func(b *ssa.BasicBlock, excluded map[string]bool, depth int) {
			if !okAll || depth > 40 {
				okAll = okAll && depth <= 40
				return
			}
			if fromNil[b] || b == nilSucc {
				// left the error region: can the site still be reached?
				if core.ReachFrom(b, nil)[s.Block()] {
					for e := range possible {
						if !excluded[e] {
							okAll = false
						}
					}
				}
				return
			}
			iff := core.IfOf(b)
			if iff != nil {
				if bin, ok := iff.Cond.(*ssa.BinOp); ok && (bin.Op == token.EQL || bin.Op == token.NEQ) {
					var other ssa.Value
					if core.Unwrap(bin.X) == call {
						other = bin.Y
					} else if core.Unwrap(bin.Y) == call {
						other = bin.X
					}
					if other != nil {
						if ld, ok := core.Unwrap(other).(*ssa.UnOp); ok {
							if g, ok := ld.X.(*ssa.Global); ok {
								eqSucc, neSucc := b.Succs[0], b.Succs[1]
								if bin.Op == token.NEQ {
									eqSucc, neSucc = neSucc, eqSucc
								}
								// err == G side: only G is possible there
								if core.ReachFrom(eqSucc, nil)[s.Block()] {
									only := map[string]bool{}
									for e := range possible {
										if e != g.Name() {
											only[e] = true
										}
									}
									for e := range excluded {
										only[e] = true
									}
									dfs(eqSucc, only, depth+1)
								}
								ex2 := map[string]bool{g.Name(): true}
								for e := range excluded {
									ex2[e] = true
								}
								dfs(neSucc, ex2, depth+1)
								return
							}
						}
					}
				}
			}
			for _, nb := range b.Succs {
				dfs(nb, excluded, depth+1)
			}
		}
		start := map[string]bool{}
		for _, e := range pre {
			start[e] = true
		}
		dfs(errSucc, start, 0)
		if okAll {
			return true
		}
	}
	return false
}

type precheck struct {
	descr string
	check func(c *core.Ctx, s *core.Site, facts []core.Fact) bool
}

func argsMatch(cf core.CallFact, s *core.Site, pairs [][2]int) bool {
	for _, p := range pairs {
		a := strings.TrimPrefix(core.Path(s.Arg(p[1])), "&")
		if a == "" || cf.ArgPath(p[0]) != a {
			return false
		}
	}
	return true
}

// precheckTable: partial mutator (bare method name as called on the deliver state) → the
// pre-check outcome that must dominate the call.
var precheckTable = map[string]precheck{
	"PairMint": {"swapper.CheckMint(volume0, …, totalSupply) returned nil for the same volume0 and total supply", func(c *core.Ctx, s *core.Site, facts []core.Fact) bool {
		return factCallOutcome(facts, "CheckMint", func(cf core.CallFact, nilCmp, isNil bool) bool {
			return nilCmp && isNil && argsMatch(cf, s, [][2]int{{0, 2}, {2, 4}})
		}) || errSwitchCleared(c, s, "CheckMint", [][2]int{{0, 2}, {2, 4}})
	}},
	"PairBurn": {"swapper.CheckBurn(liquidity, min0, min1, totalSupply) returned nil for the same arguments", func(c *core.Ctx, s *core.Site, facts []core.Fact) bool {
		return factCallOutcome(facts, "CheckBurn", func(cf core.CallFact, nilCmp, isNil bool) bool {
			return nilCmp && isNil && argsMatch(cf, s, [][2]int{{0, 2}, {1, 3}, {2, 4}, {3, 5}})
		}) || (poolExistsFact(s, facts) && errSwitchCleared(c, s, "CheckBurn", [][2]int{{0, 2}, {1, 3}, {2, 4}, {3, 5}}, "ErrorNotExist"))
	}},
	"PairCreate": {"swapper.CheckCreate(volume0, volume1) returned nil for the same volumes", func(c *core.Ctx, s *core.Site, facts []core.Fact) bool {
		return factCallOutcome(facts, "CheckCreate", func(cf core.CallFact, nilCmp, isNil bool) bool {
			return nilCmp && isNil && argsMatch(cf, s, [][2]int{{0, 2}, {1, 3}})
		}) || errSwitchCleared(c, s, "CheckCreate", [][2]int{{0, 2}, {1, 3}})
	}},
	"ChangePubKey": {"Candidates().IsBlockedPubKey(newKey) is false for the same key", func(c *core.Ctx, s *core.Site, facts []core.Fact) bool {
		return factCallOutcome(facts, "IsBlockedPubKey", func(cf core.CallFact, nilCmp, isNil bool) bool {
			return !nilCmp && cf.Op == token.ILLEGAL && !cf.Truth && argsMatch(cf, s, [][2]int{{0, 1}})
		})
	}},
	"Delete": {"WaitList().Get(address, pubkey, coin) != nil for the same triple", func(c *core.Ctx, s *core.Site, facts []core.Fact) bool {
		return factCallOutcome(facts, "Get", func(cf core.CallFact, nilCmp, isNil bool) bool {
			return nilCmp && !isNil && argsMatch(cf, s, [][2]int{{0, 0}, {1, 1}, {2, 2}})
		})
	}},
	"Recreate": {"the ticker exists: GetCoinBySymbol(data.Symbol, 0) != nil / ExistsBySymbol", func(c *core.Ctx, s *core.Site, facts []core.Fact) bool {
		return symbolExistsFact(s, facts)
	}},
	"RecreateToken": {"the ticker exists: GetCoinBySymbol(data.Symbol, 0) != nil / ExistsBySymbol", func(c *core.Ctx, s *core.Site, facts []core.Fact) bool {
		return symbolExistsFact(s, facts)
	}},
	"AddWaitList": {"the candidate id exists: Candidates().Exists(pubkey) / GetCandidate(pubkey) != nil / WaitList.Get(_, pubkey, _) != nil for the same key", func(c *core.Ctx, s *core.Site, facts []core.Fact) bool {
		key := strings.TrimPrefix(core.Path(s.Arg(1)), "&")
		return key != "" && (factCallOutcome(facts, "Exists", func(cf core.CallFact, nilCmp, isNil bool) bool {
			return !nilCmp && cf.Op == token.ILLEGAL && cf.Truth && cf.ArgPath(0) == key
		}) || factCallOutcome(facts, "GetCandidate", func(cf core.CallFact, nilCmp, isNil bool) bool {
			return nilCmp && !isNil && cf.ArgPath(0) == key
		}) || factCallOutcome(facts, "Get", func(cf core.CallFact, nilCmp, isNil bool) bool {
			// WaitList.Get(a, pubkey, coin) != nil implies Candidates().ID(pubkey) != 0, the very test AddWaitList panics on
			return nilCmp && !isNil && strings.HasSuffix(cf.Name, "WaitList).Get") && cf.ArgPath(1) == key
		}))
	}},
	"PairRemoveLimitOrder": {"IsOrderAlreadyUsed(id) is false for the same id", func(c *core.Ctx, s *core.Site, facts []core.Fact) bool {
		return factCallOutcome(facts, "IsOrderAlreadyUsed", func(cf core.CallFact, nilCmp, isNil bool) bool {
			return !nilCmp && cf.Op == token.ILLEGAL && !cf.Truth && argsMatch(cf, s, [][2]int{{0, 0}})
		})
	}},
}

// poolExistsFact: SwapPoolExist(coin0, coin1) holds for the pool the mutator addresses (this
// excludes CheckBurn's ErrorNotExist, which it returns only for a missing pool).
func poolExistsFact(s *core.Site, facts []core.Fact) bool {
	a0, a1 := strings.TrimPrefix(core.Path(s.Arg(0)), "&"), strings.TrimPrefix(core.Path(s.Arg(1)), "&")
	return a0 != "" && (factCallOutcome(facts, "SwapPoolExist", func(cf core.CallFact, nilCmp, isNil bool) bool {
		return !nilCmp && cf.Op == token.ILLEGAL && cf.Truth && cf.ArgPath(0) == a0 && cf.ArgPath(1) == a1
	}) || factCallOutcome(facts, "Exists", func(cf core.CallFact, nilCmp, isNil bool) bool {
		return !nilCmp && cf.Op == token.ILLEGAL && cf.Truth && strings.HasSuffix(cf.RecvPath(), ".GetSwapper("+a0+","+a1+")")
	}))
}

func symbolExistsFact(s *core.Site, facts []core.Fact) bool {
	// the symbol argument of Recreate*/RecreateToken
	var sym string
	for i := 0; i < 10; i++ {
		a := s.Arg(i)
		if a == nil {
			break
		}
		if strings.HasSuffix(a.Type().String(), "types.CoinSymbol") {
			sym = strings.TrimPrefix(core.Path(a), "&")
		}
	}
	if sym == "" {
		return false
	}
	return factCallOutcome(facts, "GetCoinBySymbol", func(cf core.CallFact, nilCmp, isNil bool) bool {
		return nilCmp && !isNil && cf.ArgPath(0) == sym
	}) || factCallOutcome(facts, "GetSymbolInfo", func(cf core.CallFact, nilCmp, isNil bool) bool {
		return nilCmp && !isNil && cf.ArgPath(0) == sym
	}) || factCallOutcome(facts, "ExistsBySymbol", func(cf core.CallFact, nilCmp, isNil bool) bool {
		return !nilCmp && cf.Op == token.ILLEGAL && cf.Truth && cf.ArgPath(0) == sym
	})
}

// partialExempt: partial callees that are not discharged by a dominating pre-check but by another
// rule or a confirmed reason.
var partialExempt = map[string]string{
	"PairSellWithOrders": "fee swaps: C07.feeswap; route swaps: amounts come from the check loop's CheckSwap chain (numeric agreement declined); minimum argument is the constant 0 except SellAllCoin (checked below)",
	"PairBuyWithOrders":  "route swaps: amounts come from the check loop's CheckSwap chain (numeric agreement declined)",
	"Create":             "Candidates.Create reaches setPubKeyID only through getOrNewID, which passes maxID+1 (non-zero)",
	"PairAddOrder":       "AddOrder panics only on a storage error of the order id counter (io) and on identical coins (gated by the handler: C07.precheck/identical)",
}

// ---------------------------------------------------------------- driver

func runC07(c *core.Ctx) {
	defer checkDivZero(c, "C07.divzero")
	reach := CrashReach(c, "C07.inventory")
	var fns []*ssa.Function
	for fn := range reach {
		fns = append(fns, fn)
	}
	sort.Slice(fns, func(i, j int) bool { return fns[i].String() < fns[j].String() })
	c.Stats["crash_reachable_functions"] = len(fns)
	checkLenDifferences(c, "C07.pad", fns)
	if len(fns) < 1000 {
		c.Unk("C07.inventory", "reach-floor", token.NoPos, fmt.Sprintf("only %d functions reachable from the ABCI methods (floor 1000)", len(fns)))
	}

	// ---- inventory
	nSites, nIO := 0, 0
	// exemption of a function: listed in the table, a storage loader/committer, or — so that
	// extracting a block of an exempted function into a helper changes nothing — a function all
	// of whose callers are exempt under one and the same root
	type exempt struct {
		root   *ssa.Function
		reason string
	}
	exMemo := map[*ssa.Function]*exempt{}
	var exemptionOf func(fn *ssa.Function, depth int) *exempt
	exemptionOf = func(fn *ssa.Function, depth int) *exempt {
		if e, ok := exMemo[fn]; ok {
			return e
		}
		exMemo[fn] = nil
		name := core.ShortFn(fn)
		var e *exempt
		switch {
		case legacyV1(fn):
			e = &exempt{fn, inventoryTable["legacy:coreV2/state/swap.Swap"]}
		case inventoryTable[name] != "":
			e = &exempt{fn, "confirmed: " + inventoryTable[name]}
		case inStoragePkg(fn) && isStorageLoader(fn):
			e = &exempt{fn, "storage loader/committer of a state module: decode or write failure of this node's own database"}
		case depth < 3 && fn.Object() != nil && !fn.Object().Exported():
			callers := c.CG().Callers(fn)
			var root *exempt
			for _, cl := range callers {
				ce := exemptionOf(cl, depth+1)
				if ce == nil {
					root = nil
					break
				}
				if root == nil {
					root = ce
				} else if root.reason != ce.reason {
					root = nil
					break
				}
			}
			if root != nil && len(callers) > 0 {
				e = &exempt{root.root, root.reason + " (helper of " + core.ShortFn(root.root) + ")"}
			}
		}
		exMemo[fn] = e
		return e
	}
	groupCount := map[*ssa.Function]int{}
	for _, fn := range fns {
		sites := panicSitesOf(c, fn)
		if len(sites) == 0 {
			continue
		}
		name := core.ShortFn(fn)
		ex := exemptionOf(fn, 0)
		for _, ps := range sites {
			nSites++
			key := name + "/" + ps.what
			switch {
			case ps.io != "":
				nIO++
				c.OK("C07.inventory", key, ps.instr.Pos(), "io: governed by the error of "+ps.io+" on this node's own storage / an encoder")
			case ex != nil:
				if !legacyV1(fn) {
					groupCount[ex.root]++
				}
				c.OK("C07.inventory", key, ps.instr.Pos(), ex.reason)
			default:
				c.Bad("C07.inventory", key, ps.instr.Pos(), fmt.Sprintf("an explicit %s reachable from %s is not classified: not governed by a storage/encoder error and not in the confirmed table — a request that reaches it crashes the node", ps.what, core.PathTo(reach, fn)))
			}
		}
	}
	// an exempted function (with the helpers only it calls) was confirmed with a certain number of
	// fail-stop sites; one more is a new way to stop the node and has to be read
	var roots []*ssa.Function
	for r := range groupCount {
		roots = append(roots, r)
	}
	sort.Slice(roots, func(i, j int) bool { return roots[i].String() < roots[j].String() })
	for _, r := range roots {
		name := core.ShortFn(r)
		ceil := 1
		if k, ok := inventoryCeil[name]; ok {
			ceil = k
		}
		n := groupCount[r]
		c.Check(n <= ceil, "C07.inventory", name+"/site-count", r.Pos(), fmt.Sprintf("%d fail-stop site(s), as confirmed", n),
			fmt.Sprintf("%s (with the helpers only it calls) has %d explicit panic/exit sites that are not governed by a storage or encoder error; %d were there when the function was confirmed as a deliberate fail-stop — the new one is a new way to stop the node (on restart paths: a node that cannot come back) and is not covered by that confirmation", name, n, ceil))
	}
	for callee, allowed := range inventoryCallers {
		target := c.Fn(callee)
		if target == nil {
			c.Unk("C07.inventory", "callers/"+callee, token.NoPos, "function not found")
			continue
		}
		for _, fn := range fns {
			for _, cal := range c.CG().Edges[fn] {
				if cal != target {
					continue
				}
				reason, ok := allowed[core.ShortFn(fn)]
				c.Check(ok, "C07.inventory", "callers/"+callee+"←"+core.ShortFn(fn), fn.Pos(), "allowed caller: "+reason,
					fmt.Sprintf("%s (panics on malformed input) is called by %s on a path reachable from %s; only callers confirmed to pass compiled-in literals are allowed", callee, core.ShortFn(fn), core.PathTo(reach, fn)))
			}
		}
	}
	c.Floor("C07.inventory", nSites, 100, "explicit panic/exit sites reachable from the ABCI methods")
	c.Stats["panic_sites_io"] = nIO
	// the live state wires the V2 pool module
	checkV2Wiring(c, "C07.inventory")

	// ---- precheck
	checkPrechecks(c, "C07.precheck")
	// ---- feeswap
	checkFeeSwaps(c, "C07.feeswap")
	// ---- nil
	checkBlockLevelNil(c, "C07.nil")
	// ---- assert
	checkDataAsserts(c, "C07.assert")
	// ---- pricenil
	checkPriceTotal(c, "C07.pricenil")
	// ---- pricecoin
	checkPriceCoin(c, "C07.pricecoin")
}

// checkV2Wiring: initState builds the state with NewStateV3, whose constructor stores a fresh
// swap.NewV2 module in State.SwapV2, and State.Swapper() returns SwapV2 whenever it is non-nil —
// so the V1 module's code, which CHA keeps reachable through the swap interfaces, never runs.
func checkV2Wiring(c *core.Ctx, rule string) {
	init := c.MustFn(rule, "(*coreV2/minter.Blockchain).initState")
	if init == nil {
		return
	}
	v3, other := 0, 0
	for _, s := range c.GroupSites(init) {
		switch s.Callee {
		case core.PkgState + ".NewStateV3":
			v3++
		case core.PkgState + ".NewState":
			other++
		}
	}
	c.Check(v3 == 1 && other == 0, rule, "wiring/initState", init.Pos(), "the node's state is built by state.NewStateV3", "initState no longer builds the state with NewStateV3 only: the legacy-module exemption does not hold")
	st := c.Named(core.PkgState, "State")
	good := false
	if st != nil {
		for _, w := range c.FieldWrites(st, "SwapV2") {
			if stt, ok := w.Instr.(*ssa.Store); ok && core.ShortFn(w.Fn) == core.PkgState+".newStateForTreeV2" {
				for _, o := range core.Origins(stt.Val) {
					if call, ok := o.(*ssa.Call); ok && core.CalleeName(core.NormCall(&call.Call)) == core.PkgState+"/swap.NewV2" {
						good = true
					}
				}
			}
		}
	}
	c.Check(good, rule, "wiring/SwapV2", token.NoPos, "newStateForTreeV2 stores swap.NewV2(...) in State.SwapV2", "State.SwapV2 is no longer set to a fresh swap.NewV2 module by newStateForTreeV2")
	if v3fn := c.Fn(core.PkgState + ".NewStateV3"); v3fn != nil {
		calls := false
		for _, s := range core.Sites(v3fn) {
			if s.Callee == core.PkgState+".newStateForTreeV2" {
				calls = true
			}
		}
		c.Check(calls, rule, "wiring/NewStateV3", v3fn.Pos(), "NewStateV3 builds through newStateForTreeV2", "NewStateV3 no longer builds through newStateForTreeV2")
	}
	if sw := c.Fn("(*coreV2/state.State).Swapper"); sw != nil {
		// every return that is not s.SwapV2 must be on the `s.SwapV2 == nil` side
		good := true
		n := 0
		for _, r := range core.Returns(sw) {
			n++
			if strings.HasSuffix(core.Path(r.Results[0]), ".SwapV2") {
				continue
			}
			gated := false
			for _, g := range core.GatesBefore(r) {
				if bin, ok := g.If.Cond.(*ssa.BinOp); ok && strings.HasSuffix(core.Path(bin.X), ".SwapV2") && isNil(bin.Y) && (bin.Op == token.NEQ) != g.PassTrue {
					gated = true
				}
			}
			if !gated {
				good = false
			}
		}
		c.Check(good && n > 0, rule, "wiring/Swapper", sw.Pos(), "State.Swapper() returns SwapV2 whenever it is set", "State.Swapper() can return the legacy module although SwapV2 is set")
	} else {
		c.Unk(rule, "wiring/Swapper", token.NoPos, "State.Swapper not found")
	}
}

func isStorageLoader(fn *ssa.Function) bool {
	n := fn.Name()
	base := n
	if i := strings.Index(base, "$"); i >= 0 {
		base = base[:i]
	}
	switch {
	case base == "get" || base == "getOrNew" || base == "Commit" || base == "Import":
		return true
	case strings.HasPrefix(base, "load") || strings.HasPrefix(base, "Load") || strings.HasPrefix(base, "save") || strings.HasPrefix(base, "Save"):
		return true
	case strings.HasPrefix(base, "getBy") || strings.HasPrefix(base, "getSymbol") || strings.HasPrefix(base, "Get") && inStoragePkgName(fn, "coreV2/appdb"):
		return true
	case inStoragePkgName(fn, "coreV2/appdb") || inStoragePkgName(fn, "coreV2/events"):
		return true
	}
	return false
}

func inStoragePkgName(fn *ssa.Function, p string) bool { return core.PkgOf(fn) == p }

// calleeBare returns the bare method name and the function(s) a site may call (static callee, or
// the SwapV2 method for calls through the anonymous Swapper interface).
func calleeTargets(c *core.Ctx, s *core.Site) (string, []*ssa.Function) {
	if sc := s.Common.StaticCallee(); sc != nil {
		return sc.Name(), []*ssa.Function{sc}
	}
	if s.Common.IsInvoke() {
		name := s.Common.Method.Name()
		var out []*ssa.Function
		rp := core.Path(s.Common.Value)
		if strings.HasSuffix(rp, ".Swapper()") || strings.HasSuffix(rp, ".GetSwap()") {
			if t := c.Named(core.PkgState+"/swap", "SwapV2"); t != nil {
				if fn := c.Method(t, name); fn != nil {
					out = append(out, fn)
				}
			}
		}
		return name, out
	}
	return "", nil
}

func checkPrechecks(c *core.Ctx, rule string) {
	n := 0
	for _, m := range LiveModels(c, rule) {
		for _, mu := range m.Mutators {
			if mu.Module == "rewardPool" {
				continue
			}
			bare, targets := calleeTargets(c, mu.Site)
			var pp []panicSite
			for _, t := range targets {
				pp = append(pp, partialPanics(c, t, 3, map[*ssa.Function]bool{})...)
			}
			// storage-loader panics inside the mutator are io by table
			var real []panicSite
			for _, p := range pp {
				if inStoragePkg(p.fn) && isStorageLoader(p.fn) {
					continue
				}
				real = append(real, p)
			}
			if len(real) == 0 {
				continue
			}
			n++
			key := fmt.Sprintf("%s.Run/%s.%s", m.H.TypeName, mu.Module, bare)
			where := fmt.Sprintf("%s at %s", real[0].what, c.PosStr(real[0].instr.Pos()))
			if pc, ok := precheckTable[bare]; ok {
				facts := c.FactsAt(mu.Site.Instr, 3)
				c.Check(pc.check(c, mu.Site, facts), rule, key, mu.Site.Pos(), "dominated by its pre-check: "+pc.descr,
					fmt.Sprintf("%s can panic (%s) and this call is not dominated by its pre-check (%s) on the same arguments", bare, where, pc.descr))
				continue
			}
			if reason, ok := partialExempt[bare]; ok {
				good := true
				detail := reason
				if bare == "PairSellWithOrders" {
					// the minimum argument must be the constant 0 (then the `less than minimum` panic is vacuous)
					if !isBigZero(mu.Site.Arg(3)) {
						if m.H.TypeName == "SellAllCoinData" {
							detail = "frozen exception: SellAllCoin passes commissionInBaseCoin as the minimum, the value CalculateBuyForSellWithOrders of the same amount on the same pool returned a few statements earlier in check code (forward calculation of the same function; arithmetic agreement declined)"
						} else {
							good = false
							detail = "the minimum-output argument is not the constant 0: PairSellWithOrders panics when the pool returns less"
						}
					}
				}
				c.Check(good, rule, key, mu.Site.Pos(), detail, detail)
				continue
			}
			c.Bad(rule, key, mu.Site.Pos(), fmt.Sprintf("%s.%s can panic on its arguments (%s) and no pre-check sibling is registered for it", mu.Module, bare, where))
		}
	}
	c.Floor(rule, n, 40, "calls of partial (panicking) mutators from live deliver blocks")
}

func isBigZero(v ssa.Value) bool {
	call, ok := core.Unwrap(v).(*ssa.Call)
	if !ok || core.CalleeName(core.NormCall(&call.Call)) != "math/big.NewInt" || len(core.NormCall(&call.Call).Args) != 1 {
		return false
	}
	k, ok := core.ConstInt(core.NormCall(&call.Call).Args[0])
	return ok && k == 0
}

// ---------------------------------------------------------------- feeswap

func checkFeeSwaps(c *core.Ctx, rule string) {
	type item struct {
		name string
		fn   *ssa.Function
	}
	var items []item
	for _, m := range LiveModels(c, rule) {
		items = append(items, item{m.H.TypeName + ".Run", m.Fn})
	}
	if fn := c.RunTx(); fn != nil {
		items = append(items, item{"RunTx", fn})
	}
	n := 0
	for _, it := range items {
		for _, s := range core.Sites(it.fn) {
			if !s.Common.IsInvoke() || s.Common.Method.Name() != "PairSellWithOrders" {
				continue
			}
			// fee swap: (commission coin, base coin, amount, 0)
			p0 := core.Path(s.Arg(0))
			if !(strings.HasSuffix(p0, ".CommissionCoin()") || strings.HasSuffix(p0, ".GasCoin")) || !strings.HasSuffix(core.Path(s.Arg(1)), "GetBaseCoinID()") {
				continue
			}
			n++
			key := it.name + "/fee-swap-amount"
			paths, ok := core.PathsTo(s.Instr, 20000)
			if !ok {
				c.Unk(rule, key, s.Pos(), "more than 20000 acyclic paths to the fee swap; not enumerated")
				continue
			}
			bad := ""
			kinds := map[string]int{}
			for _, p := range paths {
				if !pathConsistent(p) {
					continue
				}
				v := p.Resolve(s.Arg(2))
				kind := validatedAmount(c, p, v, s)
				if kind == "" {
					bad = fmt.Sprintf("on a path through blocks %s the amount sold (%s) is neither a result of a successful CalculateCommission/CheckSwap nor validated by a CheckSwap that returned nil", blockList(p), describe(v))
					break
				}
				kinds[kind]++
			}
			if bad != "" {
				c.Bad(rule, key, s.Pos(), bad+": PairSellWithOrders panics inside the pool for an amount the pool cannot convert")
				continue
			}
			var ks []string
			for k, v := range kinds {
				ks = append(ks, fmt.Sprintf("%s×%d", k, v))
			}
			sort.Strings(ks)
			c.OK(rule, key, s.Pos(), fmt.Sprintf("%d acyclic paths, amount validated on each: %s", len(paths), strings.Join(ks, ", ")))
		}
	}
	c.Floor(rule, n, 38, "fee swaps (one per live handler + RunTx's failure branch)")
}

// pathConsistent: the path does not take opposite edges on the same (immutable) SSA condition.
func pathConsistent(p core.CFGPath) bool {
	seen := map[ssa.Value]bool{}
	for _, e := range p.Edges {
		cond, truth := e.If.Cond, e.Taken
		for {
			u, ok := cond.(*ssa.UnOp)
			if !ok || u.Op != token.NOT {
				break
			}
			cond, truth = u.X, !truth
		}
		if _, isPhi := cond.(*ssa.Phi); isPhi {
			continue
		}
		if prev, ok := seen[cond]; ok && prev != truth {
			return false
		}
		seen[cond] = truth
	}
	return true
}

func blockList(p core.CFGPath) string {
	var s []string
	for _, b := range p.Blocks {
		s = append(s, fmt.Sprint(b.Index))
	}
	if len(s) > 24 {
		s = append(s[:12], append([]string{"…"}, s[len(s)-10:]...)...)
	}
	return strings.Join(s, ",")
}

func describe(v ssa.Value) string {
	if p := core.Path(v); p != "" {
		return p
	}
	return v.Name() + " = " + v.String()
}

// onPath reports whether instruction in lies on the path (its block is visited).
func onPath(p core.CFGPath, in ssa.Instruction) bool {
	for _, b := range p.Blocks {
		if b == in.Block() {
			return true
		}
	}
	return false
}

// edgeSaysNil: the path takes, for the error/response result `res` of call, the edge on which it
// is nil.
func edgeSaysNil(p core.CFGPath, call *ssa.Call, idx int) bool {
	for _, e := range p.Edges {
		bin, ok := e.If.Cond.(*ssa.BinOp)
		if !ok || (bin.Op != token.EQL && bin.Op != token.NEQ) {
			continue
		}
		var x ssa.Value
		if isNil(bin.Y) {
			x = bin.X
		} else if isNil(bin.X) {
			x = bin.Y
		} else {
			continue
		}
		x = p.Resolve(x)
		ex, ok := core.Unwrap(x).(*ssa.Extract)
		if !ok || ex.Tuple != call || ex.Index != idx {
			continue
		}
		if (bin.Op == token.EQL) == e.Taken {
			return true
		}
	}
	return false
}

// validatedAmount classifies the amount v sold on path p; "" = not validated.
func validatedAmount(c *core.Ctx, p core.CFGPath, v ssa.Value, sell *core.Site) string {
	v = core.Unwrap(v)
	// (a) first result of CalculateCommission with nil error response on this path
	if ex, ok := v.(*ssa.Extract); ok {
		if call, ok := ex.Tuple.(*ssa.Call); ok {
			name := core.CalleeName(core.NormCall(&call.Call))
			switch {
			case strings.HasSuffix(name, ".CalculateCommission") && ex.Index == 0:
				if edgeSaysNil(p, call, 2) {
					return "CalculateCommission"
				}
				return ""
			case strings.HasSuffix(name, ".CheckSwap") && ex.Index == 1:
				if edgeSaysNil(p, call, 0) {
					return "CheckSwap-result"
				}
				return ""
			}
		}
	}
	// (b) passed as valueIn to a CheckSwap (sell form) on this path whose response is nil
	if v.Referrers() != nil {
		for _, r := range *v.Referrers() {
			call, ok := r.(*ssa.Call)
			if !ok || !strings.HasSuffix(core.CalleeName(core.NormCall(&call.Call)), ".CheckSwap") || len(core.NormCall(&call.Call).Args) != 6 {
				continue
			}
			if core.Unwrap(core.NormCall(&call.Call).Args[3]) != v || !onPath(p, call) {
				continue
			}
			if k, ok := core.Unwrap(core.NormCall(&call.Call).Args[5]).(*ssa.Const); !ok || k.Value == nil || k.Value.String() != "false" {
				continue
			}
			if edgeSaysNil(p, call, 0) {
				return "validated-by-CheckSwap"
			}
		}
	}
	// (c) handler-specific derivations of the commission that keep it the CalculateCommission value
	// are resolved by Resolve; anything else is unvalidated
	return ""
}

// ---------------------------------------------------------------- nil (block-level protocol code)

// nilable lookups: repo functions in state packages with a pointer (or interface) result that
// have a `return nil` path.
func mayReturnNil(fn *ssa.Function) bool {
	if fn == nil || fn.Blocks == nil || fn.Signature.Results().Len() != 1 {
		return false
	}
	switch fn.Signature.Results().At(0).Type().Underlying().(type) {
	case *types.Pointer:
	default:
		return false
	}
	for _, r := range core.Returns(fn) {
		for _, alt := range core.Origins(r.Results[0]) {
			if isNil(alt) || isMapMiss(alt) {
				return true
			}
			// tail call of another nilable lookup
			if call, ok := alt.(*ssa.Call); ok {
				if sc := call.Call.StaticCallee(); sc != nil && sc != fn && sc.Blocks != nil && len(sc.Blocks) < 40 {
					if mayReturnNilShallow(sc) {
						return true
					}
				}
			}
		}
	}
	return false
}

func mayReturnNilShallow(fn *ssa.Function) bool {
	if fn.Signature.Results().Len() != 1 {
		return false
	}
	if _, ok := fn.Signature.Results().At(0).Type().Underlying().(*types.Pointer); !ok {
		return false
	}
	for _, r := range core.Returns(fn) {
		for _, alt := range core.Origins(r.Results[0]) {
			if isNil(alt) || isMapMiss(alt) {
				return true
			}
		}
	}
	return false
}

// isMapMiss: the value is a map element read (nil for a missing key when the element is a pointer).
func isMapMiss(v ssa.Value) bool {
	switch x := v.(type) {
	case *ssa.Lookup:
		_, ok := x.X.Type().Underlying().(*types.Map)
		return ok
	case *ssa.Extract:
		if l, ok := x.Tuple.(*ssa.Lookup); ok && x.Index == 0 {
			_, ok := l.X.Type().Underlying().(*types.Map)
			return ok
		}
	}
	return false
}

// isLookupName: exported lookups of the state modules (GetCandidate, GetCoin, Get, GetByAddress …);
// constructors-on-demand (GetOrNew) never return nil on a healthy store.
func isLookupName(n string) bool {
	return strings.HasPrefix(n, "Get") && !strings.HasPrefix(n, "GetOrNew")
}

// nilInvariants: block-level dereferences of nilable lookups that are safe by an invariant that
// is not visible as a nil test (confirmed by reading; keyed by function|callee).
var nilInvariants = map[string]string{
	"(*coreV2/minter.Blockchain).EndBlock|GetCommissions":                          "read back immediately after SetNewCommissions(prices) on the same module, which has just set the current price table",
	"(*coreV2/state/candidates.Candidates).GetStakes|GetCandidate":                 "callers pass the PubKey of a candidate object they hold; the PayRewards callers pass validator.PubKey after their own GetCandidate(validator.PubKey) dereference (that site is the known finding)",
	"(*coreV2/state/candidates.Candidates).LoadStakesOfCandidate|GetCandidate":     "called for keys enumerated from the candidates' own table",
	"(*coreV2/state/candidates.Candidates).Punish|GetCandidateByTendermintAddress": "reached only with the address of a member of the current validators list (SetValidatorAbsent tests GetByTmAddress for nil); the list is rebuilt from the candidates in the EndBlock of every block that changes a key or drops a candidate, before any further lookup by address",
	"(*coreV2/state/candidates.Candidates).PunishByzantineCandidate|GetCoin":       "coin id of a stored stake; coins are never removed from the registry",
	"(*coreV2/state/candidates.Candidates).calculateBipValue|GetCoin":              "coin id of a stored stake; coins are never removed from the registry",
	"(*coreV2/state/frozenfunds.FrozenFunds).PunishFrozenFundsWithID|GetCoin":      "coin id of a stored frozen fund; coins are never removed from the registry",
}

func checkBlockLevelNil(c *core.Ctx, rule string) {
	runTx := c.RunTx()
	var roots []*ssa.Function
	for _, n := range []string{"BeginBlock", "EndBlock"} {
		if fn := c.MustFn(rule, "(*coreV2/minter.Blockchain)."+n); fn != nil {
			roots = append(roots, fn)
		}
	}
	reach := c.CG().Reachable(roots, func(fn *ssa.Function) bool {
		return fn == runTx || (strings.HasPrefix(core.PkgOf(fn), core.PkgTx))
	})
	var fns []*ssa.Function
	for fn := range reach {
		if fn.Synthetic == "" && fn != runTx && !strings.HasPrefix(core.PkgOf(fn), core.PkgTx) && !legacyV1(fn) {
			fns = append(fns, fn)
		}
	}
	sort.Slice(fns, func(i, j int) bool { return fns[i].String() < fns[j].String() })
	n := 0
	for _, fn := range fns {
		for _, s := range core.Sites(fn) {
			var target *ssa.Function
			if sc := s.Common.StaticCallee(); sc != nil {
				target = sc
			} else if s.Common.IsInvoke() {
				// bus interfaces have one implementation each
				for _, cal := range c.CG().Edges[fn] {
					if cal.Name() == s.Common.Method.Name() && cal.Signature.Recv() != nil && strings.Contains(core.PkgOf(cal), "coreV2/state") {
						if target != nil && target != cal {
							target = nil
							break
						}
						target = cal
					}
				}
			}
			if target == nil || !c.InRepo(target) || !strings.Contains(core.PkgOf(target), "coreV2/state") || !isLookupName(target.Name()) || !mayReturnNil(target) {
				continue
			}
			val := s.Value()
			if val == nil {
				continue
			}
			derefs := derefsOf(val)
			if len(derefs) == 0 {
				continue
			}
			n++
			// keyed by the function the code belongs to: a helper only that function calls is part of it
			key := core.ShortFn(c.GroupRoot(fn)) + "|" + target.Name()
			unguarded := 0
			var first ssa.Instruction
			for _, d := range derefs {
				if !nilTested(val, d) {
					unguarded++
					if first == nil {
						first = d
					}
				}
			}
			switch {
			case unguarded == 0:
				c.OK(rule, key, s.Pos(), fmt.Sprintf("%d dereferences, each dominated by a nil test of the lookup result", len(derefs)))
			case callerGated(c, reach, fn, s, target):
				c.OK(rule, key, s.Pos(), "every block-level caller tests the same lookup on the same key for nil before the call")
			case nilInvariants[key] != "":
				c.OK(rule, key, s.Pos(), "confirmed invariant: "+nilInvariants[key])
			default:
				c.Bad(rule, key, first.Pos(), fmt.Sprintf("the result of %s (which has a `return nil` path) is dereferenced at %s without a dominating nil test, in block-level code where no transaction pre-check stands in front (reached via %s)", core.ShortFn(target), c.PosStr(first.Pos()), core.PathTo(reach, fn)))
			}
		}
	}
	c.Floor(rule, n, 10, "dereferenced results of may-return-nil lookups in block-level code")
}

// callerGated: the lookup's key arguments are parameters of fn, and every call of fn from
// block-level code is dominated by `lookup(sameKey) != nil` (same method name, the actual arguments
// in the key positions).
func callerGated(c *core.Ctx, reach map[*ssa.Function]*ssa.Function, fn *ssa.Function, s *core.Site, target *ssa.Function) bool {
	// map lookup argument i → parameter index of fn
	var paramIdx []int
	for i := 0; ; i++ {
		a := s.Arg(i)
		if a == nil {
			break
		}
		idx := -1
		for j, p := range fn.Params {
			if core.Unwrap(a) == p || core.Path(a) == core.ParamName(p) {
				idx = j
			}
		}
		if idx < 0 {
			return false
		}
		paramIdx = append(paramIdx, idx)
	}
	if len(paramIdx) == 0 {
		return false
	}
	nCallers := 0
	for caller := range reach {
		for _, cs := range core.Sites(caller) {
			hit := false
			if sc := cs.Common.StaticCallee(); sc == fn {
				hit = true
			} else if cs.Common.IsInvoke() && cs.Common.Method.Name() == fn.Name() {
				for _, cal := range c.CG().Edges[caller] {
					if cal == fn {
						hit = true
					}
				}
				// bus forwarders: the interface call lands in a one-line forwarder that calls fn
				if !hit {
					for _, cal := range c.CG().Edges[caller] {
						if cal.Name() == fn.Name() {
							for _, cc := range c.CG().Edges[cal] {
								if cc == fn {
									hit = true
								}
							}
						}
					}
				}
			}
			if !hit {
				continue
			}
			nCallers++
			facts := c.FactsAt(cs.Instr, 1)
			recvOff := 0
			if fn.Signature.Recv() != nil {
				recvOff = 1
			}
			good := factCallOutcome(facts, target.Name(), func(cf core.CallFact, nilCmp, isNil bool) bool {
				if !nilCmp || isNil {
					return false
				}
				for i, pj := range paramIdx {
					actual := cs.Arg(pj - recvOff)
					if actual == nil || cf.ArgPath(i) == "" || cf.ArgPath(i) != strings.TrimPrefix(core.Path(actual), "&") {
						return false
					}
				}
				return true
			})
			if !good {
				return false
			}
		}
	}
	return nCallers > 0
}

// derefsOf: instructions that dereference pointer v (field access, load, method call with v as
// receiver of a pointer-receiver method that is not nil-safe is approximated by any static call
// with v as receiver).
func derefsOf(v ssa.Value) []ssa.Instruction {
	var out []ssa.Instruction
	if v.Referrers() == nil {
		return nil
	}
	seen := map[ssa.Value]bool{}
	var walk func(v ssa.Value)
	walk = func(v ssa.Value) {
		if seen[v] || v.Referrers() == nil {
			return
		}
		seen[v] = true
		for _, r := range *v.Referrers() {
			switch x := r.(type) {
			case *ssa.FieldAddr:
				if x.X == v {
					out = append(out, x)
				}
			case *ssa.UnOp:
				if x.Op == token.MUL && x.X == v {
					out = append(out, x)
				}
			case *ssa.Call:
				if sc := x.Call.StaticCallee(); sc != nil && sc.Signature.Recv() != nil && len(core.NormCall(&x.Call).Args) > 0 && core.NormCall(&x.Call).Args[0] == v {
					if !nilSafeMethod(sc) {
						out = append(out, x)
					}
				}
			case *ssa.Phi:
				// merged with other values: follow (conservative)
				walk(x)
			}
		}
	}
	walk(v)
	return out
}

// nilSafeMethod: the method compares its receiver with nil and every dereference of the receiver
// is dominated by the non-nil edge of such a comparison. A method without any nil comparison of
// its receiver is never nil-safe.
func nilSafeMethod(fn *ssa.Function) bool {
	if fn.Blocks == nil || len(fn.Params) == 0 {
		return false
	}
	recv := fn.Params[0]
	hasCmp := false
	if recv.Referrers() != nil {
		for _, r := range *recv.Referrers() {
			if bin, ok := r.(*ssa.BinOp); ok && (bin.Op == token.EQL || bin.Op == token.NEQ) && (isNil(bin.X) || isNil(bin.Y)) {
				hasCmp = true
			}
		}
	}
	if !hasCmp {
		return false
	}
	for _, d := range derefsOf(recv) {
		if !nilTested(recv, d) {
			return false
		}
	}
	return true
}

// nilTested: instruction d is dominated by the non-nil edge of a comparison of v with nil.
func nilTested(v ssa.Value, d ssa.Instruction) bool {
	for _, g := range core.GatesBefore(d) {
		bin, ok := g.If.Cond.(*ssa.BinOp)
		if !ok || (bin.Op != token.EQL && bin.Op != token.NEQ) {
			continue
		}
		var x ssa.Value
		if isNil(bin.Y) {
			x = bin.X
		} else if isNil(bin.X) {
			x = bin.Y
		} else {
			continue
		}
		if core.Unwrap(x) != core.Unwrap(v) && !core.SameValue(x, v) {
			continue
		}
		nonNilOnPass := (bin.Op == token.NEQ) == g.PassTrue
		if nonNilOnPass {
			return true
		}
	}
	return false
}

// ---------------------------------------------------------------- assert

func checkDataAsserts(c *core.Ctx, rule string) {
	fn := c.RunTx()
	if fn == nil {
		c.Unk(rule, "RunTx", token.NoPos, "live RunTx not found")
		return
	}
	hs, err := c.Live()
	if err != nil {
		c.Unk(rule, "live-set", token.NoPos, err.Error())
		return
	}
	byConst := map[int64]*core.Handler{}
	for _, h := range hs {
		byConst[h.Code] = h
	}
	n := 0
	for _, b := range fn.Blocks {
		for _, in := range b.Instrs {
			ta, ok := in.(*ssa.TypeAssert)
			if !ok || ta.CommaOk || !strings.HasSuffix(core.Path(ta.X), ".decodedData") {
				continue
			}
			n++
			key := "RunTx/decodedData.(" + core.Short(types.TypeString(ta.AssertedType, nil)) + ")"
			// collect the tx.Type == K facts (true edge) dominating the assertion
			var ks []int64
			for _, g := range core.GatesBefore(ta) {
				ks = append(ks, typeEqConsts(g.If.Cond, g.PassTrue)...)
			}
			if len(ks) == 0 {
				ks = disjunctionConsts(ta.Block())
			}
			if len(ks) == 0 {
				c.Bad(rule, key, ta.Pos(), "a single-value type assertion on tx.decodedData is not dominated by a test of tx.Type: a transaction of another type panics here")
				continue
			}
			good := true
			var names []string
			for _, k := range ks {
				h := byConst[k]
				if h == nil {
					good = false
					continue
				}
				names = append(names, h.TypeName)
				// the live data type (or a pointer to it) must satisfy the asserted type
				at := ta.AssertedType
				ok1 := types.AssignableTo(types.NewPointer(h.Type), at) || types.AssignableTo(h.Type, at)
				if it, isI := at.Underlying().(*types.Interface); isI {
					ok1 = types.Implements(types.NewPointer(h.Type), it) || types.Implements(h.Type, it)
				}
				// the decoder hands out *T
				if !ok1 {
					good = false
				}
			}
			c.Check(good, rule, key, ta.Pos(), "dominated by tx.Type ∈ {"+strings.Join(names, ", ")+"}, whose live data types satisfy the asserted type",
				"the tx.Type test in front of this assertion admits a live data type that does not satisfy the asserted type: the assertion panics for it")
		}
	}
	c.Floor(rule, n, 2, "single-value assertions on tx.decodedData in RunTx")
}

// disjunctionConsts: `if tx.Type == A || tx.Type == B { … }` lowers to a body block whose every
// predecessor ends in an equality test of tx.Type with the body as its true successor. Walks up
// the dominator chain of b to such a body block and returns the constants.
func disjunctionConsts(b *ssa.BasicBlock) []int64 {
	for body := b; body != nil; body = body.Idom() {
		if len(body.Preds) < 2 {
			continue
		}
		var ks []int64
		all := true
		for _, p := range body.Preds {
			iff := core.IfOf(p)
			if iff == nil || p.Succs[0] != body {
				all = false
				break
			}
			k := typeEqConsts(iff.Cond, true)
			if len(k) == 0 {
				all = false
				break
			}
			ks = append(ks, k...)
		}
		if all {
			return ks
		}
	}
	return nil
}

// typeEqConsts: constants K such that cond (with polarity) implies tx.Type == K; handles
// `a || b` lowered to nested ifs only through dominance (each disjunct is its own gate), so a
// disjunction yields no single dominating gate — the phi form is handled here.
func typeEqConsts(cond ssa.Value, passTrue bool) []int64 {
	var out []int64
	switch x := cond.(type) {
	case *ssa.BinOp:
		if x.Op == token.EQL && passTrue || x.Op == token.NEQ && !passTrue {
			if strings.HasSuffix(core.Path(x.X), ".Type") {
				if k, ok := core.ConstInt(x.Y); ok {
					out = append(out, k)
				}
			}
		}
	case *ssa.Phi:
		// short-circuit `tx.Type == A || tx.Type == B`: edges are `true` constants from blocks whose
		// condition was an equality, plus the last equality itself
		if !passTrue {
			return nil
		}
		for i, e := range x.Edges {
			if k, ok := e.(*ssa.Const); ok && k.Value != nil && k.Value.String() == "true" {
				pred := x.Block().Preds[i]
				if iff := core.IfOf(pred); iff != nil {
					out = append(out, typeEqConsts(iff.Cond, true)...)
				}
				continue
			}
			out = append(out, typeEqConsts(e, true)...)
		}
	}
	return out
}

// ---------------------------------------------------------------- pricenil

// checkPriceTotal — RunTx computes tx.Price(commissions) — CommissionData of the decoded data —
// BEFORE the data has been validated by the handler's basicCheck. Whatever CommissionData returns
// is fed to big.Int arithmetic, so for every decodable data value it has to be a non-nil *big.Int:
// every value it returns or combines must be a field of the price table, a fresh big.Int or the
// result of arithmetic over such values — never a map element (nil for a missing key), a nil
// constant or a value of unknown origin.
func checkPriceTotal(c *core.Ctx, rule string) {
	hs, err := c.Live()
	if err != nil {
		c.Unk(rule, "live-set", token.NoPos, err.Error())
		return
	}
	var why string
	var total func(v ssa.Value, d int, seen map[ssa.Value]bool) bool
	fnTotal := func(fn *ssa.Function, d int) bool {
		if fn == nil || fn.Blocks == nil || d > 5 {
			why = "a helper whose body is not available"
			return false
		}
		for _, o := range core.ResultOrigins(fn, 0) {
			if !total(o, d+1, map[ssa.Value]bool{}) {
				return false
			}
		}
		return true
	}
	total = func(v ssa.Value, d int, seen map[ssa.Value]bool) bool {
		if v == nil || seen[v] {
			return true
		}
		seen[v] = true
		if _, ok := isPriceField(v); ok {
			return true
		}
		switch x := core.Unwrap(v).(type) {
		case *ssa.Const:
			if x.Value == nil {
				why = "a nil constant"
				return false
			}
			return true
		case *ssa.Phi:
			for _, e := range x.Edges {
				if !total(e, d, seen) {
					return false
				}
			}
			return true
		case *ssa.UnOp:
			if _, ok := isPriceField(x); ok {
				return true
			}
			for _, o := range core.Origins(x) {
				if o == ssa.Value(x) {
					why = "a value loaded from " + describe(x.X)
					return false
				}
				if !total(o, d, seen) {
					return false
				}
			}
			return true
		case *ssa.Alloc:
			return true // new(big.Int): a fresh value
		case *ssa.Lookup, *ssa.Extract:
			why = "a map element / multi-value result (" + describe(v) + "): nil for a missing key"
			return false
		case *ssa.Call:
			name := core.CalleeName(core.NormCall(&x.Call))
			switch {
			case name == "math/big.NewInt":
				return true
			case strings.HasPrefix(name, "(*math/big.Int)."):
				// z.Op(x, y): the receiver and the operands must be total
				for _, a := range core.NormCall(&x.Call).Args {
					if isBigIntPtr(a.Type()) && !total(a, d, seen) {
						return false
					}
				}
				return true
			}
			if sc := x.Call.StaticCallee(); sc != nil && c.InRepo(sc) {
				return fnTotal(sc, d)
			}
			if x.Call.IsInvoke() {
				// PayForSymbol through the symbolCreator interface: every live implementation
				ok := true
				n := 0
				for _, h := range hs {
					if m := c.Method(h.Type, x.Call.Method.Name()); m != nil {
						n++
						if !fnTotal(m, d) {
							ok = false
						}
					}
				}
				if n == 0 {
					why = "an interface call with no live implementation"
					return false
				}
				return ok
			}
			why = "the result of " + name
			return false
		}
		why = "a value of unknown origin (" + describe(v) + ")"
		return false
	}
	n := 0
	for _, h := range hs {
		fn := c.Method(h.Type, "CommissionData")
		if fn == nil {
			continue
		}
		n++
		why = ""
		ok := fnTotal(fn, 0)
		c.Check(ok, rule, h.TypeName+".CommissionData", fn.Pos(), "returns price-table fields and arithmetic over them only (non-nil for every decodable data value)",
			"CommissionData can return or combine "+why+": RunTx prices the transaction before validating its data, so a crafted transaction makes the fee arithmetic dereference nil")
	}
	c.Floor(rule, n, 37, "live CommissionData methods")
}

// ---------------------------------------------------------------- pricecoin

// checkPriceCoin — RunTx converts every fee through GetSwapper(commissions.Coin, base) whenever the
// price table's coin is not the base coin, without testing that the pool exists (a missing pool is
// a nil pair: nil dereference on every transaction from the block the table is installed). The
// table's coin is whatever >2/3 of the validators voted, so the vote handler is the only gate: on
// every path on which the live VoteCommission basicCheck does not reject, the voted coin is the
// base coin or SwapPoolExist(coin, base) holds.
func checkPriceCoin(c *core.Ctx, rule string) {
	hs, err := c.Live()
	if err != nil {
		c.Unk(rule, "live-set", token.NoPos, err.Error())
		return
	}
	var h *core.Handler
	for _, x := range hs {
		if x.ConstName == "TypeVoteCommission" {
			h = x
		}
	}
	if h == nil || h.Basic == nil {
		c.Unk(rule, "VoteCommission/basicCheck", token.NoPos, "live VoteCommission handler or its basicCheck not found")
		return
	}
	fn := h.Basic
	n := 0
	for _, r := range core.Returns(fn) {
		if fn.Recover != nil && r.Block() == fn.Recover {
			continue
		}
		// accepting or delegating return: not a freshly built &Response{…}
		if _, isAlloc := core.Unwrap(resolveRet(r, 0)).(*ssa.Alloc); isAlloc {
			continue
		}
		n++
		paths, ok := core.PathsTo(r, 5000)
		if !ok {
			c.Unk(rule, h.TypeName+".basicCheck/paths", r.Pos(), "too many paths")
			continue
		}
		bad := ""
		for _, p := range paths {
			if !pathConsistent(p) {
				continue
			}
			okPath := false
			for _, e := range p.Edges {
				call, isCall := core.Unwrap(e.If.Cond).(*ssa.Call)
				truth := e.Taken
				if !isCall {
					if u, isNot := e.If.Cond.(*ssa.UnOp); isNot && u.Op == token.NOT {
						call, isCall = core.Unwrap(u.X).(*ssa.Call)
						truth = !truth
					}
				}
				if !isCall || !truth {
					continue
				}
				switch methodNameOfCall(call) {
				case "IsBaseCoin":
					if strings.HasSuffix(core.Path(core.NormCall(&call.Call).Args[0]), ".Coin") {
						okPath = true
					}
				case "SwapPoolExist":
					s := &core.Site{Instr: call, Common: &call.Call}
					if strings.HasSuffix(core.Path(s.Arg(0)), ".Coin") && strings.HasSuffix(core.Path(s.Arg(1)), "GetBaseCoinID()") {
						okPath = true
					}
				}
			}
			if !okPath {
				bad = "path through blocks " + blockList(p)
				break
			}
		}
		c.Check(bad == "", rule, h.TypeName+".basicCheck/pool-or-base", r.Pos(), "every non-rejecting path has data.Coin.IsBaseCoin() or SwapPoolExist(data.Coin, base)",
			"a commission vote can be accepted for a coin that is neither the base coin nor paired with it in a swap pool ("+bad+"): once such a table is installed RunTx dereferences a nil pool on every transaction")
	}
	c.Floor(rule, n, 1, "non-rejecting returns of the VoteCommission basicCheck")
}
