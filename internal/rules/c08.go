package rules

import (
	"fmt"
	"go/token"
	"sort"
	"strings"

	"golang.org/x/tools/go/ssa"

	"verif/internal/core"
)

func init() {
	register(&RuleSet{
		Meta: core.PropertyMeta{
			ID: "C08",
			Explanation: "Decides structural necessary conditions of deterministic execution over all repository code reachable (call graph) from InitChain/BeginBlock/DeliverTx/EndBlock/Commit: " +
				"(maprange) every `range` over a map is order-insensitive by a recognised idiom — collect-then-sort (the collected slice is passed to sort.* before any other use), commutative fold (big.Int Add/Sub into one accumulator, numeric +=, counters, flags), keyed map insert/delete, unique-match search — anything else must be in the confirmed exception table or it fails; " +
				"(source) no call of time.Now/Since, math/rand, crypto/rand, os.Getenv, runtime.NumCPU/GOMAXPROCS and no `go` statement or multi-way select in that code, except sites confirmed to feed only statistics/logging or to run after the state commit without touching state; " +
				"(tie) every sort over data collected from a map uses a comparator over a key that is unique among the elements. NOT decided: nondeterminism inside iavl/tm-db/big.Float, scheduler effects on unsynchronised reads (C25).",
			Assumptions: stdAssumptions,
			Rules:       []string{"C08.maprange", "C08.source", "C08.tie"},
		},
		Run: runC08,
	})
}

// EntryFuncs returns the consensus entry points.
func EntryFuncs(c *core.Ctx, rule string) []*ssa.Function {
	var out []*ssa.Function
	for _, n := range []string{"InitChain", "BeginBlock", "DeliverTx", "EndBlock", "Commit"} {
		if fn := c.MustFn(rule, "(*coreV2/minter.Blockchain)."+n); fn != nil {
			out = append(out, fn)
		}
	}
	return out
}

// ConsensusReach returns the repo functions reachable from the entry points. Legacy handler
// versions that the live decoder never produces are pruned: CHA would keep every Run reachable
// through the Data interface.
func ConsensusReach(c *core.Ctx, rule string) map[*ssa.Function]*ssa.Function {
	live := map[*ssa.Function]bool{}
	if hs, err := c.Live(); err == nil {
		for _, h := range hs {
			live[h.Run] = true
		}
	}
	runTx := c.RunTx()
	return c.CG().Reachable(EntryFuncs(c, rule), func(fn *ssa.Function) bool {
		// a Run/RunTx/basicCheck/CommissionData of a non-live data type or executor
		if strings.HasPrefix(core.PkgOf(fn), core.PkgTx) && fn.Signature.Recv() != nil {
			switch fn.Name() {
			case "Run":
				return !live[fn] && !isWrapperOfLive(fn, live)
			case "RunTx":
				return fn != runTx && !strings.Contains(fn.Synthetic, "wrapper")
			}
		}
		return false
	})
}

func isWrapperOfLive(fn *ssa.Function, live map[*ssa.Function]bool) bool {
	if fn.Synthetic == "" {
		return false
	}
	for _, s := range core.Sites(fn) {
		if sc := s.Common.StaticCallee(); sc != nil && live[sc] {
			return true
		}
	}
	return false
}

var nondetCalls = map[string]string{
	"time.Now":             "wall clock",
	"time.Since":           "wall clock",
	"time.Until":           "wall clock",
	"time.After":           "timer",
	"time.Sleep":           "timer",
	"time.NewTimer":        "timer",
	"time.Tick":            "timer",
	"os.Getenv":            "environment",
	"os.Hostname":          "environment",
	"os.Getpid":            "environment",
	"runtime.NumCPU":       "machine configuration",
	"runtime.GOMAXPROCS":   "machine configuration",
	"runtime.NumGoroutine": "scheduler",
}

// sourceExceptions: function → reason (confirmed by reading; one line each).
var sourceExceptions = map[string]string{
	"(*coreV2/minter.Blockchain).BeginBlock|time.Now": "argument of StatisticData().PushStartBlock only (observability); never stored in state",
	"(*coreV2/minter.Blockchain).EndBlock$1|time.Now": "deferred PushEndBlock statistics only",
	"(*coreV2/minter.Blockchain).EndBlock|time.Now":   "deferred PushEndBlock statistics only (when the deferred closure is a method)",
	"(*coreV2/minter.Blockchain).Commit|time.After":   "shutdown path after `stopped`: waits for the snapshot goroutine and exits the process; no state is touched",
	"(*coreV2/minter.Blockchain).Commit|go":           "snapshot goroutine spawned after the state commit; reads the committed version only, AppDB writes wait on the WaitGroup (C29.wg)",
	"(*coreV2/minter.Blockchain).Commit|select":       "shutdown path after `stopped` only",
	"(*coreV2/minter.Blockchain).stop|go":             "asynchronous tmNode.Stop() on halt; the node is stopping",
	"(*coreV2/minter.Blockchain).checkStop|select":    "non-blocking poll of the stop context after commit; only decides whether to stop",
	"(*coreV2/appdb.AppDB).Snapshot|go":               "chunk writer of an already-read snapshot; reads the immutable committed version",
}

func runC08(c *core.Ctx) {
	reach := ConsensusReach(c, "C08.maprange")
	var fns []*ssa.Function
	for fn := range reach {
		if fn.Synthetic == "" {
			fns = append(fns, fn)
		}
	}
	sort.Slice(fns, func(i, j int) bool { return fns[i].String() < fns[j].String() })
	c.Stats["consensus_reachable_functions"] = len(fns)
	nr := 0
	for _, fn := range fns {
		nr += checkMapRanges(c, "C08.maprange", fn)
	}
	c.Floor("C08.maprange", nr, 30, "map ranges in consensus-reachable code")
	if len(fns) < 1000 {
		c.Unk("C08.maprange", "reach-floor", token.NoPos, fmt.Sprintf("only %d functions reachable from the ABCI entry points (floor 1000): call graph is broken", len(fns)))
	}

	// ---- tie: sort comparators
	nt := 0
	for _, fn := range fns {
		nt += checkSortComparators(c, "C08.tie", fn)
	}
	c.Floor("C08.tie", nt, 20, "sort calls in consensus-reachable code")

	// ---- source
	ns := 0
	for _, fn := range fns {
		for _, b := range fn.Blocks {
			for _, in := range b.Instrs {
				var what, name string
				switch x := in.(type) {
				case *ssa.Go:
					what, name = "go", "go"
				case *ssa.Select:
					if len(x.States) > 1 || (len(x.States) == 1 && !x.Blocking) {
						what, name = "select", "select"
					}
				case ssa.CallInstruction:
					n := core.CalleeName(x.Common())
					if strings.HasPrefix(n, "math/rand.") || strings.HasPrefix(n, "crypto/rand.") || strings.HasPrefix(n, "(*math/rand.") {
						what, name = n, n
					} else if _, ok := nondetCalls[n]; ok {
						what, name = n, n
					}
				}
				if what == "" {
					continue
				}
				ns++
				key := core.ShortFn(fn) + "|" + name
				if reason, ok := sourceExceptions[key]; ok {
					c.OK("C08.source", key, in.Pos(), "confirmed exception: "+reason)
					continue
				}
				// the same construct moved between a function and a helper only it calls
				if reason, ok := sourceExceptions[core.ShortFn(c.GroupRoot(fn))+"|"+name]; ok {
					c.OK("C08.source", key, in.Pos(), "confirmed exception: "+reason)
					continue
				}
				c.Bad("C08.source", key, in.Pos(), fmt.Sprintf("%s (%s) reachable from consensus code via %s", what, nondetCalls[name], core.PathTo(reach, fn)))
			}
		}
	}
	c.Floor("C08.source", ns, 3, "nondeterminism-source sites (all expected to be confirmed exceptions)")
}
