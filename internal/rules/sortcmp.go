package rules

import (
	"fmt"
	"go/ast"
	"go/token"
	"go/types"
	"strings"

	"golang.org/x/tools/go/packages"
	"golang.org/x/tools/go/ssa"

	"verif/internal/core"
)

// A `less` function makes sort deterministic only if it is a strict weak ordering. Recognised:
//   K  : one comparison of a key of element i with the same key of element j
//        (x[i].k < x[j].k, bytes.Compare(k(x[i]), k(x[j])) == 1, x[i].v.Cmp(x[j].v) == 1, …)
//   K;K: lexicographic — decide by the first key unless it compares equal, then by the second
//        (cmp := …; if cmp == 0 { return K }; return cmp == 1   |   switch cmp { case 1: true; case 0: K; default: false }
//         |   A < B || (A == B && C < D))
// Anything else (e.g. `a.x > b.x || a.y > b.y`) is not recognised and fails.

type cmpVerdict struct {
	ok     bool
	form   string
	reason string
}

type cmpCtx struct {
	pkg  *packages.Package
	i, j types.Object
	defs map[types.Object]ast.Expr // local single-assignment definitions inside the less func
}

func (cc *cmpCtx) str(e ast.Expr) string {
	// render with locals substituted and i/j replaced by placeholders
	var render func(e ast.Expr) string
	render = func(e ast.Expr) string {
		switch x := e.(type) {
		case *ast.Ident:
			o := cc.pkg.TypesInfo.Uses[x]
			if o == nil {
				o = cc.pkg.TypesInfo.Defs[x]
			}
			if o != nil {
				if o == cc.i {
					return "$i"
				}
				if o == cc.j {
					return "$j"
				}
				if d, ok := cc.defs[o]; ok {
					return "(" + render(d) + ")"
				}
			}
			return x.Name
		case *ast.ParenExpr:
			return render(x.X)
		case *ast.SelectorExpr:
			return render(x.X) + "." + x.Sel.Name
		case *ast.IndexExpr:
			return render(x.X) + "[" + render(x.Index) + "]"
		case *ast.CallExpr:
			var as []string
			for _, a := range x.Args {
				as = append(as, render(a))
			}
			return render(x.Fun) + "(" + strings.Join(as, ",") + ")"
		case *ast.BinaryExpr:
			return "(" + render(x.X) + x.Op.String() + render(x.Y) + ")"
		case *ast.UnaryExpr:
			return x.Op.String() + render(x.X)
		case *ast.StarExpr:
			return "*" + render(x.X)
		case *ast.SliceExpr:
			return render(x.X) + "[:]"
		case *ast.BasicLit:
			return x.Value
		}
		return types.ExprString(e)
	}
	return render(e)
}

// mirror: a mentions only $i, b only $j (or vice versa), and swapping gives equality.
func mirror(a, b string) bool {
	hasI, hasJ := strings.Contains(a, "$i"), strings.Contains(a, "$j")
	if hasI == hasJ {
		return false
	}
	swap := strings.NewReplacer("$i", "$j", "$j", "$i")
	return swap.Replace(a) == b
}

// keyCmp: e is a single-key comparison. Returns the canonical key string.
func (cc *cmpCtx) keyCmp(e ast.Expr) (string, bool) {
	e = ast.Unparen(e)
	bin, ok := e.(*ast.BinaryExpr)
	if !ok {
		return "", false
	}
	switch bin.Op {
	case token.LSS, token.GTR, token.LEQ, token.GEQ:
		a, b := cc.str(bin.X), cc.str(bin.Y)
		if mirror(a, b) {
			return a, true
		}
	case token.EQL, token.NEQ:
		// CMP(a, b) == ±1
		if cmpKey, ok := cc.cmpCall(bin.X); ok {
			if lit, isLit := ast.Unparen(bin.Y).(*ast.BasicLit); isLit && (lit.Value == "1") {
				return cmpKey, bin.Op == token.EQL
			}
			if u, isU := ast.Unparen(bin.Y).(*ast.UnaryExpr); isU && u.Op == token.SUB {
				if lit, isLit := u.X.(*ast.BasicLit); isLit && lit.Value == "1" {
					return cmpKey, bin.Op == token.EQL
				}
			}
		}
	}
	// CMP(a,b) < 0 / > 0
	if cmpKey, ok := cc.cmpCall(bin.X); ok && (bin.Op == token.LSS || bin.Op == token.GTR) {
		if lit, isLit := ast.Unparen(bin.Y).(*ast.BasicLit); isLit && lit.Value == "0" {
			return cmpKey, true
		}
	}
	return "", false
}

// cmpCall: e is bytes.Compare(a,b) / a.Cmp(b) / a.Compare(b) / strings.Compare(a,b) with mirror
// operands, or a local variable defined as such.
func (cc *cmpCtx) cmpCall(e ast.Expr) (string, bool) {
	e = ast.Unparen(e)
	if id, ok := e.(*ast.Ident); ok {
		if o := cc.pkg.TypesInfo.Uses[id]; o != nil {
			if d, ok := cc.defs[o]; ok {
				return cc.cmpCall(d)
			}
		}
		return "", false
	}
	call, ok := e.(*ast.CallExpr)
	if !ok {
		return "", false
	}
	sel, ok := call.Fun.(*ast.SelectorExpr)
	if !ok {
		return "", false
	}
	switch sel.Sel.Name {
	case "Compare", "Cmp":
	default:
		return "", false
	}
	var a, b string
	if len(call.Args) == 2 {
		a, b = cc.str(call.Args[0]), cc.str(call.Args[1])
	} else if len(call.Args) == 1 {
		a, b = cc.str(sel.X), cc.str(call.Args[0])
	} else {
		return "", false
	}
	if mirror(a, b) {
		return a, true
	}
	return "", false
}

func (cc *cmpCtx) isZeroTest(e ast.Expr, wantEq bool) (string, bool) {
	bin, ok := ast.Unparen(e).(*ast.BinaryExpr)
	if !ok {
		return "", false
	}
	if (wantEq && bin.Op != token.EQL) || (!wantEq && bin.Op != token.NEQ) {
		return "", false
	}
	if lit, isLit := ast.Unparen(bin.Y).(*ast.BasicLit); !isLit || lit.Value != "0" {
		// a == b on mirror operands counts as "first key equal"
		a, b := cc.str(bin.X), cc.str(bin.Y)
		if mirror(a, b) {
			return a, true
		}
		return "", false
	}
	return cc.cmpCall(bin.X)
}

func classifyLess(pkg *packages.Package, lit *ast.FuncLit) cmpVerdict {
	if lit.Type.Params == nil || len(lit.Type.Params.List) == 0 {
		return cmpVerdict{reason: "no parameters"}
	}
	var names []*ast.Ident
	for _, f := range lit.Type.Params.List {
		names = append(names, f.Names...)
	}
	if len(names) != 2 {
		return cmpVerdict{reason: "less function does not have two parameters"}
	}
	cc := &cmpCtx{pkg: pkg, i: pkg.TypesInfo.Defs[names[0]], j: pkg.TypesInfo.Defs[names[1]], defs: map[types.Object]ast.Expr{}}
	stmts := lit.Body.List
	// peel leading local definitions
	for len(stmts) > 0 {
		as, ok := stmts[0].(*ast.AssignStmt)
		if !ok || as.Tok != token.DEFINE || len(as.Lhs) != len(as.Rhs) {
			break
		}
		for k, l := range as.Lhs {
			if id, ok := l.(*ast.Ident); ok {
				if o := pkg.TypesInfo.Defs[id]; o != nil {
					cc.defs[o] = as.Rhs[k]
				}
			}
		}
		stmts = stmts[1:]
	}
	if len(stmts) == 1 {
		if ret, ok := stmts[0].(*ast.ReturnStmt); ok && len(ret.Results) == 1 {
			if k, ok := cc.keyCmp(ret.Results[0]); ok {
				return cmpVerdict{ok: true, form: "single key " + k}
			}
			// A < B || (A == B && C < D)
			if or, ok := ast.Unparen(ret.Results[0]).(*ast.BinaryExpr); ok && or.Op == token.LOR {
				if k1, ok1 := cc.keyCmp(or.X); ok1 {
					if and, ok := ast.Unparen(or.Y).(*ast.BinaryExpr); ok && and.Op == token.LAND {
						if ke, okE := cc.isZeroTest(and.X, true); okE && ke == k1 {
							if k2, ok2 := cc.keyCmp(and.Y); ok2 {
								return cmpVerdict{ok: true, form: "lexicographic " + k1 + " ; " + k2}
							}
						}
					}
				}
				return cmpVerdict{reason: "disjunction of comparisons that is not the lexicographic pattern `A<B || (A==B && C<D)`: not a strict weak ordering in general"}
			}
			return cmpVerdict{reason: "return expression is not a comparison of one key of element i with the same key of element j: " + types.ExprString(ret.Results[0])}
		}
		// switch CMP { case ±1: return true; case 0: return K; default: return false }
		if sw, ok := stmts[0].(*ast.SwitchStmt); ok && sw.Tag != nil {
			if k1, ok := cc.cmpCall(sw.Tag); ok {
				good := true
				k2 := ""
				for _, cl := range sw.Body.List {
					cs := cl.(*ast.CaseClause)
					if len(cs.Body) != 1 {
						good = false
						continue
					}
					ret, isRet := cs.Body[0].(*ast.ReturnStmt)
					if !isRet || len(ret.Results) != 1 {
						good = false
						continue
					}
					if len(cs.List) == 1 {
						if lit, isLit := cs.List[0].(*ast.BasicLit); isLit && lit.Value == "0" {
							if k, ok := cc.keyCmp(ret.Results[0]); ok {
								k2 = k
							} else {
								good = false
							}
							continue
						}
					}
					if id, isID := ret.Results[0].(*ast.Ident); !isID || (id.Name != "true" && id.Name != "false") {
						good = false
					}
				}
				if good && k2 != "" {
					return cmpVerdict{ok: true, form: "lexicographic (switch) " + k1 + " ; " + k2}
				}
			}
			return cmpVerdict{reason: "switch-form comparator not recognised as lexicographic"}
		}
	}
	// if CMP == 0 { return K }; return CMP == ±1      |     if CMP != 0 { return CMP == ±1 }; return K
	if len(stmts) == 2 {
		iff, ok1 := stmts[0].(*ast.IfStmt)
		ret, ok2 := stmts[1].(*ast.ReturnStmt)
		if ok1 && ok2 && iff.Else == nil && iff.Init == nil && len(iff.Body.List) == 1 && len(ret.Results) == 1 {
			inner, isRet := iff.Body.List[0].(*ast.ReturnStmt)
			if isRet && len(inner.Results) == 1 {
				if k1, ok := cc.isZeroTest(iff.Cond, true); ok {
					k2, okb := cc.keyCmp(inner.Results[0])
					k3, okc := cc.keyCmp(ret.Results[0])
					if okb && okc && k3 == k1 {
						return cmpVerdict{ok: true, form: "lexicographic " + k1 + " ; " + k2}
					}
				}
				if k1, ok := cc.isZeroTest(iff.Cond, false); ok {
					k3, okb := cc.keyCmp(inner.Results[0])
					k2, okc := cc.keyCmp(ret.Results[0])
					if okb && okc && k3 == k1 {
						return cmpVerdict{ok: true, form: "lexicographic " + k1 + " ; " + k2}
					}
				}
			}
		}
	}
	return cmpVerdict{reason: "comparator shape not recognised as a strict weak ordering"}
}

// checkSortComparators records one obligation per sort.Slice/SliceStable call in fn.
func checkSortComparators(c *core.Ctx, rule string, fn *ssa.Function) int {
	syn, pkg := fnSyntax(c, fn)
	if syn == nil || pkg == nil {
		return 0
	}
	var body *ast.BlockStmt
	switch x := syn.(type) {
	case *ast.FuncDecl:
		body = x.Body
	case *ast.FuncLit:
		body = x.Body
	}
	if body == nil {
		return 0
	}
	n := 0
	ast.Inspect(body, func(x ast.Node) bool {
		if lit, isLit := x.(*ast.FuncLit); isLit && x != syn {
			_ = lit
			// closures are separate ssa functions, but a less-func literal is an argument of the
			// call we look for in the enclosing function: keep descending only into call args
		}
		call, ok := x.(*ast.CallExpr)
		if !ok {
			return true
		}
		sel, ok := call.Fun.(*ast.SelectorExpr)
		if !ok {
			return true
		}
		f, _ := pkg.TypesInfo.Uses[sel.Sel].(*types.Func)
		if f == nil || f.Pkg() == nil || f.Pkg().Path() != "sort" {
			return true
		}
		switch f.Name() {
		case "Slice", "SliceStable":
			n++
			key := fmt.Sprintf("%s/sort#%d(%s)", core.ShortFn(fn), n, types.ExprString(call.Args[0]))
			lit, isLit := call.Args[1].(*ast.FuncLit)
			if !isLit {
				c.Unk(rule, key, call.Pos(), "less function is not a literal; not analysed")
				return true
			}
			v := classifyLess(pkg, lit)
			if v.ok {
				c.OK(rule, key, call.Pos(), "strict weak ordering: "+v.form)
			} else if reason, ok := sortExceptions[core.ShortFn(fn)+"/"+types.ExprString(call.Args[0])]; ok {
				c.OK(rule, key, call.Pos(), "confirmed exception: "+reason)
			} else {
				c.Bad(rule, key, call.Pos(), "sort comparator is not recognised as a strict weak ordering ("+v.reason+"): the sorted order — and everything written in that order — can depend on the input order, i.e. on map iteration")
			}
		case "Sort", "Stable":
			n++
			key := fmt.Sprintf("%s/sort#%d(%s)", core.ShortFn(fn), n, types.ExprString(call.Args[0]))
			if reason, ok := sortExceptions[core.ShortFn(fn)+"/"+types.ExprString(call.Args[0])]; ok {
				c.OK(rule, key, call.Pos(), "confirmed exception: "+reason)
			} else {
				c.Unk(rule, key, call.Pos(), "sort.Sort with a Less method: not analysed")
			}
		}
		return true
	})
	return n
}

// sortExceptions: function/slice-expression → reason.
var sortExceptions = map[string]string{}
