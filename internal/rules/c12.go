package rules

import (
	"fmt"
	"go/token"
	"go/types"
	"sort"
	"strings"

	"golang.org/x/tools/go/ssa"

	"verif/internal/core"
)

func init() {
	register(&RuleSet{
		Meta: core.PropertyMeta{
			ID: "C12",
			Explanation: "The numeric clauses — the bound on the relative floating-point error of the 100-bit Exp(Log) evaluation, monotonicity in the amount, the buy-then-sell round trip, results within [0, reserve] — quantify over magnitudes and are NOT decided; neither are the series inside math.ExpFloat / math.Log. Decided, the clauses whose truth is in the shape of the code: " +
				"(formula) for each of the four formula functions, on every path to every return, the returned value — recovered from the def-use chain with a transfer function per math/big method and compared as a rational function of the arguments and of opaque math.Pow terms — is the Bancor formula the property names (truncated with Float.Int), or the exact integer form of it when the path established crr == 100, or 0 when it established amount == 0, or a copy of the reserve when it established amount == supply; " +
				"(full) in CalculateSaleReturn no path computes the floating-point form without having excluded amount == supply, so selling the entire supply returns exactly the reserve; " +
				"(pure) the formula functions and math.Pow never write through an argument and never return an argument object; " +
				"(pow) math.Pow returns, per path, Exp(w·Log z), or 1 when w == 0, or z when w == 1 or z is infinite, or 1/Pow(z, −w) when w < 0, and no return is reachable with a negative base (it panics instead of yielding a value); " +
				"(args) every call of a formula function passes, in the slots the other calls agree on, the supply, the reserve and the reserve ratio of one and the same coin (roles traced to coins.Info.Volume / coins.Info.Reserve / coins.Model.CCrr through accessors, the bus copy and constructors); " +
				"(domain) every call of a sale formula in consensus code, whose Pow base is 1 − amount/X, is preceded on every path by a decision that leaves amount ≤ X for that same coin (a direct comparison or CheckReserveUnderflow's non-error outcome), or is one of the block-level sites whose amount is a part of a stake of that coin (listed with reasons) — otherwise a crafted amount reaches Pow with a negative base and the node panics.",
			Assumptions: append([]string{"math/big methods do what their documentation says (Add/Sub/Mul/Quo set the receiver and return it; Float.Int truncates toward zero)", "rounding of intermediate results to the 100-bit precision is not modelled"}, stdAssumptions...),
			Rules:       []string{"C12.formula", "C12.full", "C12.pure", "C12.pow", "C12.args", "C12.domain", "C12.prec"},
		},
		Run: runC12,
	})
}

const (
	roleSupply  = "supply"
	roleReserve = "reserve"
	roleCrr     = "crr"
)

// ---------------------------------------------------------------- roles of values

type c12Roles struct {
	c        *core.Ctx
	fieldMem map[string]string
	fnMem    map[string]string
	paramMem map[string]string
}

// anchor fields: where the supply, the reserve and the reserve ratio of a coin are stored
func (r *c12Roles) anchor(n *types.Named, field string) string {
	if n == nil || n.Obj().Pkg() == nil || !strings.HasSuffix(n.Obj().Pkg().Path(), "coreV2/state/coins") {
		return ""
	}
	switch n.Obj().Name() + "." + field {
	case "Info.Volume":
		return roleSupply
	case "Info.Reserve":
		return roleReserve
	case "Model.CCrr":
		return roleCrr
	}
	return ""
}

// unanimous merges roles: "" is neutral, disagreement gives "?".
func unanimous(cur, next string) string {
	if next == "" {
		return cur
	}
	if cur == "" || cur == next {
		return next
	}
	return "?"
}

func (r *c12Roles) ofField(n *types.Named, field string, depth int) string {
	if a := r.anchor(n, field); a != "" {
		return a
	}
	key := n.String() + "." + field
	if v, ok := r.fieldMem[key]; ok {
		return v
	}
	r.fieldMem[key] = ""
	if depth > 6 {
		return ""
	}
	role := ""
	for _, w := range r.c.FieldWrites(n, field) {
		st, ok := w.Instr.(*ssa.Store)
		if !ok {
			continue
		}
		ro, _ := r.of(st.Val, depth+1)
		if ro == "" {
			if isConstLike(st.Val) {
				continue
			}
			ro = "?"
		}
		role = unanimous(role, ro)
	}
	r.fieldMem[key] = role
	return role
}

func isConstLike(v ssa.Value) bool {
	v = core.Unwrap(stripCopy(v))
	switch x := v.(type) {
	case *ssa.Const:
		return true
	case *ssa.Call:
		n := core.CalleeName(core.NormCall(&x.Call))
		if n == "math/big.NewInt" {
			_, ok := core.Unwrap(core.NormCall(&x.Call).Args[0]).(*ssa.Const)
			return ok
		}
	}
	return false
}

func (r *c12Roles) ofResult(fn *ssa.Function, idx int, depth int) string {
	key := fmt.Sprintf("%s#%d", fn.String(), idx)
	if v, ok := r.fnMem[key]; ok {
		return v
	}
	r.fnMem[key] = ""
	if depth > 6 || fn.Blocks == nil {
		return ""
	}
	role := ""
	for _, ret := range core.Returns(fn) {
		if idx >= len(ret.Results) || ret.Block() == fn.Recover {
			continue
		}
		v := resolveRet(ret, idx)
		ro, _ := r.of(v, depth+1)
		if ro == "" {
			if isConstLike(v) {
				continue
			}
			ro = "?"
		}
		role = unanimous(role, ro)
	}
	r.fnMem[key] = role
	return role
}

func (r *c12Roles) implsOf(call *ssa.CallCommon) []*ssa.Function {
	var out []*ssa.Function
	it, ok := call.Value.Type().Underlying().(*types.Interface)
	if !ok {
		return nil
	}
	for _, fn := range r.c.AllFns {
		if fn.Synthetic != "" || fn.Signature.Recv() == nil || fn.Name() != call.Method.Name() || fn.Blocks == nil {
			continue
		}
		if types.Implements(fn.Signature.Recv().Type(), it) {
			out = append(out, fn)
		}
	}
	return out
}

// of returns the role of a value and the object it is a role *of* (the coin).
func (r *c12Roles) of(v ssa.Value, depth int) (string, ssa.Value) {
	if depth > 8 {
		return "", nil
	}
	v = core.Unwrap(stripCopy(v))
	switch x := v.(type) {
	case *ssa.UnOp:
		if x.Op == token.MUL {
			if fa, ok := x.X.(*ssa.FieldAddr); ok {
				n, st := namedOf(fa.X.Type()), structUnder(fa.X.Type())
				if n != nil && st != nil {
					return cleanRole(r.ofField(n, st.Field(fa.Field).Name(), depth+1)), fa.X
				}
			}
		}
	case *ssa.Field:
		n, st := namedOf(x.X.Type()), structUnder(x.X.Type())
		if n != nil && st != nil {
			return cleanRole(r.ofField(n, st.Field(x.Field).Name(), depth+1)), x.X
		}
	case *ssa.Call:
		// X minus / plus an adjustment (the supply after the commission was deducted) is still X
		if n := core.CalleeName(core.NormCall(&x.Call)); (n == "(*math/big.Int).Sub" || n == "(*math/big.Int).Add") && len(core.NormCall(&x.Call).Args) == 3 {
			return r.of(core.NormCall(&x.Call).Args[1], depth+1)
		}
		if x.Call.IsInvoke() {
			role := ""
			for _, fn := range r.implsOf(&x.Call) {
				role = unanimous(role, r.ofResult(fn, 0, depth+1))
			}
			return cleanRole(role), x.Call.Value
		}
		if sc := x.Call.StaticCallee(); sc != nil && r.c.InRepo(sc) && sc.Signature.Recv() != nil && len(core.NormCall(&x.Call).Args) > 0 {
			return cleanRole(r.ofResult(sc, 0, depth+1)), core.NormCall(&x.Call).Args[0]
		}
	case *ssa.Parameter:
		fn := x.Parent()
		idx := -1
		for i, p := range fn.Params {
			if p == x {
				idx = i
			}
		}
		if idx < 0 {
			return "", nil
		}
		key := fmt.Sprintf("%s#%d", fn.String(), idx)
		if m, ok := r.paramMem[key]; ok {
			return cleanRole(m), x
		}
		r.paramMem[key] = ""
		role := ""
		n := 0
		for _, caller := range r.c.CG().Callers(fn) {
			for _, s := range core.Sites(caller) {
				if s.Common.StaticCallee() != fn || idx >= len(s.Common.Args) {
					continue
				}
				n++
				ro, _ := r.of(s.Common.Args[idx], depth+1)
				if ro == "" {
					ro = "?"
				}
				role = unanimous(role, ro)
			}
		}
		if n == 0 {
			role = ""
		}
		r.paramMem[key] = role
		return cleanRole(role), x
	}
	return "", nil
}

func cleanRole(s string) string {
	if s == "?" {
		return ""
	}
	return s
}

func structUnder(t types.Type) *types.Struct {
	if p, ok := t.Underlying().(*types.Pointer); ok {
		t = p.Elem()
	}
	st, _ := t.Underlying().(*types.Struct)
	return st
}

// sameBase: two role values belong to the same coin object.
func sameBase(a, b ssa.Value) bool {
	if a == nil || b == nil {
		return false
	}
	return core.SameValue(a, b) || core.SamePath(a, b)
}

// ---------------------------------------------------------------- the rule set

type formulaFn struct {
	fn                    *ssa.Function
	sup, res, crr, amount int // parameter slots by role
	// domainRole: the sale formulas compute Pow(1 − amount/X, ·); X's role, "" when the base
	// is not of that shape
	domainRole string
}

func runC12(c *core.Ctx) {
	defer checkFloatPrecision(c, "C12.prec")
	var fpkg *ssa.Package
	for short, p := range c.SSAPkgs {
		if short == "formula" {
			fpkg = p
		}
	}
	if fpkg == nil {
		c.Unk("C12.formula", "package formula", token.NoPos, "package formula not loaded")
		return
	}
	names := []string{"CalculatePurchaseReturn", "CalculatePurchaseAmount", "CalculateSaleReturn", "CalculateSaleAmount"}
	fns := map[string]*formulaFn{}
	for _, n := range names {
		fn := fpkg.Func(n)
		if fn == nil || fn.Blocks == nil {
			c.Unk("C12.formula", "formula."+n, token.NoPos, "formula function not found (anchor of the property)")
			continue
		}
		fns[n] = &formulaFn{fn: fn, sup: -1, res: -1, crr: -1, amount: -1}
	}
	if len(fns) != len(names) {
		return
	}
	roles := &c12Roles{c: c, fieldMem: map[string]string{}, fnMem: map[string]string{}, paramMem: map[string]string{}}

	// ---- call sites and the slot roles they agree on
	type siteInfo struct {
		s     *core.Site
		f     *formulaFn
		roles []string
		bases []ssa.Value
	}
	var sites []*siteInfo
	for _, caller := range c.AllFns {
		if !c.InRepo(caller) {
			continue
		}
		for _, s := range core.Sites(caller) {
			sc := s.Common.StaticCallee()
			if sc == nil {
				continue
			}
			f := fns[sc.Name()]
			if f == nil || f.fn != sc {
				continue
			}
			si := &siteInfo{s: s, f: f}
			for _, a := range s.Common.Args {
				ro, base := roles.of(a, 0)
				si.roles = append(si.roles, ro)
				si.bases = append(si.bases, base)
			}
			sites = append(sites, si)
		}
	}
	sort.Slice(sites, func(i, j int) bool { return sites[i].s.Pos() < sites[j].s.Pos() })
	c.Floor("C12.args", len(sites), 14, "call sites of the formula functions")
	for _, n := range names {
		f := fns[n]
		votes := make([]map[string]int, len(f.fn.Params))
		for i := range votes {
			votes[i] = map[string]int{}
		}
		for _, si := range sites {
			if si.f != f {
				continue
			}
			for i, ro := range si.roles {
				if ro != "" && i < len(votes) {
					votes[i][ro]++
				}
			}
		}
		slotOf := func(role string) int {
			best, bestN, tie := -1, 0, false
			for i := range votes {
				if votes[i][role] > bestN {
					best, bestN, tie = i, votes[i][role], false
				} else if votes[i][role] == bestN && bestN > 0 {
					tie = true
				}
			}
			if tie {
				return -1
			}
			return best
		}
		f.sup, f.res, f.crr = slotOf(roleSupply), slotOf(roleReserve), slotOf(roleCrr)
		for i, p := range f.fn.Params {
			if i != f.sup && i != f.res && i != f.crr && isBigPtr(p.Type()) {
				if f.amount >= 0 {
					f.amount = -2
				} else {
					f.amount = i
				}
			}
		}
		if f.sup < 0 || f.res < 0 || f.crr < 0 || f.amount < 0 || f.sup == f.res {
			c.Unk("C12.args", "formula."+n+"/slots", f.fn.Pos(), fmt.Sprintf("the call sites do not determine which parameter is the supply, the reserve and the reserve ratio (supply=%d reserve=%d crr=%d amount=%d)", f.sup, f.res, f.crr, f.amount))
			return
		}
	}
	ord := map[string]int{}
	for _, si := range sites {
		caller := core.ShortFn(si.s.Fn)
		k := caller + "/" + si.f.fn.Name()
		ord[k]++
		key := fmt.Sprintf("%s#%d", k, ord[k])
		f := si.f
		var probs []string
		want := map[int]string{f.sup: roleSupply, f.res: roleReserve, f.crr: roleCrr}
		for slot, role := range want {
			if si.roles[slot] != role {
				got := si.roles[slot]
				if got == "" {
					got = "a value that is not traced to a coin's " + role
				} else {
					got = "the " + got
				}
				probs = append(probs, fmt.Sprintf("parameter %s (the %s at the other call sites) receives %s", f.fn.Params[slot].Name(), role, got))
			}
		}
		if len(probs) == 0 && !(sameBase(si.bases[f.sup], si.bases[f.res]) && sameBase(si.bases[f.sup], si.bases[f.crr])) {
			probs = append(probs, "supply, reserve and reserve ratio are not taken from one and the same coin object")
		}
		sort.Strings(probs)
		c.Check(len(probs) == 0, "C12.args", key, si.s.Pos(), "supply, reserve and reserve ratio of one coin, each in its slot", strings.Join(probs, "; "))
	}

	// ---- the formula functions themselves
	al := &algebra{}
	for _, n := range names {
		checkFormulaFn(c, al, n, fns[n])
	}
	checkPow(c, al)

	// ---- domain of the sale formulas at their call sites in consensus code
	nd := 0
	consensus := c12ConsensusFns(c)
	dord := map[string]int{}
	for _, si := range sites {
		if si.f.domainRole == "" {
			continue
		}
		if !consensus[si.s.Fn] {
			continue
		}
		caller := core.ShortFn(si.s.Fn)
		k := caller + "/" + si.f.fn.Name()
		dord[k]++
		key := fmt.Sprintf("%s#%d", k, dord[k])
		nd++
		if why, ok := c12StakeSites[c12SiteName(c.GroupRoot(c12Decl(si.s.Fn)))]; ok {
			c.OK("C12.domain", key, si.s.Pos(), "block-level site, amount is part of a stake of the coin: "+why)
			continue
		}
		ok, detail := domainEstablished(c, roles, si.s, si.f, si.bases[si.f.sup])
		c.Check(ok, "C12.domain", key, si.s.Pos(), "amount ≤ "+si.f.domainRole+" of the same coin on every path: "+detail,
			"a path reaches this sale formula without a decision that leaves amount ≤ "+si.f.domainRole+" of that coin ("+detail+"): Pow would be called with a negative base and panic")
	}
	c.Floor("C12.domain", nd, 6, "sale-formula call sites in consensus code")
}

// c12Decl: the enclosing declared function of a closure.
func c12Decl(fn *ssa.Function) *ssa.Function {
	for fn.Parent() != nil {
		fn = fn.Parent()
	}
	return fn
}

// c12SiteName: the enclosing declared function (closures are named after it).
func c12SiteName(fn *ssa.Function) string {
	for fn.Parent() != nil {
		fn = fn.Parent()
	}
	return core.ShortFn(fn)
}

// c12StakeSites: block-level callers whose amount is not an input of a transaction but a part
// of a stake (or of the supply) of the very coin — the bound amount ≤ supply is the state
// invariant "delegated and frozen amounts of a coin are part of its volume", not a gate.
var c12StakeSites = map[string]string{
	"(*coreV2/state/candidates.Candidates).PunishByzantineCandidate":  "5 % of a stake of the coin",
	"(*coreV2/state/candidates.Candidates).calculateBipValue":         "volume minus the delegated total of the coin",
	"(*coreV2/state/frozenfunds.FrozenFunds).PunishFrozenFundsWithID": "5 % of a frozen (unbonding) stake of the coin",
	"(*coreV2/state/coins.Coins).ExportV1":                            "genesis migration of the legacy state, not block processing",
}

// c12ConsensusFns: the packages whose code runs in block processing (transaction handlers, state
// modules, the ABCI application). The API and CLI packages are left out: a panic there is a
// failed query, not a halted chain.
func c12ConsensusFns(c *core.Ctx) map[*ssa.Function]bool {
	out := map[*ssa.Function]bool{}
	for _, fn := range c.AllFns {
		pk := core.PkgOf(fn)
		if strings.HasPrefix(pk, core.PkgState+"/") || pk == core.PkgState || pk == core.PkgTx || pk == "coreV2/minter" {
			out[fn] = true
		}
	}
	return out
}

// paramAtom is the atom bindParams gives parameter i of fn.
func paramAtom(al *algebra, fn *ssa.Function, i int) ratf {
	return al.atom("param", core.ParamName(fn.Params[i]))
}

func checkFormulaFn(c *core.Ctx, al *algebra, name string, f *formulaFn) {
	fn := f.fn
	S, R, C, A := paramAtom(al, fn, f.sup), paramAtom(al, fn, f.res), paramAtom(al, fn, f.crr), paramAtom(al, fn, f.amount)
	one, hundred := rint(1), rint(100)
	pow := func(base, exp ratf) ratf { return al.atom("call", "Pow", base, exp) }
	trunc := func(x ratf) ratf { return al.atom("trunc", "trunc", x) }
	idiv := func(a, b ratf) ratf { return intdivAtom(al, a, b) }
	var general, linear ratf
	var text string
	switch name {
	case "CalculatePurchaseReturn":
		general = trunc(rmul(S, rsub(pow(radd(one, rdiv(A, R)), rdiv(C, hundred)), one)))
		linear = idiv(rmul(S, A), R)
		text = "supply·((1 + amount/reserve)^(crr/100) − 1)"
	case "CalculatePurchaseAmount":
		general = trunc(rmul(R, rsub(pow(rdiv(radd(A, S), S), rdiv(hundred, C)), one)))
		linear = idiv(rmul(A, R), S)
		text = "reserve·(((amount + supply)/supply)^(100/crr) − 1)"
	case "CalculateSaleReturn":
		general = trunc(rmul(R, rsub(one, pow(rsub(one, rdiv(A, S)), rdiv(hundred, C)))))
		linear = idiv(rmul(R, A), S)
		text = "reserve·(1 − (1 − amount/supply)^(100/crr))"
		f.domainRole = roleSupply // the Pow base 1 − amount/supply must not be negative
	case "CalculateSaleAmount":
		general = trunc(rmul(S, rsub(one, pow(rsub(one, rdiv(A, R)), rdiv(C, hundred)))))
		linear = idiv(rmul(A, S), R)
		text = "supply·(1 − (1 − amount/reserve)^(crr/100))"
		f.domainRole = roleReserve // the Pow base 1 − amount/reserve must not be negative
	}
	evs, ok := evalReturns(c, al, fn, 64)
	if !ok || len(evs) == 0 {
		c.Unk("C12.formula", "formula."+name, fn.Pos(), "the return paths of the function could not be enumerated")
		return
	}
	nGeneral := 0
	for i, ev := range evs {
		key := fmt.Sprintf("formula.%s/return-path#%d", name, i+1)
		pos := ev.ret.Pos()
		if len(ev.res) != 1 {
			c.Unk("C12.formula", key, pos, "unexpected result arity")
			continue
		}
		o, _ := ev.res[0].(*bobj)
		if o == nil {
			c.Bad("C12.formula", key, pos, "a path returns nil instead of an amount")
			continue
		}
		// purity
		if o.param >= 0 {
			c.Bad("C12.pure", key+"/result", pos, fmt.Sprintf("the path returns its argument %s itself: the caller's (possibly stored) amount and the result become one object", fn.Params[o.param].Name()))
		} else {
			c.OK("C12.pure", key+"/result", pos, "the result is a new object")
		}
		for pi, ppos := range ev.ev.mutated {
			c.Bad("C12.pure", fmt.Sprintf("%s/writes-%s", key, fn.Params[pi].Name()), ppos, fmt.Sprintf("the function writes through its argument %s", fn.Params[pi].Name()))
		}
		v := o.val
		zeroOK := onlyZero(signOf(ev.conds, A))
		fullOK := onlyZero(cmpOf(ev.conds, A, S))
		linOK := numEq(ev.conds, C, 100)
		switch {
		case requal(v, general):
			nGeneral++
			c.OK("C12.formula", key, pos, "returns trunc("+text+")")
			if name == "CalculateSaleReturn" {
				c.Check(!cmpOf(ev.conds, A, S)[0], "C12.full", key, pos, "the floating-point form is computed only after amount == supply was excluded",
					"the floating-point form is reachable with amount == supply: selling the entire supply would return reserve·(1 − 0^(100/crr)) rounded to 100 bits instead of exactly the reserve")
			}
		case linOK && requal(v, linear):
			c.OK("C12.formula", key, pos, "crr == 100: exact integer form "+al.String(linear))
		case zeroOK && v.isConst() && v.constVal().Sign() == 0:
			c.OK("C12.formula", key, pos, "amount == 0: returns 0")
		case name == "CalculateSaleReturn" && fullOK && requal(v, R):
			c.OK("C12.formula", key, pos, "amount == supply: returns a copy of the reserve")
		default:
			var cs []string
			if zeroOK {
				cs = append(cs, "amount == 0")
			}
			if fullOK {
				cs = append(cs, "amount == supply")
			}
			if linOK {
				cs = append(cs, "crr == 100")
			}
			if len(cs) == 0 {
				cs = append(cs, "no special case established")
			}
			c.Bad("C12.formula", key, pos, fmt.Sprintf("on this path (%s) the function returns %s, which is neither trunc(%s) nor a special form valid under the path's conditions", strings.Join(cs, ", "), al.String(v), text))
		}
	}
	c.Check(nGeneral > 0, "C12.formula", "formula."+name+"/general", fn.Pos(), "the general form is computed on some path", "no path computes "+text)
}

func checkPow(c *core.Ctx, al *algebra) {
	var fn *ssa.Function
	if p := c.SSAPkgs["math"]; p != nil {
		fn = p.Func("Pow")
	}
	if fn == nil || fn.Blocks == nil || len(fn.Params) != 2 {
		c.Unk("C12.pow", "math.Pow", token.NoPos, "math.Pow not found (anchor of the property)")
		return
	}
	Z, W := paramAtom(al, fn, 0), paramAtom(al, fn, 1)
	general := al.atom("call", "ExpFloat", rmul(W, al.atom("call", "Log", Z)))
	recip := rdiv(rint(1), al.atom("call", "Pow", Z, rneg(W)))
	evs, ok := evalReturns(c, al, fn, 64)
	if !ok || len(evs) == 0 {
		c.Unk("C12.pow", "math.Pow", fn.Pos(), "the return paths could not be enumerated")
		return
	}
	nGeneral := 0
	for i, ev := range evs {
		key := fmt.Sprintf("math.Pow/return-path#%d", i+1)
		pos := ev.ret.Pos()
		o, _ := ev.res[0].(*bobj)
		if o == nil {
			c.Bad("C12.pow", key, pos, "a path returns nil")
			continue
		}
		if o.param >= 0 {
			c.Bad("C12.pure", key+"/result", pos, "math.Pow returns its argument itself; the formulas go on writing into the result")
		} else {
			c.OK("C12.pure", key+"/result", pos, "the result is a new object")
		}
		for pi, ppos := range ev.ev.mutated {
			c.Bad("C12.pure", fmt.Sprintf("%s/writes-%s", key, fn.Params[pi].Name()), ppos, "math.Pow writes through its argument "+fn.Params[pi].Name())
		}
		if signOf(ev.conds, Z)[-1] {
			c.Bad("C12.pow", key+"/negative-base", pos, "a return is reachable with a negative base: a value is produced where the power is undefined")
		} else {
			c.OK("C12.pow", key+"/negative-base", pos, "negative base excluded on this path")
		}
		v := o.val
		sw := signOf(ev.conds, W)
		switch {
		case requal(v, general):
			nGeneral++
			c.OK("C12.pow", key, pos, "returns Exp(w·Log z)")
		case onlyZero(sw) && v.isConst() && v.constVal().Cmp(rint(1).constVal()) == 0:
			c.OK("C12.pow", key, pos, "w == 0: returns 1")
		case (onlyZero(cmpOf(ev.conds, W, rint(1))) || isInfOn(ev.conds, Z)) && requal(v, Z):
			c.OK("C12.pow", key, pos, "w == 1 or z infinite: returns a copy of z")
		case len(sw) == 1 && sw[-1] && requal(v, recip):
			c.OK("C12.pow", key, pos, "w < 0: returns 1/Pow(z, −w)")
		default:
			c.Bad("C12.pow", key, pos, "on this path math.Pow returns "+al.String(v)+", which is neither Exp(w·Log z) nor a special case valid under the path's conditions")
		}
	}
	c.Check(nGeneral > 0, "C12.pow", "math.Pow/general", fn.Pos(), "Exp(w·Log z) is computed on some path", "no path computes Exp(w·Log z)")
}

// ---------------------------------------------------------------- domain gates

// domainEstablished: on every path from the entry of the calling function to the call, a
// decision leaves amount ≤ X(coin), X being the formula's domain role.
func domainEstablished(c *core.Ctx, roles *c12Roles, s *core.Site, f *formulaFn, coin ssa.Value) (bool, string) {
	call, ok := s.Instr.(*ssa.Call)
	if !ok {
		return false, "deferred call"
	}
	paths, ok := core.PathsTo(call, 256)
	if !ok || len(paths) == 0 {
		return false, "paths to the call could not be enumerated"
	}
	amount := s.Common.Args[f.amount]
	how := map[string]bool{}
	for _, p := range paths {
		al := &algebra{}
		ev := newPathEval(c, al, s.Fn, p, 0)
		ev.hook = roleHook(roles, al)
		ev.bindParams()
		// run up to the call
		for _, b := range p.Blocks {
			for _, in := range b.Instrs {
				if in == ssa.Instruction(call) {
					break
				}
				if cc, ok := in.(*ssa.Call); ok {
					ev.call(cc)
				}
			}
		}
		X := al.atom("role", f.domainRole, al.atom("value", core.Path(coin)))
		Av := ev.valOf(amount)
		found := ""
		conds := ev.conds()
		if m := cmpOf(conds, X, Av); !m[-1] {
			found = "direct comparison"
		}
		if found == "" {
			// a helper's non-error outcome
			for _, ed := range p.Edges {
				h, args, nilTaken := nilDecision(ev, ed)
				if h == nil || !nilTaken {
					continue
				}
				for _, sm := range domainSummary(c, roles, h) {
					if sm.role != f.domainRole || sm.coin >= len(args) || sm.amount >= len(args) {
						continue
					}
					if sameBase(args[sm.coin], coin) && requal(ev.valOf(args[sm.amount]), Av) {
						found = "non-error outcome of " + core.ShortFn(h)
					}
				}
			}
		}
		if found == "" {
			return false, "path through " + pathBlocks(c, p)
		}
		how[found] = true
	}
	var hs []string
	for h := range how {
		hs = append(hs, h)
	}
	sort.Strings(hs)
	return true, fmt.Sprintf("%d path(s), by %s", len(paths), strings.Join(hs, " / "))
}

func pathBlocks(c *core.Ctx, p core.CFGPath) string {
	var out []string
	for _, ed := range p.Edges {
		out = append(out, fmt.Sprintf("%s=%v", c.PosStr(ed.If.Cond.Pos()), ed.Taken))
	}
	if len(out) > 6 {
		out = out[len(out)-6:]
	}
	return strings.Join(out, " ")
}

// roleHook names coin accessors: X(coin) for a value with role X of object coin.
func roleHook(roles *c12Roles, al *algebra) func(v ssa.Value) (ratf, bool) {
	return func(v ssa.Value) (ratf, bool) {
		if call, ok := v.(*ssa.Call); ok && strings.Contains(core.CalleeName(core.NormCall(&call.Call)), "math/big.") {
			return ratf{}, false // arithmetic goes through the transfer functions
		}
		ro, base := roles.of(v, 0)
		if ro == "" || base == nil {
			return ratf{}, false
		}
		// only the accessor itself, not a copy made with big.NewInt(0).Set (that goes through
		// the transfer functions and ends at the accessor)
		if core.Unwrap(stripCopy(v)) != core.Unwrap(v) {
			return ratf{}, false
		}
		return al.atom("role", ro, al.atom("value", core.Path(base))), true
	}
}

// nilDecision: the edge decides `h(args…) ==/!= nil` for a repository function h; reports
// whether the nil outcome was taken.
func nilDecision(ev *pathEval, ed core.Edge) (*ssa.Function, []ssa.Value, bool) {
	cond := ev.resolve(ed.If.Cond)
	b, ok := cond.(*ssa.BinOp)
	if !ok || (b.Op != token.EQL && b.Op != token.NEQ) {
		return nil, nil, false
	}
	x, y := ev.resolve(b.X), ev.resolve(b.Y)
	if k, ok := x.(*ssa.Const); ok && k.IsNil() {
		x, y = y, x
	}
	k, ok := y.(*ssa.Const)
	if !ok || !k.IsNil() {
		return nil, nil, false
	}
	call, ok := core.Unwrap(x).(*ssa.Call)
	if !ok {
		return nil, nil, false
	}
	h := call.Call.StaticCallee()
	if h == nil || h.Blocks == nil || !ev.c.InRepo(h) {
		return nil, nil, false
	}
	nilTaken := (b.Op == token.EQL) == ed.Taken
	return h, core.NormCall(&call.Call).Args, nilTaken
}

type domSummary struct {
	role         string
	coin, amount int // parameter indices
}

var domSummaryMemo = map[*ssa.Function][]domSummary{}

// domainSummary: h(coin, amount) returns nil only on paths that decided
// X(coin) − amount ≥ M for a non-negative package-level bound M, or X(coin) ≥ amount.
func domainSummary(c *core.Ctx, roles *c12Roles, h *ssa.Function) []domSummary {
	if s, ok := domSummaryMemo[h]; ok {
		return s
	}
	domSummaryMemo[h] = nil
	var coinParams, amtParams []int
	for i, p := range h.Params {
		if isBigPtr(p.Type()) {
			amtParams = append(amtParams, i)
		} else if _, ok := p.Type().Underlying().(*types.Interface); ok {
			coinParams = append(coinParams, i)
		} else if _, ok := p.Type().Underlying().(*types.Pointer); ok {
			coinParams = append(coinParams, i)
		}
	}
	var out []domSummary
	for _, role := range []string{roleSupply, roleReserve} {
		for _, ci := range coinParams {
			for _, ai := range amtParams {
				all, n := true, 0
				for _, ret := range core.Returns(h) {
					if len(ret.Results) != 1 {
						all = false
						break
					}
					paths, ok := core.PathsTo(ret, 64)
					if !ok {
						all = false
						break
					}
					for _, p := range paths {
						if k, ok := p.Resolve(ret.Results[0]).(*ssa.Const); !ok || !k.IsNil() {
							continue // an error outcome
						}
						n++
						al := &algebra{}
						ev := newPathEval(c, al, h, p, 0)
						ev.hook = roleHook(roles, al)
						ev.bindParams()
						ev.run(ret)
						X := al.atom("role", role, al.atom("value", core.Path(h.Params[ci])))
						A := al.atom("param", core.ParamName(h.Params[ai]))
						good := false
						conds := ev.conds()
						if m := cmpOf(conds, X, A); !m[-1] {
							good = true
						}
						for _, pc := range conds {
							if pc.kind == "cmp" && requal(pc.a, rsub(X, A)) && !pc.allowed()[-1] && nonNegBound(c, al, pc.b) {
								good = true
							}
						}
						if !good {
							all = false
						}
					}
				}
				if all && n > 0 {
					out = append(out, domSummary{role: role, coin: ci, amount: ai})
				}
			}
		}
	}
	domSummaryMemo[h] = out
	return out
}

// nonNegBound: the expression is a non-negative constant, or a package-level variable of the
// transaction package initialised from a non-negative constant (minCoinReserve).
func nonNegBound(c *core.Ctx, al *algebra, b ratf) bool {
	if b.isConst() {
		return b.constVal().Sign() >= 0
	}
	// a single "value" atom naming a global
	if len(b.num) != 1 || !pequal(b.den, pint(1)) {
		return false
	}
	for k, coef := range b.num {
		if coef.Cmp(rint(1).constVal()) != 0 || strings.Contains(k, ".") || k == "" {
			return false
		}
		var id int
		fmt.Sscanf(k, "%d", &id)
		d := al.atoms[id]
		if d.kind != "value" {
			return false
		}
		return globalInitNonNeg(c, d.name)
	}
	return false
}

// globalInitNonNeg: path names a package-level *big.Int whose only store (in the package
// initialiser) is helpers.BipToPip(big.NewInt(k)) or big.NewInt(k) with k ≥ 0.
func globalInitNonNeg(c *core.Ctx, path string) bool {
	for _, p := range c.SSAPkgs {
		for _, m := range p.Members {
			g, ok := m.(*ssa.Global)
			if !ok || path != "global:"+g.Name() {
				continue
			}
			stores, good := 0, false
			for _, fn := range c.AllFns {
				for _, b := range fn.Blocks {
					for _, in := range b.Instrs {
						st, ok := in.(*ssa.Store)
						if !ok || st.Addr != ssa.Value(g) {
							continue
						}
						stores++
						v := core.Unwrap(st.Val)
						for i := 0; i < 2; i++ {
							call, ok := v.(*ssa.Call)
							if !ok {
								break
							}
							n := core.CalleeName(core.NormCall(&call.Call))
							if n == "math/big.NewInt" {
								if k, ok := core.ConstInt(core.NormCall(&call.Call).Args[0]); ok && k >= 0 {
									good = true
								}
								break
							}
							if strings.HasSuffix(n, "helpers.BipToPip") && len(core.NormCall(&call.Call).Args) == 1 {
								v = core.Unwrap(core.NormCall(&call.Call).Args[0])
								continue
							}
							break
						}
					}
				}
			}
			if stores == 1 && good {
				return true
			}
		}
	}
	return false
}

// checkFloatPrecision — C12.prec. A big.Float made by big.NewFloat has 53 bits of mantissa, and
// every arithmetic method rounds its result to the precision of its *receiver* (when that is not
// 0), whatever the operands carry. In the packages that evaluate the bonding curve (formula,
// math) no arithmetic or assignment method may therefore have as its receiver an object that
// comes straight from big.NewFloat without a SetPrec in between — the value would silently be
// computed in double precision and only widened afterwards (relative errors of 1e-16 instead of
// 1e-30: dust conversions that return 0 or more than the curve allows).
func checkFloatPrecision(c *core.Ctx, rule string) {
	checkFloatPrecisionIn(c, rule, []string{"formula", "math"}, "formula and math", "far below the working precision of the curve evaluation", 60, nil)
}

// checkFloatPrecisionIn: no rounding big.Float operation in the given packages has a bare
// big.NewFloat object (53 bits) as its receiver.
func checkFloatPrecisionIn(c *core.Ctx, rule string, pkgs []string, where, consequence string, floor int, only func(*ssa.Function) bool) {
	rounding := map[string]bool{"Add": true, "Sub": true, "Mul": true, "Quo": true, "Sqrt": true, "Set": true, "SetInt": true, "SetInt64": true, "SetUint64": true, "SetFloat64": true, "SetRat": true, "Neg": true, "Abs": true}
	n, bad := 0, 0
	for _, pk := range pkgs {
		for _, fn := range c.SrcFuncs(pk) {
			if fn.Blocks == nil || legacyV1(fn) || only != nil && !only(fn) {
				continue
			}
			k := 0
			for _, s := range core.Sites(fn) {
				if !strings.HasPrefix(s.Callee, "(*math/big.Float).") || !rounding[s.Callee[len("(*math/big.Float)."):]] || len(s.Common.Args) == 0 {
					continue
				}
				n++
				recv := s.Common.Args[0]
				from := ""
				seen := map[ssa.Value]bool{}
				var walk func(v ssa.Value, d int)
				walk = func(v ssa.Value, d int) {
					if v == nil || seen[v] || d > 8 || from != "" {
						return
					}
					seen[v] = true
					switch x := v.(type) {
					case *ssa.Phi:
						for _, e := range x.Edges {
							walk(e, d+1)
						}
					case *ssa.Call:
						name := core.CalleeName(core.NormCall(&x.Call))
						switch {
						case name == "math/big.NewFloat":
							from = c.PosStr(x.Pos())
						case strings.HasPrefix(name, "(*math/big.Float).") && name != "(*math/big.Float).SetPrec" && name != "(*math/big.Float).Copy" && len(core.NormCall(&x.Call).Args) > 0:
							// methods return their receiver (Copy takes the source's precision)
							walk(core.NormCall(&x.Call).Args[0], d+1)
						}
					}
				}
				walk(recv, 0)
				if from != "" {
					bad++
					k++
					c.Bad(rule, fmt.Sprintf("%s/%s#%d", core.ShortFn(fn), s.Callee[len("(*math/big.Float)."):], k), s.Pos(), "the receiver of this operation is the 53-bit object made by big.NewFloat at "+from+" (no SetPrec in between): the result is rounded to double precision, "+consequence)
				}
			}
		}
	}
	if bad == 0 {
		c.OK(rule, "receivers", token.NoPos, fmt.Sprintf("%d big.Float operations in %s: none has a bare big.NewFloat object as its receiver", n, where))
	}
	c.Floor(rule, n, floor, "big.Float arithmetic/assignment operations in "+where)
}
