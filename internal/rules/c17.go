package rules

import (
	"fmt"
	"go/token"
	"go/types"
	"strings"

	"golang.org/x/tools/go/ssa"

	"verif/internal/core"
)

const pkgCand = core.PkgState + "/candidates"

func init() {
	register(&RuleSet{
		Meta: core.PropertyMeta{
			ID: "C17",
			Explanation: "That the comparator really sorts by total stake, proportionality of powers and all arithmetic are NOT decided. Decided, structurally: " +
				"(select) GetNewCandidates appends only elements of the ordered candidate list, each behind `status != Online ⇒ skip` and `totalBipStake < minValidatorBipStake ⇒ skip`, and truncates to the count it is given; updateValidators passes GetValidatorsCountForBlock (constant ≤ 64), minValidatorBipStake is BipToPip(1000), and the same list goes to SetNewValidators and into the Tendermint updates; " +
				"(power) each update's power is stake·10^8/total with `power == 0 ⇒ 1`, and every previously active validator missing from the new list gets a power-0 update; " +
				"(keep) every effect of DeleteCandidate is dominated by `IsValidator(candidate.PubKey) ⇒ return`; " +
				"(remove) RecalculateStakesV2 deletes exactly the tail [100:] of the ordered list and nothing when there are fewer than 100; DeleteCandidate freezes every stake and pending update with its full Value until height+GetUnbondPeriod() and zeroes it; " +
				"(kick) in recalculateStakes the incoming update is kicked only when the smallest stake is strictly greater than it (an equal incoming stake replaces), the loser of either kind is passed to stakeKick with its own Owner/Value/Coin, and stakeKick hands exactly those to the waitlist.",
			Assumptions: stdAssumptions,
			Rules:       []string{"C17.select", "C17.power", "C17.keep", "C17.remove", "C17.kick", "C17.dirty", "C17.flag", "C17.rank"},
		},
		Run: runC17,
	})
}

func runC17(c *core.Ctx) {
	defer checkChangeFlags(c, "C17.flag")
	defer checkSelection(c, "C17.select")
	defer checkNewSetPersisted(c, "C17.dirty")
	ct := c.Named(pkgCand, "Candidates")
	if ct == nil {
		c.Unk("C17.select", "Candidates", token.NoPos, "type not found")
		return
	}
	checkSelect(c, c.Method(ct, "GetNewCandidates"))
	checkUpdateValidators(c)
	checkKeep(c, c.Method(ct, "DeleteCandidate"))
	checkRemove(c, c.Method(ct, "RecalculateStakesV2"), c.Method(ct, "DeleteCandidate"))
	checkKick(c, c.Method(ct, "recalculateStakes"), c.Method(ct, "stakeKick"))
	checkRankAfterRecalculation(c, "C17.rank", ct, c.Method(ct, "stakeKick"))
}

func checkSelect(c *core.Ctx, fn *ssa.Function) {
	rule := "C17.select"
	if fn == nil {
		c.Unk(rule, "GetNewCandidates", token.NoPos, "function not found")
		return
	}
	// the append(result, candidate) site(s)
	n := 0
	for _, s := range core.Sites(fn) {
		bi, ok := s.Common.Value.(*ssa.Builtin)
		if !ok || bi.Name() != "append" {
			continue
		}
		n++
		// element comes from ranging over GetCandidates()
		fromOrdered := false
		for _, o := range core.Origins(s.Common.Args[1]) {
			sl, ok := o.(*ssa.Slice)
			if !ok {
				continue
			}
			if al, ok := sl.X.(*ssa.Alloc); ok {
				for _, r := range *al.Referrers() {
					if ia, ok := r.(*ssa.IndexAddr); ok {
						for _, rr := range *ia.Referrers() {
							if st, ok := rr.(*ssa.Store); ok {
								if ld, ok := core.Unwrap(st.Val).(*ssa.UnOp); ok {
									if ia2, ok := ld.X.(*ssa.IndexAddr); ok {
										for _, oo := range core.Origins(ia2.X) {
											if call, ok := oo.(*ssa.Call); ok && methodNameOfCall(call) == "GetCandidates" {
												fromOrdered = true
											}
										}
									}
								}
							}
						}
					}
				}
			}
		}
		c.Check(fromOrdered, rule, "GetNewCandidates/from-ordered-list", s.Pos(), "selected elements are elements of GetCandidates() (ordered by stake)", "the validator candidates are not drawn from the ordered candidate list")
		online, minStake := false, false
		for _, f := range c.FactsAt(s.Instr, 0) {
			cf, ok := f.AsCall()
			if !ok {
				continue
			}
			switch cf.MethodName() {
			case "GetStatus":
				// status != Online is false (constant CandidateStatusOnline = 2)
				if (cf.Op == token.NEQ && !f.Truth) || (cf.Op == token.EQL && f.Truth) {
					if k, ok := constOf(c, pkgCand, "CandidateStatusOnline"); ok && k == cf.Const {
						online = true
					}
				}
			case "Cmp":
				// totalBipStake.Cmp(minValidatorBipStake) == -1 is false
				if ((cf.Op == token.EQL && cf.Const == -1) || (cf.Op == token.LSS && cf.Const == 0)) && !f.Truth {
					if strings.HasSuffix(cf.RecvPath(), ".GetTotalBipStake()") && strings.HasSuffix(cf.ArgPath(0), "minValidatorBipStake") {
						minStake = true
					}
				}
			}
		}
		c.Check(online, rule, "GetNewCandidates/online-only", s.Pos(), "only candidates with status Online are selected", "a candidate that is not online can be selected as validator")
		c.Check(minStake, rule, "GetNewCandidates/min-stake", s.Pos(), "only candidates with totalBipStake ≥ minValidatorBipStake are selected", "a candidate below the minimum validator stake can be selected")
	}
	c.Check(n == 1, rule, "GetNewCandidates/shape", fn.Pos(), "one selection site", fmt.Sprintf("%d append sites", n))
	// truncation to valCount
	trunc := false
	for _, b := range fn.Blocks {
		for _, in := range b.Instrs {
			if sl, ok := in.(*ssa.Slice); ok && sl.High != nil && core.Unwrap(sl.High) == ssa.Value(fn.Params[1]) {
				for _, g := range core.GatesBefore(sl) {
					if bin, ok := g.If.Cond.(*ssa.BinOp); ok && bin.Op == token.GTR && g.PassTrue && core.Unwrap(bin.Y) == ssa.Value(fn.Params[1]) {
						trunc = true
					}
				}
			}
		}
	}
	c.Check(trunc, rule, "GetNewCandidates/limit", fn.Pos(), "the selection is cut to the requested count", "the selection is no longer cut to the requested validator count")
	// minValidatorBipStake = BipToPip(big.NewInt(1000))
	if p := c.SSAPkgs[pkgCand]; p != nil {
		good := false
		if initf := p.Func("init"); initf != nil {
			for _, s := range core.Sites(initf) {
				if s.Callee == "helpers.BipToPip" {
					if inner, ok := core.Unwrap(s.Arg(0)).(*ssa.Call); ok && core.CalleeName(core.NormCall(&inner.Call)) == "math/big.NewInt" {
						if k, ok := core.ConstInt(core.NormCall(&inner.Call).Args[0]); ok && k == 1000 {
							// stored to the global
							if v := s.Value(); v != nil {
								for _, r := range *v.Referrers() {
									if st, ok := r.(*ssa.Store); ok {
										if g, ok := st.Addr.(*ssa.Global); ok && g.Name() == "minValidatorBipStake" {
											good = true
										}
									}
								}
							}
						}
					}
				}
			}
		}
		c.Check(good, rule, "minValidatorBipStake", token.NoPos, "minValidatorBipStake = BipToPip(1000)", "minValidatorBipStake is no longer BipToPip(1000)")
	}
	// validators count constant ≤ 64
	if vc := c.Fn("coreV2/validators.GetValidatorsCountForBlock"); vc != nil {
		good := true
		for _, r := range core.Returns(vc) {
			k, ok := core.ConstInt(r.Results[0])
			if !ok || k > 64 || k < 1 {
				good = false
			}
		}
		c.Check(good, rule, "GetValidatorsCountForBlock", vc.Pos(), "validator count is a constant in 1..64", "GetValidatorsCountForBlock can return more than 64")
	} else {
		c.Unk(rule, "GetValidatorsCountForBlock", token.NoPos, "function not found")
	}
}

func checkUpdateValidators(c *core.Ctx) {
	rule := "C17.power"
	fn := c.MustFn(rule, "(*coreV2/minter.Blockchain).updateValidators")
	if fn == nil {
		return
	}
	var gnc, snv, edu *core.Site
	for _, s := range c.GroupSites(fn) {
		switch {
		case methodName(s) == "GetNewCandidates":
			gnc = s
		case methodName(s) == "SetNewValidators":
			snv = s
		case strings.HasSuffix(s.Callee, ".Ed25519ValidatorUpdate"):
			edu = s
		}
	}
	if gnc == nil || snv == nil || edu == nil {
		c.Unk(rule, "updateValidators/shape", fn.Pos(), "GetNewCandidates / SetNewValidators / Ed25519ValidatorUpdate not all found")
		return
	}
	// count argument
	cnt := false
	for _, o := range core.Origins(gnc.Arg(0)) {
		if call, ok := o.(*ssa.Call); ok && strings.HasSuffix(core.CalleeName(core.NormCall(&call.Call)), ".GetValidatorsCountForBlock") {
			cnt = true
		}
	}
	c.Check(cnt, "C17.select", "updateValidators/count", gnc.Pos(), "GetNewCandidates(GetValidatorsCountForBlock(height))", "the number of validators requested is not GetValidatorsCountForBlock")
	c.Check(core.SameValue(snv.Arg(0), gnc.Value()), "C17.select", "updateValidators/same-list", snv.Pos(), "SetNewValidators receives exactly the selected candidates", "the state's validator list is set from another list than the selected candidates")
	// power: phi(1, Int64(Div(Mul(stake, 1e8), total))) under power == 0
	pw := edu.Arg(1)
	one, div := false, false
	for _, o := range core.Origins(pw) {
		if k, ok := core.ConstInt(o); ok && k == 1 {
			one = true
		}
		if call, ok := o.(*ssa.Call); ok && core.CalleeName(core.NormCall(&call.Call)) == "(*math/big.Int).Int64" {
			if core.DependsOn(call, func(v ssa.Value) bool {
				cc, ok := v.(*ssa.Call)
				return ok && core.CalleeName(core.NormCall(&cc.Call)) == "(*math/big.Int).Div"
			}) && core.DependsOn(call, func(v ssa.Value) bool {
				cc, ok := v.(*ssa.Call)
				return ok && methodNameOfCall(cc) == "GetTotalStake"
			}) {
				div = true
			}
		}
	}
	gate := false
	if ph, ok := core.Unwrap(pw).(*ssa.Phi); ok {
		for i, e := range ph.Edges {
			if k, ok := core.ConstInt(e); ok && k == 1 {
				pred := ph.Block().Preds[i]
				for _, g := range core.GatesBefore(pred.Instrs[len(pred.Instrs)-1]) {
					if bin, ok := g.If.Cond.(*ssa.BinOp); ok && bin.Op == token.EQL && g.PassTrue {
						if kk, ok := core.ConstInt(bin.Y); ok && kk == 0 {
							gate = true
						}
					}
				}
				// the predecessor may be the If block's direct successor
				if len(pred.Preds) == 1 {
					if iff := core.IfOf(pred.Preds[0]); iff != nil {
						if bin, ok := iff.Cond.(*ssa.BinOp); ok && bin.Op == token.EQL {
							if kk, ok := core.ConstInt(bin.Y); ok && kk == 0 {
								gate = true
							}
						}
					}
				}
			}
		}
	}
	c.Check(one && div && gate, rule, "updateValidators/power", edu.Pos(), "power = stake·k/total, replaced by 1 when it is 0", "the validator power is no longer stake·k/total with a floor of 1")
	// key of the update is the candidate's own key
	c.Check(strings.HasSuffix(core.Path(edu.Arg(0)), ".PubKey.Bytes()"), rule, "updateValidators/key", edu.Pos(), "the update carries the candidate's own public key", "the validator update does not carry the selected candidate's key")
	// removed validators: a composite ValidatorUpdate with Power 0 appended under !persisted
	zero := false
	var grpBlocks []*ssa.BasicBlock
	for _, g := range append([]*ssa.Function{fn}, c.Helpers(fn)...) {
		grpBlocks = append(grpBlocks, g.Blocks...)
	}
	for _, b := range grpBlocks {
		for _, in := range b.Instrs {
			st, ok := in.(*ssa.Store)
			if !ok {
				continue
			}
			if fa, ok := st.Addr.(*ssa.FieldAddr); ok && fieldNameOf(fa) == "Power" {
				if k, ok := core.ConstInt(st.Val); ok && k == 0 {
					zero = true
				}
			}
		}
	}
	c.Check(zero, rule, "updateValidators/removed", fn.Pos(), "validators missing from the new list get a power-0 update", "validators that dropped out of the set are no longer removed from Tendermint's set")
}

func checkKeep(c *core.Ctx, fn *ssa.Function) {
	rule := "C17.keep"
	if fn == nil {
		c.Unk(rule, "DeleteCandidate", token.NoPos, "function not found")
		return
	}
	n := 0
	// effects of DeleteCandidate itself and of helpers only it calls; an effect inside a helper is
	// gated where the helper is called
	type eff struct {
		s  *core.Site
		at ssa.Instruction
	}
	var effs []eff
	for _, s := range core.Sites(fn) {
		effs = append(effs, eff{s, s.Instr})
	}
	for _, h := range c.Helpers(fn) {
		for _, call := range core.Sites(fn) {
			if call.Common.StaticCallee() != h {
				continue
			}
			for _, s := range core.Sites(h) {
				effs = append(effs, eff{s, call.Instr})
			}
		}
	}
	for _, e := range effs {
		s := e.s
		name := methodName(s)
		effect := false
		switch name {
		case "AddToBlockPubKey", "AddEvent", "AddFrozenFund", "AddCoin", "setValue", "deleteCandaditeFromList", "Lock", "Sub":
			effect = true
		}
		if !effect {
			continue
		}
		n++
		gated := false
		for _, f := range c.FactsAt(e.at, 0) {
			if cf, ok := f.AsCall(); ok && cf.MethodName() == "IsValidator" && cf.Op == token.ILLEGAL && !f.Truth && strings.HasSuffix(cf.ArgPath(0), ".PubKey") {
				gated = true
			}
		}
		c.Check(gated, rule, "DeleteCandidate/"+name, s.Pos(), "behind IsValidator(candidate.PubKey) == false", "an effect of DeleteCandidate is not behind the `current validator ⇒ keep` gate: a sitting validator could be removed")
	}
	c.Floor(rule, n, 8, "effects in DeleteCandidate")
}

func checkRemove(c *core.Ctx, rec, del *ssa.Function) {
	rule := "C17.remove"
	if rec == nil || del == nil {
		c.Unk(rule, "RecalculateStakesV2", token.NoPos, "function not found")
		return
	}
	var site *core.Site
	for _, s := range core.Sites(rec) {
		if s.Common.StaticCallee() == del {
			site = s
		}
	}
	if site == nil {
		c.Bad(rule, "RecalculateStakesV2/delete", rec.Pos(), "DeleteCandidate is not called")
		return
	}
	// the deleted element ranges over candidates[100:]
	tail := false
	if ld, ok := core.Unwrap(site.Arg(1)).(*ssa.UnOp); ok {
		if ia, ok := ld.X.(*ssa.IndexAddr); ok {
			if sl, ok := ia.X.(*ssa.Slice); ok && sl.Low != nil && sl.High == nil {
				if k, ok := core.ConstInt(sl.Low); ok && k == 100 {
					for _, o := range core.Origins(sl.X) {
						if call, ok := o.(*ssa.Call); ok && strings.HasPrefix(methodNameOfCall(call), "getOrderedCandidates") {
							tail = true
						}
					}
				}
			}
		}
	}
	c.Check(tail, rule, "RecalculateStakesV2/tail-100", site.Pos(), "deletes the elements [100:] of the ordered candidate list", "the candidates removed are not exactly those ranked beyond the first 100 of the ordered list")
	// DeleteCandidate: every AddFrozenFund has height+GetUnbondPeriod and the element's own Value, followed by setValue(0)
	n := 0
	for _, s := range c.GroupSites(del) {
		if methodName(s) != "AddFrozenFund" {
			continue
		}
		n += callWeight(c, s.Fn)
		ok1, d := isBlockPlusPeriod(s.Arg(0), "GetUnbondPeriod")
		valObj := fieldObj(s.Arg(5), "Value")
		ownObj := fieldObj(s.Arg(1), "Owner")
		coinObj := fieldObj(s.Arg(4), "Coin")
		same := valObj != nil && valObj == ownObj && valObj == coinObj
		zeroed := false
		for _, z := range core.Sites(s.Fn) {
			if methodName(z) == "setValue" && core.Dominates(s.Instr, z.Instr) && z.Recv() != nil && core.Unwrap(z.Recv()) == valObj && isBigZero(z.Arg(0)) {
				zeroed = true
			}
		}
		c.Check(ok1 && same && zeroed, rule, "DeleteCandidate/unbond", s.Pos(), "full Value of the element frozen for its Owner/Coin until "+d+" and the element zeroed", "a removed candidate's stake is not unbonded with its full value to its owner (or not zeroed afterwards)")
	}
	c.Floor(rule, n, 2, "unbond sites in DeleteCandidate (stakes and pending updates)")
}

// sameObj: identical SSA value, or two reads of the same element (`stakes[index]` written twice).
func sameObj(a, b ssa.Value) bool {
	if a == nil || b == nil {
		return false
	}
	if a == b || core.SamePath(a, b) {
		return true
	}
	la, ok1 := a.(*ssa.UnOp)
	lb, ok2 := b.(*ssa.UnOp)
	if ok1 && ok2 && la.Op == token.MUL && lb.Op == token.MUL {
		ia, ok1 := la.X.(*ssa.IndexAddr)
		ib, ok2 := lb.X.(*ssa.IndexAddr)
		if ok1 && ok2 && core.Unwrap(ia.X) == core.Unwrap(ib.X) && core.Unwrap(ia.Index) == core.Unwrap(ib.Index) {
			return true
		}
	}
	return false
}

// fieldObj: v is a load of <obj>.<field>; returns the (unwrapped) obj.
func fieldObj(v ssa.Value, field string) ssa.Value {
	ld, ok := core.Unwrap(v).(*ssa.UnOp)
	if !ok || ld.Op != token.MUL {
		return nil
	}
	fa, ok := ld.X.(*ssa.FieldAddr)
	if !ok || fieldNameOf(fa) != field {
		return nil
	}
	return core.Unwrap(fa.X)
}

func checkKick(c *core.Ctx, rec, kick *ssa.Function) {
	rule := "C17.kick"
	if rec == nil || kick == nil {
		c.Unk(rule, "recalculateStakes", token.NoPos, "function not found")
		return
	}
	n := 0
	for _, s := range c.GroupSites(rec) {
		if s.Common.StaticCallee() != kick {
			continue
		}
		n++
		o := fieldObj(s.Arg(0), "Owner")
		v := fieldObj(s.Arg(1), "Value")
		k := fieldObj(s.Arg(2), "Coin")
		c.Check(o != nil && sameObj(o, v) && sameObj(o, k), rule, fmt.Sprintf("recalculateStakes/kick#%d/full-value", n), s.Pos(), "the loser is kicked with its own Owner, full Value and Coin", "a kicked stake does not go to the waitlist with its own owner, full value and coin")
	}
	c.Check(n == 2, rule, "recalculateStakes/shape", rec.Pos(), "two kick sites (incoming update loses / smallest stake loses)", fmt.Sprintf("%d stakeKick sites", n))
	// polarity: the incoming update is kicked only under smallestStake.Cmp(update.BipValue) == 1
	pol := false
	for _, s := range c.GroupSites(rec) {
		if s.Common.StaticCallee() != kick {
			continue
		}
		for _, f := range c.FactsAt(s.Instr, 0) {
			cf, ok := f.AsCall()
			if !ok || cf.MethodName() != "Cmp" || !f.Truth {
				continue
			}
			if (cf.Op == token.EQL && cf.Const == 1 || cf.Op == token.GTR && cf.Const == 0) && strings.HasSuffix(cf.ArgPath(0), ".BipValue") {
				// the kicked object is the update whose BipValue is compared
				if obj := fieldObj(s.Arg(1), "Value"); obj != nil {
					if bobj := fieldObj(core.NormCall(&cf.Call.Call).Args[1], "BipValue"); bobj == obj {
						pol = true
					}
				}
			}
		}
	}
	c.Check(pol, rule, "recalculateStakes/not-smaller-replaces", rec.Pos(), "the incoming stake is kicked only when the smallest existing stake is strictly greater", "the comparison deciding who loses a full candidate's slot changed: an incoming stake that is not smaller must replace the smallest one")
	// stakeKick forwards its parameters to the waitlist
	fwd := false
	for _, s := range core.Sites(kick) {
		if methodName(s) == "AddToWaitList" {
			fwd = core.Unwrap(s.Arg(0)) == ssa.Value(kick.Params[1]) && core.Unwrap(s.Arg(1)) == ssa.Value(kick.Params[4]) && core.Unwrap(s.Arg(2)) == ssa.Value(kick.Params[3]) && core.Unwrap(s.Arg(3)) == ssa.Value(kick.Params[2])
		}
	}
	c.Check(fwd, rule, "stakeKick/forward", kick.Pos(), "AddToWaitList(owner, pubKey, coin, value) with stakeKick's own parameters", "stakeKick does not put exactly its (owner, candidate, coin, value) on the waitlist")
}

// checkSelection — C17.select. GetNewCandidates(valCount) yields the validator set: the
// candidates that are online and hold the minimal stake, in stake order, at most valCount of
// them. The cut to valCount has to be made on the list of *eligible* candidates: cutting the
// stake-ordered input first lets every offline or under-staked candidate among the first
// valCount cost a slot that the next eligible candidate should have had. Decided: every slice
// expression bounded by the count parameter takes the list the eligibility loop appended to,
// and that loop ranges over a list that was not cut by the count.
func checkSelection(c *core.Ctx, rule string) {
	ct := c.Named(core.PkgState+"/candidates", "Candidates")
	if ct == nil {
		c.Unk(rule, "candidates.Candidates", token.NoPos, "type not found")
		return
	}
	fn := c.Method(ct, "GetNewCandidates")
	if fn == nil || len(fn.Params) < 2 {
		c.Unk(rule, "GetNewCandidates", token.NoPos, "method not found")
		return
	}
	var count *ssa.Parameter
	for _, p := range fn.Params[1:] {
		if isNumeric(p.Type()) {
			count = p
		}
	}
	if count == nil {
		c.Unk(rule, "GetNewCandidates/count", fn.Pos(), "the count parameter was not found")
		return
	}
	dependsOnCount := func(v ssa.Value) bool {
		return v != nil && core.DependsOn(v, func(y ssa.Value) bool { return y == ssa.Value(count) })
	}
	isAppend := func(y ssa.Value) bool {
		call, ok := y.(*ssa.Call)
		if !ok {
			return false
		}
		b, ok := call.Call.Value.(*ssa.Builtin)
		return ok && b.Name() == "append"
	}
	n := 0
	for _, b := range fn.Blocks {
		for _, in := range b.Instrs {
			sl, ok := in.(*ssa.Slice)
			if !ok || !(dependsOnCount(sl.High) || dependsOnCount(sl.Low)) {
				continue
			}
			n++
			fromFilter := core.DependsOn(sl.X, isAppend)
			c.Check(fromFilter, rule, fmt.Sprintf("GetNewCandidates/cut#%d", n), sl.Pos(), "the list is cut to the validator count after the eligibility filter", "the candidate list is cut to the validator count before offline and under-staked candidates are filtered out: an ineligible candidate among the first "+core.ParamName(count)+" costs a slot, and eligible candidates ranked behind it never become validators")
		}
	}
	c.Check(n >= 1, rule, "GetNewCandidates/cut", fn.Pos(), "the result is limited to the validator count", "GetNewCandidates no longer limits its result to the validator count")
}

// checkNewSetPersisted — C17.dirty. Validators.Commit rewrites the stored validator list only
// when some member of the list is marked dirty. SetNewValidators replaces the whole list, so it
// has to make sure the replacement is written even when it only drops or reorders members: every
// Validator it builds is created dirty (the constant true, not a flag inherited from the record
// it replaces). Otherwise a set that only shrank is never persisted and a restarted node (or a
// reader of the committed state) still has the dropped validator.
func checkNewSetPersisted(c *core.Ctx, rule string) {
	vt := c.Named(core.PkgState+"/validators", "Validators")
	if vt == nil {
		c.Unk(rule, "validators.Validators", token.NoPos, "type not found")
		return
	}
	fn := c.Method(vt, "SetNewValidators")
	if fn == nil {
		c.Unk(rule, "SetNewValidators", token.NoPos, "method not found")
		return
	}
	n := 0
	for _, g := range append([]*ssa.Function{fn}, c.Helpers(fn)...) {
		for _, b := range g.Blocks {
			for _, in := range b.Instrs {
				al, ok := in.(*ssa.Alloc)
				if !ok {
					continue
				}
				if nt := namedOf(al.Type()); nt == nil || nt.Obj().Name() != "Validator" || !strings.HasSuffix(nt.Obj().Pkg().Path(), "/validators") {
					continue
				}
				n++
				var dirty ssa.Value
				for _, r := range *al.Referrers() {
					if fa, ok := r.(*ssa.FieldAddr); ok && fieldNameOf(fa) == "isDirty" {
						for _, fr := range *fa.Referrers() {
							if st, ok := fr.(*ssa.Store); ok && st.Addr == fa {
								dirty = st.Val
							}
						}
					}
				}
				k, isConst := dirty.(*ssa.Const)
				c.Check(dirty != nil && isConst && k.Value != nil && k.Value.String() == "true", rule, fmt.Sprintf("SetNewValidators/Validator#%d", n), posOfAlloc(al), "every member of the new set is created dirty, so Commit writes the new list",
					"a member of the new validator set is not created with isDirty = true: a set change that only removes or reorders members is not written by Commit")
			}
		}
	}
	c.Check(n >= 1, rule, "SetNewValidators/members", fn.Pos(), "the new set is built here", "SetNewValidators no longer builds the members of the new set: the recogniser does not see the code it is meant to check")
}

// checkChangeFlags — C17.flag. A state module tells EndBlock that the validator set has to be
// rebuilt through a boolean it raises while mutating (Candidates.isChangedPublicKeys, read through
// IsChangedPublicKeys and reset afterwards). A mutator that raises such a flag raises it on EVERY
// path to its normal return: a flag raised only under a further condition (evaluated after the
// mutation, on already changed data) leaves the old validator entry in place — the application and
// Tendermint then disagree about the set, and the next lookup of the stale entry dereferences nil.
// Flags: bool fields of a state-module type that some exported method returns unchanged (the
// getter) and that are stored `true` in another method.
func checkChangeFlags(c *core.Ctx, rule string) {
	n := 0
	for _, tn := range []struct{ pkg, typ string }{{core.PkgState + "/candidates", "Candidates"}} {
		t := c.Named(tn.pkg, tn.typ)
		if t == nil {
			c.Unk(rule, tn.typ, token.NoPos, "type not found")
			continue
		}
		st, _ := t.Underlying().(*types.Struct)
		for i := 0; st != nil && i < st.NumFields(); i++ {
			fl := st.Field(i)
			if b, ok := fl.Type().Underlying().(*types.Basic); !ok || b.Kind() != types.Bool {
				continue
			}
			// has a getter?
			getter := false
			for _, r := range c.FieldReads(t, fl.Name()) {
				if r.Fn.Object() != nil && r.Fn.Object().Exported() && r.Fn.Signature.Results().Len() == 1 && len(r.Fn.Blocks) <= 2 {
					getter = true
				}
			}
			if !getter {
				continue
			}
			for _, w := range c.FieldWrites(t, fl.Name()) {
				stt, ok := w.Instr.(*ssa.Store)
				if !ok {
					continue
				}
				k, isK := core.Unwrap(stt.Val).(*ssa.Const)
				if !isK || k.Value == nil || k.Value.String() != "true" {
					continue
				}
				fn := w.Fn
				if fn.Blocks == nil || strings.HasPrefix(fn.Name(), "New") {
					continue
				}
				n++
				avoid := map[*ssa.BasicBlock]bool{stt.Block(): true}
				reach := core.ReachFrom(fn.Blocks[0], avoid)
				reach[fn.Blocks[0]] = true
				skipped := ""
				if stt.Block() != fn.Blocks[0] {
					for _, r := range core.Returns(fn) {
						if fn.Recover != nil && r.Block() == fn.Recover {
							continue
						}
						if reach[r.Block()] {
							skipped = c.PosStr(r.Pos())
							if skipped == "" {
								skipped = "the end of the function"
							}
						}
					}
				}
				c.Check(skipped == "", rule, core.ShortFn(fn)+"/"+fl.Name(), stt.Pos(), "the flag is raised on every path to the method's return",
					"the method can return (at "+skipped+") without raising "+fl.Name()+": what EndBlock does on that flag (rebuilding the validator set) is skipped although the module was changed")
			}
		}
	}
	c.Floor(rule, n, 1, "change flags raised by state-module mutators")
}

// checkRankAfterRecalculation — C17.rank. RecalculateStakesV2 first recalculates every candidate's
// stakes (bip values, updates, kicks, totals) and then removes the candidates ranked beyond the
// limit. The ranking used for the removal is taken AFTER the recalculation: a list ordered before
// it ranks the candidates by the previous period's totals, so a candidate whose stake has just
// grown past the limit is deleted (and its delegators unbonded) while a shrunken one stays.
// Decided: in RecalculateStakesV2 (and its helpers) every call that yields an ordered candidate
// list is dominated by the call that performs the recalculation (a function from which the
// kick-to-waitlist step is reachable inside the package).
func checkRankAfterRecalculation(c *core.Ctx, rule string, ct *types.Named, kick *ssa.Function) {
	fn := c.Method(ct, "RecalculateStakesV2")
	if fn == nil || kick == nil {
		c.Unk(rule, "RecalculateStakesV2", token.NoPos, "RecalculateStakesV2 / stakeKick not found")
		return
	}
	// functions of the package that reach the kick step
	reaches := map[*ssa.Function]bool{kick: true}
	for round := 0; round < 3; round++ {
		for _, g := range c.SrcFuncs(core.PkgOf(fn)) {
			if reaches[g] {
				continue
			}
			for _, s := range core.Sites(g) {
				if h := s.Common.StaticCallee(); h != nil && reaches[h] {
					reaches[g] = true
				}
			}
		}
	}
	var recalc []*core.Site
	var orders []*core.Site
	for _, s := range core.Sites(fn) {
		h := s.Common.StaticCallee()
		if h == nil {
			continue
		}
		if reaches[h] {
			recalc = append(recalc, s)
			continue
		}
		// yields a list of candidates in stake order: a []*Candidate result of a function that sorts
		if h.Signature.Results().Len() == 1 && strings.HasSuffix(h.Signature.Results().At(0).Type().String(), "[]*"+ct.Obj().Pkg().Path()+".Candidate") {
			sorts := false
			for _, hs := range c.GroupSites(h) {
				if strings.HasPrefix(hs.Callee, "sort.") {
					sorts = true
				}
			}
			if sorts {
				orders = append(orders, s)
			}
		}
	}
	if len(recalc) == 0 || len(orders) == 0 {
		c.Unk(rule, "RecalculateStakesV2/shape", fn.Pos(), fmt.Sprintf("%d recalculation calls, %d ordering calls", len(recalc), len(orders)))
		return
	}
	for i, o := range orders {
		ok := false
		for _, r := range recalc {
			if core.Dominates(r.Instr, o.Instr) {
				ok = true
			}
		}
		c.Check(ok, rule, fmt.Sprintf("RecalculateStakesV2/ordering#%d", i+1), o.Pos(), "the ranking is taken after the recalculation", "the candidates are ranked before their stakes are recalculated: the removal of the candidates beyond the limit goes by the previous period's totals")
	}
}
