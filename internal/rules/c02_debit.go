package rules

import (
	"fmt"
	"go/token"
	"strings"

	"golang.org/x/tools/go/ssa"

	"verif/internal/core"
)

// A sufficiency gate known on a path: balance(acct, coin) ≥ x (Cmp form) or
// balance(acct, coin) − y > 0 (Sign form, rest = the difference value).
type balGate struct {
	acct, coin ssa.Value
	x          ssa.Value // amount the balance was compared with (Cmp form) or subtracted (Sign form)
	rest       ssa.Value // Sign form: the value Sub(balance, y) itself
}

func getBalanceCall(v ssa.Value) *ssa.Call {
	gb, ok := core.Unwrap(v).(*ssa.Call)
	if ok && strings.HasSuffix(core.CalleeName(core.NormCall(&gb.Call)), ".GetBalance") {
		return gb
	}
	return nil
}

// balanceGate: fact `GetBalance(a,c).Cmp(x) …` meaning balance ≥ x (or > x).
func balanceGate(f core.Fact) (acct, coin, x ssa.Value, ok bool) {
	cf, isC := f.AsCall()
	if !isC || cf.MethodName() != "Cmp" || len(core.NormCall(&cf.Call.Call).Args) != 2 {
		return nil, nil, nil, false
	}
	gb := getBalanceCall(core.NormCall(&cf.Call.Call).Args[0])
	if gb == nil {
		return nil, nil, nil, false
	}
	suff := false
	switch {
	case cf.Op == token.LSS && cf.Const == 0 && !f.Truth: // !(cmp < 0) ⇒ ≥
		suff = true
	case cf.Op == token.EQL && cf.Const == -1 && !f.Truth:
		suff = true
	case cf.Op == token.GEQ && cf.Const == 0 && f.Truth:
		suff = true
	case cf.Op == token.NEQ && cf.Const == 1 && !f.Truth: // !(cmp != 1) ⇒ >
		suff = true
	case cf.Op == token.EQL && cf.Const == 1 && f.Truth:
		suff = true
	case cf.Op == token.GTR && cf.Const == 0 && f.Truth:
		suff = true
	case cf.Op == token.NEQ && cf.Const == -1 && f.Truth: // cmp != −1 ⇒ ≥
		suff = true
	}
	if !suff {
		return nil, nil, nil, false
	}
	gs := &core.Site{Instr: gb, Common: &gb.Call}
	return gs.Arg(0), gs.Arg(1), core.NormCall(&cf.Call.Call).Args[1], true
}

// signGate: fact `Sub(GetBalance(a,c), y).Sign() …` meaning balance − y > 0.
func signGate(f core.Fact) (g balGate, ok bool) {
	cf, isC := f.AsCall()
	if !isC || cf.MethodName() != "Sign" || len(core.NormCall(&cf.Call.Call).Args) != 1 {
		return g, false
	}
	positive := (cf.Op == token.NEQ && cf.Const == 1 && !f.Truth) || (cf.Op == token.EQL && cf.Const == 1 && f.Truth) || (cf.Op == token.GTR && cf.Const == 0 && f.Truth) || (cf.Op == token.LEQ && cf.Const == 0 && !f.Truth)
	if !positive {
		return g, false
	}
	// the receiver: big.NewInt(0).Sub(balance, y) or a copy of it
	rest := core.NormCall(&cf.Call.Call).Args[0]
	// in-place form: balance := GetBalance(a,c); available := Set(balance); balance.Sub(available, y)
	if gb := getBalanceCall(rest); gb != nil {
		for _, r := range *gb.Referrers() {
			call, isCall := r.(*ssa.Call)
			if !isCall || core.CalleeName(core.NormCall(&call.Call)) != "(*math/big.Int).Sub" || len(core.NormCall(&call.Call).Args) != 3 || core.NormCall(&call.Call).Args[0] != ssa.Value(gb) {
				continue
			}
			// minuend must be (a copy of) the balance itself
			isCopy := false
			for _, o := range append([]ssa.Value{core.NormCall(&call.Call).Args[1]}, core.Origins(core.NormCall(&call.Call).Args[1])...) {
				if cp, ok2 := core.Unwrap(o).(*ssa.Call); ok2 && core.CalleeName(core.NormCall(&cp.Call)) == "(*math/big.Int).Set" && len(core.NormCall(&cp.Call).Args) == 2 && core.Unwrap(core.NormCall(&cp.Call).Args[1]) == ssa.Value(gb) {
					isCopy = true
				}
				if core.Unwrap(o) == ssa.Value(gb) {
					isCopy = true
				}
			}
			if isCopy && core.Dominates(call, cf.Call) {
				gs := &core.Site{Instr: gb, Common: &gb.Call}
				return balGate{acct: gs.Arg(0), coin: gs.Arg(1), x: core.NormCall(&call.Call).Args[2], rest: gb}, true
			}
		}
	}
	for _, o := range append([]ssa.Value{rest}, core.Origins(rest)...) {
		call, isCall := core.Unwrap(o).(*ssa.Call)
		if !isCall {
			continue
		}
		n := core.CalleeName(core.NormCall(&call.Call))
		if n == "(*math/big.Int).Set" && len(core.NormCall(&call.Call).Args) == 2 {
			if inner, ok2 := core.Unwrap(core.NormCall(&call.Call).Args[1]).(*ssa.Call); ok2 {
				call, n = inner, core.CalleeName(core.NormCall(&inner.Call))
			}
		}
		if n != "(*math/big.Int).Sub" || len(core.NormCall(&call.Call).Args) != 3 {
			continue
		}
		gb := getBalanceCall(core.NormCall(&call.Call).Args[1])
		if gb == nil {
			continue
		}
		gs := &core.Site{Instr: gb, Common: &gb.Call}
		return balGate{acct: gs.Arg(0), coin: gs.Arg(1), x: core.NormCall(&call.Call).Args[2], rest: call}, true
	}
	return g, false
}

func sameAccount(m *RunModel, a, b ssa.Value) bool {
	if core.SameValue(a, b) {
		return true
	}
	return m.isTxSender(a) && m.isTxSender(b)
}

var swapMutators = map[string]bool{"PairSellWithOrders": true, "PairBuyWithOrders": true, "PairMint": true, "PairCreate": true, "PairSell": true, "PairBuy": true, "PairAddOrder": true}

// within: v ⊑ x — v is x, x is built from v, or v is an amount charged by a pool-module mutator
// one of whose amount arguments is ⊑ x (the module never charges more than the maximum it is
// given — assumption stated in the evidence).
func within(p core.CFGPath, x, v ssa.Value, depth int) bool {
	if x == nil || v == nil || depth > 3 {
		return false
	}
	v = p.Resolve(v)
	if core.SameValue(x, v) {
		return true
	}
	vo := core.Origins(v)
	if core.DependsOn(x, func(y ssa.Value) bool {
		if y == v {
			return true
		}
		for _, o := range vo {
			if y == o || core.SameValue(y, o) {
				return true
			}
		}
		return false
	}) {
		return true
	}
	for _, o := range vo {
		o = p.Resolve(o)
		if ex, ok := o.(*ssa.Extract); ok {
			if call, ok := ex.Tuple.(*ssa.Call); ok && call.Call.IsInvoke() && swapMutators[call.Call.Method.Name()] {
				for _, a := range core.NormCall(&call.Call).Args[2:] {
					if within(p, x, a, depth+1) {
						return true
					}
				}
			}
		}
		// a copy: big.NewInt(0).Set(y)
		if call, ok := o.(*ssa.Call); ok && core.CalleeName(core.NormCall(&call.Call)) == "(*math/big.Int).Set" && len(core.NormCall(&call.Call).Args) == 2 {
			if within(p, x, core.NormCall(&call.Call).Args[1], depth+1) {
				return true
			}
		}
	}
	return false
}

// coin aliasing inside one handler
type coinAlias struct {
	commissionIs string // access path tx.CommissionCoin() stands for ("tx.GasCoin" or e.g. "data.CoinToSell")
}

func aliasFor(c *core.Ctx, m *RunModel) coinAlias {
	al := coinAlias{commissionIs: "tx.GasCoin"}
	if cc := c.Method(m.H.Type, "commissionCoin"); cc != nil {
		for _, o := range core.ResultOrigins(cc, 0) {
			if p := core.Path(o); p != "" {
				al.commissionIs = strings.TrimPrefix(p, "&")
			}
		}
	}
	return al
}

func (al coinAlias) norm(p string) string {
	p = strings.TrimPrefix(p, "&")
	p = strings.ReplaceAll(p, "tx.CommissionCoin()", al.commissionIs)
	return p
}

func (al coinAlias) same(p core.CFGPath, a, b ssa.Value) bool {
	a, b = p.Resolve(a), p.Resolve(b)
	if core.SameValue(a, b) {
		return true
	}
	pa, pb := al.norm(core.Path(a)), al.norm(core.Path(b))
	if pa != "" && pa == pb && !strings.Contains(pa, "[*]") {
		return true
	}
	// coinModel.ID() where coinModel = Coins().GetCoin(X)  ≡ X
	strip := func(s string) string {
		if i := strings.Index(s, ".GetCoin("); i >= 0 && strings.HasSuffix(s, ").ID()") {
			return s[i+len(".GetCoin(") : len(s)-len(").ID()")]
		}
		return s
	}
	if sa, sb := strip(pa), strip(pb); sa != "" && sa == sb {
		return true
	}
	return false
}

func checkDebits(c *core.Ctx, models []*RunModel) {
	nDeb := 0
	for _, m := range models {
		al := aliasFor(c, m)
		for _, mu := range m.Mutators {
			if !(mu.Module == "Accounts" && mu.Method == "SubBalance") {
				continue
			}
			nDeb++
			a, coin, v := mu.Site.Arg(0), mu.Site.Arg(1), mu.Site.Arg(2)
			key := fmt.Sprintf("%s.Run/SubBalance(%s)", m.H.TypeName, coinLabel(coin))
			paths, ok := core.PathsTo(mu.Site.Instr, 6000)
			if !ok {
				c.Unk("C02.debit", key, mu.Site.Pos(), "more than 6000 acyclic paths reach this debit; not decided")
				continue
			}
			inLoop := core.InCycle(mu.Site.Block())
			uncovered := ""
			how := map[string]bool{}
			for _, p := range paths {
				for _, facts := range factCombos(c, p, 3) {
					kind := pathCovers(c, m, al, p, facts, a, coin, v, inLoop)
					if kind == "" {
						uncovered = describePath(c, p.Edges)
						break
					}
					how[kind] = true
				}
				if uncovered != "" {
					break
				}
			}
			if uncovered == "" {
				var hs []string
				for h := range how {
					hs = append(hs, h)
				}
				sortStrings(hs)
				c.OK("C02.debit", key, mu.Site.Pos(), fmt.Sprintf("covered on each of %d paths by: %s", len(paths), strings.Join(hs, ", ")))
			} else {
				c.Bad("C02.debit", key, mu.Site.Pos(), fmt.Sprintf("a path reaches this debit without a sufficiency gate on the same account and coin containing the debited amount (%d paths examined; last decisions of the uncovered path: %s): the balance could go negative", len(paths), uncovered))
			}
		}
	}
	c.Floor("C02.debit", nDeb, 55, "balance debits in live deliver blocks")
}

func coinLabel(v ssa.Value) string {
	p := core.Path(v)
	if p == "" {
		return "?"
	}
	if strings.HasPrefix(p, "φ") {
		return strings.TrimPrefix(strings.SplitN(p, "@", 2)[0], "φ")
	}
	if i := strings.LastIndex(p, "."); i >= 0 && !strings.HasSuffix(p, ")") {
		return p[i+1:]
	}
	return coinKind(p)
}

func describePath(c *core.Ctx, p []core.Edge) string {
	var parts []string
	for _, e := range p {
		pos := c.PosStr(e.If.Pos())
		if pos == "" {
			pos = c.PosStr(e.If.Cond.Pos())
		}
		if i := strings.LastIndex(pos, ":"); i >= 0 {
			pos = "L" + pos[i+1:]
		}
		parts = append(parts, fmt.Sprintf("%s=%v", pos, e.Taken))
	}
	if len(parts) > 10 {
		parts = parts[len(parts)-10:]
	}
	return strings.Join(parts, " ")
}

// pathCovers decides coverage of one debit on one path; returns the idiom name or "".
func pathCovers(c *core.Ctx, m *RunModel, al coinAlias, p core.CFGPath, facts []core.Fact, a, coin, v ssa.Value, inLoop bool) string {
	// equalities between coin expressions known on this path
	eq := func(x, y ssa.Value) bool {
		if al.same(p, x, y) {
			return true
		}
		for _, f := range facts {
			bin, ok := f.Cond.(*ssa.BinOp)
			if !ok {
				continue
			}
			if (bin.Op == token.EQL && f.Truth) || (bin.Op == token.NEQ && !f.Truth) {
				if (al.same(p, bin.X, x) && al.same(p, bin.Y, y)) || (al.same(p, bin.X, y) && al.same(p, bin.Y, x)) {
					return true
				}
			}
		}
		return false
	}
	// K3: the debit is exactly the balance that was read
	rv := p.Resolve(v)
	if gb := getBalanceCall(rv); gb != nil {
		gs := &core.Site{Instr: gb, Common: &gb.Call}
		if sameAccount(m, gs.Arg(0), a) && eq(gs.Arg(1), coin) {
			return "debits exactly the balance read"
		}
	}
	first := !inLoop
	var idx ssa.Value
	if inLoop {
		// a loop body is only analysable for the first iteration (phis resolved along the
		// acyclic path): require an `i == 0` fact on the range index
		for _, f := range facts {
			bin, ok := f.Cond.(*ssa.BinOp)
			if !ok || !((bin.Op == token.EQL && f.Truth) || (bin.Op == token.NEQ && !f.Truth)) {
				continue
			}
			// the range index: go/ssa lowers `for i := range s` to idx = phi(-1, idx+1); i = idx+1
			isIdx := false
			if _, isPhi := bin.X.(*ssa.Phi); isPhi {
				isIdx = true
			}
			if add, isAdd := bin.X.(*ssa.BinOp); isAdd && add.Op == token.ADD {
				if _, isPhi := add.X.(*ssa.Phi); isPhi {
					isIdx = true
				}
			}
			if !isIdx {
				continue
			}
			if k, isK := core.ConstInt(bin.Y); isK && k == 0 {
				first = true
			} else {
				idx = bin.Y
			}
		}
	}
	// facts imported from a helper (f.Depth > 0) speak about the helper's values: they are compared
	// with the caller's by access path, the helper's parameters rewritten to the caller's arguments
	cpath := func(v ssa.Value) string {
		s := al.norm(core.Path(p.Resolve(v)))
		if strings.Contains(s, "[*]") {
			return ""
		}
		return s
	}
	hpath := func(f core.Fact, v ssa.Value) string {
		s := al.norm(f.Path(v))
		if strings.Contains(s, "[*]") {
			return ""
		}
		return s
	}
	sameAcctF := func(f core.Fact, ga, a ssa.Value) bool {
		if f.Depth == 0 {
			return sameAccount(m, ga, a)
		}
		if cv := f.CallerValue(ga); cv != nil && sameAccount(m, cv, a) {
			return true
		}
		hp := hpath(f, ga)
		return hp != "" && (hp == cpath(a) || (m.isTxSender(a) && hp == m.TxPath+".Sender()#0"))
	}
	eqF := func(f core.Fact, gc, coin ssa.Value) bool {
		if f.Depth == 0 {
			return eq(gc, coin)
		}
		if cv := f.CallerValue(gc); cv != nil && eq(cv, coin) {
			return true
		}
		hp, cp := hpath(f, gc), cpath(coin)
		if hp != "" && hp == cp {
			return true
		}
		// an equality between coin expressions established on this path (in the caller or in a helper)
		for _, g := range facts {
			bin, ok := g.Cond.(*ssa.BinOp)
			if !ok || !((bin.Op == token.EQL && g.Truth) || (bin.Op == token.NEQ && !g.Truth)) {
				continue
			}
			gx, gy := al.norm(g.Path(bin.X)), al.norm(g.Path(bin.Y))
			if gx == "" || gy == "" {
				continue
			}
			if (gx == hp && gy == cp) || (gy == hp && gx == cp) {
				return true
			}
		}
		return false
	}
	withinF := func(f core.Fact, gx, v ssa.Value) bool {
		if f.Depth == 0 {
			return within(p, gx, v, 0)
		}
		vp := cpath(v)
		return core.DependsOn(gx, func(y ssa.Value) bool {
			if cv := f.CallerValue(y); cv != nil && within(p, cv, v, 0) {
				return true
			}
			return vp != "" && hpath(f, y) == vp
		})
	}
	for _, f := range facts {
		// helper idiom: checkBalances(ctx, sender, items, commission, gasCoin) == nil
		if f.ReturnedOK(".checkBalances") {
			return "Multisend aggregate helper (C02.helper)"
		}
		if ga, gc, gx, ok := balanceGate(f); ok && sameAcctF(f, ga, a) {
			if first && eqF(f, gc, coin) && withinF(f, gx, v) {
				return "GetBalance(acct, coin).Cmp(amount ⊒ debit)"
			}
			// last-iteration route idiom: the debit happens under `i == lastIteration`, its coin
			// is the route's loop variable, the gate is on an element of the same route slice
			if f.Depth == 0 && inLoop && idx != nil && strings.Contains(al.norm(core.Path(gc)), "data.Coins[") {
				for _, o := range core.Origins(coin) {
					if strings.Contains(core.Path(o), "data.Coins") {
						return "route idiom: gate on the route's end coin, debit in the last iteration (weaker: amounts not related)"
					}
				}
			}
		}
		if g, ok := signGate(f); ok && first && sameAcctF(f, g.acct, a) && eqF(f, g.coin, coin) {
			if withinF(f, g.x, v) || withinF(f, g.rest, v) {
				return "Sub(GetBalance(acct, coin), fee).Sign() > 0 with debit ⊑ fee or ⊑ the remainder"
			}
		}
	}
	return ""
}

// factKey canonicalises a fact's condition when it is a pure predicate over immutable paths
// (tx.*, data.*): two facts with the same key and opposite truth make a path infeasible.
func factKey(f core.Fact) string {
	if f.OutcomeOf != nil {
		return ""
	}
	if cf, ok := f.AsCall(); ok {
		rp := cf.RecvPath()
		var args []string
		for i := 0; i < 4; i++ {
			a := cf.ArgPath(i)
			if a == "" {
				break
			}
			args = append(args, a)
		}
		desc := rp + "|" + cf.Name + "(" + strings.Join(args, ",") + ")"
		if !(strings.HasPrefix(rp, "data.") || strings.HasPrefix(rp, "tx.") || (rp == "" && len(args) > 0 && (strings.HasPrefix(args[0], "data.") || strings.HasPrefix(args[0], "tx.")))) {
			return ""
		}
		return fmt.Sprintf("%s %v %d", desc, cf.Op, cf.Const)
	}
	if bin, ok := f.Cond.(*ssa.BinOp); ok {
		px, py := f.Path(bin.X), f.Path(bin.Y)
		okp := func(p string) bool {
			return strings.HasPrefix(p, "data.") || strings.HasPrefix(p, "tx.") || strings.HasPrefix(p, "const:")
		}
		if okp(px) && okp(py) {
			return px + " " + bin.Op.String() + " " + py
		}
	}
	return ""
}

func infeasible(facts []core.Fact) bool {
	seen := map[string]bool{}
	for _, f := range facts {
		k := factKey(f)
		if k == "" {
			continue
		}
		if prev, ok := seen[k]; ok && prev != f.Truth {
			return true
		}
		seen[k] = f.Truth
	}
	return false
}

// factCombos: the fact sets of one caller path — the facts every decision implies, refined per
// alternative accepting path of each helper whose outcome the path fixed (core.EdgeFactAlts).
// The number of combinations is capped; beyond the cap only the common facts are used.
func factCombos(c *core.Ctx, p core.CFGPath, depth int) [][]core.Fact {
	var must []core.Fact
	var groups [][][]core.Fact
	for _, e := range p.Edges {
		m, alts := c.EdgeFactAlts(e, depth)
		must = append(must, m...)
		if len(alts) > 1 {
			groups = append(groups, alts)
		} else if len(alts) == 1 {
			must = append(must, alts[0]...)
		}
	}
	combos := [][]core.Fact{must}
	for _, g := range groups {
		if len(combos)*len(g) > 256 {
			break
		}
		var next [][]core.Fact
		for _, base := range combos {
			for _, alt := range g {
				next = append(next, append(append([]core.Fact{}, base...), alt...))
			}
		}
		combos = next
	}
	return combos
}

// pathwise reports whether pred holds for the facts of every feasible acyclic path to in.
func pathwise(c *core.Ctx, in ssa.Instruction, depth int, pred func([]core.Fact) bool) (bool, int, string) {
	paths, ok := core.PathsTo(in, 6000)
	if !ok {
		return false, 0, "too many paths"
	}
	n := 0
	for _, p := range paths {
		for _, facts := range factCombos(c, p, depth) {
			if infeasible(facts) {
				continue
			}
			n++
			if !pred(facts) {
				return false, n, describePath(c, p.Edges)
			}
		}
	}
	return true, n, ""
}

// pathwiseP is pathwise with the path handed to the predicate (for phi resolution along it).
func pathwiseP(c *core.Ctx, in ssa.Instruction, depth int, pred func(core.CFGPath, []core.Fact) bool) (bool, int, string) {
	paths, ok := core.PathsTo(in, 6000)
	if !ok {
		return false, 0, "too many paths"
	}
	n := 0
	for _, p := range paths {
		for _, facts := range factCombos(c, p, depth) {
			if infeasible(facts) {
				continue
			}
			n++
			if !pred(p, facts) {
				return false, n, describePath(c, p.Edges)
			}
		}
	}
	return true, n, ""
}
