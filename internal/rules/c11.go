package rules

import (
	"fmt"
	"go/token"
	"go/types"
	"sort"
	"strings"

	"golang.org/x/tools/go/ssa"

	"verif/internal/core"
)

func init() {
	register(&RuleSet{
		Meta: core.PropertyMeta{
			ID: "C11",
			Explanation: "Decides field coverage of the genesis round trip: for types.AppState and every struct nested in it, each field is WRITTEN by code reachable from the exporters (CheckState.Export, the export command) and READ by code reachable from the importers (State.Import, SwapV2.Import, Blockchain.InitChain). A field with a writer and no reader is state that an export→genesis→import cycle silently drops; a field with a reader and no writer is state the new chain invents. " +
				"(order) every map range in Export-reachable code is order-insensitive (the C08 rule), so two exports of one state are identical. NOT decided: Verify() accepting the export, value equality of what is written and read back, behaviour of the new chain.",
			Assumptions: stdAssumptions,
			Rules:       []string{"C11.fields", "C11.order", "C11.complete", "C11.skip", "C11.source"},
		},
		Run: runC11,
	})
}

// c11Exempt lists fields that are deliberately one-sided (one line of reason each).
var c11Exempt = map[string]string{
	"AppState.Note":    "free-text annotation written by the export command; carries no state",
	"AppState.Version": "legacy single-version input of InitChain, used only when Versions is empty; the exporter writes the Versions history instead",
	"BitArray.mtx":     "BitArray is an opaque value type moved as a whole (Validator.AbsentTimes); its internals are handled by its own methods",
	"BitArray.Bits":    "see BitArray.mtx",
	"BitArray.Elems":   "see BitArray.mtx",
}

func nestedStructs(root *types.Named) []*types.Named {
	seen := map[*types.TypeName]bool{}
	var out []*types.Named
	var visit func(t types.Type)
	visit = func(t types.Type) {
		switch x := t.(type) {
		case *types.Pointer:
			visit(x.Elem())
		case *types.Slice:
			visit(x.Elem())
		case *types.Array:
			visit(x.Elem())
		case *types.Map:
			visit(x.Elem())
		case *types.Named:
			st, ok := x.Underlying().(*types.Struct)
			if !ok || x.Obj().Pkg() == nil || x.Obj().Pkg() != root.Obj().Pkg() {
				return
			}
			if seen[x.Obj()] {
				return
			}
			seen[x.Obj()] = true
			out = append(out, x)
			for i := 0; i < st.NumFields(); i++ {
				visit(st.Field(i).Type())
			}
		}
	}
	visit(root)
	return out
}

// checkExportComplete: an exporter that enumerates a height-keyed store by range must not stop at
// a protocol horizon: frozen funds can be due at ANY future block (Lock transactions carry their
// own DueBlock), so FrozenFunds.Export has to enumerate up to the maximum height. Decided: every
// call of a ranged enumerator (GetFrozenFundsAll) from an Export function passes the constant
// math.MaxUint64 as its upper bound.
func checkExportComplete(c *core.Ctx, rule string) {
	n := 0
	for _, fn := range c.AllFns {
		if fn.Synthetic != "" || fn.Name() != "Export" || !strings.HasPrefix(core.PkgOf(fn), core.PkgState) {
			continue
		}
		for _, s := range core.Sites(fn) {
			if methodName(s) != "GetFrozenFundsAll" {
				continue
			}
			n++
			good := false
			if k, ok := core.Unwrap(s.Arg(2)).(*ssa.Const); ok && k.Value != nil && k.Value.ExactString() == "18446744073709551615" {
				good = true
			}
			c.Check(good, rule, core.ShortFn(fn)+"/upper-bound", s.Pos(), "frozen funds are exported up to math.MaxUint64", "the export of frozen funds stops at a bounded height: funds locked until a later block (Lock transactions choose their own due block) are silently left out of the genesis")
		}
	}
	c.Floor(rule, n, 1, "ranged enumerations in exporters")
}

func runC11(c *core.Ctx) {
	defer checkExportComplete(c, "C11.complete")
	defer checkAccountSkip(c, "C11.skip")
	root := c.Named("coreV2/types", "AppState")
	if root == nil {
		c.Unk("C11.fields", "types.AppState", token.NoPos, "type not found")
		return
	}
	cg := c.CG()
	var expRoots, impRoots []*ssa.Function
	for _, n := range []string{"(*coreV2/state.CheckState).Export"} {
		if fn := c.MustFn("C11.fields", n); fn != nil {
			expRoots = append(expRoots, fn)
		}
	}
	for _, fn := range c.SrcFuncs("cmd/minter/cmd") {
		expRoots = append(expRoots, fn)
	}
	for _, n := range []string{"(*coreV2/state.State).Import", "(*coreV2/minter.Blockchain).InitChain", "(*coreV2/state/swap.SwapV2).Import"} {
		if fn := c.MustFn("C11.fields", n); fn != nil {
			impRoots = append(impRoots, fn)
		}
	}
	stopAtVerify := func(fn *ssa.Function) bool { return false }
	exp := cg.Reachable(expRoots, stopAtVerify)
	imp := cg.Reachable(impRoots, func(fn *ssa.Function) bool {
		// do not walk from the importers into the exporters (InitChain does not export)
		return fn.Name() == "Export"
	})
	// field-by-field rebuilds in the importers and exporters take every field from one source
	var scan []*ssa.Function
	for fn := range imp {
		if pk := core.PkgOf(fn); strings.HasPrefix(pk, core.PkgState) || pk == "coreV2/minter" {
			scan = append(scan, fn)
		}
	}
	for fn := range exp {
		if _, dup := imp[fn]; !dup && strings.HasPrefix(core.PkgOf(fn), core.PkgState) {
			scan = append(scan, fn)
		}
	}
	sort.Slice(scan, func(i, j int) bool { return scan[i].String() < scan[j].String() })
	nMix := checkSourceMix(c, "C11.source", scan)
	c.Floor("C11.source", nMix, 2, "records rebuilt field by field from one source object in import/export code")
	n := 0
	for _, st := range nestedStructs(root) {
		for _, f := range core.StructFields(st) {
			key := st.Obj().Name() + "." + f
			var w, r *core.FieldRef
			for _, ref := range c.FieldRefs(st, f) {
				if ref.Write {
					if _, ok := exp[ref.Fn]; ok && w == nil {
						w = ref
					}
				} else {
					if _, ok := imp[ref.Fn]; ok && r == nil && ref.Fn.Name() != "Verify" {
						r = ref
					}
				}
			}
			n++
			if reason, ok := c11Exempt[key]; ok {
				c.OK("C11.fields", key, st.Obj().Pos(), "exempt: "+reason)
				continue
			}
			switch {
			case w != nil && r != nil:
				c.OK("C11.fields", key, w.Pos(), fmt.Sprintf("written by %s, read by %s", core.ShortFn(w.Fn), core.ShortFn(r.Fn)))
			case w != nil:
				c.Bad("C11.fields", key, w.Pos(), fmt.Sprintf("exported (written by %s) but never read by State.Import / SwapV2.Import / InitChain: this part of the state is silently dropped when a chain is restarted from an exported genesis", core.ShortFn(w.Fn)))
			case r != nil:
				c.Bad("C11.fields", key, r.Pos(), fmt.Sprintf("imported (read by %s) but never written by an exporter: the exported genesis leaves it at its zero value", core.ShortFn(r.Fn)))
			default:
				c.Bad("C11.fields", key, st.Obj().Pos(), "neither exported nor imported")
			}
		}
	}
	c.Floor("C11.fields", n, 150, "fields of AppState and nested structs")

	// ---- alias: records built in import loops must not share a backing array
	var impFns []*ssa.Function
	for fn := range imp {
		impFns = append(impFns, fn)
	}
	sort.Slice(impFns, func(i, j int) bool { return impFns[i].String() < impFns[j].String() })
	na := checkRetainedSlices(c, "C11.alias", impFns)
	c.Add("C11.alias", "summary", token.NoPos, core.Discharged, fmt.Sprintf("%d loop call sites in import-reachable code hand a slice to a callee that retains it", na))

	// ---- order
	nr := 0
	var fns []*ssa.Function
	for fn := range exp {
		fns = append(fns, fn)
	}
	sort.Slice(fns, func(i, j int) bool { return fns[i].String() < fns[j].String() })
	for _, fn := range fns {
		if strings.HasPrefix(core.PkgOf(fn), "cmd/") {
			continue
		}
		nr += checkMapRanges(c, "C11.order", fn)
	}
	c.Floor("C11.order", nr, 5, "map ranges in Export-reachable code")
}

// checkAccountSkip — C11.skip. The accounts exporter leaves "empty" records out of the genesis.
// A record may be dropped only if nothing in it has to survive: no balance, nonce 0 (C04) and no
// multisig wallet — a wallet is created by somebody else's transaction and can sit there unfunded
// and unused, yet the address must remain a wallet on the new chain. (LockStakeUntilBlock needs
// the account's own transaction, hence a non-zero nonce.) Decided: every return of the export
// callback that is reached after the record was looked up and without appending it lies behind
// decisions that established all three.
func checkAccountSkip(c *core.Ctx, rule string) {
	exp := c.MustFn(rule, "(*coreV2/state/accounts.Accounts).Export")
	if exp == nil {
		return
	}
	n := 0
	for _, fn := range exp.AnonFuncs {
		var lookup ssa.Instruction
		var appended *ssa.BasicBlock
		for _, b := range fn.Blocks {
			for _, in := range b.Instrs {
				if call, ok := in.(*ssa.Call); ok {
					if bi, ok := call.Call.Value.(*ssa.Builtin); ok && bi.Name() == "append" && strings.HasSuffix(core.Path(core.NormCall(&call.Call).Args[0]), ".Accounts") {
						appended = b
					}
					if sc := call.Call.StaticCallee(); sc != nil && lookup == nil && sc.Signature.Recv() != nil && strings.HasSuffix(sc.Signature.Recv().Type().String(), "accounts.Accounts") && strings.HasPrefix(strings.ToLower(sc.Name()), "get") {
						lookup = in
					}
				}
			}
		}
		if lookup == nil || appended == nil {
			continue
		}
		n++
		type facts struct{ nonce, multisig, balance bool }
		bad := ""
		var missing []string
		var dfs func(b *ssa.BasicBlock, f facts, seen map[*ssa.BasicBlock]bool)
		dfs = func(b *ssa.BasicBlock, f facts, seen map[*ssa.BasicBlock]bool) {
			if bad != "" || b == appended || seen[b] {
				return
			}
			seen[b] = true
			defer func() { seen[b] = false }()
			if len(b.Instrs) > 0 {
				if r, ok := b.Instrs[len(b.Instrs)-1].(*ssa.Return); ok {
					if !(f.nonce && f.multisig && f.balance) {
						bad = posOrEnd(c, r.Pos())
						missing = nil
						if !f.balance {
							missing = append(missing, "an empty balance list")
						}
						if !f.nonce {
							missing = append(missing, "nonce 0")
						}
						if !f.multisig {
							missing = append(missing, "no multisig data")
						}
					}
					return
				}
			}
			iff := core.IfOf(b)
			for i, s := range b.Succs {
				nf := f
				if iff != nil {
					taken := i == 0
					switch x := iff.Cond.(type) {
					case *ssa.BinOp:
						if x.Op == token.EQL || x.Op == token.NEQ {
							isEq := (x.Op == token.EQL) == taken
							l, r := core.Unwrap(x.X), core.Unwrap(x.Y)
							if k, ok := core.ConstInt(r); ok && k == 0 && isEq {
								if ld, ok := l.(*ssa.UnOp); ok {
									if fa, ok := ld.X.(*ssa.FieldAddr); ok && fieldNameOf(fa) == "Nonce" {
										nf.nonce = true
									}
								}
								if call, ok := l.(*ssa.Call); ok {
									if bi, ok := call.Call.Value.(*ssa.Builtin); ok && bi.Name() == "len" && strings.HasSuffix(core.NormCall(&call.Call).Args[0].Type().String(), "types.Balance") {
										nf.balance = true
									}
								}
							}
							if k, ok := r.(*ssa.Const); ok && k.IsNil() && isEq {
								if ld, ok := l.(*ssa.UnOp); ok {
									if fa, ok := ld.X.(*ssa.FieldAddr); ok && fieldNameOf(fa) == "MultisigData" {
										nf.multisig = true
									}
								}
							}
						}
					case *ssa.Call:
						if methodNameOfCall(x) == "IsMultisig" && !taken {
							nf.multisig = true
						}
					}
				}
				dfs(s, nf, seen)
			}
		}
		// start right after the record lookup
		start := lookup.Block()
		dfs(start, facts{}, map[*ssa.BasicBlock]bool{})
		c.Check(bad == "", rule, "Accounts.Export/skip", fn.Pos(), "a record is left out of the genesis only with an empty balance list, nonce 0 and no multisig data",
			"Accounts.Export can leave out a record (return at "+bad+") without having established "+strings.Join(missing, " and ")+": what the record carries does not reach the new chain (an unfunded multisig wallet becomes a plain address and funds sent to it are stuck)")
	}
	c.Check(n >= 1, rule, "Accounts.Export/closure", exp.Pos(), "the account export callback was found", "the account export callback (record lookup + append to state.Accounts) was not found: the recogniser does not see the code it is meant to check")
}
