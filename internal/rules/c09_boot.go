package rules

import (
	"fmt"
	"go/token"
	"go/types"
	"strings"

	"golang.org/x/tools/go/ssa"

	"verif/internal/core"
)

// checkBoot decides C09.boot: a process started over the data of an initialised chain rebuilds
// the application state. Every call of Blockchain.initState outside InitChain (the constructor)
// is either unconditional or guarded only by "initialisation witnesses": tests `G() != 0` of an
// application-DB getter whose record InitChain sets to a value that cannot be 0 for any genesis
// Tendermint accepts (initial_height ≥ 1). A witness that a legal genesis can leave at its
// "unset" value means such a chain restarts without its state.
func checkBoot(c *core.Ctx, rule string) {
	bt := c.Named("coreV2/minter", "Blockchain")
	if bt == nil {
		c.Unk(rule, "minter.Blockchain", token.NoPos, "type not found")
		return
	}
	initState := c.Method(bt, "initState")
	initChain := c.Method(bt, "InitChain")
	if initState == nil || initChain == nil {
		c.Unk(rule, "Blockchain.initState", token.NoPos, "initState / InitChain not found")
		return
	}
	appT := c.Named(pkgAppDB, "AppDB")
	n := 0
	for _, fn := range c.SrcFuncs("coreV2/minter") {
		if fn == initChain {
			continue
		}
		k := 0
		for _, s := range core.Sites(fn) {
			if s.Common.StaticCallee() != initState {
				continue
			}
			n++
			k++
			key := fmt.Sprintf("%s/initState#%d", fn.Name(), k)
			gates := core.GatesBefore(s.Instr)
			if len(gates) == 0 {
				c.OK(rule, key, s.Pos(), "the state is rebuilt unconditionally")
				continue
			}
			for gi, g := range gates {
				gkey := fmt.Sprintf("%s/guard#%d", key, gi+1)
				if f := nilFieldTest(g); f != "" && groupWritesField(c, initState, bt, f) {
					c.OK(rule, gkey, g.If.Cond.Pos(), "lazy rebuild: initState runs when Blockchain."+f+", which it assigns, is still nil")
					continue
				}
				getter, ok := nonZeroTest(g)
				if !ok || appT == nil {
					c.Unk(rule, gkey, g.If.Cond.Pos(), "the state rebuild at start-up is guarded by a condition that is not a `getter() != 0` test of an application-DB record")
					continue
				}
				field := getterField(getter, appT)
				if field == "" {
					c.Unk(rule, gkey, g.If.Cond.Pos(), "cannot tell which record "+core.ShortFn(getter)+" reads")
					continue
				}
				verdict, detail, pos := initChainSets(c, initChain, appT, field)
				switch verdict {
				case "nonzero":
					c.OK(rule, gkey, g.If.Cond.Pos(), fmt.Sprintf("guard %s() != 0: InitChain sets %s to %s", getter.Name(), field, detail))
				case "canbezero":
					if !pos.IsValid() {
						pos = g.If.Cond.Pos()
					}
					c.Bad(rule, gkey, pos, fmt.Sprintf("the state is rebuilt at start-up only if %s() != 0, but InitChain records %s, which is 0 for a chain whose genesis has initial_height 1 (Tendermint's default): such a chain restarts without its state", getter.Name(), detail))
				default:
					c.Unk(rule, gkey, g.If.Cond.Pos(), fmt.Sprintf("guard %s() != 0: %s", getter.Name(), detail))
				}
			}
		}
	}
	c.Floor(rule, n, 1, "start-up calls of initState outside InitChain")

	// the height InitChain records for the genesis state is the tree version a restart loads
	// (initState: NewStateV3(GetLastHeight(), …) → LoadVersion(height)); iavl numbers saved
	// versions from max(1, InitialVersion), so that height must be at least 1 for every legal
	// genesis
	m := 0
	for _, s := range core.Sites(initChain) {
		sc := s.Common.StaticCallee()
		if sc == nil || sc.Name() != "SetLastHeight" || len(s.Common.Args) < 2 {
			continue
		}
		if n := namedOf(s.Common.Args[0].Type()); n == nil || appT == nil || n.Obj() != appT.Obj() {
			continue
		}
		m++
		v := s.Common.Args[1]
		key := fmt.Sprintf("InitChain/genesis-version#%d", m)
		if b, ok := v.(*ssa.BinOp); ok && b.Op == token.SUB {
			if k, ok := core.ConstInt(b.Y); ok && k > 0 && fromInitialHeight(b.X) {
				c.Bad(rule, key, s.Pos(), fmt.Sprintf("InitChain records InitialHeight − %d as the height of the genesis state; for initial_height 1 that is 0, but the tree saves the genesis state as version 1, so after block h the tree is at version h+1 and a restart (LoadVersion(last height)) resumes from the state before the last committed block", k))
				continue
			}
		}
		if fromInitialHeight(v) {
			c.OK(rule, key, s.Pos(), "the genesis state is recorded at the request's InitialHeight (at least 1)")
			continue
		}
		c.Unk(rule, key, s.Pos(), "the height recorded for the genesis state is not derived from the request's InitialHeight in a recognised way")
	}
	c.Check(m >= 1, rule, "InitChain/genesis-version/floor", initChain.Pos(), "InitChain records the height of the genesis state", "InitChain no longer records the height of the genesis state through AppDB.SetLastHeight: the recogniser does not see the code it is meant to check")
}

// nonZeroTest: the gate passes when a static call's integer result is non-zero.
func nonZeroTest(g core.Gate) (*ssa.Function, bool) {
	b, ok := core.Unwrap(g.If.Cond).(*ssa.BinOp)
	if !ok {
		return nil, false
	}
	x, y := core.Unwrap(b.X), core.Unwrap(b.Y)
	if k, ok := core.ConstInt(x); ok && k == 0 {
		x, y = y, x
	}
	if k, ok := core.ConstInt(y); !ok || k != 0 {
		return nil, false
	}
	nonzero := (b.Op == token.NEQ && g.PassTrue) || (b.Op == token.GTR && g.PassTrue) || (b.Op == token.EQL && !g.PassTrue)
	if !nonzero {
		return nil, false
	}
	call, ok := x.(*ssa.Call)
	if !ok {
		return nil, false
	}
	sc := call.Call.StaticCallee()
	if sc == nil || sc.Blocks == nil {
		return nil, false
	}
	return sc, true
}

// getterField: the single data field of AppDB the getter reads (the store handle aside).
func getterField(fn *ssa.Function, appT *types.Named) string {
	fields := map[string]bool{}
	for _, b := range fn.Blocks {
		for _, in := range b.Instrs {
			fa, ok := in.(*ssa.FieldAddr)
			if !ok {
				continue
			}
			if n := namedOf(fa.X.Type()); n == nil || n.Obj() != appT.Obj() {
				continue
			}
			name := fieldNameOf(fa)
			if name == "db" || name == "mu" || name == "WG" {
				continue
			}
			fields[name] = true
		}
	}
	if len(fields) != 1 {
		return ""
	}
	for f := range fields {
		return f
	}
	return ""
}

// initChainSets: how InitChain sets the record behind field. Returns "nonzero" when every
// setter call passes the request's initial height itself (≥ 1), "canbezero" when one passes
// initial height − k for a positive constant k.
func initChainSets(c *core.Ctx, initChain *ssa.Function, appT *types.Named, field string) (string, string, token.Pos) {
	// setters: AppDB methods that store a parameter into the field
	setters := map[*ssa.Function]int{}
	for _, w := range c.FieldRefs(appT, field) {
		fn := w.Fn
		if fn.Signature.Recv() == nil {
			continue
		}
		for _, b := range fn.Blocks {
			for _, in := range b.Instrs {
				var val ssa.Value
				switch x := in.(type) {
				case *ssa.Store:
					if fa, ok := x.Addr.(*ssa.FieldAddr); ok && fieldNameOf(fa) == field {
						val = x.Val
					}
				case *ssa.Call:
					if strings.HasPrefix(core.CalleeName(core.NormCall(&x.Call)), "sync/atomic.Store") && len(core.NormCall(&x.Call).Args) == 2 {
						if fa, ok := core.NormCall(&x.Call).Args[0].(*ssa.FieldAddr); ok && fieldNameOf(fa) == field {
							val = core.NormCall(&x.Call).Args[1]
						}
					}
				}
				if val == nil {
					continue
				}
				if p, ok := core.Unwrap(val).(*ssa.Parameter); ok {
					for i, pp := range fn.Params {
						if pp == p {
							setters[fn] = i
						}
					}
				}
			}
		}
	}
	if len(setters) == 0 {
		return "", "no setter of AppDB." + field + " takes the value as a parameter", token.NoPos
	}
	verdict, detail := "", ""
	var pos token.Pos
	for _, s := range core.Sites(initChain) {
		sc := s.Common.StaticCallee()
		idx, ok := setters[sc]
		if !ok || idx >= len(s.Common.Args) {
			continue
		}
		v := s.Common.Args[idx]
		if b, ok := v.(*ssa.BinOp); ok && b.Op == token.SUB {
			if k, ok := core.ConstInt(b.Y); ok && k > 0 && fromInitialHeight(b.X) {
				return "canbezero", fmt.Sprintf("InitialHeight − %d", k), s.Pos()
			}
		}
		if fromInitialHeight(v) {
			verdict, detail, pos = "nonzero", "the request's InitialHeight (at least 1)", s.Pos()
			continue
		}
		return "", "InitChain passes a value to " + sc.Name() + " that is not derived from the request's InitialHeight in a recognised way", s.Pos()
	}
	if verdict == "" {
		return "", "InitChain never sets AppDB." + field, token.NoPos
	}
	return verdict, detail, pos
}

// fromInitialHeight: the value is the InitialHeight field of the InitChain request (converted).
func fromInitialHeight(v ssa.Value) bool {
	v = core.Unwrap(v)
	switch x := v.(type) {
	case *ssa.UnOp:
		if fa, ok := x.X.(*ssa.FieldAddr); ok {
			return fieldNameOf(fa) == "InitialHeight" && strings.HasSuffix(fa.X.Type().String(), "RequestInitChain")
		}
	case *ssa.Field:
		st := structUnder(x.X.Type())
		return st != nil && st.Field(x.Field).Name() == "InitialHeight" && strings.HasSuffix(x.X.Type().String(), "RequestInitChain")
	}
	return false
}

// nilFieldTest: the gate passes when a field of the receiver is nil; returns the field name.
func nilFieldTest(g core.Gate) string {
	b, ok := core.Unwrap(g.If.Cond).(*ssa.BinOp)
	if !ok || !((b.Op == token.EQL && g.PassTrue) || (b.Op == token.NEQ && !g.PassTrue)) {
		return ""
	}
	x, y := core.Unwrap(b.X), core.Unwrap(b.Y)
	if k, ok := x.(*ssa.Const); ok && k.IsNil() {
		x, y = y, x
	}
	if k, ok := y.(*ssa.Const); !ok || !k.IsNil() {
		return ""
	}
	ld, ok := x.(*ssa.UnOp)
	if !ok || ld.Op != token.MUL {
		return ""
	}
	fa, ok := ld.X.(*ssa.FieldAddr)
	if !ok {
		return ""
	}
	return fieldNameOf(fa)
}

// writesField: fn stores a non-nil value into field f of type t.
func writesField(fn *ssa.Function, t *types.Named, f string) bool {
	for _, b := range fn.Blocks {
		for _, in := range b.Instrs {
			st, ok := in.(*ssa.Store)
			if !ok {
				continue
			}
			fa, ok := st.Addr.(*ssa.FieldAddr)
			if !ok || fieldNameOf(fa) != f {
				continue
			}
			if n := namedOf(fa.X.Type()); n == nil || n.Obj() != t.Obj() {
				continue
			}
			if k, ok := st.Val.(*ssa.Const); ok && k.IsNil() {
				continue
			}
			return true
		}
	}
	return false
}

// groupWritesField: fn or a helper only it calls stores a non-nil value into field f of type t.
func groupWritesField(c *core.Ctx, fn *ssa.Function, t *types.Named, f string) bool {
	if writesField(fn, t, f) {
		return true
	}
	for _, h := range c.Helpers(fn) {
		if writesField(h, t, f) {
			return true
		}
	}
	return false
}
