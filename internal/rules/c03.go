package rules

import (
	"fmt"
	"go/token"
	"go/types"
	"strings"

	"golang.org/x/tools/go/ssa"

	"verif/internal/core"
)

func init() {
	register(&RuleSet{
		Meta: core.PropertyMeta{
			ID: "C03",
			Explanation: "Decides the structural core of 'failed transactions change nothing but the failure fee; accepted ones bump the nonce by one': " +
				"(mode) in every live Run every state mutator and every write to the reward pool lies inside the region guarded by the ok-edge of context.(*state.State); " +
				"(atomic) once the first mutator of a Run has executed no rejecting return is reachable, so a Run either rejects with the state untouched or returns OK; " +
				"(nonce) every path through the deliver region to the OK return calls Accounts.SetNonce(tx.Sender(), tx.Nonce) exactly on the signer and nonce of this tx, and nothing else in transaction code writes nonces; " +
				"(failfee) the failure branch of RunTx performs only the whitelisted fee effects on the payer (sender, or check issuer for RedeemCheck), capped by the payer's balance, and never touches the nonce; nothing in RunTx before decodedData.Run mutates state; (simcopy) the simulated pool the validation phase builds to price a trade after the fee swap holds clones of the live limit orders, never the live objects (it updates them in place); (postrun) after the dispatched Run has returned RunTx never answers with another, rejecting response, so an applied transaction is never reported as rejected (found and repaired: non-positive ticker price). " +
				"NOT decided: that each mutator does what its name says, arithmetic of the fee, a panic half-way through a deliver block (C07).",
			Assumptions: stdAssumptions,
			Rules:       []string{"C03.mode", "C03.atomic", "C03.nonce", "C03.noncewriters", "C03.failfee", "C03.prerun", "C03.postrun", "C03.alias", "C03.simcopy"},
		},
		Run: runC03,
	})
}

func runC03(c *core.Ctx) {
	models := LiveModels(c, "C03.mode")
	for _, m := range models {
		checkMode(c, "C03.mode", m)
		checkAtomic(c, "C03.atomic", m)
		checkNonce(c, "C03.nonce", m)
	}
	c.Floor("C03.mode", c.Count("C03.mode"), 300, "mutator call sites in live Run methods")
	c.Floor("C03.atomic", c.Count("C03.atomic"), 37, "live Run methods")
	c.Floor("C03.nonce", c.Count("C03.nonce"), 37, "live Run methods")
	// no in-place arithmetic on amounts that live inside the state, anywhere in a live handler or
	// its transaction-package helpers (basicCheck, CalculateCommission, CheckSwap …)
	nAlias := 0
	for _, m := range models {
		k := checkStateAliasing(c, "C03.alias", m.H.TypeName, m.Fn, 3, map[*ssa.Function]bool{})
		nAlias += k
		if c.CountKeyPrefix("C03.alias", m.H.TypeName+"/") == 0 {
			c.OK("C03.alias", m.H.TypeName, m.Fn.Pos(), fmt.Sprintf("%d in-place big.Int operations in the handler and its helpers, none on a state-owned amount", k))
		}
	}
	if fn := c.RunTx(); fn != nil {
		nAlias += checkStateAliasing(c, "C03.alias", "RunTx", fn, 2, map[*ssa.Function]bool{})
	}
	c.Floor("C03.alias", nAlias, 250, "in-place big.Int operations examined")
	checkNonceWriters(c, "C03.noncewriters")
	checkFailFee(c, "C03.failfee", "C03.prerun")
	if fn := c.RunTx(); fn != nil {
		checkPostRun(c, "C03.postrun", fn)
	}
	checkSimulationCopies(c, "C03.simcopy")
}

// checkSimulationCopies: the validation phase of the trading handlers "applies" the fee swap to a
// simulated copy of the pool (PairV2.AddLastSwapStep / AddLastSwapStepWithOrders) so that the
// trade is priced after the fee. The simulation updates the orders it holds in place
// (updateOrders subtracts the filled amounts). It runs against the live deliver-state pair, also
// for transactions that are later rejected, so every *Limit the simulated pair holds must be a
// clone: an order object shared with the live pair would be eroded by validation alone.
func checkSimulationCopies(c *core.Ctx, rule string) {
	n := 0
	for _, fn := range c.SrcFuncs(core.PkgState + "/swap") {
		if fn.Parent() != nil || !strings.HasPrefix(fn.Name(), "AddLastSwapStep") || fn.Signature.Recv() == nil {
			continue
		}
		if !strings.HasSuffix(fn.Signature.Recv().Type().String(), "swap.PairV2") {
			continue // the V1 module is not wired into the live state (C07.inventory wiring rule)
		}
		// the copy may be built by a helper that only this function calls
		var blocks []*ssa.BasicBlock
		for _, g := range append([]*ssa.Function{fn}, c.Helpers(fn)...) {
			blocks = append(blocks, g.Blocks...)
		}
		for _, b := range blocks {
			for _, in := range b.Instrs {
				mu, ok := in.(*ssa.MapUpdate)
				if !ok {
					continue
				}
				mt, ok := mu.Map.Type().Underlying().(*types.Map)
				if !ok || !strings.HasSuffix(mt.Elem().String(), "swap.Limit") {
					continue
				}
				n++
				good := true
				var what []string
				for _, o := range core.Origins(mu.Value) {
					switch x := o.(type) {
					case *ssa.Const:
						if x.Value != nil {
							good = false
						}
						what = append(what, "nil")
					case *ssa.Call:
						name := core.CalleeName(core.NormCall(&x.Call))
						what = append(what, name)
						if !strings.HasSuffix(name, "swap.Limit).clone") {
							good = false
						}
					default:
						good = false
						what = append(what, describe(o))
					}
				}
				c.Check(good && len(what) > 0, rule, core.ShortFn(fn)+"/orders", mu.Pos(), "orders placed in the simulated pair are clones: "+strings.Join(what, ", "),
					"the simulated pair built during validation shares a limit-order object with the live pair ("+strings.Join(what, ", ")+"): updateOrders on the simulation subtracts the simulated fill from the real resting order, also when the transaction is then rejected")
			}
		}
	}
	c.Floor(rule, n, 1, "order-map fills in AddLastSwapStep* of the live pool module")
}

// C03.mode: every mutator is inside a deliver region.
func checkMode(c *core.Ctx, rule string, m *RunModel) {
	name := m.H.TypeName
	if len(m.Asserts) == 0 {
		c.Unk(rule, name+".Run/no-deliver-assert", m.Fn.Pos(), "no `context.(*state.State)` comma-ok assertion found; the handler does not follow the template")
		return
	}
	for _, mu := range m.Mutators {
		key := fmt.Sprintf("%s.Run/%s.%s", name, mu.Module, mu.Method)
		if m.InDeliver(mu.Site.Block()) {
			c.OK(rule, key, mu.Site.Pos(), "inside the deliver-only region")
		} else {
			c.Bad(rule, key, mu.Site.Pos(), fmt.Sprintf("mutator %s.%s is called outside the region guarded by the ok-edge of context.(*state.State): it would also run in CheckTx mode or before validation has finished", mu.Module, mu.Method))
		}
	}
}

// C03.atomic: no rejecting return reachable from a mutator.
func checkAtomic(c *core.Ctx, rule string, m *RunModel) {
	name := m.H.TypeName
	if len(m.Mutators) == 0 {
		c.Unk(rule, name+".Run", m.Fn.Pos(), "no mutator recognised in a live Run")
		return
	}
	bad := false
	for _, mu := range m.Mutators {
		reach := core.ReachFrom(mu.Site.Block(), nil)
		for _, r := range m.Returns {
			if r.Class == "ok" {
				continue
			}
			rb := r.R.Block()
			if !reach[rb] {
				continue
			}
			if rb == mu.Site.Block() && core.InstrIndex(r.R) < core.InstrIndex(mu.Site.Instr) && !selfLoop(rb) {
				continue
			}
			bad = true
			c.Bad(rule, fmt.Sprintf("%s.Run/%s.%s", name, mu.Module, mu.Method), mu.Site.Pos(),
				fmt.Sprintf("a %s return at %s is reachable after this mutator: the transaction could be rejected with state already changed", r.Class, c.PosStr(r.R.Pos())))
			break
		}
	}
	if !bad {
		nOK := 0
		for _, r := range m.Returns {
			if r.Class == "ok" {
				nOK++
			}
		}
		if nOK == 0 {
			c.Unk(rule, name+".Run", m.Fn.Pos(), "no OK return recognised")
			return
		}
		c.OK(rule, name+".Run", m.Fn.Pos(), fmt.Sprintf("%d mutators, none followed by a rejecting return; %d returns classified", len(m.Mutators), len(m.Returns)))
	}
}

func selfLoop(b *ssa.BasicBlock) bool {
	return core.ReachFrom(b, nil)[b] && func() bool {
		for _, s := range b.Succs {
			if core.ReachFrom(s, nil)[b] {
				return true
			}
		}
		return false
	}()
}

// C03.nonce: on every path from the deliver entry to an OK return, SetNonce(sender, tx.Nonce).
func checkNonce(c *core.Ctx, rule string, m *RunModel) {
	name := m.H.TypeName
	var sets []*core.Site
	for _, mu := range m.Mutators {
		if mu.Module == "Accounts" && mu.Method == "SetNonce" {
			sets = append(sets, mu.Site)
		}
	}
	if len(sets) == 0 {
		c.Bad(rule, name+".Run", m.Fn.Pos(), "no Accounts.SetNonce call: an accepted transaction would not advance the sender's nonce")
		return
	}
	for _, s := range sets {
		a0, a1 := s.Arg(0), s.Arg(1)
		okArgs := m.isTxSender(a0) && m.Tx != nil && core.Path(a1) == core.ParamName(m.Tx)+".Nonce"
		if !okArgs {
			c.Bad(rule, name+".Run/args", s.Pos(), fmt.Sprintf("SetNonce(%s, %s): expected (tx.Sender(), tx.Nonce)", core.Path(a0), core.Path(a1)))
			return
		}
	}
	// must-pass: remove the SetNonce blocks and see whether an OK return is still reachable from
	// the deliver region's entry (the true successor of the assertion's If)
	avoid := map[*ssa.BasicBlock]bool{}
	for _, s := range sets {
		avoid[s.Block()] = true
	}
	for _, a := range m.Asserts {
		if a.If == nil {
			continue
		}
		entry := a.If.Block().Succs[0]
		// only assertions whose region contains mutators matter
		has := false
		for _, mu := range m.Mutators {
			if a.Region[mu.Site.Block()] {
				has = true
			}
		}
		if !has {
			continue
		}
		reach := core.ReachFrom(entry, avoid)
		for _, r := range m.Returns {
			if r.Class == "ok" && reach[r.R.Block()] {
				c.Bad(rule, name+".Run", r.R.Pos(), "an OK return is reachable from the deliver block without passing Accounts.SetNonce(sender, tx.Nonce)")
				return
			}
		}
	}
	if len(sets) != 1 {
		c.Bad(rule, name+".Run", sets[1].Pos(), fmt.Sprintf("%d SetNonce calls in one Run (template has exactly one)", len(sets)))
		return
	}
	c.OK(rule, name+".Run", sets[0].Pos(), "SetNonce(tx.Sender(), tx.Nonce) on every accepted deliver path")
}

// C03.noncewriters: who calls Accounts.SetNonce / Model.setNonce at all.
func checkNonceWriters(c *core.Ctx, rule string) {
	live := map[*ssa.Function]bool{}
	if hs, err := c.Live(); err == nil {
		for _, h := range hs {
			live[h.Run] = true
		}
	}
	n := 0
	for _, fn := range c.AllFns {
		if fn.Synthetic != "" {
			continue
		}
		for _, s := range core.Sites(fn) {
			if !(s.MethodIs(core.PkgState+"/accounts", "Accounts", "SetNonce") || s.MethodIs(core.PkgState+"/accounts", "Model", "setNonce")) {
				continue
			}
			n++
			fname := core.ShortFn(fn)
			key := fname
			switch {
			case live[fn]:
				c.OK(rule, key, s.Pos(), "live Run (argument shape checked by C03.nonce)")
			case fname == "(*coreV2/state/accounts.Accounts).SetNonce":
				c.OK(rule, key, s.Pos(), "the register's own setter")
			case fname == "(*coreV2/state.State).Import":
				c.OK(rule, key, s.Pos(), "genesis import")
			case strings.HasPrefix(core.PkgOf(fn), core.PkgTx) && isDataRun(fn):
				c.OK(rule, key, s.Pos(), "Run of a superseded (not live) handler version; unreachable from the live decoder")
			default:
				c.Bad(rule, key, s.Pos(), "a nonce write outside the live Run template, the setter and genesis import")
			}
		}
	}
	c.Floor(rule, n, 40, "nonce write sites")
}

func isDataRun(fn *ssa.Function) bool {
	return fn.Name() == "Run" && fn.Signature.Recv() != nil
}

// C03.failfee / C03.prerun over RunTx.
func checkFailFee(c *core.Ctx, rule, prerule string) {
	fn := c.RunTx()
	if fn == nil {
		c.Unk(rule, "RunTx", token.NoPos, "live RunTx not found")
		return
	}
	m := BuildRunModel(c, nil, fn)
	// the Run dispatch
	var runSite *core.Site
	for _, s := range core.Sites(fn) {
		if s.Common.IsInvoke() && s.Common.Method.Name() == "Run" && strings.HasSuffix(core.Path(s.Common.Value), ".decodedData") {
			runSite = s
		}
	}
	if runSite == nil {
		c.Unk(rule, "RunTx/dispatch", fn.Pos(), "tx.decodedData.Run call not found")
		return
	}
	// prerun: no mutator dominates / precedes the dispatch
	reachRun := map[*ssa.BasicBlock]bool{}
	for _, b := range fn.Blocks {
		if core.ReachFrom(b, nil)[runSite.Block()] {
			reachRun[b] = true
		}
	}
	nPre := 0
	for _, mu := range m.Mutators {
		b := mu.Site.Block()
		before := (b == runSite.Block() && core.InstrIndex(mu.Site.Instr) < core.InstrIndex(runSite.Instr)) || (b != runSite.Block() && reachRun[b])
		if before {
			nPre++
			c.Bad(prerule, "RunTx/"+mu.Module+"."+mu.Method, mu.Site.Pos(), "state is mutated before the transaction's own Run has given its verdict")
		}
	}
	if nPre == 0 {
		c.OK(prerule, "RunTx", runSite.Pos(), fmt.Sprintf("none of RunTx's %d mutator sites can execute before decodedData.Run", len(m.Mutators)))
	}
	// failure region: blocks guarded by `response.Code != 0` true edge, within !isCheck
	resp := runSite.Value()
	var failIf *ssa.If
	for _, b := range fn.Blocks {
		iff := core.IfOf(b)
		if iff == nil {
			continue
		}
		bin, ok := iff.Cond.(*ssa.BinOp)
		if !ok || bin.Op != token.NEQ {
			continue
		}
		if k, ok := core.ConstInt(bin.Y); !ok || k != 0 {
			continue
		}
		if isCodeOf(bin.X, resp) && runSite.Block().Dominates(b) {
			// choose the one in the !isCheck arm: the first such If whose true edge leads to mutators
			if failIf == nil {
				failIf = iff
			}
		}
	}
	if failIf == nil {
		c.Unk(rule, "RunTx/failure-branch", fn.Pos(), "the `response.Code != 0` branch was not recognised")
		return
	}
	fb := failIf.Block()
	avoid := map[*ssa.BasicBlock]bool{fb: true}
	fromT := core.ReachFrom(fb.Succs[0], avoid)
	fromF := core.ReachFrom(fb.Succs[1], avoid)
	failRegion := map[*ssa.BasicBlock]bool{}
	for b := range fromT {
		if !fromF[b] {
			failRegion[b] = true
		}
	}
	// whitelist of effects in the failure region
	allowed := map[string]bool{
		"Swap.PairSellWithOrders": true, "Accounts.AddBalance": true, "Coins.SubVolume": true, "Coins.SubReserve": true,
		"Accounts.SubBalance": true, "rewardPool.Add": true,
	}
	nFail := 0
	var sub *core.Site
	for _, mu := range m.Mutators {
		if !failRegion[mu.Site.Block()] {
			continue
		}
		nFail++
		k := mu.Module + "." + mu.Method
		key := "RunTx/fail/" + k
		if !allowed[k] {
			c.Bad(rule, key, mu.Site.Pos(), "effect not in the failure-fee whitelist {swap fee coin through pool + credit filled order owners | burn bancor volume/reserve | debit payer | add to reward pool}")
			continue
		}
		if !m.InDeliver(mu.Site.Block()) {
			c.Bad(rule, key, mu.Site.Pos(), "failure-fee effect outside the deliver-only region")
			continue
		}
		if k == "Accounts.SubBalance" {
			sub = mu.Site
		}
		if k == "Accounts.AddBalance" {
			// must be the credit of filled order owners: inside a range over PairSellWithOrders' 5th result
			if !isOwnerCredit(mu.Site) {
				c.Bad(rule, key, mu.Site.Pos(), "AddBalance in the failure branch that is not the credit of a filled order's owner")
				continue
			}
		}
		c.OK(rule, key, mu.Site.Pos(), "whitelisted fee effect inside the deliver-only region")
	}
	// no mutator in the failure region may be SetNonce (implied by whitelist) — and payer provenance
	if sub == nil {
		c.Bad(rule, "RunTx/fail/payer", failIf.Pos(), "no SubBalance of the failure fee found")
	} else {
		payer := sub.Arg(0)
		origins := core.Origins(payer)
		good := len(origins) > 0
		var descr []string
		for _, o := range origins {
			p := core.Path(o)
			descr = append(descr, p)
			switch {
			case m.isTxSender(o):
			case strings.HasSuffix(p, ".Sender()#0") && strings.Contains(p, "DecodeFromBytes"):
				// decodedCheck.Sender() of check.DecodeFromBytes(tx.decodedData.(*RedeemCheckData).RawCheck)
				if !strings.Contains(p, "RawCheck") {
					good = false
				}
			default:
				good = false
			}
		}
		c.Check(good, rule, "RunTx/fail/payer", sub.Pos(),
			"payer is tx.Sender() or the issuer of the redeemed check: "+strings.Join(descr, " | "),
			"payer of the failure fee has an origin other than tx.Sender() / the redeemed check's issuer: "+strings.Join(descr, " | "))
		// the check-issuer origin must be confined to tx.Type == TypeRedeemCheck
		// coin argument
		c.Check(strings.HasSuffix(core.Path(sub.Arg(1)), ".CommissionCoin()"), rule, "RunTx/fail/coin", sub.Pos(), "fee debited in tx.CommissionCoin()", "fee debited in a coin other than tx.CommissionCoin(): "+core.Path(sub.Arg(1)))
		// cap: SubBalance must be gated by balance.Sign()==1 where balance = GetBalance(payer, CommissionCoin)
		capOK := false
		for _, g := range core.GatesBefore(sub.Instr) {
			bin, ok := g.If.Cond.(*ssa.BinOp)
			if !ok {
				continue
			}
			call, ok := core.Unwrap(bin.X).(*ssa.Call)
			if !ok || core.CalleeName(core.NormCall(&call.Call)) != "(*math/big.Int).Sign" {
				continue
			}
			k, _ := core.ConstInt(bin.Y)
			bal, ok := core.Unwrap(core.NormCall(&call.Call).Args[0]).(*ssa.Call)
			if !ok {
				continue
			}
			if !strings.HasSuffix(core.CalleeName(core.NormCall(&bal.Call)), ".GetBalance") {
				continue
			}
			bs := &core.Site{Fn: fn, Instr: bal, Common: &bal.Call, Callee: core.CalleeName(core.NormCall(&bal.Call))}
			if bin.Op == token.EQL && k == 1 && g.PassTrue && core.SameValue(bs.Arg(0), payer) && strings.HasSuffix(core.Path(bs.Arg(1)), ".CommissionCoin()") {
				capOK = true
			}
		}
		c.Check(capOK, rule, "RunTx/fail/positive-balance", sub.Pos(), "debit guarded by GetBalance(payer, commissionCoin).Sign()==1", "failure-fee debit is not guarded by a positive balance of the same payer and coin")
		// the amount debited must be capped: its origins are {CalculateCommission result, Set(balance), PairSellWithOrders result}
		amt := sub.Arg(2)
		capped := false
		for _, o := range core.Origins(amt) {
			if call, ok := o.(*ssa.Call); ok && core.CalleeName(core.NormCall(&call.Call)) == "(*math/big.Int).Set" {
				// Set(balance) guarded by balance.Cmp(commission) == -1
				for _, g := range core.GatesBefore(call) {
					if isCmpConst(g.If.Cond, token.EQL, -1) && g.PassTrue || isCmpConst(g.If.Cond, token.LSS, 0) && g.PassTrue {
						capped = true
					}
				}
			}
		}
		// through PairSellWithOrders the amount is re-assigned from the call's first result, whose
		// input is the capped value: accept when some origin is Extract#0 of PairSellWithOrders whose
		// 3rd argument has the capped origin
		if !capped {
			for _, o := range core.Origins(amt) {
				if ex, ok := o.(*ssa.Extract); ok {
					if call, ok := ex.Tuple.(*ssa.Call); ok && call.Call.IsInvoke() && call.Call.Method.Name() == "PairSellWithOrders" {
						for _, oo := range core.Origins(core.NormCall(&call.Call).Args[2]) {
							if cc, ok := oo.(*ssa.Call); ok && core.CalleeName(core.NormCall(&cc.Call)) == "(*math/big.Int).Set" {
								capped = true
							}
						}
					}
				}
			}
		}
		c.Check(capped, rule, "RunTx/fail/cap", sub.Pos(), "debited amount is min(commission, balance): commission is replaced by a copy of the balance under balance.Cmp(commission) == -1", "failure fee is not capped at the payer's balance")
	}
	c.Floor(rule, nFail, 6, "mutator sites in the failure branch")
}

func isCodeOf(v ssa.Value, resp ssa.Value) bool {
	v = core.Unwrap(v)
	switch x := v.(type) {
	case *ssa.Field:
		return core.Unwrap(x.X) == resp || isLoadOfCell(x.X, resp)
	case *ssa.UnOp:
		if fa, ok := x.X.(*ssa.FieldAddr); ok && fieldNameOf(fa) == "Code" {
			if al, ok := fa.X.(*ssa.Alloc); ok {
				for _, r := range *al.Referrers() {
					if st, ok := r.(*ssa.Store); ok && st.Addr == al && core.Unwrap(st.Val) == resp {
						return true
					}
				}
			}
		}
	}
	return false
}

func isLoadOfCell(v ssa.Value, resp ssa.Value) bool {
	u, ok := v.(*ssa.UnOp)
	if !ok || u.Op != token.MUL {
		return false
	}
	al, ok := u.X.(*ssa.Alloc)
	if !ok {
		return false
	}
	for _, r := range *al.Referrers() {
		if st, ok := r.(*ssa.Store); ok && st.Addr == al && core.Unwrap(st.Val) == resp {
			return true
		}
	}
	return false
}

// isCmpConst reports whether cond is `x.Cmp(y) <op> k`.
func isCmpConst(cond ssa.Value, op token.Token, k int64) bool {
	bin, ok := cond.(*ssa.BinOp)
	if !ok || bin.Op != op {
		return false
	}
	call, ok := core.Unwrap(bin.X).(*ssa.Call)
	if !ok || !strings.HasSuffix(core.CalleeName(core.NormCall(&call.Call)), ".Cmp") {
		return false
	}
	kk, ok := core.ConstInt(bin.Y)
	return ok && kk == k
}

// isOwnerCredit: AddBalance(value.Owner, coin, value.ValueBigInt) where value ranges over the 5th
// result of a Pair{Sell,Buy}WithOrders call.
func isOwnerCredit(s *core.Site) bool {
	src := ownerCreditSource(s)
	return src != nil
}

// ownerCreditSource returns the Pair*WithOrders call whose 5th result the credited element is
// drawn from, or nil.
func ownerCreditSource(s *core.Site) *ssa.Call {
	a0, a2 := s.Arg(0), s.Arg(2)
	e0 := elemOfField(a0, "Owner")
	e2 := elemOfField(a2, "ValueBigInt")
	if e0 == nil || e2 == nil || e0 != e2 {
		return nil
	}
	// e0 is a load of IndexAddr(slice, i); slice originates from Extract #4 of the call
	ld, ok := e0.(*ssa.UnOp)
	if !ok {
		return nil
	}
	ia, ok := ld.X.(*ssa.IndexAddr)
	if !ok {
		return nil
	}
	for _, o := range core.Origins(ia.X) {
		if ex, ok := o.(*ssa.Extract); ok && ex.Index == 4 {
			if call, ok := ex.Tuple.(*ssa.Call); ok {
				n := ""
				if call.Call.IsInvoke() {
					n = call.Call.Method.Name()
				} else if sc := call.Call.StaticCallee(); sc != nil {
					n = sc.Name()
				}
				if n == "PairSellWithOrders" || n == "PairBuyWithOrders" {
					return call
				}
			}
		}
	}
	return nil
}

// elemOfField: v is a load of (elem).Field where elem is a *T; returns elem.
func elemOfField(v ssa.Value, field string) ssa.Value {
	v = core.Unwrap(v)
	ld, ok := v.(*ssa.UnOp)
	if !ok || ld.Op != token.MUL {
		return nil
	}
	fa, ok := ld.X.(*ssa.FieldAddr)
	if !ok || fieldNameOf(fa) != field {
		return nil
	}
	return fa.X
}
