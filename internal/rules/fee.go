package rules

import (
	"fmt"
	"sort"
	"strings"

	"golang.org/x/tools/go/ssa"

	"verif/internal/core"
)

// originKind names where a value comes from, for sibling comparison of the fee block.
func originKind(m *RunModel, v ssa.Value) string {
	set := map[string]bool{}
	for _, o := range core.Origins(v) {
		set[oneOrigin(m, o)] = true
	}
	var ks []string
	for k := range set {
		ks = append(ks, k)
	}
	sort.Strings(ks)
	return strings.Join(ks, "|")
}

func oneOrigin(m *RunModel, o ssa.Value) string {
	o = core.Unwrap(o)
	switch x := o.(type) {
	case *ssa.Parameter:
		return "param:" + core.ParamName(x)
	case *ssa.Extract:
		if call, ok := x.Tuple.(*ssa.Call); ok {
			n := core.CalleeName(core.NormCall(&call.Call))
			if i := strings.LastIndex(n, "."); i >= 0 {
				n = n[i+1:]
			}
			if (n == "PairSellWithOrders" || n == "PairBuyWithOrders") && len(core.NormCall(&call.Call).Args) > 0 {
				// the commission swap (fee coin → base) vs a swap of the user's own trade
				if strings.HasSuffix(core.Path(core.NormCall(&call.Call).Args[0]), ".CommissionCoin()") {
					return fmt.Sprintf("feeSwap#%d", x.Index)
				}
				return fmt.Sprintf("tradeSwap#%d", x.Index)
			}
			return fmt.Sprintf("%s#%d", n, x.Index)
		}
	case *ssa.Call:
		n := core.CalleeName(core.NormCall(&x.Call))
		if i := strings.LastIndex(n, "."); i >= 0 {
			n = n[i+1:]
		}
		// big.NewInt(0).Set(x) / Add(a,b): describe by operands
		switch n {
		case "Set":
			if len(core.NormCall(&x.Call).Args) == 2 {
				return "copy(" + originKind(m, core.NormCall(&x.Call).Args[1]) + ")"
			}
		case "Add", "Sub", "Mul", "Div", "Neg":
			var parts []string
			for _, a := range core.NormCall(&x.Call).Args[1:] {
				parts = append(parts, originKind(m, a))
			}
			return n + "(" + strings.Join(parts, ",") + ")"
		case "NewInt":
			if k, ok := core.ConstInt(core.NormCall(&x.Call).Args[0]); ok {
				return fmt.Sprintf("big(%d)", k)
			}
		}
		if p := core.Path(x); p != "" {
			return p
		}
		return n + "()"
	case *ssa.Const:
		return "const"
	}
	if p := core.Path(o); p != "" {
		return p
	}
	return fmt.Sprintf("%T", o)
}

// FeeSig is the normalised commission block of one live Run.
type FeeSig struct {
	Lines []string
}

func (f FeeSig) String() string { return strings.Join(f.Lines, " ; ") }

// feeSignature extracts the commission-related mutators of a Run in a canonical order.
func feeSignature(m *RunModel) FeeSig {
	var lines []string
	add := func(s string) { lines = append(lines, s) }
	for _, mu := range m.Mutators {
		s := mu.Site
		switch mu.Module + "." + mu.Method {
		case "Swap.PairSellWithOrders":
			if strings.HasSuffix(core.Path(s.Arg(0)), ".CommissionCoin()") && strings.HasSuffix(core.Path(s.Arg(1)), "GetBaseCoinID()") {
				add(fmt.Sprintf("PairSellWithOrders(commissionCoin, base, %s, %s)", originKind(m, s.Arg(2)), originKind(m, s.Arg(3))))
			}
		case "Accounts.AddBalance":
			if src := ownerCreditSource(s); src != nil && strings.HasSuffix(core.Path(core.NormCall(&src.Call).Args[0]), ".CommissionCoin()") {
				add("AddBalance(order owner, " + coinKind(core.Path(s.Arg(1))) + ", order value)")
			}
		case "Coins.SubVolume":
			if strings.HasSuffix(core.Path(s.Arg(0)), ".CommissionCoin()") {
				add("SubVolume(commissionCoin, " + originKind(m, s.Arg(1)) + ")")
			}
		case "Coins.SubReserve":
			if strings.HasSuffix(core.Path(s.Arg(0)), ".CommissionCoin()") {
				add("SubReserve(commissionCoin, " + originKind(m, s.Arg(1)) + ")")
			}
		case "rewardPool.Add":
			add("rewardPool.Add(" + originKind(m, s.Arg(1)) + ")")
		}
	}
	return FeeSig{Lines: lines}
}

func coinKind(p string) string {
	switch {
	case strings.HasSuffix(p, ".CommissionCoin()"):
		return "commissionCoin"
	case strings.HasSuffix(p, ".GasCoin"):
		return "gasCoin"
	}
	return p
}

// FeeSignatureString is exported for the dump command.
func FeeSignatureString(m *RunModel) string { return feeSignature(m).String() }
