package rules

import (
	"fmt"
	"go/token"
	"go/types"
	"strings"

	"golang.org/x/tools/go/ssa"

	"verif/internal/core"
)

func init() {
	register(&RuleSet{
		Meta: core.PropertyMeta{
			ID: "C19",
			Explanation: "Proportionality of the split and all reward arithmetic are NOT decided. Decided, the gating and accounting skeleton: " +
				"(present) in EndBlock a validator's AddAccumReward is dominated by `!IsToDrop() ∧ GetValidatorStatus(address) == ValidatorPresent`, the share is computed from the validator's own GetTotalBipStake over blockchain.totalPower, and the same share is subtracted from the remainder that goes to AddTotalSlashed; " +
				"(dropped) a dropped validator's accumulated reward is added to the block's reward pool and then set to zero, under IsToDrop(); " +
				"(payout) in every PayRewards version each amount credited to a stake owner, the DAO, the developers or the validator is reported to the supply checker with the same value, the DAO / developers payments go to dao.Address / developers.Address, their rates are the 10 % constants, the validator's accumulator is zeroed on every path through its payout, and the per-validator remainder is added to total slashed only when it is not negative (otherwise the node fail-stops: the total paid cannot silently exceed the accrued amount); " +
				"(more) the extra reward of locked stakes returned by PayRewards is added both to the emission counter and to the base-coin volume known to the supply checker; " +
				"(carry) accumulated rewards survive a validator-set rebuild or return to the pool — violated on a public-key change (known finding, reproduced).",
			Assumptions: stdAssumptions,
			Rules:       []string{"C19.present", "C19.dropped", "C19.payout", "C19.more", "C19.carry", "C19.all"},
		},
		Run: runC19,
	})
}

func runC19(c *core.Ctx) {
	end := c.MustFn("C19.present", "(*coreV2/minter.Blockchain).EndBlock")
	if end != nil {
		checkAccrual(c, end)
	}
	vt := c.Named(core.PkgState+"/validators", "Validators")
	n := 0
	if vt != nil {
		for _, name := range []string{"PayRewardsV3", "PayRewardsV4", "PayRewardsV5Bug", "PayRewardsV5Fix"} {
			if fn := c.Method(vt, name); fn != nil {
				n++
				checkPayout(c, fn)
			}
		}
	}
	c.Floor("C19.payout", n, 4, "PayRewards versions")
	if vt != nil {
		var pay []*ssa.Function
		for _, name := range []string{"PayRewardsV3", "PayRewardsV4", "PayRewardsV5Bug", "PayRewardsV5Fix"} {
			if fn := c.Method(vt, name); fn != nil {
				pay = append(pay, fn)
				pay = append(pay, c.Helpers(fn)...)
			}
		}
		checkNoElementExit(c, "C19.all", pay)
	}
	checkCarry(c, "C19.carry")
	// rates
	for _, pk := range []string{"coreV2/dao", "coreV2/developers"} {
		k, ok := varInit(c, pk, "Commission")
		c.Check(ok && k == 10, "C19.payout", pk+".Commission", token.NoPos, "rate constant is 10 (%)", fmt.Sprintf("%s.Commission is %d (expected 10)", pk, k))
	}
}

// groupFnWith: the function of fn's group (fn and the helpers only it calls) that contains a call
// site satisfying pred; fn itself when none does.
func groupFnWith(c *core.Ctx, fn *ssa.Function, pred func(*core.Site) bool) *ssa.Function {
	for _, g := range append([]*ssa.Function{fn}, c.Helpers(fn)...) {
		for _, s := range core.Sites(g) {
			if pred(s) {
				return g
			}
		}
	}
	return fn
}

func checkAccrual(c *core.Ctx, endRoot *ssa.Function) {
	var acc, slashed *core.Site
	var dropAdd, dropZero *core.Site
	// the accrual loop and the return of dropped validators' rewards may each live in a helper
	end := groupFnWith(c, endRoot, func(s *core.Site) bool { return methodName(s) == "AddAccumReward" })
	dropFn := groupFnWith(c, endRoot, func(s *core.Site) bool { return methodName(s) == "SetAccumReward" })
	sites := core.Sites(end)
	if dropFn != end {
		sites = append(append([]*core.Site{}, sites...), core.Sites(dropFn)...)
	}
	for _, s := range sites {
		switch methodName(s) {
		case "AddAccumReward":
			acc = s
		case "AddTotalSlashed":
			slashed = s
		case "SetAccumReward":
			dropZero = s
		case "Add":
			if s.Callee == "(*math/big.Int).Add" && strings.HasSuffix(core.Path(s.Common.Args[0]), ".rewards") {
				if call, ok := core.Unwrap(s.Common.Args[2]).(*ssa.Call); ok && methodNameOfCall(call) == "GetAccumReward" {
					dropAdd = s
				}
			}
		}
	}
	if acc == nil || slashed == nil {
		c.Unk("C19.present", "EndBlock/shape", end.Pos(), "AddAccumReward / AddTotalSlashed not found in EndBlock")
		return
	}
	notDrop, present := false, false
	for _, f := range c.FactsAt(acc.Instr, 1) {
		cf, ok := f.AsCall()
		if !ok {
			continue
		}
		switch cf.MethodName() {
		case "IsToDrop":
			if cf.Op == token.ILLEGAL && !f.Truth {
				notDrop = true
			}
		case "GetValidatorStatus":
			k, okk := constOf(c, core.PkgMint, "ValidatorPresent")
			if okk && k == cf.Const && ((cf.Op == token.NEQ && !f.Truth) || (cf.Op == token.EQL && f.Truth)) {
				present = true
			}
		}
	}
	c.Check(notDrop, "C19.present", "EndBlock/not-dropped", acc.Pos(), "accrual is behind !IsToDrop()", "a validator marked to be dropped still accrues rewards")
	c.Check(present, "C19.present", "EndBlock/present", acc.Pos(), "accrual is behind GetValidatorStatus(address) == ValidatorPresent", "a validator that was not recorded as present in the block accrues rewards")
	// the share r: depends on the validator's own total stake and on totalPower
	r := acc.Arg(0)
	stake := core.DependsOn(r, func(v ssa.Value) bool {
		call, ok := v.(*ssa.Call)
		return ok && methodNameOfCall(call) == "GetTotalBipStake"
	})
	power := core.DependsOn(r, func(v ssa.Value) bool { return strings.HasSuffix(core.Path(v), ".totalPower") })
	c.Check(stake && power, "C19.present", "EndBlock/share", acc.Pos(), "share = (reward+fees)·stake/totalPower of the accruing validator", "the accrued share is not computed from the validator's own stake over the block's total power")
	// remainder: Sub(remainder, remainder, r) with the same r, and remainder is what goes to AddTotalSlashed
	rem := core.Unwrap(slashed.Arg(0))
	sub := false
	for _, s := range core.Sites(end) {
		if s.Callee == "(*math/big.Int).Sub" && core.Unwrap(s.Common.Args[0]) == rem && core.Unwrap(s.Common.Args[2]) == core.Unwrap(r) && s.Block() == acc.Block() {
			sub = true
		}
	}
	c.Check(sub, "C19.present", "EndBlock/remainder", slashed.Pos(), "every accrued share is subtracted from the remainder that goes to total slashed", "the undistributed remainder is not (reward+fees) minus exactly the accrued shares")
	// dropped
	if dropAdd == nil || dropZero == nil {
		c.Bad("C19.dropped", "EndBlock/return-to-pool", end.Pos(), "the accumulated reward of a dropped validator is no longer added to the reward pool and zeroed")
		return
	}
	under := func(s *core.Site) bool {
		for _, f := range c.FactsAt(s.Instr, 0) {
			if cf, ok := f.AsCall(); ok && cf.MethodName() == "IsToDrop" && cf.Op == token.ILLEGAL && f.Truth {
				return true
			}
		}
		return false
	}
	sameVal := false
	if call, ok := core.Unwrap(dropAdd.Common.Args[2]).(*ssa.Call); ok && dropZero.Recv() != nil {
		sameVal = core.SameValue(core.NormCall(&call.Call).Args[0], dropZero.Recv())
	}
	c.Check(under(dropAdd) && under(dropZero) && sameVal && isBigZero(dropZero.Arg(0)) && core.Dominates(dropAdd.Instr, dropZero.Instr), "C19.dropped", "EndBlock/return-to-pool", dropAdd.Pos(),
		"under IsToDrop(): rewards += val.GetAccumReward(); val.SetAccumReward(0) on the same validator", "a dropped validator's accumulated reward does not return to the pool (or is not zeroed afterwards)")
	// more
	var pay ssa.Value
	end = endRoot
	for _, g := range c.Helpers(endRoot) {
		for _, b := range g.Blocks {
			for _, in := range b.Instrs {
				if call, ok := in.(*ssa.Call); ok && call.Call.StaticCallee() == nil && !call.Call.IsInvoke() && isPayRewardsSig(call.Call.Signature()) {
					end = g
				}
			}
		}
	}
	for _, b := range end.Blocks {
		for _, in := range b.Instrs {
			if call, ok := in.(*ssa.Call); ok && call.Call.StaticCallee() == nil && !call.Call.IsInvoke() {
				// call of the selected PayRewards function value
				if isPayRewardsSig(call.Call.Signature()) {
					pay = call
				}
			}
		}
	}
	if pay == nil {
		c.Unk("C19.more", "EndBlock/payout-call", end.Pos(), "the PayRewards call was not recognised")
		return
	}
	emi, vol := false, false
	// the counter may be advanced through a helper: addEmission(x) = SetEmission(Emission() + x)
	for _, s := range core.Sites(end) {
		h := s.Common.StaticCallee()
		if h == nil || h.Blocks == nil || core.PkgOf(h) != core.PkgOf(end) {
			continue
		}
		for i, a := range s.Common.Args {
			if core.Unwrap(a) != pay || i >= len(h.Params) {
				continue
			}
			p := h.Params[i]
			for _, hs := range core.Sites(h) {
				if methodName(hs) == "SetEmission" && core.DependsOn(hs.Arg(0), func(v ssa.Value) bool { return v == ssa.Value(p) }) && core.DependsOn(hs.Arg(0), func(v ssa.Value) bool {
					call, ok := v.(*ssa.Call)
					return ok && methodNameOfCall(call) == "Emission"
				}) {
					emi = true
				}
			}
		}
	}
	for _, s := range core.Sites(end) {
		switch methodName(s) {
		case "SetEmission":
			if core.DependsOn(s.Arg(0), func(v ssa.Value) bool { return v == pay }) && core.DependsOn(s.Arg(0), func(v ssa.Value) bool {
				call, ok := v.(*ssa.Call)
				return ok && methodNameOfCall(call) == "Emission"
			}) {
				emi = true
			}
		case "AddCoinVolume":
			if core.Unwrap(s.Arg(1)) == pay {
				vol = true
			}
		}
	}
	c.Check(emi && vol, "C19.more", "EndBlock/more-rewards", pay.Pos(), "the extra reward returned by PayRewards is added to the emission counter and to the base-coin volume", "the extra reward of locked stakes is not added to both the emission counter and the checker's base-coin volume")
}

// isPayRewardsSig: func(uint64, int64) *big.Int — the shape of Validators.PayRewards*.
func isPayRewardsSig(sig *types.Signature) bool {
	if sig.Params().Len() != 2 || sig.Results().Len() != 1 {
		return false
	}
	return sig.Params().At(0).Type().String() == "uint64" && sig.Params().At(1).Type().String() == "int64" && sig.Results().At(0).Type().String() == "*math/big.Int"
}

// calledField: the call invokes a function value stored in a struct field (bus.Candidate.AddUpdate);
// returns the field name.
func calledField(s *core.Site) string {
	if s.Common.IsInvoke() || s.Common.StaticCallee() != nil {
		return ""
	}
	if ld, ok := s.Common.Value.(*ssa.UnOp); ok && ld.Op == token.MUL {
		if fa, ok := ld.X.(*ssa.FieldAddr); ok {
			return fieldNameOf(fa)
		}
	}
	return ""
}

// varInit: the constant a package-level variable is initialised with.
func varInit(c *core.Ctx, pk, name string) (int64, bool) {
	p := c.SSAPkgs[pk]
	if p == nil {
		return 0, false
	}
	initf := p.Func("init")
	if initf == nil {
		return 0, false
	}
	for _, b := range initf.Blocks {
		for _, in := range b.Instrs {
			if st, ok := in.(*ssa.Store); ok {
				if g, ok := st.Addr.(*ssa.Global); ok && g.Name() == name {
					return core.ConstInt(st.Val)
				}
			}
		}
	}
	return 0, false
}

func checkPayout(c *core.Ctx, fn *ssa.Function) {
	name := fn.Name()
	// credits: candidate.AddUpdate(base, X, X, addr) paired with Checker.AddCoin(base, X) in the same
	// block — written in the function itself, or in a helper only it calls (payReward(candidate, …,
	// address, amount, …)), in which case the helper's parameters stand for the caller's arguments
	type credit struct {
		pos              token.Pos
		value, bip, addr ssa.Value
		paired           bool
	}
	var credits []credit
	collect := func(g *ssa.Function, mapv func(ssa.Value) ssa.Value, at func(*core.Site) token.Pos) {
		for _, s := range core.Sites(g) {
			if calledField(s) != "AddUpdate" {
				continue
			}
			paired := false
			for _, s2 := range core.Sites(g) {
				if methodName(s2) == "AddCoin" && s2.Block() == s.Block() && core.Unwrap(s2.Arg(1)) == core.Unwrap(s.Arg(1)) {
					paired = true
				}
			}
			credits = append(credits, credit{pos: at(s), value: mapv(s.Arg(1)), bip: mapv(s.Arg(2)), addr: mapv(s.Arg(3)), paired: paired})
		}
	}
	collect(fn, func(v ssa.Value) ssa.Value { return v }, func(s *core.Site) token.Pos { return s.Pos() })
	var descend func(g *ssa.Function, mapv func(ssa.Value) ssa.Value, pos *token.Pos, depth int)
	descend = func(g *ssa.Function, mapv func(ssa.Value) ssa.Value, pos *token.Pos, depth int) {
		for _, s := range core.Sites(g) {
			// (an unexported function of the package; it may be shared by the reward versions)
			h := s.Common.StaticCallee()
			if h == nil || h.Blocks == nil || core.PkgOf(h) != core.PkgOf(fn) || h.Object() == nil || h.Object().Exported() || h == g {
				continue
			}
			call := s
			at := call.Pos()
			if pos != nil {
				at = *pos
			}
			mapH := func(v ssa.Value) ssa.Value {
				if p, ok := core.Unwrap(v).(*ssa.Parameter); ok {
					for i, q := range h.Params {
						if q == p && i < len(call.Common.Args) {
							return mapv(call.Common.Args[i])
						}
					}
				}
				return v
			}
			collect(h, mapH, func(*core.Site) token.Pos { return at })
			if depth < 2 {
				descend(h, mapH, &at, depth+1)
			}
		}
	}
	descend(fn, func(v ssa.Value) ssa.Value { return v }, nil, 1)
	n, bad := len(credits), 0
	for i, cr := range credits {
		if !cr.paired || core.Unwrap(cr.value) != core.Unwrap(cr.bip) {
			bad++
			c.Bad("C19.payout", fmt.Sprintf("%s/credit#%d", name, i+1), cr.pos, "a reward credit is not reported to the supply checker with the same value (or value and bip value differ)")
		}
	}
	if bad == 0 {
		c.OK("C19.payout", name+"/credits", fn.Pos(), fmt.Sprintf("%d reward credits, each with value == bip value and the same value reported to the supply checker", n))
	}
	c.Check(n >= 4, "C19.payout", name+"/credit-kinds", fn.Pos(), "delegator, validator, DAO and developers credits present", fmt.Sprintf("only %d reward credit sites", n))
	// DAO / developers recipients
	for _, who := range []string{"dao", "developers"} {
		found := false
		for _, cr := range credits {
			p := core.Path(cr.addr)
			if strings.Contains(p, "global:Address") {
				// which package's Address
				if ld, ok := core.Unwrap(cr.addr).(*ssa.UnOp); ok {
					if g, ok := ld.X.(*ssa.Global); ok && g.Pkg != nil && strings.HasSuffix(g.Pkg.Pkg.Path(), "/"+who) {
						found = true
					}
				}
			}
		}
		c.Check(found, "C19.payout", name+"/"+who+"-recipient", fn.Pos(), who+" share is credited to "+who+".Address", "no reward credit goes to "+who+".Address")
	}
	// accumulator zeroed: SetAccumReward(0) post-dominates the credits within the validator loop:
	// every AddUpdate block reaches a SetAccumReward(0) and the loop latch is not reachable from the
	// loop body's DAO credit without passing it
	var zero *core.Site
	for _, s := range core.Sites(fn) {
		if methodName(s) == "SetAccumReward" && isBigZero(s.Arg(0)) {
			zero = s
		}
	}
	c.Check(zero != nil, "C19.payout", name+"/zeroed", fn.Pos(), "the paid validator's accumulator is set to zero", "the accumulator is not zeroed after the payout: the same rewards would be paid again")
	// remainder: AddTotalSlashed(remainder) under remainder.Sign() != -1, else panic
	var ats *core.Site
	for _, s := range core.Sites(fn) {
		if methodName(s) == "AddTotalSlashed" {
			ats = s
		}
	}
	if ats == nil {
		c.Bad("C19.payout", name+"/remainder", fn.Pos(), "the per-validator remainder no longer goes to total slashed")
		return
	}
	gated := false
	for _, f := range c.FactsAt(ats.Instr, 0) {
		if cf, ok := f.AsCall(); ok && cf.MethodName() == "Sign" && core.Unwrap(core.NormCall(&cf.Call.Call).Args[0]) == core.Unwrap(ats.Arg(0)) {
			if (cf.Op == token.NEQ && cf.Const == -1 && f.Truth) || (cf.Op == token.EQL && cf.Const == -1 && !f.Truth) || (cf.Op == token.GEQ && cf.Const == 0 && f.Truth) || (cf.Op == token.LSS && cf.Const == 0 && !f.Truth) {
				gated = true
			}
		}
	}
	// the other side panics
	pan := false
	for _, ps := range panicSitesOf(c, fn) {
		if ps.io == "" {
			pan = true
		}
	}
	c.Check(gated && pan, "C19.payout", name+"/remainder", ats.Pos(), "remainder ≥ 0 ⇒ AddTotalSlashed(remainder); a negative remainder (over-payment) fail-stops", "the over-payment guard on the per-validator remainder is gone")
	// each delegator reward is subtracted from the remainder
	subs := 0
	rem := core.Unwrap(ats.Arg(0))
	for _, s := range core.Sites(fn) {
		if s.Callee == "(*math/big.Int).Sub" && core.Unwrap(s.Common.Args[0]) == rem {
			subs++
		}
	}
	c.Check(subs >= 3, "C19.payout", name+"/remainder-subs", fn.Pos(), fmt.Sprintf("%d shares are subtracted from the remainder (delegators, validator, DAO, developers)", subs), "fewer than three kinds of payments are subtracted from the remainder")
}

// checkNoElementExit — in the pay-out functions every loop over a list (validators, the stakes of
// one validator) visits ALL elements: an exit from the loop whose condition is a property of the
// element being visited (`if stake.BipValue.Sign() == 0 { break }`) ends the distribution for
// everything behind that element — the delegators in later slots get nothing, the unpaid part goes
// to the remainder, and no invariant notices. A per-element condition may only skip the element.
func checkNoElementExit(c *core.Ctx, rule string, fns []*ssa.Function) {
	n := 0
	for _, fn := range fns {
		if fn == nil || fn.Blocks == nil {
			continue
		}
		k := 0
		for _, b := range fn.Blocks {
			for _, in := range b.Instrs {
				ia, ok := in.(*ssa.IndexAddr)
				if !ok || !core.InCycle(b) {
					continue
				}
				ph, isPhi := core.Unwrap(ia.Index).(*ssa.Phi)
				if !isPhi {
					// rangeindex: the index is phi+1 computed in the header
					if bin, isBin := core.Unwrap(ia.Index).(*ssa.BinOp); isBin {
						ph, isPhi = core.Unwrap(bin.X).(*ssa.Phi)
					}
				}
				if !isPhi || !core.InCycle(ph.Block()) {
					continue
				}
				// the (innermost) loop of this element: the natural loop of the back edges of the
				// block that holds the index
				h := ph.Block()
				loop := map[*ssa.BasicBlock]bool{h: true}
				var work []*ssa.BasicBlock
				for _, p := range h.Preds {
					if h.Dominates(p) {
						work = append(work, p)
					}
				}
				for len(work) > 0 {
					x := work[len(work)-1]
					work = work[:len(work)-1]
					if loop[x] {
						continue
					}
					loop[x] = true
					work = append(work, x.Preds...)
				}
				if !loop[b] {
					continue
				}
				n++
				k++
				bad := ""
				for x := range loop {
					iff := core.IfOf(x)
					if iff == nil {
						continue
					}
					// an exit that goes on with the code behind the loop (not into a panic)
					leaves := false
					for _, sc := range x.Succs {
						if loop[sc] {
							continue
						}
						reach := core.ReachFrom(sc, nil)
						reach[sc] = true
						for y := range reach {
							if len(y.Instrs) > 0 {
								if _, isRet := y.Instrs[len(y.Instrs)-1].(*ssa.Return); isRet {
									leaves = true
								}
							}
						}
					}
					if !leaves {
						continue
					}
					if core.DependsOn(iff.Cond, func(v ssa.Value) bool { return v == ssa.Value(ia) }) {
						bad = c.PosStr(iff.Cond.Pos())
					}
				}
				c.Check(bad == "", rule, fmt.Sprintf("%s/loop#%d", fn.Name(), k), ia.Pos(), "no exit of the loop depends on the element being visited",
					"the loop is left (at "+bad+") on a condition of the element being visited: the elements behind it are never processed — a zero-valued stake in an early slot cuts every later delegator off from the pay-out")
			}
		}
	}
	c.Floor(rule, n, 4, "element loops in the pay-out functions")
}
