package rules

import (
	"fmt"
	"go/token"
	"go/types"
	"strings"

	"golang.org/x/tools/go/ssa"

	"verif/internal/core"
)

func init() {
	register(&RuleSet{
		Meta: core.PropertyMeta{
			ID: "C06",
			Explanation: "The numeric agreement of the check-time simulation with deliver-time execution is NOT decided. Decided: the structure that makes the accept/reject verdict mode-independent. " +
				"(same) Blockchain.CheckTx and Blockchain.DeliverTx dispatch to the same blockchain.executor.RunTx with currentBlock = Height()+1 and forward the response code unchanged; CheckTx's context is CurrentState() = blockchain.stateCheck, and every function that assigns blockchain.stateDeliver also assigns stateCheck = NewCheckState(<that same state>); every accessor of CheckState returns the module of the wrapped state (so both modes read the same data). " +
				"(modefree) in RunTx and in every live Run the only values that depend on the execution mode are the comma-ok results of context.(*state.CheckState) / context.(*state.State); no rejecting return and no store to the response code is control-dependent on them and no other value (phi) is selected by them, except: the `checkState` view selection (both arms wrap the same state), the CheckTx-only gas-price floor and one-tx-per-sender mempool rule (excluded by the property), and returns inside the `response.Code != 0` failure-fee region (the verdict is already 'rejected'). " +
				"(postrun) after tx.decodedData.Run has returned, RunTx never replaces an accepting response by a rejecting one (found and repaired: a non-positive ticker price made DeliverTx answer 'rejected' for an executed CreateCoin/CreateToken that CheckTx had accepted). " +
				"With C03.mode/C03.atomic (mutators only in the deliver region, no rejection after the first mutator) the verdict is computed by mode-independent code over the same state.",
			Assumptions: append([]string{"read methods of the state modules return the same values through a CheckState as through the State it wraps (cache side effects of reads are not examined)"}, stdAssumptions...),
			Rules:       []string{"C06.same", "C06.view", "C06.modefree", "C06.postrun"},
		},
		Run: runC06,
	})
}

func runC06(c *core.Ctx) {
	checkSameExecutor(c, "C06.same")
	checkStateView(c, "C06.view")
	n := 0
	if fn := c.RunTx(); fn != nil {
		n += checkModeFree(c, "C06.modefree", "RunTx", fn, true)
		checkPostRun(c, "C06.postrun", fn)
	} else {
		c.Unk("C06.modefree", "RunTx", token.NoPos, "live RunTx not found")
	}
	for _, m := range LiveModels(c, "C06.modefree") {
		n += checkModeFree(c, "C06.modefree", m.H.TypeName+".Run", m.Fn, false)
		// helpers of the handler in the transaction package (basicCheck, CalculateCommission …)
		seen := map[*ssa.Function]bool{m.Fn: true}
		var walk func(fn *ssa.Function, d int)
		walk = func(fn *ssa.Function, d int) {
			for _, s := range core.SitesDeep(fn) {
				cal := s.Common.StaticCallee()
				if cal == nil || seen[cal] || cal.Blocks == nil || !strings.HasPrefix(core.PkgOf(cal), core.PkgTx) {
					continue
				}
				seen[cal] = true
				n += checkModeFree(c, "C06.modefree", m.H.TypeName+"→"+core.ShortFn(cal), cal, false)
				if d < 3 {
					walk(cal, d+1)
				}
			}
		}
		walk(m.Fn, 0)
	}
	c.Floor("C06.modefree", c.Count("C06.modefree"), 38, "functions examined for mode dependence")
	c.Stats["mode_conditions"] = n
}

// ---------------------------------------------------------------- C06.same

func bcMethod(c *core.Ctx, name string) *ssa.Function {
	return c.Fn("(*" + core.PkgMint + ".Blockchain)." + name)
}

func checkSameExecutor(c *core.Ctx, rule string) {
	type disp struct {
		site *core.Site
		fn   *ssa.Function
	}
	var ds []disp
	for _, name := range []string{"DeliverTx", "CheckTx"} {
		fn := bcMethod(c, name)
		if fn == nil {
			c.Unk(rule, name, token.NoPos, "Blockchain."+name+" not found")
			return
		}
		var sites []*core.Site
		for _, s := range core.Sites(fn) {
			if s.Common.IsInvoke() && s.Common.Method.Name() == "RunTx" {
				sites = append(sites, s)
			}
		}
		if len(sites) != 1 {
			c.Bad(rule, name+"/dispatch", fn.Pos(), fmt.Sprintf("%d RunTx dispatches (expected exactly one)", len(sites)))
			return
		}
		ds = append(ds, disp{sites[0], fn})
	}
	d, k := ds[0].site, ds[1].site
	c.Check(core.Path(d.Common.Value) == core.Path(k.Common.Value) && strings.HasSuffix(core.Path(d.Common.Value), ".executor"), rule, "executor", k.Pos(),
		"both modes dispatch through "+core.Path(d.Common.Value), "CheckTx and DeliverTx use different executors: "+core.Path(d.Common.Value)+" vs "+core.Path(k.Common.Value))
	// the raw transaction bytes
	c.Check(core.Path(d.Arg(1)) == "req.Tx" && core.Path(k.Arg(1)) == "req.Tx", rule, "bytes", k.Pos(), "both run req.Tx", "the bytes handed to RunTx are not req.Tx in both modes")
	// the block number: Height()+1 in both
	isNext := func(v ssa.Value) bool {
		bin, ok := core.Unwrap(v).(*ssa.BinOp)
		if !ok || bin.Op != token.ADD {
			return false
		}
		x, y := bin.X, bin.Y
		if _, ok := core.ConstInt(x); ok {
			x, y = y, x
		}
		kk, ok := core.ConstInt(y)
		return ok && kk == 1 && strings.HasSuffix(core.Path(x), ".Height()")
	}
	c.Check(isNext(d.Arg(3)) && isNext(k.Arg(3)), rule, "block", k.Pos(), "currentBlock = Height()+1 in both modes", "CheckTx and DeliverTx evaluate the transaction for different block numbers")
	// contexts
	c.Check(strings.HasSuffix(core.Path(d.Arg(0)), ".stateDeliver"), rule, "deliver-context", d.Pos(), "DeliverTx runs on blockchain.stateDeliver", "DeliverTx context is "+core.Path(d.Arg(0)))
	ctxOK := false
	if call, ok := core.Unwrap(k.Arg(0)).(*ssa.Call); ok && call.Call.StaticCallee() != nil {
		cs := call.Call.StaticCallee()
		rets := core.Returns(cs)
		if len(rets) == 1 && strings.HasSuffix(core.Path(rets[0].Results[0]), ".stateCheck") {
			ctxOK = true
		}
	} else if strings.HasSuffix(core.Path(k.Arg(0)), ".stateCheck") {
		ctxOK = true
	}
	c.Check(ctxOK, rule, "check-context", k.Pos(), "CheckTx runs on blockchain.stateCheck (through CurrentState())", "CheckTx context is not blockchain.stateCheck: "+core.Path(k.Arg(0)))
	// the response code is forwarded unchanged in both
	for i, x := range ds {
		name := []string{"DeliverTx", "CheckTx"}[i]
		okFwd := false
		notFwd := ""
		for _, r := range core.Returns(x.fn) {
			if r.Block() == x.fn.Recover {
				continue
			}
			this := false
			if al, ok := loadOfAlloc(r.Results[0]); ok && core.Dominates(x.site.Instr, r) {
				for _, ref := range *al.Referrers() {
					fa, ok := ref.(*ssa.FieldAddr)
					if !ok || fieldNameOf(fa) != "Code" {
						continue
					}
					for _, fr := range *fa.Referrers() {
						if st, ok := fr.(*ssa.Store); ok && st.Addr == fa && isCodeOf(st.Val, x.site.Value()) {
							this = true
						}
					}
				}
			}
			if this {
				okFwd = true
			} else if notFwd == "" {
				notFwd = posOrEnd(c, r.Pos())
			}
		}
		c.Check(okFwd && notFwd == "", rule, name+"/code", x.fn.Pos(), "every ABCI response carries the executor's response code", name+" answers without running the executor, or does not forward the executor's response code (return at "+notFwd+"): the two modes can then disagree on a transaction")
	}
	// stateCheck always wraps stateDeliver: every function writing stateDeliver also writes
	// stateCheck = NewCheckState(<same value>)
	bt := c.Named(core.PkgMint, "Blockchain")
	if bt == nil {
		c.Unk(rule, "Blockchain", token.NoPos, "type Blockchain not found")
		return
	}
	dw := c.FieldWrites(bt, "stateDeliver")
	cw := c.FieldWrites(bt, "stateCheck")
	for _, w := range dw {
		st, ok := w.Instr.(*ssa.Store)
		if !ok {
			c.Bad(rule, "stateDeliver-write/"+core.ShortFn(w.Fn), w.Pos(), "unrecognised write to blockchain.stateDeliver")
			continue
		}
		paired := false
		for _, w2 := range cw {
			st2, ok := w2.Instr.(*ssa.Store)
			if !ok || w2.Fn != w.Fn {
				continue
			}
			if call, ok := core.Unwrap(st2.Val).(*ssa.Call); ok && core.CalleeName(core.NormCall(&call.Call)) == core.PkgState+".NewCheckState" && len(core.NormCall(&call.Call).Args) == 1 && core.SameValue(core.NormCall(&call.Call).Args[0], st.Val) {
				paired = true
			}
		}
		c.Check(paired, rule, "stateDeliver-write/"+core.ShortFn(w.Fn), w.Pos(), "paired with stateCheck = NewCheckState(the same state)", "blockchain.stateDeliver is replaced without re-pointing stateCheck at it: CheckTx would validate against another state than DeliverTx executes on")
	}
	for _, w2 := range cw {
		st2, ok := w2.Instr.(*ssa.Store)
		good := false
		if ok {
			if call, ok := core.Unwrap(st2.Val).(*ssa.Call); ok && core.CalleeName(core.NormCall(&call.Call)) == core.PkgState+".NewCheckState" {
				for _, w := range dw {
					if st, ok := w.Instr.(*ssa.Store); ok && w.Fn == w2.Fn && core.SameValue(core.NormCall(&call.Call).Args[0], st.Val) {
						good = true
					}
				}
			}
		}
		c.Check(good, rule, "stateCheck-write/"+core.ShortFn(w2.Fn), w2.Pos(), "stateCheck wraps the state stored in stateDeliver by the same function", "blockchain.stateCheck is assigned something other than NewCheckState(stateDeliver)")
	}
	c.Floor(rule, len(dw), 1, "assignments of blockchain.stateDeliver")
}

func loadOfAlloc(v ssa.Value) (*ssa.Alloc, bool) {
	ld, ok := v.(*ssa.UnOp)
	if !ok || ld.Op != token.MUL {
		return nil, false
	}
	al, ok := ld.X.(*ssa.Alloc)
	return al, ok
}

// ---------------------------------------------------------------- C06.view

// checkStateView: NewCheckState stores its argument in the `state` field and every accessor of
// *CheckState that returns a module interface returns the module of that wrapped state.
func checkStateView(c *core.Ctx, rule string) {
	cs := c.Named(core.PkgState, "CheckState")
	if cs == nil {
		c.Unk(rule, "CheckState", token.NoPos, "type not found")
		return
	}
	if ctor := c.MustFn(rule, core.PkgState+".NewCheckState"); ctor != nil {
		good := false
		for _, w := range c.FieldWrites(cs, "state") {
			if st, ok := w.Instr.(*ssa.Store); ok && w.Fn == ctor && len(ctor.Params) == 1 && core.Unwrap(st.Val) == ctor.Params[0] {
				good = true
			}
		}
		c.Check(good, rule, "NewCheckState", ctor.Pos(), "wraps exactly its argument", "NewCheckState does not store its argument as the wrapped state")
		for _, w := range c.FieldWrites(cs, "state") {
			if w.Fn != ctor {
				c.Bad(rule, "state-rewrite/"+core.ShortFn(w.Fn), w.Pos(), "CheckState.state is re-pointed outside the constructor")
			}
		}
	}
	ms := c.Prog.MethodSets.MethodSet(types.NewPointer(cs))
	n := 0
	for i := 0; i < ms.Len(); i++ {
		fn := c.Prog.FuncValue(ms.At(i).Obj().(*types.Func))
		if fn == nil || fn.Blocks == nil || fn.Signature.Results().Len() != 1 || fn.Signature.Params().Len() != 0 {
			continue
		}
		rn, ok := fn.Signature.Results().At(0).Type().(*types.Named)
		if !ok || rn.Obj().Pkg() == nil || !strings.HasPrefix(core.Short(rn.Obj().Pkg().Path()), core.PkgState+"/") {
			continue
		}
		if _, isI := rn.Underlying().(*types.Interface); !isI {
			continue
		}
		n++
		good := true
		var descr []string
		for _, r := range core.Returns(fn) {
			p := core.Path(r.Results[0])
			descr = append(descr, p)
			parts := strings.Split(p, ".")
			if !(len(parts) == 3 && parts[0] == core.ParamName(fn.Params[0]) && parts[1] == "state") {
				good = false
			}
		}
		c.Check(good, rule, "accessor/"+fn.Name(), fn.Pos(), "returns "+strings.Join(descr, ","), "accessor of CheckState does not return a module of the wrapped state: "+strings.Join(descr, ","))
	}
	c.Floor(rule, n, 10, "CheckState module accessors")
}

// ---------------------------------------------------------------- C06.modefree

// modeValues returns the comma-ok booleans (and the asserted values) of type assertions of a
// state.Interface value to *state.CheckState / *state.State.
func modeValues(fn *ssa.Function) (oks map[ssa.Value]*ssa.TypeAssert, vals map[ssa.Value]*ssa.TypeAssert) {
	oks, vals = map[ssa.Value]*ssa.TypeAssert{}, map[ssa.Value]*ssa.TypeAssert{}
	for _, b := range fn.Blocks {
		for _, in := range b.Instrs {
			ta, ok := in.(*ssa.TypeAssert)
			if !ok || !(isStatePtr(ta.AssertedType, "State") || isStatePtr(ta.AssertedType, "CheckState")) {
				continue
			}
			if !ta.CommaOk {
				vals[ta] = ta
				continue
			}
			for _, r := range *ta.Referrers() {
				if ex, ok := r.(*ssa.Extract); ok {
					if ex.Index == 1 {
						oks[ex] = ta
					} else {
						vals[ex] = ta
					}
				}
			}
		}
	}
	return
}

// checkModeFree examines one function; returns the number of mode-dependent conditions found.
func checkModeFree(c *core.Ctx, rule, key string, fn *ssa.Function, isRunTx bool) int {
	oks, _ := modeValues(fn)
	// also: a bool parameter named isCheck (helpers that are told the mode)
	for _, p := range fn.Params {
		if b, ok := p.Type().Underlying().(*types.Basic); ok && b.Kind() == types.Bool && strings.Contains(strings.ToLower(p.Name()), "check") {
			oks[p] = nil
		}
	}
	if len(oks) == 0 {
		c.OK(rule, key, fn.Pos(), "no mode-dependent value in this function")
		return 0
	}
	isMode := func(v ssa.Value) bool { _, ok := oks[v]; return ok }
	var failRegion map[*ssa.BasicBlock]bool
	var runSite *core.Site
	if isRunTx {
		runSite = findDispatch(fn)
		failRegion = failureRegion(fn, runSite)
	}
	rets := map[*ssa.BasicBlock]*Ret{}
	for _, r := range core.Returns(fn) {
		rets[r.Block()] = classifyReturn(r)
	}
	nCond, bad := 0, 0
	for _, b := range fn.Blocks {
		iff := core.IfOf(b)
		if iff == nil || !core.DependsOn(iff.Cond, isMode) {
			continue
		}
		nCond++
		avoid := map[*ssa.BasicBlock]bool{b: true}
		fromT := core.ReachFrom(b.Succs[0], avoid)
		fromF := core.ReachFrom(b.Succs[1], avoid)
		for side, own := range []map[*ssa.BasicBlock]bool{fromT, fromF} {
			other := fromF
			if side == 1 {
				other = fromT
			}
			for blk := range own {
				if other[blk] {
					continue
				}
				// blk executes only on one outcome of a mode condition
				if r, ok := rets[blk]; ok && r.Class != "ok" && !(isRunTx && isRunResponse(r.R, runSite)) {
					if isRunTx && (failRegion[blk] || gasPriceFloor(r.R, fn) || mempoolRule(r.R, fn)) {
						continue
					}
					bad++
					c.Bad(rule, fmt.Sprintf("%s/mode-dependent-return/code=%s", key, r.Code), r.R.Pos(),
						fmt.Sprintf("a %s return executes only in one execution mode (condition at %s): CheckTx and DeliverTx can disagree on this transaction", r.Class, c.PosStr(iff.Pos())))
				}
				for _, in := range blk.Instrs {
					if st, ok := in.(*ssa.Store); ok {
						if fa, ok := st.Addr.(*ssa.FieldAddr); ok && fieldNameOf(fa) == "Code" && strings.HasSuffix(fa.X.Type().String(), "transaction.Response") {
							// building an accepting response (code OK) in one mode only is what an
							// early `return Response{Code: OK}` of the other mode amounts to; only a
							// rejecting code that one mode alone can produce makes the modes disagree
							if k, isK := core.ConstInt(st.Val); isK && k == 0 {
								continue
							}
							bad++
							c.Bad(rule, key+"/mode-dependent-code-store", st.Pos(), "the response code is overwritten in code that executes only in one execution mode")
						}
					}
				}
			}
		}
	}
	// values selected by the mode: phis merging a mode region
	for _, b := range fn.Blocks {
		for _, in := range b.Instrs {
			ph, ok := in.(*ssa.Phi)
			if !ok {
				break
			}
			if !phiSelectedByMode(ph, isMode) {
				continue
			}
			if isViewPhi(ph) || isModeBool(ph, isMode) {
				continue
			}
			// a mode-selected value matters for the verdict only if it reaches a condition or the
			// response code (the deliver-only `tags` of every Run reach neither)
			if !feedsCondition(ph) {
				continue
			}
			bad++
			c.Bad(rule, key+"/mode-selected-value/"+ph.Comment, ph.Pos(), "a value is selected by the execution mode and used later: the verdict may depend on the mode")
		}
	}
	if bad == 0 {
		c.OK(rule, key, fn.Pos(), fmt.Sprintf("%d mode-dependent conditions; none governs a rejecting return, a response-code store or a value used by the verdict (beyond the excluded CheckTx-only rules and the failure-fee region)", nCond))
	}
	return nCond
}

// phiSelectedByMode: some predecessor edge of the phi's block is taken only under one outcome of
// a mode-dependent condition.
func phiSelectedByMode(ph *ssa.Phi, isMode func(ssa.Value) bool) bool {
	b := ph.Block()
	for _, p := range b.Preds {
		for _, g := range core.GatesBefore(p.Instrs[len(p.Instrs)-1]) {
			if core.DependsOn(g.If.Cond, isMode) && !g.If.Block().Dominates(b) {
				return true
			}
			if core.DependsOn(g.If.Cond, isMode) && g.If.Block().Dominates(b) {
				// the gate dominates the join too: it selects between edges only when the join is
				// also reachable from the gate's other side
				avoid := map[*ssa.BasicBlock]bool{g.If.Block(): true}
				t := core.ReachFrom(g.If.Block().Succs[0], avoid)[b]
				f := core.ReachFrom(g.If.Block().Succs[1], avoid)[b]
				if t && f {
					return true
				}
			}
		}
		if iff := core.IfOf(p); iff != nil && core.DependsOn(iff.Cond, isMode) {
			return true
		}
	}
	return false
}

// isViewPhi: the `checkState` selection — one edge is the asserted *CheckState, the other is
// NewCheckState(context.(*state.State)).
func isViewPhi(ph *ssa.Phi) bool {
	if !isStatePtr(ph.Type(), "CheckState") {
		return false
	}
	for _, e := range ph.Edges {
		switch x := core.Unwrap(e).(type) {
		case *ssa.Extract:
			ta, ok := x.Tuple.(*ssa.TypeAssert)
			if !ok || !isStatePtr(ta.AssertedType, "CheckState") {
				return false
			}
		case *ssa.Call:
			if core.CalleeName(core.NormCall(&x.Call)) != core.PkgState+".NewCheckState" {
				return false
			}
			ta, ok := core.Unwrap(core.NormCall(&x.Call).Args[0]).(*ssa.TypeAssert)
			if !ok || !isStatePtr(ta.AssertedType, "State") {
				return false
			}
		default:
			return false
		}
	}
	return true
}

// isModeBool: a short-circuit boolean built from the mode flag (`isCheck && …`, `notSaveTags ||
// isCheck`): it is itself a mode condition and is handled as such where it is branched on.
func isModeBool(ph *ssa.Phi, isMode func(ssa.Value) bool) bool {
	b, ok := ph.Type().Underlying().(*types.Basic)
	return ok && b.Kind() == types.Bool
}

// feedsCondition: the value (transitively through phis/binops/field reads) reaches an If.
func feedsCondition(v ssa.Value) bool {
	seen := map[ssa.Value]bool{}
	var walk func(v ssa.Value) bool
	walk = func(v ssa.Value) bool {
		if seen[v] || v.Referrers() == nil {
			return false
		}
		seen[v] = true
		for _, r := range *v.Referrers() {
			switch x := r.(type) {
			case *ssa.If:
				return true
			case *ssa.Store:
				// the value becomes the response code
				if fa, ok := x.Addr.(*ssa.FieldAddr); ok && fieldNameOf(fa) == "Code" && x.Val == v {
					return true
				}
			case ssa.Value:
				if _, isCall := x.(*ssa.Call); isCall {
					continue
				}
				if walk(x) {
					return true
				}
			}
		}
		return false
	}
	return walk(v)
}

// failureRegion: the blocks of RunTx that execute only when the dispatched Run's response code
// is non-zero.
func failureRegion(fn *ssa.Function, runSite *core.Site) map[*ssa.BasicBlock]bool {
	out := map[*ssa.BasicBlock]bool{}
	if runSite == nil {
		return out
	}
	resp := runSite.Value()
	for _, b := range fn.Blocks {
		iff := core.IfOf(b)
		if iff == nil || !runSite.Block().Dominates(b) {
			continue
		}
		bin, ok := iff.Cond.(*ssa.BinOp)
		if !ok || (bin.Op != token.NEQ && bin.Op != token.EQL) {
			continue
		}
		if k, ok := core.ConstInt(bin.Y); !ok || k != 0 || !isCodeOf(bin.X, resp) {
			continue
		}
		failSucc, okSucc := b.Succs[0], b.Succs[1]
		if bin.Op == token.EQL {
			failSucc, okSucc = okSucc, failSucc
		}
		avoid := map[*ssa.BasicBlock]bool{b: true}
		fromFail := core.ReachFrom(failSucc, avoid)
		fromOK := core.ReachFrom(okSucc, avoid)
		for blk := range fromFail {
			if !fromOK[blk] {
				out[blk] = true
			}
		}
	}
	return out
}

// isRunResponse: the return hands back the response cell the dispatched Run's result was stored in.
func isRunResponse(r *ssa.Return, runSite *core.Site) bool {
	if runSite == nil || len(r.Results) != 1 {
		return false
	}
	al, ok := loadOfAlloc(r.Results[0])
	if !ok {
		return core.Unwrap(r.Results[0]) == runSite.Value()
	}
	n, good := 0, false
	for _, ref := range *al.Referrers() {
		if st, ok := ref.(*ssa.Store); ok && st.Addr == al {
			n++
			if core.Unwrap(st.Val) == runSite.Value() {
				good = true
			}
		}
	}
	return good && n == 1
}

// gasPriceFloor: the return is dominated by the true edge of `tx.GasPrice < minGasPrice` (a
// parameter), the CheckTx-only rule the property excludes.
func gasPriceFloor(r *ssa.Return, fn *ssa.Function) bool {
	for _, g := range core.GatesBefore(r) {
		bin, ok := g.If.Cond.(*ssa.BinOp)
		if !ok || !g.PassTrue {
			continue
		}
		x, y, op := bin.X, bin.Y, bin.Op
		if op == token.GTR {
			x, y, op = y, x, token.LSS
		}
		if op != token.LSS {
			continue
		}
		if p, ok := core.Unwrap(y).(*ssa.Parameter); ok && strings.HasSuffix(core.Path(x), ".GasPrice") && strings.Contains(strings.ToLower(p.Name()), "gasprice") {
			return true
		}
	}
	return false
}

// mempoolRule: the return is dominated by the `has` result of (*sync.Map).LoadOrStore on the
// mempool parameter.
func mempoolRule(r *ssa.Return, fn *ssa.Function) bool {
	for _, g := range core.GatesBefore(r) {
		if !g.PassTrue {
			continue
		}
		ex, ok := core.Unwrap(g.If.Cond).(*ssa.Extract)
		if !ok || ex.Index != 1 {
			continue
		}
		call, ok := ex.Tuple.(*ssa.Call)
		if !ok || core.CalleeName(core.NormCall(&call.Call)) != "(*sync.Map).LoadOrStore" {
			continue
		}
		if _, isParam := core.Unwrap(core.NormCall(&call.Call).Args[0]).(*ssa.Parameter); isParam {
			return true
		}
	}
	return false
}

// ---------------------------------------------------------------- postrun (shared with C03)

// checkPostRun: every return of RunTx reachable after the dispatch either hands back the
// dispatched Run's own response, lies in the failure region (already rejected), or is one of the
// CheckTx-only rules. Anything else can turn an executed transaction into a rejection.
func checkPostRun(c *core.Ctx, rule string, fn *ssa.Function) {
	runSite := findDispatch(fn)
	if runSite == nil {
		c.Unk(rule, "RunTx/dispatch", fn.Pos(), "tx.decodedData.Run call not found")
		return
	}
	failRegion := failureRegion(fn, runSite)
	if len(failRegion) == 0 {
		c.Unk(rule, "RunTx/failure-region", fn.Pos(), "the `response.Code != 0` region was not recognised")
		return
	}
	after := core.ReachFrom(runSite.Block(), nil)
	n, final := 0, 0
	for _, r := range core.Returns(fn) {
		if !after[r.Block()] {
			continue
		}
		if r.Block() == runSite.Block() && core.InstrIndex(r) < core.InstrIndex(runSite.Instr) {
			continue
		}
		n++
		cr := classifyReturn(r)
		switch {
		case isRunResponse(r, runSite):
			final++
			c.OK(rule, "RunTx/return-run-response", r.Pos(), "returns the dispatched Run's response (code untouched: C06.modefree checks stores to it)")
		case failRegion[r.Block()]:
			c.OK(rule, "RunTx/failure-region-return/code="+cr.Code, r.Pos(), "inside the response.Code != 0 region: the transaction is already rejected")
		case mempoolRule(r, fn):
			c.OK(rule, "RunTx/mempool-rule", r.Pos(), "CheckTx-only one-tx-per-sender rule (excluded by the property; never taken in deliver mode: gated by isCheck)")
		default:
			c.Bad(rule, "RunTx/accepted-then-rejected/code="+cr.Code, r.Pos(), "after the transaction's Run has accepted (and, in deliver mode, been applied) RunTx can still return a different, rejecting response: DeliverTx reports a rejection with the state changed, and CheckTx (which skips this code) accepts")
		}
	}
	// no store to the run response's Code anywhere after the dispatch
	for blk := range after {
		for _, in := range blk.Instrs {
			if st, ok := in.(*ssa.Store); ok {
				if fa, ok := st.Addr.(*ssa.FieldAddr); ok && fieldNameOf(fa) == "Code" {
					if al, ok := fa.X.(*ssa.Alloc); ok {
						for _, ref := range *al.Referrers() {
							if s2, ok := ref.(*ssa.Store); ok && s2.Addr == al && core.Unwrap(s2.Val) == runSite.Value() {
								c.Bad(rule, "RunTx/code-overwritten", st.Pos(), "the dispatched Run's response code is overwritten after the dispatch")
							}
						}
					}
				}
			}
		}
	}
	c.Check(final >= 1, rule, "RunTx/final", fn.Pos(), "the Run's response is what RunTx returns", "no return hands back the dispatched Run's response")
	c.Floor(rule, n, 8, "returns of RunTx after the dispatch")
}
