package rules

import (
	"go/token"
	"go/types"
	"strings"

	"golang.org/x/tools/go/ssa"

	"verif/internal/core"
)

func init() {
	register(&RuleSet{
		Meta: core.PropertyMeta{
			ID: "C21",
			Explanation: "Decides the gating and pairing skeleton of check redemption in the live RedeemCheck handler: every deliver effect is dominated by (chain) check.ChainID == CurrentChainID, (due) `check.DueBlock < currentBlock ⇒ reject`, (once) `Checks().IsCheckUsed(check) ⇒ reject`, (gascoin) tx.GasCoin == check.GasCoin, (gasprice) tx.GasPrice == 1, (lock) bytes.Equal(check.LockPubKey(), Ecrecover(keccak(rlp(tx.Sender())), data.Proof)), all on the check decoded from data.RawCheck; " +
				"(use) Checks.UseCheck(check) is executed on every accepted deliver path, and UseCheck/IsCheckUsed key the same set by check.Hash() (marker rule); (transfer) the coin/value debited from the issuer (check.Sender()) equals what is credited to tx.Sender(), the fee is debited from the issuer in the check's gas coin; (roundtrip) used checks are exported and imported. " +
				"NOT decided: signature/keccak soundness, RLP canonicity of the check (C23), the arithmetic of balances.",
			Assumptions: stdAssumptions,
			Rules:       []string{"C21.gates", "C21.use", "C21.marker", "C21.transfer"},
		},
		Run: runC21,
	})
}

const checkPath = "fn.DecodeFromBytes(data.RawCheck)#0"

func runC21(c *core.Ctx) {
	var m *RunModel
	for _, x := range LiveModels(c, "C21.gates") {
		if x.H.ConstName == "TypeRedeemCheck" {
			m = x
		}
	}
	if m == nil {
		c.Bad("C21.gates", "RedeemCheck/live", token.NoPos, "no live handler for TypeRedeemCheck")
		return
	}
	name := m.H.TypeName
	// the decoded check must come from check.DecodeFromBytes(data.RawCheck)
	var use *MutSite
	for _, mu := range m.Mutators {
		if mu.Module == "Checks" && mu.Method == "UseCheck" {
			use = mu
		}
	}
	if use == nil {
		c.Bad("C21.use", name+"/UseCheck", m.Fn.Pos(), "the redeemed check is never marked as used")
		return
	}
	c.Check(core.Path(use.Site.Arg(0)) == checkPath, "C21.use", name+"/UseCheck-arg", use.Site.Pos(), "UseCheck marks the check decoded from data.RawCheck", "UseCheck marks something other than the decoded check: "+core.Path(use.Site.Arg(0)))
	// must-pass: every OK return reachable from the deliver entry passes UseCheck
	for _, a := range m.Asserts {
		if a.If == nil || !a.Region[use.Site.Block()] {
			continue
		}
		reach := core.ReachFrom(a.If.Block().Succs[0], map[*ssa.BasicBlock]bool{use.Site.Block(): true})
		leak := false
		for _, r := range m.Returns {
			if r.Class == "ok" && reach[r.R.Block()] {
				leak = true
			}
		}
		c.Check(!leak, "C21.use", name+"/UseCheck-on-every-accept", use.Site.Pos(), "every accepted deliver path marks the check as used", "an accepted deliver path skips UseCheck: the check could be redeemed again")
	}

	// gates: evaluate for every value-moving effect
	type gate struct {
		key  string
		desc string
		ok   func(f core.Fact) bool
	}
	eqFalseNE := func(f core.Fact, a, b string) bool {
		bin, ok := f.Cond.(*ssa.BinOp)
		if !ok {
			return false
		}
		px, py := f.Path(bin.X), f.Path(bin.Y)
		match := (px == a && strings.HasSuffix(py, b)) || (py == a && strings.HasSuffix(px, b))
		if !match {
			return false
		}
		return (bin.Op == token.NEQ && !f.Truth) || (bin.Op == token.EQL && f.Truth)
	}
	gates := []gate{
		{"chain", "check.ChainID == types.CurrentChainID", func(f core.Fact) bool {
			return eqFalseNE(f, checkPath+".ChainID", "CurrentChainID")
		}},
		{"due", "`check.DueBlock < currentBlock ⇒ reject`", func(f core.Fact) bool {
			bin, ok := f.Cond.(*ssa.BinOp)
			if !ok {
				return false
			}
			px, py := f.Path(bin.X), f.Path(bin.Y)
			if px == checkPath+".DueBlock" && py == "currentBlock" {
				return (bin.Op == token.LSS && !f.Truth) || (bin.Op == token.GEQ && f.Truth)
			}
			if py == checkPath+".DueBlock" && px == "currentBlock" {
				return (bin.Op == token.GTR && !f.Truth) || (bin.Op == token.LEQ && f.Truth)
			}
			return false
		}},
		{"once", "`Checks().IsCheckUsed(check) ⇒ reject`", func(f core.Fact) bool {
			cf, ok := f.AsCall()
			return ok && cf.MethodName() == "IsCheckUsed" && cf.Op == token.ILLEGAL && !f.Truth && cf.ArgPath(0) == checkPath
		}},
		{"gascoin", "tx.GasCoin == check.GasCoin", func(f core.Fact) bool {
			return eqFalseNE(f, "tx.GasCoin", checkPath+".GasCoin")
		}},
		{"gasprice", "tx.GasPrice == 1", func(f core.Fact) bool {
			bin, ok := f.Cond.(*ssa.BinOp)
			if !ok {
				return false
			}
			k, isK := core.ConstInt(bin.Y)
			return isK && k == 1 && f.Path(bin.X) == "tx.GasPrice" && ((bin.Op == token.NEQ && !f.Truth) || (bin.Op == token.EQL && f.Truth))
		}},
		{"lock", "bytes.Equal(check.LockPubKey(), Ecrecover(keccak(rlp(tx.Sender())), data.Proof))", func(f core.Fact) bool {
			cf, ok := f.AsCall()
			if !ok || cf.Name != "bytes.Equal" || !f.Truth || cf.Op != token.ILLEGAL {
				return false
			}
			a0, a1 := cf.ArgPath(0), cf.ArgPath(1)
			if strings.Contains(a1, "LockPubKey") {
				a0, a1 = a1, a0
			}
			if a0 != checkPath+".LockPubKey()#0" {
				return false
			}
			if !strings.HasPrefix(a1, "fn.Ecrecover(") || !strings.Contains(a1, "data.Proof") {
				return false
			}
			// the recovered message must be the keccak of rlp([sender]) with sender = tx.Sender()
			return lockHashBindsSender(m, f, cf)
		}},
	}
	var effects []*MutSite
	for _, mu := range m.Mutators {
		switch mu.Module + "." + mu.Method {
		case "Checks.UseCheck", "Accounts.SubBalance", "Accounts.AddBalance":
			effects = append(effects, mu)
		}
	}
	for _, g := range gates {
		all := len(effects) > 0
		var pos token.Pos
		for _, e := range effects {
			pos = e.Site.Pos()
			found := false
			for _, f := range c.FactsAt(e.Site.Instr, 3) {
				if g.ok(f) {
					found = true
				}
			}
			if !found {
				all = false
				break
			}
		}
		c.Check(all, "C21.gates", name+"/"+g.key, pos, "every value-moving effect is dominated by "+g.desc, "a redemption effect is reachable without the gate "+g.desc)
	}
	c.Floor("C21.gates", len(effects), 4, "value-moving effects of RedeemCheck")

	// ---- transfer symmetry
	var subs, adds []*core.Site
	for _, mu := range m.Mutators {
		if mu.Module == "Accounts" && mu.Method == "SubBalance" {
			subs = append(subs, mu.Site)
		}
		if mu.Module == "Accounts" && mu.Method == "AddBalance" && !isOwnerCredit(mu.Site) {
			adds = append(adds, mu.Site)
		}
	}
	issuer := checkPath + ".Sender()#0"
	var valueSub, feeSub *core.Site
	for _, s := range subs {
		if core.Path(s.Arg(1)) == checkPath+".Coin" && core.Path(s.Arg(2)) == checkPath+".Value" {
			valueSub = s
		} else if core.Path(s.Arg(1)) == checkPath+".GasCoin" {
			feeSub = s
		}
	}
	c.Check(valueSub != nil && core.Path(valueSub.Arg(0)) == issuer, "C21.transfer", name+"/debit-issuer", posOrZero(valueSub), "check.Value of check.Coin is debited from check.Sender()", "the redeemed value is not debited as (check.Sender(), check.Coin, check.Value)")
	c.Check(feeSub != nil && core.Path(feeSub.Arg(0)) == issuer, "C21.transfer", name+"/fee-from-issuer", posOrZero(feeSub), "the fee is debited from check.Sender() in check.GasCoin", "the fee is not debited from the issuer in the check's gas coin")
	okAdd := len(adds) == 1 && m.isTxSender(adds[0].Arg(0)) && core.Path(adds[0].Arg(1)) == checkPath+".Coin" && core.Path(adds[0].Arg(2)) == checkPath+".Value"
	var ap token.Pos
	if len(adds) > 0 {
		ap = adds[0].Pos()
	}
	c.Check(okAdd, "C21.transfer", name+"/credit-redeemer", ap, "exactly check.Value of check.Coin is credited to tx.Sender()", "the credit is not (tx.Sender(), check.Coin, check.Value) exactly once")
	c.Check(len(subs) == 2, "C21.transfer", name+"/debits", m.Fn.Pos(), "two debits: value and fee", "unexpected number of debits in RedeemCheck")

	// ---- marker: UseCheck and IsCheckUsed key the same set by check.Hash()
	isUsed := c.MustFn("C21.marker", "(*coreV2/state/checks.Checks).IsCheckUsed")
	useHash := c.MustFn("C21.marker", "(*coreV2/state/checks.Checks).UseCheckHash")
	useCheck := c.MustFn("C21.marker", "(*coreV2/state/checks.Checks).UseCheck")
	if isUsed != nil && useHash != nil && useCheck != nil {
		reads, writes := false, false
		for _, b := range isUsed.Blocks {
			for _, in := range b.Instrs {
				if lk, ok := in.(*ssa.Lookup); ok && strings.HasSuffix(core.Path(lk.X), ".usedChecks") && core.Path(lk.Index) == "check.Hash()" {
					reads = true
				}
			}
		}
		for _, b := range useHash.Blocks {
			for _, in := range b.Instrs {
				if mu, ok := in.(*ssa.MapUpdate); ok && strings.HasSuffix(core.Path(mu.Map), ".usedChecks") && core.Path(mu.Key) == "hash" {
					writes = true
				}
			}
		}
		fw := false
		for _, s := range core.Sites(useCheck) {
			if s.Callee == "(*coreV2/state/checks.Checks).UseCheckHash" && core.Path(s.Arg(0)) == "check.Hash()" {
				fw = true
			}
		}
		// the persisted side: IsCheckUsed also reads the tree under the hash; Commit writes it
		c.Check(reads && writes && fw, "C21.marker", "Checks/usedChecks", isUsed.Pos(), "IsCheckUsed looks up usedChecks[check.Hash()], UseCheck inserts usedChecks[check.Hash()]", "IsCheckUsed and UseCheck no longer key the same set by check.Hash()")
		commit := c.Fn("(*coreV2/state/checks.Checks).Commit")
		pers := false
		if commit != nil {
			for _, s := range core.Sites(commit) {
				if strings.HasSuffix(s.Callee, "iavl.MutableTree).Set") {
					pers = true
				}
			}
		}
		treeRead := false
		for _, s := range core.Sites(isUsed) {
			if strings.HasSuffix(s.Callee, "iavl.ImmutableTree).Get") && strings.Contains(core.Path(s.Arg(0)), "check.Hash()") {
				treeRead = true
			}
		}
		// every in-memory field the once-only decision reads is maintained when the tree changes:
		// the decision combines "pending in this block" with "in the committed tree"; a field that
		// Commit / SetImmutableTree never writes keeps answers computed from an older tree
		if ct := c.Named(core.PkgState+"/checks", "Checks"); ct != nil {
			st := ct.Underlying().(*types.Struct)
			for i := 0; i < st.NumFields(); i++ {
				f := st.Field(i)
				ts := f.Type().String()
				if strings.HasPrefix(ts, "sync.") || strings.HasPrefix(ts, "sync/atomic.") {
					continue
				}
				readByGuard := false
				for _, r := range c.FieldRefs(ct, f.Name()) {
					if r.Fn == isUsed {
						readByGuard = true
					}
				}
				if !readByGuard {
					continue
				}
				maintained := false
				for _, a := range mapFieldAccesses(c, ct, f.Name()) {
					if a.Write && (a.Fn.Name() == "Commit" || a.Fn.Name() == "SetImmutableTree") {
						maintained = true
					}
				}
				for _, w := range c.FieldWrites(ct, f.Name()) {
					if w.Fn.Name() == "Commit" || w.Fn.Name() == "SetImmutableTree" {
						maintained = true
					}
				}
				c.Check(maintained, "C21.marker", "Checks/guard-state/"+f.Name(), isUsed.Pos(), "field "+f.Name()+" read by IsCheckUsed is maintained by Commit",
					"IsCheckUsed bases the once-only decision on field "+f.Name()+", which neither Commit nor SetImmutableTree ever writes: it can keep an answer derived from a previous tree (a cached `not used` survives the commit that records the redemption)")
			}
		}
		c.Check(pers && treeRead, "C21.marker", "Checks/persisted", isUsed.Pos(), "used hashes are committed to the tree and IsCheckUsed falls back to the tree under the same hash", "used checks are not persisted or not read back under the check's hash")
	}
}

func posOrZero(s *core.Site) token.Pos {
	if s == nil {
		return token.NoPos
	}
	return s.Pos()
}

// lockHashBindsSender: the message passed to Ecrecover is the buffer filled by hw.Sum(...) where hw
// received rlp.Encode(hw, [sender]) with sender = tx.Sender().
func lockHashBindsSender(m *RunModel, f core.Fact, cf core.CallFact) bool {
	// find the Ecrecover call among the bytes.Equal args
	var ecr *ssa.Call
	for _, a := range core.NormCall(&cf.Call.Call).Args {
		for _, o := range core.Origins(a) {
			if ex, ok := o.(*ssa.Extract); ok {
				if call, ok := ex.Tuple.(*ssa.Call); ok && strings.HasSuffix(core.CalleeName(core.NormCall(&call.Call)), "crypto.Ecrecover") {
					ecr = call
				}
			}
		}
	}
	if ecr == nil {
		return false
	}
	// message = senderAddressHash[:]; senderAddressHash is filled by (hash.Hash).Sum(senderAddressHash[:0])
	fn := ecr.Parent()
	msgCell := sliceBase(core.NormCall(&ecr.Call).Args[0])
	if msgCell == nil {
		return false
	}
	var hw ssa.Value
	for _, s := range core.Sites(fn) {
		if s.Common.IsInvoke() && s.Common.Method.Name() == "Sum" && len(s.Common.Args) == 1 && sliceBase(s.Common.Args[0]) == msgCell {
			hw = s.Common.Value
		}
	}
	if hw == nil {
		return false
	}
	// rlp.Encode(hw, []interface{}{sender})
	for _, s := range core.Sites(fn) {
		if !strings.HasSuffix(s.Callee, "rlp.Encode") || core.Unwrap(s.Arg(0)) != core.Unwrap(hw) {
			continue
		}
		// the encoded value's dependence closure must contain tx.Sender() and nothing else from data
		// (inside a helper: the parameter the caller passes tx.Sender() for)
		dep := core.DependsOn(s.Arg(1), func(v ssa.Value) bool {
			if cv := f.CallerValue(v); cv != nil && m.isTxSender(cv) {
				return true
			}
			return m.isTxSender(v)
		})
		return dep
	}
	return false
}

// sliceBase: v = cell[:]/cell[:0] → the cell (Alloc).
func sliceBase(v ssa.Value) ssa.Value {
	sl, ok := core.Unwrap(v).(*ssa.Slice)
	if !ok {
		return nil
	}
	return core.Unwrap(sl.X)
}
