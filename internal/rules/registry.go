// Package rules holds one file per property; each registers the rule set that decides it.
package rules

import (
	"sort"

	"verif/internal/core"
)

// RuleSet decides one property.
type RuleSet struct {
	Meta core.PropertyMeta
	Run  func(c *core.Ctx)
}

var registry = map[string]*RuleSet{}

func register(rs *RuleSet) { registry[rs.Meta.ID] = rs }

// Get returns the rule set of a property.
func Get(id string) *RuleSet { return registry[id] }

// IDs lists the claimed properties.
func IDs() []string {
	var out []string
	for k := range registry {
		out = append(out, k)
	}
	sort.Strings(out)
	return out
}

var stdAssumptions = []string{
	"go/types and go/ssa (x/tools v0.29.0) lower the source faithfully",
	"interface calls are resolved by CHA (quick) / VTA (thorough) restricted to repository packages",
	"state-module methods do what their names say (the arithmetic inside mutators is out of scope)",
}
