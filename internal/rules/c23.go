package rules

import (
	"fmt"
	"go/token"
	"go/types"
	"reflect"
	"sort"
	"strings"

	"golang.org/x/tools/go/ssa"

	"verif/internal/core"
)

func init() {
	register(&RuleSet{
		Meta: core.PropertyMeta{
			ID: "C23",
			Explanation: "The RLP decoder's own canonical-size checks, curve arithmetic and byte-for-byte round-trip equality are NOT decided. Decided: " +
				"(strict) every decoding of transaction, transaction-data, signature and check bytes in the transaction and check packages is a call of rlp.DecodeBytes (which rejects trailing input) whose error is returned — never the stream decoder; no type reachable through the fields of Transaction, Signature, SignatureMulti, Check or a live data type carries a lenient rlp struct tag (`optional`, `nil`, `nilList`, `nilString`, `-`), and every `tail` field belongs to a live handler whose basicCheck rejects a non-empty tail (so the fixed field list is the only accepted encoding); " +
				"(sig) every function that turns (hash, R, S, V) into an address — RecoverPlain in the transaction package, recoverPlain in the check package — reaches crypto.Ecrecover only behind `V.BitLen() > 8 ⇒ reject` and `ValidateSignatureValues(byte(V−27), R, S, true)` with the constant `true` (low-S rule) on the very R, S it then serialises, and ValidateSignatureValues itself rejects s > halfN under that flag and v ∉ {0,1}; Transaction.Sender for single signatures returns exactly RecoverPlain(tx.Hash(), sig.R, sig.S, sig.V) and Check.Sender recoverPlain(check.Hash(), R, S, V); " +
				"(who) no other function in those packages derives an address from a signature.",
			Assumptions: stdAssumptions,
			Rules:       []string{"C23.decode", "C23.tags", "C23.sig", "C23.who", "C23.canon"},
		},
		Run: runC23,
	})
}

const pkgCheck = "coreV2/check"

func runC23(c *core.Ctx) {
	defer checkCanonicalIntegers(c, "C23.canon")
	// ---- decode
	n := 0
	for _, pk := range []string{core.PkgTx, pkgCheck} {
		for _, fn := range c.SrcFuncs(pk) {
			for _, s := range core.Sites(fn) {
				if !strings.HasPrefix(s.Callee, "rlp.") && !strings.HasPrefix(s.Callee, "(*rlp.") {
					continue
				}
				short := s.Callee
				if !(strings.Contains(short, "Decode") || strings.Contains(short, "NewStream") || strings.Contains(short, "NewListStream")) {
					continue
				}
				n++
				key := core.ShortFn(fn) + "/" + short
				if short != "rlp.DecodeBytes" {
					c.Bad("C23.decode", key, s.Pos(), "transaction/check bytes are decoded with "+short+" instead of rlp.DecodeBytes: trailing bytes after the value would be accepted, giving one transaction several valid encodings")
					continue
				}
				// the error must lead to a return on the non-nil edge
				call, _ := s.Instr.(*ssa.Call)
				good := false
				if call != nil {
					forward(call, func(u ssa.Instruction, _ ssa.Value) {
						if bin, ok := u.(*ssa.BinOp); ok && bin.Op == token.NEQ && (isNil(bin.X) || isNil(bin.Y)) {
							for _, rr := range *bin.Referrers() {
								if iff, ok := rr.(*ssa.If); ok && blockReturnsForward(iff.Block().Succs[0]) {
									good = true
								}
							}
						}
					})
				}
				c.Check(good, "C23.decode", key, s.Pos(), "rlp.DecodeBytes with its error returned", "the error of rlp.DecodeBytes is not returned: malformed input would be accepted")
			}
		}
	}
	c.Floor("C23.decode", n, 5, "rlp decode sites in the transaction and check packages")

	// ---- tags
	checkRlpTags(c)

	// ---- sig
	nrec := 0
	for _, pk := range []string{core.PkgTx, pkgCheck} {
		for _, fn := range c.SrcFuncs(pk) {
			for _, s := range core.Sites(fn) {
				if s.Callee != "crypto.Ecrecover" && s.Callee != "crypto.SigToPub" {
					continue
				}
				// does the result become an address result of fn?
				derives := false
				if fn.Signature.Results().Len() > 0 && strings.HasSuffix(fn.Signature.Results().At(0).Type().String(), "types.Address") {
					derives = true
				}
				if !derives {
					c.OK("C23.who", core.ShortFn(fn)+"/"+s.Callee, s.Pos(), "recovers a public key but returns no address (lock-proof verification, not a sender)")
					continue
				}
				nrec++
				checkRecover(c, fn, s)
			}
		}
	}
	c.Floor("C23.sig", nrec, 2, "functions deriving an address from a signature")
	checkValidateSig(c)
	checkSenders(c)
}

// ---------------------------------------------------------------- struct tags

func checkRlpTags(c *core.Ctx) {
	roots := map[string]*types.Named{}
	add := func(pk, name string) {
		if t := c.Named(pk, name); t != nil {
			roots[pk+"."+name] = t
		} else {
			c.Unk("C23.tags", "root/"+pk+"."+name, token.NoPos, "type not found")
		}
	}
	add(core.PkgTx, "Transaction")
	add(core.PkgTx, "Signature")
	add(core.PkgTx, "SignatureMulti")
	add(pkgCheck, "Check")
	hs, err := c.Live()
	if err != nil {
		c.Unk("C23.tags", "live-set", token.NoPos, err.Error())
		return
	}
	owner := map[*types.Named]*core.Handler{}
	for _, h := range hs {
		roots[core.PkgTx+"."+h.TypeName] = h.Type
		owner[h.Type] = h
	}
	var names []string
	for n := range roots {
		names = append(names, n)
	}
	sort.Strings(names)
	seen := map[*types.Named]bool{}
	nFields := 0
	var walk func(root *types.Named, t types.Type, path string)
	walk = func(root *types.Named, t types.Type, path string) {
		switch x := t.(type) {
		case *types.Pointer:
			walk(root, x.Elem(), path)
		case *types.Slice:
			walk(root, x.Elem(), path)
		case *types.Array:
			walk(root, x.Elem(), path)
		case *types.Named:
			if x.Obj().Pkg() == nil || !strings.HasPrefix(x.Obj().Pkg().Path(), core.ModPath) {
				return
			}
			st, ok := x.Underlying().(*types.Struct)
			if !ok || seen[x] {
				return
			}
			seen[x] = true
			for i := 0; i < st.NumFields(); i++ {
				f := st.Field(i)
				tag := reflect.StructTag(st.Tag(i)).Get("rlp")
				nFields++
				key := x.Obj().Name() + "." + f.Name()
				switch {
				case tag == "":
					// exported fields are encoded in order; unexported are skipped by the codec
				case tag == "tail":
					h := owner[x]
					if h == nil || h.Basic == nil {
						c.Bad("C23.tags", key, f.Pos(), "`rlp:\"tail\"` field on a type that is not a live data type with a basicCheck: any number of extra list elements would decode")
						break
					}
					c.Check(tailRejected(h.Basic, f.Name()), "C23.tags", key, f.Pos(), "tail field whose non-empty value is rejected by "+h.TypeName+".basicCheck", "the `tail` field "+key+" is not rejected when non-empty: a transaction with extra list elements would be accepted as a second encoding")
				default:
					c.Bad("C23.tags", key, f.Pos(), "lenient rlp tag `"+tag+"` on a type decoded from transaction bytes: the same value has more than one accepted encoding")
				}
				if f.Exported() {
					walk(root, f.Type(), path+"."+f.Name())
				}
			}
		}
	}
	for _, n := range names {
		walk(roots[n], roots[n], n)
	}
	c.OK("C23.tags", "summary", token.NoPos, fmt.Sprintf("%d struct types, %d fields reachable from Transaction, Signature(Multi), Check and the %d live data types examined", len(seen), nFields, len(hs)))
	c.Floor("C23.tags", nFields, 150, "fields of decoded types")
}

// tailRejected: basicCheck contains `len(data.<field>) != 0 ⇒ return <non-nil response>`.
func tailRejected(fn *ssa.Function, field string) bool {
	for _, b := range fn.Blocks {
		iff := core.IfOf(b)
		if iff == nil {
			continue
		}
		bin, ok := iff.Cond.(*ssa.BinOp)
		if !ok {
			continue
		}
		call, ok := core.Unwrap(bin.X).(*ssa.Call)
		if !ok {
			continue
		}
		if bi, ok := call.Call.Value.(*ssa.Builtin); !ok || bi.Name() != "len" {
			continue
		}
		if !strings.HasSuffix(core.Path(core.NormCall(&call.Call).Args[0]), "."+field) {
			continue
		}
		k, okk := core.ConstInt(bin.Y)
		if !okk {
			continue
		}
		var rej *ssa.BasicBlock
		switch {
		case bin.Op == token.NEQ && k == 0, bin.Op == token.GTR && k == 0:
			rej = b.Succs[0]
		case bin.Op == token.EQL && k == 0:
			rej = b.Succs[1]
		}
		if rej != nil && blockRejects(rej) {
			return true
		}
	}
	return false
}

// ---------------------------------------------------------------- signature recovery

func checkRecover(c *core.Ctx, fn *ssa.Function, rec *core.Site) {
	key := core.ShortFn(fn)
	if len(fn.Params) != 4 {
		c.Unk("C23.sig", key+"/shape", fn.Pos(), "recovery function does not take (hash, R, S, V)")
		return
	}
	R, S, V := fn.Params[1], fn.Params[2], fn.Params[3]
	facts := c.FactsAt(rec.Instr, 0)
	// V.BitLen() > 8 is false
	bitlen := false
	for _, f := range facts {
		if cf, ok := f.AsCall(); ok && cf.MethodName() == "BitLen" && core.Unwrap(core.NormCall(&cf.Call.Call).Args[0]) == V {
			if (cf.Op == token.GTR && cf.Const == 8 && !f.Truth) || (cf.Op == token.LEQ && cf.Const == 8 && f.Truth) || (cf.Op == token.LSS && cf.Const == 9 && f.Truth) {
				bitlen = true
			}
		}
	}
	c.Check(bitlen, "C23.sig", key+"/v-width", rec.Pos(), "recovery is behind V.BitLen() ≤ 8", "the recovery id is not bounded to one byte before it is truncated: different V values would map to the same recovery id")
	// ValidateSignatureValues(v, R, S, true) is true
	var val *ssa.Call
	for _, f := range facts {
		if cf, ok := f.AsCall(); ok && cf.Name == "crypto.ValidateSignatureValues" && cf.Op == token.ILLEGAL && f.Truth {
			val = cf.Call
		}
	}
	if val == nil {
		c.Bad("C23.sig", key+"/validated", rec.Pos(), "crypto.Ecrecover is reached without a successful crypto.ValidateSignatureValues: high-S and out-of-range signatures would be accepted (malleable encodings of one transaction)")
		return
	}
	args := core.NormCall(&val.Call).Args
	homestead, _ := core.Unwrap(args[3]).(*ssa.Const)
	c.Check(homestead != nil && homestead.Value != nil && homestead.Value.String() == "true", "C23.sig", key+"/low-s", val.Pos(), "ValidateSignatureValues is called with homestead = true (s ≤ N/2 enforced)", "ValidateSignatureValues is not called with the constant true: signatures with high S are accepted")
	c.Check(core.Unwrap(args[1]) == R && core.Unwrap(args[2]) == S, "C23.sig", key+"/same-rs", val.Pos(), "the validated R, S are the function's own R, S", "the values validated are not the R, S that are recovered from")
	// v = byte(V.Uint64() - 27)
	vOK := false
	if cv, ok := args[0].(*ssa.Convert); ok {
		if bin, ok := cv.X.(*ssa.BinOp); ok && bin.Op == token.SUB {
			if k, ok := core.ConstInt(bin.Y); ok && k == 27 {
				if call, ok := core.Unwrap(bin.X).(*ssa.Call); ok && core.CalleeName(core.NormCall(&call.Call)) == "(*math/big.Int).Uint64" && core.Unwrap(core.NormCall(&call.Call).Args[0]) == V {
					vOK = true
				}
			}
		}
	}
	c.Check(vOK, "C23.sig", key+"/v-27", val.Pos(), "the validated recovery id is byte(V − 27)", "the validated recovery id is not byte(V − 27)")
	// the recovered signature bytes come from R.Bytes(), S.Bytes() and the validated v
	sig := core.Unwrap(rec.Arg(1))
	var depIn func(sig ssa.Value, p ssa.Value, depth int) bool
	dep := func(p ssa.Value) bool { return depIn(sig, p, 0) }
	depIn = func(sig ssa.Value, p ssa.Value, depth int) bool {
		// built by a helper of the package (encodeSignature(R, S, V)): look at what it returns
		if call, ok := sig.(*ssa.Call); ok && depth < 2 {
			if h := call.Call.StaticCallee(); h != nil && h.Blocks != nil && h.Pkg == call.Parent().Pkg {
				for i, a := range call.Call.Args {
					if core.Unwrap(a) != p || i >= len(h.Params) {
						continue
					}
					for _, o := range core.ResultOrigins(h, 0) {
						if depIn(core.Unwrap(o), h.Params[i], depth+1) {
							return true
						}
					}
				}
			}
		}
		if sig.Referrers() == nil {
			return false
		}
		for _, r := range *sig.Referrers() {
			sl, ok := r.(*ssa.Slice)
			if !ok || sl.Referrers() == nil {
				continue
			}
			for _, rr := range *sl.Referrers() {
				call, ok := rr.(*ssa.Call)
				if !ok {
					continue
				}
				if bi, ok := call.Call.Value.(*ssa.Builtin); !ok || bi.Name() != "copy" || core.NormCall(&call.Call).Args[0] != ssa.Value(sl) {
					continue
				}
				for _, o := range core.Origins(core.NormCall(&call.Call).Args[1]) {
					if src, ok := o.(*ssa.Call); ok && core.CalleeName(core.NormCall(&src.Call)) == "(*math/big.Int).Bytes" && core.Unwrap(core.NormCall(&src.Call).Args[0]) == p {
						return true
					}
				}
			}
		}
		return false
	}
	c.Check(dep(R) && dep(S), "C23.sig", key+"/sig-bytes", rec.Pos(), "the signature handed to Ecrecover is built from R.Bytes() and S.Bytes()", "the signature handed to Ecrecover is not built from the validated R and S")
}

func checkValidateSig(c *core.Ctx) {
	fn := c.MustFn("C23.sig", "crypto.ValidateSignatureValues")
	if fn == nil {
		return
	}
	// a `return false` governed by  homestead && s.Cmp(halfN) > 0   and the final conjunct v == 0 || v == 1
	var s, v, hs *ssa.Parameter
	for _, p := range fn.Params {
		switch core.ParamName(p) {
		case "s":
			s = p
		case "v":
			v = p
		case "homestead":
			hs = p
		}
	}
	if s == nil || v == nil || hs == nil {
		c.Unk("C23.sig", "ValidateSignatureValues/params", fn.Pos(), "parameters v, s, homestead not found")
		return
	}
	lowS := false
	for _, b := range fn.Blocks {
		iff := core.IfOf(b)
		if iff == nil {
			continue
		}
		bin, ok := iff.Cond.(*ssa.BinOp)
		if !ok || bin.Op != token.GTR {
			continue
		}
		call, ok := core.Unwrap(bin.X).(*ssa.Call)
		if !ok || core.CalleeName(core.NormCall(&call.Call)) != "(*math/big.Int).Cmp" || core.Unwrap(core.NormCall(&call.Call).Args[0]) != s {
			continue
		}
		if g, ok := core.Unwrap(core.NormCall(&call.Call).Args[1]).(*ssa.UnOp); !ok || !strings.Contains(g.X.Name(), "halfN") {
			continue
		}
		if k, ok := core.ConstInt(bin.Y); !ok || k != 0 {
			continue
		}
		// true edge returns false; the block is reached only under homestead
		retFalse := false
		if t := b.Succs[0]; len(t.Instrs) > 0 {
			if r, ok := t.Instrs[len(t.Instrs)-1].(*ssa.Return); ok {
				if k, ok := r.Results[0].(*ssa.Const); ok && k.Value != nil && k.Value.String() == "false" {
					retFalse = true
				}
			}
		}
		under := false
		for _, g := range core.GatesBefore(iff) {
			if core.Unwrap(g.If.Cond) == hs && g.PassTrue {
				under = true
			}
		}
		if retFalse && under {
			lowS = true
		}
	}
	c.Check(lowS, "C23.sig", "ValidateSignatureValues/low-s", fn.Pos(), "homestead ∧ s > secp256k1halfN ⇒ false", "ValidateSignatureValues no longer rejects s > N/2 under the homestead flag")
	// v ∈ {0,1}: the accepting return depends on comparisons of v with 0 and 1 only
	vs := map[int64]bool{}
	for _, b := range fn.Blocks {
		for _, in := range b.Instrs {
			if bin, ok := in.(*ssa.BinOp); ok && bin.Op == token.EQL && core.Unwrap(bin.X) == v {
				if k, ok := core.ConstInt(bin.Y); ok {
					vs[k] = true
				}
			}
		}
	}
	c.Check(len(vs) == 2 && vs[0] && vs[1], "C23.sig", "ValidateSignatureValues/v", fn.Pos(), "recovery id accepted only when v == 0 || v == 1", fmt.Sprintf("ValidateSignatureValues compares v with %v (expected exactly {0, 1})", vs))
}

func checkSenders(c *core.Ctx) {
	// Transaction.Sender: the single-signature arm returns RecoverPlain(tx.Hash(), tx.sig.R, tx.sig.S, tx.sig.V)
	txT := c.Named(core.PkgTx, "Transaction")
	if txT != nil {
		if fn := c.Method(txT, "Sender"); fn != nil {
			n := 0
			for _, s := range core.Sites(fn) {
				if s.Callee == core.PkgTx+".RecoverPlain" {
					n++
					good := strings.HasSuffix(core.Path(s.Arg(0)), ".Hash()") && strings.HasSuffix(core.Path(s.Arg(1)), ".sig.R") && strings.HasSuffix(core.Path(s.Arg(2)), ".sig.S") && strings.HasSuffix(core.Path(s.Arg(3)), ".sig.V")
					c.Check(good, "C23.sig", "Transaction.Sender/recover-args", s.Pos(), "RecoverPlain(tx.Hash(), tx.sig.R, tx.sig.S, tx.sig.V)", "Transaction.Sender recovers from something other than the transaction's own hash and signature")
				}
			}
			c.Check(n == 1, "C23.sig", "Transaction.Sender/shape", fn.Pos(), "one recovery call", fmt.Sprintf("%d RecoverPlain calls in Transaction.Sender", n))
		} else {
			c.Unk("C23.sig", "Transaction.Sender", token.NoPos, "method not found")
		}
	}
	ckT := c.Named(pkgCheck, "Check")
	if ckT != nil {
		if fn := c.Method(ckT, "Sender"); fn != nil {
			n := 0
			for _, s := range core.Sites(fn) {
				if s.Callee == pkgCheck+".recoverPlain" {
					n++
					good := strings.HasSuffix(core.Path(s.Arg(0)), ".Hash()") && strings.HasSuffix(core.Path(s.Arg(1)), ".R") && strings.HasSuffix(core.Path(s.Arg(2)), ".S") && strings.HasSuffix(core.Path(s.Arg(3)), ".V")
					c.Check(good, "C23.sig", "Check.Sender/recover-args", s.Pos(), "recoverPlain(check.Hash(), check.R, check.S, check.V)", "Check.Sender recovers from something other than the check's own hash and signature")
				}
			}
			c.Check(n == 1, "C23.sig", "Check.Sender/shape", fn.Pos(), "one recovery call", fmt.Sprintf("%d recoverPlain calls in Check.Sender", n))
		} else {
			c.Unk("C23.sig", "Check.Sender", token.NoPos, "method not found")
		}
	}
}

// checkCanonicalIntegers — C23.canon. RLP admits one encoding per integer: no leading zero
// bytes. The decoder enforces it where a byte string becomes a big integer — before every
// (*big.Int).SetBytes in the rlp package the decoded bytes are tested `len(b) > 0 && b[0] == 0`
// and that case is rejected — and in Stream.uint for machine integers. Without the test the same
// transaction has many accepted byte forms (signature R/S with a zero prefix), i.e. many hashes.
func checkCanonicalIntegers(c *core.Ctx, rule string) {
	n := 0
	for _, fn := range c.SrcFuncs("rlp") {
		if fn.Blocks == nil {
			continue
		}
		k := 0
		for _, s := range core.Sites(fn) {
			if s.Callee != "(*math/big.Int).SetBytes" || len(s.Common.Args) != 2 {
				continue
			}
			n++
			k++
			b := s.Common.Args[1]
			guarded := false
			for _, g := range core.GatesBefore(s.Instr) {
				bin, ok := g.If.Cond.(*ssa.BinOp)
				if !ok || (bin.Op != token.EQL && bin.Op != token.NEQ) {
					continue
				}
				if kk, ok := core.ConstInt(bin.Y); !ok || kk != 0 {
					continue
				}
				// b[0]
				ld, ok := core.Unwrap(bin.X).(*ssa.UnOp)
				if !ok {
					continue
				}
				ia, ok := ld.X.(*ssa.IndexAddr)
				if !ok || core.Unwrap(ia.X) != core.Unwrap(b) {
					continue
				}
				if idx, ok := core.ConstInt(ia.Index); !ok || idx != 0 {
					continue
				}
				// the path to SetBytes is the one where b[0] != 0
				if (bin.Op == token.EQL && !g.PassTrue) || (bin.Op == token.NEQ && g.PassTrue) {
					guarded = true
				}
			}
			// an empty string (zero) has no first byte: `len(b) > 0 &&` makes the b[0] test
			// conditional, so the gate is only "passed false" on the non-empty side; accept the
			// short-circuit form: SetBytes reachable either with len(b) == 0 or with b[0] != 0
			if !guarded {
				guarded = leadingZeroRejected(s, b)
			}
			c.Check(guarded, rule, fmt.Sprintf("%s/SetBytes#%d", core.ShortFn(fn), k), s.Pos(), "bytes with a leading zero are rejected before they become an integer",
				"a byte string is turned into a big integer without rejecting a leading zero byte: non-canonical encodings of the same integer (and so of the same transaction) are accepted")
		}
	}
	c.Floor(rule, n, 1, "byte-string-to-integer conversions in the rlp decoder")
}

// leadingZeroRejected: some If in the function tests b[0] == 0 (possibly behind len(b) > 0), its
// "is zero" edge does not reach the SetBytes call, and it lies on the way to the call.
func leadingZeroRejected(s *core.Site, b ssa.Value) bool {
	fn := s.Fn
	for _, blk := range fn.Blocks {
		iff := core.IfOf(blk)
		if iff == nil {
			continue
		}
		bin, ok := iff.Cond.(*ssa.BinOp)
		if !ok || (bin.Op != token.EQL && bin.Op != token.NEQ) {
			continue
		}
		if kk, ok := core.ConstInt(bin.Y); !ok || kk != 0 {
			continue
		}
		ld, ok := core.Unwrap(bin.X).(*ssa.UnOp)
		if !ok {
			continue
		}
		ia, ok := ld.X.(*ssa.IndexAddr)
		if !ok || core.Unwrap(ia.X) != core.Unwrap(b) {
			continue
		}
		if idx, ok := core.ConstInt(ia.Index); !ok || idx != 0 {
			continue
		}
		zeroEdge := blk.Succs[0]
		if bin.Op == token.NEQ {
			zeroEdge = blk.Succs[1]
		}
		if zeroEdge == s.Block() || core.ReachFrom(zeroEdge, nil)[s.Block()] {
			continue // the zero case still reaches SetBytes
		}
		// the test must be unavoidable for non-empty strings: the only way around it is the
		// len(b) test that guards the index expression
		if len(blk.Preds) == 1 {
			if piff := core.IfOf(blk.Preds[0]); piff != nil && blk.Preds[0].Dominates(s.Block()) {
				return true
			}
		}
		if blk.Dominates(s.Block()) {
			return true
		}
	}
	return false
}
