package rules

import (
	"fmt"
	"go/token"
	"go/types"
	"sort"
	"strings"

	"golang.org/x/tools/go/ssa"

	"verif/internal/core"
)

var bigMutators = map[string]bool{"Add": true, "Sub": true, "Mul": true, "Div": true, "Set": true, "SetInt64": true, "SetUint64": true, "Neg": true, "Quo": true, "Rem": true, "Mod": true, "SetBytes": true, "SetString": true, "Exp": true, "Lsh": true, "Rsh": true, "Abs": true, "QuoRem": true, "DivMod": true, "Sqrt": true, "SetBit": true, "And": true, "Or": true, "Xor": true, "Not": true, "SetInt": true, "SetFloat64": true, "SetRat": true, "SetPrec": true, "SetMode": true, "SetFrac": true, "GobDecode": true, "UnmarshalJSON": true, "UnmarshalText": true, "Scan": true}

// C13.const — a package-level *big.Int / *big.Float is a constant of the protocol (swap.Bound,
// the maximal coin supply, the precision constants): the object it points to is never the
// receiver of an in-place math/big operation — neither where the variable is read, nor where an
// accessor hands the pointer out, nor in a function the pointer is passed to. One such write
// (`min := swap.MinimumLiquidity(); min.Mul(min, x)` in an error path) silently changes the
// constant for the rest of the process's life: the next pool locks another minimum, and nodes
// that did or did not execute that path disagree from then on.
func checkGlobalBigConstants(c *core.Ctx, rule string) {
	globals := map[*ssa.Global]bool{}
	for _, p := range c.Prog.AllPackages() {
		if p.Pkg == nil || !strings.HasPrefix(p.Pkg.Path(), core.ModPath) {
			continue
		}
		for _, m := range p.Members {
			g, ok := m.(*ssa.Global)
			if !ok {
				continue
			}
			if pt, ok := g.Type().(*types.Pointer); ok && isBigPtr(pt.Elem()) {
				globals[g] = true
			}
		}
	}
	// "holds a global": a load of the global, or the result of an accessor that returns one
	var fns []*ssa.Function
	for _, fn := range c.AllFns {
		if fn.Blocks != nil && fn.Synthetic == "" && c.InRepo(fn) && !strings.HasSuffix(fn.Name(), "init") {
			fns = append(fns, fn)
		}
	}
	sort.Slice(fns, func(i, j int) bool { return fns[i].String() < fns[j].String() })
	globalOf := func(v ssa.Value) *ssa.Global {
		if ld, ok := v.(*ssa.UnOp); ok && ld.Op == token.MUL {
			if g, ok := ld.X.(*ssa.Global); ok && globals[g] {
				return g
			}
		}
		return nil
	}
	accessor := map[*ssa.Function]*ssa.Global{}
	for round := 0; round < 2; round++ {
		for _, fn := range fns {
			if fn.Signature.Results().Len() != 1 || !isBigPtr(fn.Signature.Results().At(0).Type()) {
				continue
			}
			for _, o := range core.ResultOrigins(fn, 0) {
				if g := globalOf(o); g != nil {
					accessor[fn] = g
				}
				if call, ok := o.(*ssa.Call); ok {
					if g, ok := accessor[call.Call.StaticCallee()]; ok && call.Call.StaticCallee() != nil {
						accessor[fn] = g
					}
				}
			}
		}
	}
	holds := func(v ssa.Value) *ssa.Global {
		for _, o := range core.Origins(v) {
			if g := globalOf(o); g != nil {
				return g
			}
			if call, ok := o.(*ssa.Call); ok && call.Call.StaticCallee() != nil {
				if g, ok := accessor[call.Call.StaticCallee()]; ok {
					return g
				}
			}
		}
		return nil
	}
	// parameters a function writes through (in place), one level
	writesParam := func(h *ssa.Function, idx int) bool {
		if h == nil || h.Blocks == nil || idx >= len(h.Params) {
			return false
		}
		p := h.Params[idx]
		for _, s := range core.Sites(h) {
			sc := s.Common.StaticCallee()
			if sc == nil || sc.Pkg == nil || sc.Pkg.Pkg.Path() != "math/big" || sc.Signature.Recv() == nil || !bigMutators[sc.Name()] || len(s.Common.Args) == 0 {
				continue
			}
			for _, o := range core.Origins(s.Common.Args[0]) {
				if o == ssa.Value(p) {
					return true
				}
			}
		}
		return false
	}
	reads, bad := 0, 0
	for _, fn := range fns {
		k := 0
		for _, s := range core.Sites(fn) {
			sc := s.Common.StaticCallee()
			if sc == nil || len(s.Common.Args) == 0 {
				continue
			}
			if sc.Pkg != nil && sc.Pkg.Pkg.Path() == "math/big" && sc.Signature.Recv() != nil {
				g := holds(s.Common.Args[0])
				if g == nil {
					continue
				}
				reads++
				if bigMutators[sc.Name()] {
					bad++
					k++
					c.Bad(rule, fmt.Sprintf("%s/%s.%s#%d", core.ShortFn(fn), g.Name(), sc.Name(), k), s.Pos(),
						fmt.Sprintf("the object the package-level constant %s points to is the receiver of %s: the protocol constant changes for the rest of the process's life (and differs between nodes that did and did not run this path)", g.Name(), sc.Name()))
				}
				continue
			}
			if c.InRepo(sc) {
				for i, a := range s.Common.Args {
					if !isBigPtr(a.Type()) {
						continue
					}
					if g := holds(a); g != nil {
						reads++
						if writesParam(sc, i) {
							bad++
							k++
							c.Bad(rule, fmt.Sprintf("%s/%s→%s#%d", core.ShortFn(fn), g.Name(), sc.Name(), k), s.Pos(),
								fmt.Sprintf("the package-level constant %s is handed to %s, which computes in place on that argument: the protocol constant changes for the rest of the process's life", g.Name(), sc.Name()))
						}
					}
				}
			}
		}
	}
	if bad == 0 {
		c.OK(rule, "globals", token.NoPos, fmt.Sprintf("%d package-level big values, %d uses as an operand or argument, %d accessors: none is computed on in place", len(globals), reads, len(accessor)))
	}
	c.Floor(rule, len(globals), 3, "package-level *big.Int / *big.Float variables in the repository")
	c.Floor(rule, reads, 10, "uses of package-level big values")
}
