package rules

import (
	"fmt"
	"go/token"
	"strings"

	"golang.org/x/tools/go/ssa"

	"verif/internal/core"
)

func init() {
	register(&RuleSet{
		Meta: core.PropertyMeta{
			ID: "C04",
			Explanation: "Decides the replay-protection skeleton: (gate) in the live RunTx the dispatch tx.decodedData.Run is dominated by the pass edge of the chain-id test (tx.ChainID vs types.CurrentChainID) and of an exact nonce test `Accounts().GetNonce(tx.Sender()) + 1 == tx.Nonce` (recognised up to operand order and ==/!= polarity; any other relation is reported as undecided); " +
				"(bump) every accepted deliver path of every live Run stores tx.Nonce as the signer's nonce; (register) GetNonce/SetNonce read and write the Nonce field of the addressed account and that field has no other writer outside construction and decoding. " +
				"Together: accepted ⇒ nonce == stored+1 and stored' == nonce, so the same bytes or any stale nonce meet the gate next time. NOT decided: hash/address collisions, multisig address reuse.",
			Assumptions: stdAssumptions,
			Rules:       []string{"C04.chain", "C04.nonce", "C04.bump", "C04.register"},
		},
		Run: runC04,
	})
}

// findDispatch returns the tx.decodedData.Run call in RunTx.
func findDispatch(fn *ssa.Function) *core.Site {
	for _, s := range core.Sites(fn) {
		if s.Common.IsInvoke() && s.Common.Method.Name() == "Run" && strings.HasSuffix(core.Path(s.Common.Value), ".decodedData") {
			return s
		}
	}
	return nil
}

func runC04(c *core.Ctx) {
	fn := c.RunTx()
	if fn == nil {
		c.Unk("C04.chain", "RunTx", token.NoPos, "live RunTx not found")
		return
	}
	m := BuildRunModel(c, nil, fn)
	disp := findDispatch(fn)
	if disp == nil {
		c.Unk("C04.chain", "RunTx/dispatch", fn.Pos(), "tx.decodedData.Run call not found")
		return
	}
	gates := core.GatesBefore(disp.Instr)
	// ---- chain id
	chainOK := false
	var chainPos token.Pos
	for _, g := range gates {
		bin, ok := g.If.Cond.(*ssa.BinOp)
		if !ok || (bin.Op != token.NEQ && bin.Op != token.EQL) {
			continue
		}
		px, py := core.Path(bin.X), core.Path(bin.Y)
		isChain := func(a, b string) bool {
			return a == m.TxPath+".ChainID" && strings.HasSuffix(b, "CurrentChainID")
		}
		if !(isChain(px, py) || isChain(py, px)) {
			continue
		}
		chainPos = g.If.Pos()
		// pass edge must be the "equal" outcome
		if (bin.Op == token.NEQ && !g.PassTrue) || (bin.Op == token.EQL && g.PassTrue) {
			chainOK = true
		}
	}
	c.Check(chainOK, "C04.chain", "RunTx/chain-id-gate", chainPos,
		"dispatch is reachable only when tx.ChainID == types.CurrentChainID",
		"no gate `tx.ChainID == types.CurrentChainID` dominates the dispatch to Run with the right polarity")

	// ---- nonce
	status, detail, pos := nonceGate(m, gates)
	c.Add("C04.nonce", "RunTx/nonce-gate", pos, status, detail)

	// ---- bump (shared with C03.nonce)
	for _, lm := range LiveModels(c, "C04.bump") {
		checkNonce(c, "C04.bump", lm)
	}
	c.Floor("C04.bump", c.Count("C04.bump"), 37, "live Run methods")

	// ---- register
	checkNonceRegister(c, "C04.register")
}

// nonceGate recognises `GetNonce(sender)+1 <eq> tx.Nonce` among the gates.
func nonceGate(m *RunModel, gates []core.Gate) (core.Status, string, token.Pos) {
	var seenNonceCmp *ssa.If
	for _, g := range gates {
		bin, ok := g.If.Cond.(*ssa.BinOp)
		if !ok {
			continue
		}
		mentionsNonce := func(v ssa.Value) bool {
			return core.DependsOn(v, func(x ssa.Value) bool { return core.Path(x) == m.TxPath+".Nonce" })
		}
		mentionsGet := func(v ssa.Value) bool {
			return core.DependsOn(v, func(x ssa.Value) bool {
				call, ok := x.(*ssa.Call)
				return ok && strings.HasSuffix(core.CalleeName(core.NormCall(&call.Call)), ".GetNonce")
			})
		}
		if !((mentionsNonce(bin.X) && mentionsGet(bin.Y)) || (mentionsNonce(bin.Y) && mentionsGet(bin.X))) {
			continue
		}
		seenNonceCmp = g.If
		if bin.Op != token.NEQ && bin.Op != token.EQL {
			return core.Undecided, fmt.Sprintf("nonce comparison uses %s; only exact equality `GetNonce(sender)+1 == tx.Nonce` is recognised as the replay gate", bin.Op), g.If.Pos()
		}
		passEqual := (bin.Op == token.NEQ && !g.PassTrue) || (bin.Op == token.EQL && g.PassTrue)
		if !passEqual {
			return core.Violated, "the dispatch to Run is reached on the branch where the nonce test FAILS", g.If.Pos()
		}
		// normalise: side A = tx.Nonce (maybe minus const), side B = GetNonce(s) (maybe plus const)
		a, b := bin.X, bin.Y
		if mentionsGet(a) {
			a, b = b, a
		}
		offA, baseA, okA := splitConst(a)
		offB, baseB, okB := splitConst(b)
		if !okA || !okB {
			return core.Undecided, "nonce comparison operands are not of the form x ± const", g.If.Pos()
		}
		if core.Path(baseA) != m.TxPath+".Nonce" {
			return core.Undecided, "left side of the nonce gate is not tx.Nonce ± const: " + core.Path(baseA), g.If.Pos()
		}
		call, ok := core.Unwrap(baseB).(*ssa.Call)
		if !ok || !strings.HasSuffix(core.CalleeName(core.NormCall(&call.Call)), ".GetNonce") {
			return core.Undecided, "right side of the nonce gate is not GetNonce(..) ± const", g.If.Pos()
		}
		gs := &core.Site{Instr: call, Common: &call.Call}
		if !m.isTxSender(gs.Arg(0)) {
			return core.Violated, "the nonce is read for an address other than tx.Sender(): " + core.Path(gs.Arg(0)), g.If.Pos()
		}
		if !strings.Contains(core.Path(call.Call.Value), ".Accounts()") && !call.Call.IsInvoke() {
			return core.Undecided, "GetNonce is not read from the state's accounts module", g.If.Pos()
		}
		// tx.Nonce + offA == GetNonce + offB  ⇔ tx.Nonce == GetNonce + (offB-offA)
		if offB-offA != 1 {
			return core.Violated, fmt.Sprintf("gate accepts tx.Nonce == stored nonce %+d, the property requires exactly +1", offB-offA), g.If.Pos()
		}
		return core.Discharged, "dispatch dominated by `GetNonce(tx.Sender()) + 1 == tx.Nonce` (pass edge = equal)", g.If.Pos()
	}
	if seenNonceCmp == nil {
		return core.Violated, "no comparison of tx.Nonce with the sender's stored nonce dominates the dispatch to Run", token.NoPos
	}
	return core.Undecided, "nonce comparison found but not recognised", seenNonceCmp.Pos()
}

// splitConst decomposes v into base ± integer constant.
func splitConst(v ssa.Value) (int64, ssa.Value, bool) {
	v = core.Unwrap(v)
	bin, ok := v.(*ssa.BinOp)
	if !ok {
		return 0, v, true
	}
	if bin.Op != token.ADD && bin.Op != token.SUB {
		return 0, v, false
	}
	if k, ok := core.ConstInt(bin.Y); ok {
		off, base, ok2 := splitConst(bin.X)
		if !ok2 {
			return 0, nil, false
		}
		if bin.Op == token.SUB {
			k = -k
		}
		return off + k, base, true
	}
	if k, ok := core.ConstInt(bin.X); ok && bin.Op == token.ADD {
		off, base, ok2 := splitConst(bin.Y)
		if !ok2 {
			return 0, nil, false
		}
		return off + k, base, true
	}
	return 0, v, false
}

func checkNonceRegister(c *core.Ctx, rule string) {
	model := c.Named(core.PkgState+"/accounts", "Model")
	if model == nil {
		c.Unk(rule, "accounts.Model", token.NoPos, "type not found")
		return
	}
	// writers of Model.Nonce
	n := 0
	for _, w := range c.FieldWrites(model, "Nonce") {
		n++
		fname := core.ShortFn(w.Fn)
		switch fname {
		case "(*coreV2/state/accounts.Model).setNonce":
			st := w.Instr.(*ssa.Store)
			p, ok := core.Unwrap(st.Val).(*ssa.Parameter)
			c.Check(ok && core.ParamName(p) == "nonce", rule, "Model.Nonce/writer/"+fname, w.Pos(), "setNonce stores its parameter", "setNonce stores something other than its parameter: "+core.Path(st.Val))
		case "(*coreV2/state/accounts.Accounts).getOrNew":
			st := w.Instr.(*ssa.Store)
			k, ok := core.ConstInt(st.Val)
			c.Check(ok && k == 0, rule, "Model.Nonce/writer/"+fname, w.Pos(), "new account starts at nonce 0", "a new account does not start at nonce 0")
		case "(*coreV2/state/accounts.Accounts).CreateMultisig":
			st := w.Instr.(*ssa.Store)
			k, ok := core.ConstInt(st.Val)
			_, fresh := w.Addr.X.(*ssa.Alloc)
			c.Check(ok && k == 0 && fresh, rule, "Model.Nonce/writer/"+fname, w.Pos(), "construction of a fresh account record with nonce 0 (only when none exists)", "CreateMultisig writes a nonce into an existing account")
		default:
			c.Bad(rule, "Model.Nonce/writer/"+fname, w.Pos(), "unexpected writer of accounts.Model.Nonce")
		}
	}
	c.Floor(rule+".writers", n, 2, "writers of Model.Nonce")
	// SetNonce(address, nonce) = getOrNew(address).setNonce(nonce)
	if fn := c.MustFn(rule, "(*coreV2/state/accounts.Accounts).SetNonce"); fn != nil {
		ok := false
		for _, s := range core.CallsTo(fn, "(*coreV2/state/accounts.Model).setNonce") {
			recv, _ := core.Unwrap(s.Recv()).(*ssa.Call)
			if recv == nil {
				continue
			}
			rn := core.CalleeName(core.NormCall(&recv.Call))
			if (rn == "(*coreV2/state/accounts.Accounts).getOrNew" || rn == "(*coreV2/state/accounts.Accounts).get") && core.Path(core.NormCall(&recv.Call).Args[1]) == "address" && core.Path(s.Arg(0)) == "nonce" {
				ok = true
			}
		}
		c.Check(ok, rule, "Accounts.SetNonce", fn.Pos(), "SetNonce(address, nonce) = getOrNew(address).setNonce(nonce)", "SetNonce does not store `nonce` into the account at `address`")
	}
	if fn := c.MustFn(rule, "(*coreV2/state/accounts.Accounts).GetNonce"); fn != nil {
		origins := core.ResultOrigins(fn, 0)
		ok := len(origins) > 0
		for _, o := range origins {
			ld, isLoad := core.Unwrap(o).(*ssa.UnOp)
			if !isLoad {
				ok = false
				continue
			}
			fa, isFA := ld.X.(*ssa.FieldAddr)
			if !isFA || fieldNameOf(fa) != "Nonce" {
				ok = false
				continue
			}
			call, isCall := core.Unwrap(fa.X).(*ssa.Call)
			if !isCall || !strings.Contains(core.CalleeName(core.NormCall(&call.Call)), "accounts.Accounts).get") || core.Path(core.NormCall(&call.Call).Args[1]) != "address" {
				ok = false
			}
		}
		c.Check(ok, rule, "Accounts.GetNonce", fn.Pos(), "GetNonce(address) returns the Nonce field of the account at `address`", "GetNonce does not return the Nonce field of the addressed account")
	}
	// permanence: the account record (which holds the nonce) is never removed — not from the
	// tree (only per-coin balance records are) and not from the in-memory table. A pruned account
	// comes back with nonce 0 when it is funded again, and its old signed transactions replay.
	accT := c.Named(core.PkgState+"/accounts", "Accounts")
	balPrefix, okP := constOf(c, core.PkgState+"/accounts", "balancePrefix")
	nRem := 0
	for _, fn := range c.SrcFuncs(core.PkgState + "/accounts") {
		for _, s := range core.Sites(fn) {
			if !strings.HasSuffix(s.Callee, "iavl.MutableTree).Remove") {
				continue
			}
			nRem++
			isBalance := okP && core.DependsOn(s.Arg(0), func(v ssa.Value) bool {
				k, ok := core.ConstInt(v)
				return ok && k == balPrefix
			})
			c.Check(isBalance, rule, "no-account-removal/"+core.ShortFn(fn), s.Pos(), "the only records removed from the tree are per-coin balance records (key contains balancePrefix)", "the accounts module removes a record other than a per-coin balance from the tree: deleting the account record forgets the nonce, and every transaction the account ever signed becomes valid again once it is re-created")
		}
	}
	if accT != nil {
		for _, a := range mapFieldAccesses(c, accT, "list") {
			if a.Kind == "delete" {
				nRem++
				c.Bad(rule, "no-account-removal/"+core.ShortFn(a.Fn)+"/list", a.Instr.Pos(), "an account is dropped from the in-memory table: its nonce is forgotten")
			}
		}
	}
	c.Floor(rule+".removals", nRem, 1, "tree removals in the accounts module (the zero-balance removal must be seen)")
	// … and not through a genesis export either: Accounts.Export may leave an account out only
	// when its nonce is 0 (on every path from the point where the exported record is built to a
	// return that skips the append, the `acc.Nonce == 0` edge is taken)
	checkExportKeepsNonce(c, rule)
	// the read-only interface method used by the gate resolves to this implementation
	mods := Modules(c)
	found := false
	for _, m := range mods {
		if m.Field == "Accounts" && m.Readers["GetNonce"] {
			found = true
		}
	}
	c.Check(found, rule, "RAccounts.GetNonce", token.NoPos, "CheckState.Accounts() exposes GetNonce of the same *accounts.Accounts the deliver state writes", "RAccounts does not expose GetNonce of the deliver-state accounts module")
}

func checkExportKeepsNonce(c *core.Ctx, rule string) {
	exp := c.MustFn(rule, "(*coreV2/state/accounts.Accounts).Export")
	if exp == nil {
		return
	}
	n := 0
	for _, fn := range exp.AnonFuncs {
		// the block where the exported record receives its nonce, and the append site
		var built, appended *ssa.BasicBlock
		for _, b := range fn.Blocks {
			for _, in := range b.Instrs {
				switch x := in.(type) {
				case *ssa.Store:
					if fa, ok := x.Addr.(*ssa.FieldAddr); ok && fieldNameOf(fa) == "Nonce" && strings.HasSuffix(fa.X.Type().String(), "types.Account") {
						built = b
					}
				case *ssa.Call:
					if bi, ok := x.Call.Value.(*ssa.Builtin); ok && bi.Name() == "append" && strings.HasSuffix(core.Path(core.NormCall(&x.Call).Args[0]), ".Accounts") {
						appended = b
					}
				}
			}
		}
		if built == nil || appended == nil {
			continue
		}
		n++
		bad := ""
		var dfs func(b *ssa.BasicBlock, nonceZero bool, seen map[*ssa.BasicBlock]bool)
		dfs = func(b *ssa.BasicBlock, nonceZero bool, seen map[*ssa.BasicBlock]bool) {
			if bad != "" || b == appended || seen[b] {
				return
			}
			seen[b] = true
			defer func() { seen[b] = false }()
			if len(b.Instrs) > 0 {
				if r, ok := b.Instrs[len(b.Instrs)-1].(*ssa.Return); ok {
					if !nonceZero {
						bad = posOrEnd(c, r.Pos())
					}
					return
				}
			}
			iff := core.IfOf(b)
			for i, s := range b.Succs {
				nz := nonceZero
				if iff != nil {
					if bin, ok := iff.Cond.(*ssa.BinOp); ok && (bin.Op == token.EQL || bin.Op == token.NEQ) {
						if k, ok := core.ConstInt(bin.Y); ok && k == 0 {
							if ld, ok := core.Unwrap(bin.X).(*ssa.UnOp); ok {
								if fa, ok := ld.X.(*ssa.FieldAddr); ok && fieldNameOf(fa) == "Nonce" {
									if (bin.Op == token.EQL) == (i == 0) {
										nz = true
									}
								}
							}
						}
					}
				}
				dfs(s, nz, seen)
			}
		}
		dfs(built, false, map[*ssa.BasicBlock]bool{})
		c.Check(bad == "", rule, "Export/keeps-nonce", fn.Pos(), "an account is left out of the genesis only when its nonce is 0", "Accounts.Export can skip an account whose nonce is not 0 (return at "+bad+"): a chain started from that genesis gives the account nonce 0 again and every transaction it ever signed is valid once more")
	}
	c.Floor(rule+".export", n, 1, "account export closures")
}
