package rules

import (
	"fmt"
	"go/token"
	"strings"

	"golang.org/x/tools/go/ssa"

	"verif/internal/core"
)

func init() {
	register(&RuleSet{
		Meta: core.PropertyMeta{
			ID: "C13",
			Explanation: "That the constant product never shrinks and that add-then-remove never pays out more than was put in are arithmetic consequences that are NOT derived here, and nothing numeric is decided about the order-fill calculations. Decided: " +
				"(formula) the five functions those consequences rest on compute what they are documented to compute, including the direction of every rounding — on every path to every return of PairV2.CalculateBuyForSell, CalculateSellForBuy, CalculateAddLiquidity and Amounts the returned value, recovered from the def-use chain with a transfer function per math/big method and compared as a rational function of the arguments and the two reserves with opaque integer-quotient terms, is r1 − ⌊r0·r1/(r0 + 0.998·in)⌋ − 1, ⌊(⌊r0·r1/(r1 − out)⌋ − r0)/0.998⌋ + 1 (evaluated only after out < r1 was established), (⌊T·a/r0⌋, ⌊a·r1/r0⌋) and (⌊l·r0/T⌋, ⌊l·r1/T⌋), and checkSwap returns nil only on paths that established out0 ≤ r0, out1 ≤ r1 and the adjusted-balance product ≥ r0·r1·10^6; " +
				"and, for the live pool handlers, the pool-token pairing without which liquidity shares are created or destroyed out of thin air: " +
				"(create) CreateSwapPool registers the pool token with volume = the liquidity PairCreate returned (copied before it is reduced), credits liquidity − Bound to the sender and exactly swap.Bound to the zero address (which no transaction can debit: C05.debitor), and debits the sender the amounts PairCreate returned in the pool's own coins; " +
				"(mint) AddLiquidity passes the pool token's current Volume() of the pool (coin0, coin1) as totalSupply to PairMint, adds the returned liquidity to the token's volume and credits the same value to the sender, and debits the returned amounts in the pool's coins; " +
				"(burn) RemoveLiquidity passes the token's Volume() as totalSupply to PairBurn with data.Liquidity, burns exactly data.Liquidity from the token's volume and from the sender's balance, and credits the returned amounts in the pool's coins to the sender; " +
				"(key) every access of the live pool table uses the normalised (sorted) coin pair, so a pool cannot be missed or created twice when the coins arrive in the other order; (token) in all three the token is the one named LiquidityCoinSymbol(<id of the pool (data.Coin0, data.Coin1)>).",
			Assumptions: stdAssumptions,
			Rules:       []string{"C13.create", "C13.mint", "C13.burn", "C13.key", "C13.sim", "C13.formula", "C13.const"},
		},
		Run: runC13,
	})
}

func findMut(m *RunModel, module, method string) []*core.Site {
	var out []*core.Site
	for _, mu := range m.Mutators {
		if mu.Module == module && mu.Method == method {
			out = append(out, mu.Site)
		}
	}
	return out
}

// extractOf: v is the idx-th result of call.
func extractOf(v ssa.Value, call ssa.Value, idx int) bool {
	for _, o := range core.Origins(v) {
		if ex, ok := o.(*ssa.Extract); ok && ex.Tuple == call && ex.Index == idx {
			return true
		}
	}
	return false
}

func runC13(c *core.Ctx) {
	defer checkRunningSimulation(c, "C13.sim")
	defer checkPoolFormulas(c, "C13.formula")
	defer checkGlobalBigConstants(c, "C13.const")
	for _, m := range LiveModels(c, "C13.create") {
		switch m.H.ConstName {
		case "TypeCreateSwapPool":
			checkPoolCreate(c, m)
		case "TypeAddLiquidity":
			checkPoolMint(c, m)
		case "TypeRemoveLiquidity":
			checkPoolBurn(c, m)
		}
	}
	c.Floor("C13.create", c.Count("C13.create"), 5, "pool-creation obligations")
	c.Floor("C13.mint", c.Count("C13.mint"), 5, "add-liquidity obligations")
	c.Floor("C13.burn", c.Count("C13.burn"), 5, "remove-liquidity obligations")
	checkPairKeys(c, "C13.key")
}

func checkPoolCreate(c *core.Ctx, m *RunModel) {
	rule, name := "C13.create", m.H.TypeName
	pcs := findMut(m, "Swap", "PairCreate")
	cts := findMut(m, "Coins", "CreateToken")
	if len(pcs) != 1 || len(cts) != 1 {
		c.Bad(rule, name+"/shape", m.Fn.Pos(), "PairCreate / CreateToken not found exactly once")
		return
	}
	pc, ct := pcs[0], cts[0]
	call := pc.Value()
	c.Check(core.Path(pc.Arg(0)) == "data.Coin0" && core.Path(pc.Arg(1)) == "data.Coin1" && core.Path(pc.Arg(2)) == "data.Volume0" && core.Path(pc.Arg(3)) == "data.Volume1", rule, name+"/PairCreate-args", pc.Pos(), "PairCreate(data.Coin0, data.Coin1, data.Volume0, data.Volume1)", "PairCreate arguments changed")
	// volume of the new token = copy of liquidity (#2), taken before liquidity is reduced in place
	vol := ct.Arg(5)
	volOK := false
	if cp, ok := core.Unwrap(vol).(*ssa.Call); ok && core.CalleeName(core.NormCall(&cp.Call)) == "(*math/big.Int).Set" && extractOf(core.NormCall(&cp.Call).Args[1], call, 2) {
		volOK = true
		// no in-place mutation of liquidity before the copy
		for _, s := range core.Sites(m.Fn) {
			if s.Callee == "(*math/big.Int).Sub" && extractOf(s.Recv(), call, 2) && core.Dominates(s.Instr, cp) {
				volOK = false
			}
		}
	}
	c.Check(volOK, rule, name+"/token-volume", ct.Pos(), "the pool token's initial volume is a copy of the full liquidity", "the pool token's volume is not the full liquidity returned by PairCreate")
	// symbol from the pair id (#3)
	c.Check(strings.Contains(core.Path(ct.Arg(1)), "LiquidityCoinSymbol(") && extractOf(symbolArg(ct.Arg(1)), call, 3), rule, name+"/token-symbol", ct.Pos(), "token symbol = LiquidityCoinSymbol(id of the new pool)", "the pool token is not named after the pool's id")
	// credits
	var toZero, toSender *core.Site
	for _, s := range findMut(m, "Accounts", "AddBalance") {
		if isOwnerCredit(s) || !core.SameValue(s.Arg(1), ct.Arg(0)) {
			continue
		}
		if isZeroAddress(s.Arg(0)) {
			toZero = s
		} else if m.isTxSender(s.Arg(0)) {
			toSender = s
		}
	}
	zeroOK := toZero != nil && strings.HasSuffix(core.Path(toZero.Arg(2)), "global:Bound")
	c.Check(zeroOK, rule, name+"/bound-locked", posOrZero(toZero), "swap.Bound of the pool token is credited to the zero address", "the minimum liquidity is not locked at the zero address")
	senderOK := false
	if toSender != nil {
		if sub, ok := core.Unwrap(toSender.Arg(2)).(*ssa.Call); ok && core.CalleeName(core.NormCall(&sub.Call)) == "(*math/big.Int).Sub" && extractOf(core.NormCall(&sub.Call).Args[1], call, 2) && strings.HasSuffix(core.Path(core.NormCall(&sub.Call).Args[2]), "global:Bound") {
			senderOK = true
		}
	}
	c.Check(senderOK, rule, name+"/sender-share", posOrZero(toSender), "the sender is credited liquidity − Bound", "the sender's pool-token credit is not liquidity − Bound")
	// debits of the deposited amounts
	d0, d1 := false, false
	for _, s := range findMut(m, "Accounts", "SubBalance") {
		if !m.isTxSender(s.Arg(0)) {
			continue
		}
		if core.Path(s.Arg(1)) == "data.Coin0" && extractOf(s.Arg(2), call, 0) {
			d0 = true
		}
		if core.Path(s.Arg(1)) == "data.Coin1" && extractOf(s.Arg(2), call, 1) {
			d1 = true
		}
	}
	c.Check(d0 && d1, rule, name+"/deposits-debited", pc.Pos(), "the sender is debited PairCreate's amount0 in Coin0 and amount1 in Coin1", "the deposited amounts are not debited as (Coin0, amount0) and (Coin1, amount1)")
}

func symbolArg(v ssa.Value) ssa.Value {
	if call, ok := core.Unwrap(v).(*ssa.Call); ok && len(core.NormCall(&call.Call).Args) == 1 {
		return core.NormCall(&call.Call).Args[0]
	}
	return v
}

// lpCoinOK: v is <coin>.ID() / .Volume() of GetCoinBySymbol(LiquidityCoinSymbol(GetSwapper(data.Coin0, data.Coin1).GetID()), 0)
func lpCoinPath(p string, suffix string) bool {
	return strings.HasSuffix(p, suffix) && strings.Contains(p, "GetCoinBySymbol(") && strings.Contains(p, "LiquidityCoinSymbol(") && strings.Contains(p, "GetSwapper(data.Coin0,data.Coin1).GetID()")
}

// lpCoinValue: v = C.<method>() with C = GetCoinBySymbol(LiquidityCoinSymbol(S.GetID()), 0) and
// every origin of S derived from GetSwapper(data.Coin0, data.Coin1) (S may have been replaced by
// a simulated view of the same pair).
func lpCoinValue(v ssa.Value, method string) bool {
	call, ok := core.Unwrap(v).(*ssa.Call)
	if !ok {
		return false
	}
	s := &core.Site{Instr: call, Common: &call.Call}
	if methodName(s) != method {
		return false
	}
	coin, ok := core.Unwrap(s.Recv()).(*ssa.Call)
	if !ok || !strings.HasSuffix(core.CalleeName(core.NormCall(&coin.Call)), ".GetCoinBySymbol") {
		return false
	}
	cs := &core.Site{Instr: coin, Common: &coin.Call}
	sym, ok := core.Unwrap(cs.Arg(0)).(*ssa.Call)
	if !ok || !strings.HasSuffix(core.CalleeName(core.NormCall(&sym.Call)), ".LiquidityCoinSymbol") {
		return false
	}
	gid, ok := core.Unwrap(core.NormCall(&sym.Call).Args[0]).(*ssa.Call)
	if !ok || !gid.Call.IsInvoke() || gid.Call.Method.Name() != "GetID" {
		return false
	}
	origins := core.Origins(gid.Call.Value)
	if len(origins) == 0 {
		return false
	}
	for _, o := range origins {
		isPair := core.DependsOn(o, func(x ssa.Value) bool {
			gs, ok := x.(*ssa.Call)
			if !ok || !gs.Call.IsInvoke() || gs.Call.Method.Name() != "GetSwapper" {
				return false
			}
			return core.Path(core.NormCall(&gs.Call).Args[0]) == "data.Coin0" && core.Path(core.NormCall(&gs.Call).Args[1]) == "data.Coin1"
		})
		if !isPair {
			return false
		}
	}
	return true
}

func checkPoolMint(c *core.Ctx, m *RunModel) {
	rule, name := "C13.mint", m.H.TypeName
	pms := findMut(m, "Swap", "PairMint")
	if len(pms) != 1 {
		c.Bad(rule, name+"/shape", m.Fn.Pos(), "PairMint not found exactly once")
		return
	}
	pm := pms[0]
	call := pm.Value()
	c.Check(core.Path(pm.Arg(0)) == "data.Coin0" && core.Path(pm.Arg(1)) == "data.Coin1" && core.Path(pm.Arg(2)) == "data.Volume0" && core.Path(pm.Arg(3)) == "data.MaximumVolume1", rule, name+"/PairMint-args", pm.Pos(), "PairMint(data.Coin0, data.Coin1, data.Volume0, data.MaximumVolume1, …)", "PairMint arguments changed")
	c.Check(lpCoinValue(pm.Arg(4), "Volume"), rule, name+"/total-supply", pm.Pos(), "totalSupply = Volume() of the token of pool (Coin0, Coin1)", "PairMint's totalSupply is not the pool token's current volume: "+core.Path(pm.Arg(4)))
	var vol, bal *core.Site
	for _, s := range findMut(m, "Coins", "AddVolume") {
		if lpCoinValue(s.Arg(0), "ID") {
			vol = s
		}
	}
	for _, s := range findMut(m, "Accounts", "AddBalance") {
		if !isOwnerCredit(s) && lpCoinValue(s.Arg(1), "ID") {
			bal = s
		}
	}
	c.Check(vol != nil && extractOf(vol.Arg(1), call, 2), rule, name+"/volume-grows-by-liquidity", posOrZero(vol), "the token's volume grows by the liquidity PairMint returned", "the pool token's volume is not increased by the minted liquidity")
	c.Check(bal != nil && m.isTxSender(bal.Arg(0)) && extractOf(bal.Arg(2), call, 2), rule, name+"/sender-credited-liquidity", posOrZero(bal), "the sender is credited the same liquidity", "the sender is not credited exactly the minted liquidity")
	d0, d1 := false, false
	for _, s := range findMut(m, "Accounts", "SubBalance") {
		if !m.isTxSender(s.Arg(0)) {
			continue
		}
		if core.Path(s.Arg(1)) == "data.Coin0" && extractOf(s.Arg(2), call, 0) {
			d0 = true
		}
		if core.Path(s.Arg(1)) == "data.Coin1" && extractOf(s.Arg(2), call, 1) {
			d1 = true
		}
	}
	c.Check(d0 && d1, rule, name+"/deposits-debited", pm.Pos(), "the sender is debited PairMint's amount0 in Coin0 and amount1 in Coin1", "the deposited amounts are not debited as (Coin0, amount0) and (Coin1, amount1)")
}

func checkPoolBurn(c *core.Ctx, m *RunModel) {
	rule, name := "C13.burn", m.H.TypeName
	pbs := findMut(m, "Swap", "PairBurn")
	if len(pbs) != 1 {
		c.Bad(rule, name+"/shape", m.Fn.Pos(), "PairBurn not found exactly once")
		return
	}
	pb := pbs[0]
	call := pb.Value()
	c.Check(core.Path(pb.Arg(0)) == "data.Coin0" && core.Path(pb.Arg(1)) == "data.Coin1" && core.Path(pb.Arg(2)) == "data.Liquidity" && core.Path(pb.Arg(3)) == "data.MinimumVolume0" && core.Path(pb.Arg(4)) == "data.MinimumVolume1", rule, name+"/PairBurn-args", pb.Pos(), "PairBurn(Coin0, Coin1, Liquidity, MinimumVolume0, MinimumVolume1, …)", "PairBurn arguments changed")
	c.Check(lpCoinValue(pb.Arg(5), "Volume"), rule, name+"/total-supply", pb.Pos(), "totalSupply = Volume() of the token of pool (Coin0, Coin1)", "PairBurn's totalSupply is not the pool token's current volume: "+core.Path(pb.Arg(5)))
	var vol, bal *core.Site
	for _, s := range findMut(m, "Coins", "SubVolume") {
		if lpCoinValue(s.Arg(0), "ID") {
			vol = s
		}
	}
	for _, s := range findMut(m, "Accounts", "SubBalance") {
		if lpCoinValue(s.Arg(1), "ID") {
			bal = s
		}
	}
	c.Check(vol != nil && core.Path(vol.Arg(1)) == "data.Liquidity", rule, name+"/volume-shrinks-by-liquidity", posOrZero(vol), "the token's volume shrinks by data.Liquidity", "the pool token's volume is not reduced by the burned liquidity")
	c.Check(bal != nil && m.isTxSender(bal.Arg(0)) && core.Path(bal.Arg(2)) == "data.Liquidity", rule, name+"/sender-debited-liquidity", posOrZero(bal), "the sender's pool tokens are debited by data.Liquidity", "the sender is not debited exactly the burned liquidity")
	c0, c1 := false, false
	for _, s := range findMut(m, "Accounts", "AddBalance") {
		if isOwnerCredit(s) || !m.isTxSender(s.Arg(0)) {
			continue
		}
		if core.Path(s.Arg(1)) == "data.Coin0" && extractOf(s.Arg(2), call, 0) {
			c0 = true
		}
		if core.Path(s.Arg(1)) == "data.Coin1" && extractOf(s.Arg(2), call, 1) {
			c1 = true
		}
	}
	c.Check(c0 && c1, rule, name+"/withdrawals-credited", pb.Pos(), "the sender is credited PairBurn's amount0 in Coin0 and amount1 in Coin1", fmt.Sprintf("withdrawn amounts are not credited as (Coin0, amount0)=%v and (Coin1, amount1)=%v", c0, c1))
	_ = token.NoPos
}

// checkPairKeys — the pool table of the live swap module is keyed by the SORTED coin pair; a pool
// looked up or stored under the pair as the caller happened to order it is invisible to the other
// order (two CreateSwapPool(A,B) / (B,A) in one block would both pass SwapPoolExist and the second
// would re-create the pool with a fresh LP token, orphaning the first provider's share and the
// locked minimum liquidity). Every lookup / insert on SwapV2.pairs must use a key that is
// PairKey.sort()'s result, or the key itself where isSorted() holds / its reverse() where it does
// not, or a key taken from the table (range) or from the dirty sets that are filled with sorted keys.
func checkPairKeys(c *core.Ctx, rule string) {
	t := c.Named(pkgSwap, "SwapV2")
	if t == nil {
		c.Unk(rule, "SwapV2", token.NoPos, "type not found")
		return
	}
	n := 0
	for _, a := range mapFieldAccesses(c, t, "pairs") {
		var key ssa.Value
		switch x := a.Instr.(type) {
		case *ssa.Lookup:
			key = x.Index
		case *ssa.MapUpdate:
			key = x.Key
		case *ssa.Call:
			if len(core.NormCall(&x.Call).Args) == 2 {
				key = core.NormCall(&x.Call).Args[1] // delete(m, k)
			}
		}
		if key == nil {
			continue
		}
		n++
		good := true
		var descr []string
		for _, o := range core.Origins(key) {
			d, ok := normalisedKey(c, o, a.Instr)
			descr = append(descr, d)
			if !ok {
				good = false
			}
		}
		k := fmt.Sprintf("%s/%s", core.ShortFn(a.Fn), a.Kind)
		c.Check(good && len(descr) > 0, rule, k, a.Instr.Pos(), "pool table accessed under a normalised key: "+strings.Join(descr, " | "),
			"SwapV2.pairs is accessed under a key that is not normalised ("+strings.Join(descr, " | ")+"): the table is keyed by the sorted pair, so the pool is missed (or duplicated) when the coins arrive in the other order")
	}
	c.Floor(rule, n, 3, "accesses of SwapV2.pairs by key")
}

func normalisedKey(c *core.Ctx, o ssa.Value, at ssa.Instruction) (string, bool) {
	switch x := o.(type) {
	case *ssa.Call:
		switch methodNameOfCall(x) {
		case "sort":
			return "key.sort()", true
		case "reverse":
			// only where the un-reversed key is known not to be sorted
			for _, f := range c.FactsAt(x, 0) {
				if cf, ok := f.AsCall(); ok && cf.MethodName() == "isSorted" && !f.Truth {
					return "key.reverse() under !isSorted()", true
				}
			}
			return "key.reverse() without an isSorted() test", false
		}
		return "result of " + core.CalleeName(core.NormCall(&x.Call)), false
	case *ssa.Extract:
		if nx, ok := x.Tuple.(*ssa.Next); ok {
			if rg, ok := nx.Iter.(*ssa.Range); ok {
				return "key ranged from " + core.Path(rg.X), true
			}
		}
	case *ssa.Parameter:
		// the parameter itself is accepted where isSorted() holds on it on the way to the access
		for _, f := range c.FactsAt(at, 0) {
			if cf, ok := f.AsCall(); ok && cf.MethodName() == "isSorted" && f.Truth {
				return "parameter " + x.Name() + " under isSorted()", true
			}
		}
		// addPair idiom: `if !key.isSorted() { key = key.reverse() }` — the parameter flows on the
		// edge where the test said sorted, its reverse on the other
		for _, s := range core.Sites(at.Parent()) {
			if methodName(s) != "isSorted" || s.Recv() == nil {
				continue
			}
			isOnParam := false
			for _, oo := range core.Origins(s.Recv()) {
				if oo == ssa.Value(x) {
					isOnParam = true
				}
				// pointer-receiver call on the cell the parameter was spilled to
				if al, ok := oo.(*ssa.Alloc); ok {
					for _, r := range *al.Referrers() {
						if st, ok := r.(*ssa.Store); ok && st.Addr == al && core.Unwrap(st.Val) == ssa.Value(x) {
							isOnParam = true
						}
					}
				}
			}
			if isOnParam && core.Dominates(s.Instr, at) {
				return "parameter " + x.Name() + " (sorted arm of an isSorted() test)", true
			}
		}
		return "parameter " + x.Name() + " as given by the caller", false
	}
	return describe(o), false
}

// checkRunningSimulation — C13.sim. The order-fill calculations walk the order book with a
// running scratch pool: `var pair EditableChecker = p; for … { … pair = pair.AddLastSwapStep(…) }`.
// Every step is priced (and its K-guard evaluated) on the pool as moved by the steps before it.
// Decided: a loop-carried scratch pool that starts as the receiver is, on every way round the
// loop, either unchanged or the result of a method called on the running value itself — never a
// value rebuilt from the untouched receiver, which would price the rest of the trade on
// reserves that no longer exist (the taker gets the cheap part of the curve twice).
func checkRunningSimulation(c *core.Ctx, rule string) {
	n := 0
	for _, fn := range c.SrcFuncs("coreV2/state/swap") {
		if fn.Blocks == nil || fn.Signature.Recv() == nil || len(fn.Params) == 0 || legacyV1(fn) {
			continue
		}
		recv := fn.Params[0]
		k := 0
		for _, b := range fn.Blocks {
			if !core.InCycle(b) {
				continue
			}
			for _, in := range b.Instrs {
				ph, ok := in.(*ssa.Phi)
				if !ok {
					break
				}
				if !strings.HasSuffix(ph.Type().String(), "swap.EditableChecker") && !strings.HasSuffix(ph.Type().String(), "swap.PairV2") {
					continue
				}
				// starts as the receiver?
				fromRecv := false
				for _, e := range ph.Edges {
					if core.Unwrap(e) == ssa.Value(recv) {
						fromRecv = true
					}
				}
				if !fromRecv {
					continue
				}
				k++
				n++
				key := fmt.Sprintf("%s/running-pool#%d", core.ShortFn(fn), k)
				bad := ""
				var derives func(v ssa.Value, seen map[ssa.Value]bool) bool
				derives = func(v ssa.Value, seen map[ssa.Value]bool) bool {
					if v == ssa.Value(ph) {
						return true
					}
					if seen[v] {
						return true
					}
					seen[v] = true
					switch x := v.(type) {
					case *ssa.Phi:
						for _, e := range x.Edges {
							if !derives(e, seen) {
								return false
							}
						}
						return true
					case *ssa.MakeInterface:
						return derives(x.X, seen)
					case *ssa.ChangeInterface:
						return derives(x.X, seen)
					case *ssa.Call:
						if x.Call.IsInvoke() {
							return derives(x.Call.Value, seen)
						}
						if sc := x.Call.StaticCallee(); sc != nil && sc.Signature.Recv() != nil && len(core.NormCall(&x.Call).Args) > 0 {
							return derives(core.NormCall(&x.Call).Args[0], seen)
						}
					}
					return false
				}
				for i, e := range ph.Edges {
					pred := b.Preds[i]
					backEdge := core.ReachFrom(b, nil)[pred] // the predecessor lies inside the loop
					if !backEdge {
						continue
					}
					if !derives(e, map[ssa.Value]bool{}) {
						pos := e.Pos()
						if !pos.IsValid() {
							pos = ph.Pos()
						}
						bad = c.PosStr(pos)
					}
				}
				c.Check(bad == "", rule, key, ph.Pos(), "the running scratch pool is only ever advanced from itself", "the running scratch pool of this loop is replaced (at "+bad+") by a value that is not derived from the running pool — e.g. rebuilt from the untouched receiver: the rest of the trade is priced on reserves that the steps so far have already moved")
			}
		}
	}
	c.Floor(rule, n, 2, "loop-carried scratch pools in the order-fill calculations")
}
