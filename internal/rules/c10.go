package rules

import (
	"fmt"
	"go/token"
	"strings"

	"golang.org/x/tools/go/ssa"

	"verif/internal/core"
)

func init() {
	register(&RuleSet{
		Meta: core.PropertyMeta{
			ID: "C10",
			Explanation: "Decides the write ORDER and write SET of the commit path, the structural part of crash recoverability: (order) in Blockchain.Commit: State.Check ≺ eventsDB.CommitEvents ≺ stateDeliver.Commit ≺ appDB.SetLastBlockHash ≺ appDB.SetLastHeight by dominance, the hash stored is the one State.Commit returned and the height stored is the block's; in tree.Commit every module saver.Commit precedes SaveVersion and SetImmutableTree follows it; State.Commit hands every state module to tree.Commit. Reversing any pair makes a crash in between unrecoverable (height marker ahead of the tree / hash). " +
				"(atomic) after the height marker SetLastHeight is durable Tendermint will not replay the block, so every block-dependent durable write that Commit performs AFTER the marker is a crash window in which that record is lost for good; each such call site is reported. Today five exist (FlushValidators, SaveBlocksTime, SaveVersions, SaveEmission, SavePrice) and are listed in known_findings.json; any other is a violation. " +
				"(info) Info() reports exactly the persisted hash/height pair. NOT decided: iavl's re-save behaviour on replay, goleveldb durability/fsync, events-DB replay idempotence.",
			Assumptions: stdAssumptions,
			Rules:       []string{"C10.order", "C10.savers", "C10.modules", "C10.atomic", "C10.info", "C10.load"},
		},
		Run: runC10,
	})
}

// linearForm decomposes an integer expression built from + and − into named terms and a constant.
func linearForm(v ssa.Value) (map[string]int64, int64, bool) {
	terms := map[string]int64{}
	var k int64
	ok := true
	var walk func(v ssa.Value, sign int64)
	walk = func(v ssa.Value, sign int64) {
		v = core.Unwrap(v)
		if c, isC := core.ConstInt(v); isC {
			k += sign * c
			return
		}
		if bin, isBin := v.(*ssa.BinOp); isBin && (bin.Op == token.ADD || bin.Op == token.SUB) {
			walk(bin.X, sign)
			if bin.Op == token.ADD {
				walk(bin.Y, sign)
			} else {
				walk(bin.Y, -sign)
			}
			return
		}
		name := core.Path(v)
		if name == "" {
			if ex, isEx := v.(*ssa.Extract); isEx {
				name = fmt.Sprintf("extract:%s#%d", ex.Tuple.Name(), ex.Index)
			} else {
				ok = false
				name = v.Name()
			}
		}
		terms[name] += sign
	}
	walk(v, 1)
	return terms, k, ok
}

func firstCall(fn *ssa.Function, match func(*core.Site) bool) *core.Site {
	for _, s := range core.Sites(fn) {
		if match(s) {
			return s
		}
	}
	return nil
}

// checkRecoveryLoad: after a crash the node must reopen the state at exactly the height it reports
// to Tendermint (the app-DB height marker): Commit saves the tree version BEFORE it writes the
// marker, so after a crash in between the tree is one version ahead; loading "the latest version"
// would replay block h on top of state h. Decided: initState hands AppDB.GetLastHeight() to
// NewStateV3, NewStateV3 hands its height to tree.NewMutableTree, and NewMutableTree positions the
// tree with LoadVersion(int64(height)) of that parameter (never Load / LoadVersionForOverwriting of
// something else).
func checkRecoveryLoad(c *core.Ctx, rule string) {
	if init := c.MustFn(rule, "(*coreV2/minter.Blockchain).initState"); init != nil {
		good := false
		for _, s := range c.GroupSites(init) {
			if s.Callee == core.PkgState+".NewStateV3" {
				for _, o := range core.Origins(c.CallerArg(s.Arg(0))) {
					if call, ok := o.(*ssa.Call); ok && methodNameOfCall(call) == "GetLastHeight" {
						good = true
					}
				}
			}
		}
		c.Check(good, rule, "initState/height", init.Pos(), "the state is opened at AppDB.GetLastHeight()", "the state is not opened at the height the app DB reports")
	}
	if ns := c.MustFn(rule, core.PkgState+".NewStateV3"); ns != nil {
		good := false
		for _, s := range core.Sites(ns) {
			if s.Callee == "tree.NewMutableTree" && len(ns.Params) > 0 && core.Unwrap(s.Arg(0)) == ssa.Value(ns.Params[0]) {
				good = true
			}
		}
		c.Check(good, rule, "NewStateV3/height", ns.Pos(), "NewStateV3 passes its height to tree.NewMutableTree", "NewStateV3 does not open the tree at the height it was given")
	}
	if nt := c.MustFn(rule, "tree.NewMutableTree"); nt != nil {
		nLoad, good := 0, false
		for _, s := range core.Sites(nt) {
			mn := methodName(s)
			if !strings.HasPrefix(mn, "Load") && !strings.HasPrefix(mn, "LazyLoad") {
				continue
			}
			nLoad++
			if mn == "LoadVersion" {
				if cv, ok := s.Arg(0).(*ssa.Convert); ok && core.Unwrap(cv.X) == ssa.Value(nt.Params[0]) {
					good = true
				}
			}
		}
		c.Check(good && nLoad == 1, rule, "NewMutableTree/LoadVersion", nt.Pos(), "the tree is positioned with LoadVersion(int64(height)) of the requested height only", "tree.NewMutableTree no longer loads exactly the requested version: after a crash between SaveVersion and the height marker the node would run on a newer state than it reports")
	}
}

func runC10(c *core.Ctx) {
	defer checkRecoveryLoad(c, "C10.load")
	commit := c.MustFn("C10.order", "(*coreV2/minter.Blockchain).Commit")
	if commit == nil {
		return
	}
	type step struct {
		name  string
		match func(*core.Site) bool
	}
	steps := []step{
		{"State.Check", func(s *core.Site) bool { return s.Callee == "(*coreV2/state.State).Check" }},
		{"eventsDB.CommitEvents", func(s *core.Site) bool { return s.Common.IsInvoke() && s.Common.Method.Name() == "CommitEvents" }},
		{"State.Commit", func(s *core.Site) bool { return s.Callee == "(*coreV2/state.State).Commit" }},
		{"AppDB.SetLastBlockHash", func(s *core.Site) bool { return s.Callee == "(*coreV2/appdb.AppDB).SetLastBlockHash" }},
		{"AppDB.SetLastHeight", func(s *core.Site) bool { return s.Callee == "(*coreV2/appdb.AppDB).SetLastHeight" }},
	}
	// a step is a call in Commit itself or in a helper that only Commit calls; in the second case
	// the helper's call site stands for the step when it is ordered against steps elsewhere
	var sites, reps []*core.Site
	for _, st := range steps {
		s := firstCall(commit, st.match)
		rep := s
		if s == nil {
			for _, h := range c.Helpers(commit) {
				if hs := firstCall(h, st.match); hs != nil && s == nil {
					h := h
					if r := firstCall(commit, func(x *core.Site) bool { return x.Common.StaticCallee() == h }); r != nil {
						s, rep = hs, r
					}
				}
			}
		}
		if s == nil {
			c.Bad("C10.order", "Commit/"+st.name, commit.Pos(), "Blockchain.Commit no longer calls "+st.name)
		}
		sites = append(sites, s)
		reps = append(reps, rep)
	}
	before := func(a, b *core.Site) bool {
		return core.Dominates(a.Instr, b.Instr) && !core.ReachFrom(b.Block(), nil)[a.Block()] || (a.Block() == b.Block() && core.InstrIndex(a.Instr) < core.InstrIndex(b.Instr))
	}
	for i := 0; i+1 < len(steps); i++ {
		a, b := sites[i], sites[i+1]
		if a == nil || b == nil {
			continue
		}
		if a.Fn != b.Fn {
			a, b = reps[i], reps[i+1]
		}
		key := fmt.Sprintf("Commit/%s≺%s", steps[i].name, steps[i+1].name)
		c.Check(before(a, b),
			"C10.order", key, b.Pos(),
			steps[i].name+" is executed before "+steps[i+1].name+" on every path",
			steps[i+1].name+" can execute before "+steps[i].name+": a crash between them leaves the later marker ahead of the earlier data")
	}
	// provenance of the stored pair
	if sites[2] != nil && sites[3] != nil {
		okHash := false
		for _, o := range core.Origins(c.CallerArg(sites[3].Arg(0))) {
			if ex, ok := o.(*ssa.Extract); ok && ex.Tuple == sites[2].Value() && ex.Index == 0 {
				okHash = true
			}
		}
		c.Check(okHash, "C10.order", "Commit/hash-provenance", sites[3].Pos(), "the hash persisted is the one State.Commit returned", "SetLastBlockHash is given something other than State.Commit's hash: "+core.Path(sites[3].Arg(0)))
	}
	if sites[4] != nil {
		p := core.Path(c.CallerArg(sites[4].Arg(0)))
		c.Check(strings.HasSuffix(p, ".Height()"), "C10.order", "Commit/height-provenance", sites[4].Pos(), "the height persisted is blockchain.Height()", "SetLastHeight is given something other than blockchain.Height(): "+p)
	}
	// every early return of Commit before the marker must not have written the hash: not needed.

	// ---- tree.Commit
	tc := c.MustFn("C10.savers", "(*tree.mutableTree).Commit")
	if tc != nil {
		var saverCommit, saveVersion, setImm *core.Site
		for _, s := range core.Sites(tc) {
			switch {
			case s.Common.IsInvoke() && s.Common.Method.Name() == "Commit":
				saverCommit = s
			case strings.HasSuffix(s.Callee, "iavl.MutableTree).SaveVersion"):
				saveVersion = s
			case s.Common.IsInvoke() && s.Common.Method.Name() == "SetImmutableTree":
				setImm = s
			}
		}
		if saverCommit == nil || saveVersion == nil || setImm == nil {
			c.Unk("C10.savers", "tree.Commit/shape", tc.Pos(), "saver.Commit / SaveVersion / SetImmutableTree not all found")
		} else {
			c.Check(!core.ReachFrom(saveVersion.Block(), nil)[saverCommit.Block()], "C10.savers", "tree.Commit/saver.Commit≺SaveVersion", saveVersion.Pos(),
				"no module saver runs after SaveVersion", "a module saver can run after SaveVersion: its writes would miss the version being saved")
			c.Check(saveVersion.Block().Dominates(setImm.Block()) && !core.ReachFrom(setImm.Block(), nil)[saveVersion.Block()], "C10.savers", "tree.Commit/SaveVersion≺SetImmutableTree", setImm.Pos(),
				"modules switch to the new immutable tree only after the version is saved", "SetImmutableTree can run before SaveVersion")
			// an error from a saver must abort before SaveVersion
			aborts := false
			for _, g := range core.GatesBefore(saveVersion.Instr) {
				_ = g
				aborts = true
			}
			_ = aborts
		}
	}
	// ---- State.Commit passes every module
	sc := c.MustFn("C10.modules", "(*coreV2/state.State).Commit")
	if sc != nil {
		var call *core.Site
		for _, s := range core.Sites(sc) {
			if s.Common.IsInvoke() && s.Common.Method.Name() == "Commit" {
				call = s
			}
		}
		if call == nil {
			c.Unk("C10.modules", "State.Commit/tree.Commit", sc.Pos(), "call to tree.Commit not found")
		} else {
			passed := map[string]bool{}
			// variadic: args[0] is a slice built from stores into an array
			for _, b := range sc.Blocks {
				for _, in := range b.Instrs {
					st, ok := in.(*ssa.Store)
					if !ok {
						continue
					}
					if _, ok := st.Addr.(*ssa.IndexAddr); !ok {
						continue
					}
					p := core.Path(st.Val)
					if strings.HasPrefix(p, "s.") {
						passed[strings.TrimSuffix(strings.TrimPrefix(p, "s."), "()")] = true
					}
				}
			}
			n := 0
			for _, m := range Modules(c) {
				if m.Field == "Checker" {
					continue // in-memory invariant checker, nothing to persist
				}
				n++
				f := m.Field
				if f == "Swap" || f == "SwapV2" {
					f = "GetSwap"
				}
				c.Check(passed[f], "C10.modules", "State.Commit/"+m.Field, call.Pos(), "module is handed to tree.Commit", "state module "+m.Field+" is not passed to tree.Commit: its dirty data would never reach the tree")
			}
			c.Floor("C10.modules", n, 12, "state modules")
		}
	}

	// ---- prune: State.Commit may delete only versions at least keepLastStates+1 behind the one
	// just saved. The app DB's height marker is written after the tree commit, so after a crash in
	// between the node restarts at version−1: that version must still exist whatever the
	// configured retention (minimum 1).
	if sc != nil {
		var del, tcommit *core.Site
		for _, s := range core.Sites(sc) {
			if s.Common.IsInvoke() && s.Common.Method.Name() == "DeleteVersion" {
				del = s
			}
			if s.Common.IsInvoke() && s.Common.Method.Name() == "Commit" {
				tcommit = s
			}
		}
		if del == nil || tcommit == nil {
			c.Unk("C10.prune", "State.Commit/DeleteVersion", sc.Pos(), "DeleteVersion / tree.Commit not found in State.Commit")
		} else {
			terms, k, okL := linearForm(del.Arg(0))
			desc := fmt.Sprintf("%v %+d", terms, k)
			okShape := okL && k <= -1
			sawVersion, sawKeep := false, false
			for name, coef := range terms {
				switch {
				case strings.HasSuffix(name, ".keepLastStates") && coef == -1:
					sawKeep = true
				case coef == 1 && (strings.Contains(name, "Commit(") || strings.HasPrefix(name, "extract:")):
					sawVersion = true
				default:
					okShape = false
				}
			}
			c.Check(okShape && sawVersion && sawKeep, "C10.prune", "State.Commit/pruned-version", del.Pos(), "prunes version − keepLastStates − k with k ≥ 1 ("+desc+")", "State.Commit prunes "+desc+": with the smallest retention the version the node must reload after a crash between the tree commit and the height marker is already deleted")
		}
	}

	// ---- atomic: durable writes after the marker
	f := loadAppDB(c)
	if f != nil && sites[4] != nil {
		writers := map[string]bool{}
		for _, a := range f.Accesses {
			if a.Write {
				writers[core.ShortFn(a.Fn)] = true
			}
		}
		marker := sites[4]
		n := 0
		// writes that follow the marker: in the function that holds the marker (Commit, or the helper
		// of Commit the persist block was moved to) and, in the second case, in Commit after the
		// helper's call
		type anchor struct {
			at *core.Site
			in *ssa.Function
		}
		anchors := []anchor{{marker, marker.Fn}}
		if marker.Fn != commit && reps[4] != nil {
			anchors = append(anchors, anchor{reps[4], commit})
		}
		for _, an := range anchors {
			after := core.ReachFrom(an.at.Block(), nil)
			for _, s := range core.Sites(an.in) {
				if !writers[s.Callee] || s.Instr == an.at.Instr {
					continue
				}
				isAfter := (s.Block() == an.at.Block() && core.InstrIndex(s.Instr) > core.InstrIndex(an.at.Instr)) || (s.Block() != an.at.Block() && after[s.Block()])
				if !isAfter {
					continue
				}
				n++
				short := s.Callee[strings.LastIndex(s.Callee, ".")+1:]
				c.Bad("C10.atomic", "Commit/after-marker/"+short, s.Pos(),
					"durable write "+short+" happens after the height marker SetLastHeight and not atomically with it: a crash in between makes the node report the block as committed (Tendermint will not replay it) while this block-dependent record keeps its old value")
			}
		}
		// writes before the marker other than the hash: cumulative records written early would be
		// double-applied on replay
		for _, an := range anchors {
			for _, s := range core.Sites(an.in) {
				if !writers[s.Callee] || s.Instr == marker.Instr || (sites[3] != nil && s.Instr == sites[3].Instr) {
					continue
				}
				if !core.Dominates(s.Instr, an.at.Instr) {
					continue
				}
				c.Bad("C10.atomic", "Commit/before-marker/"+s.Callee, s.Pos(), "an app-DB record is written before the height marker; on replay of the block it would be applied twice")
			}
		}
		c.Add("C10.atomic", "Commit/marker", marker.Pos(), core.Discharged, fmt.Sprintf("marker found; %d durable writes follow it", n))
	}

	// ---- info
	info := c.MustFn("C10.info", "(*coreV2/minter.Blockchain).Info")
	if info != nil {
		var hasHash, hasHeight bool
		for _, s := range core.Sites(info) {
			if s.Callee == "(*coreV2/appdb.AppDB).GetLastBlockHash" {
				hasHash = true
			}
			if s.Callee == "(*coreV2/appdb.AppDB).GetLastHeight" {
				hasHeight = true
			}
		}
		c.Check(hasHash && hasHeight, "C10.info", "Info/pair", info.Pos(), "Info reports appDB.GetLastBlockHash / GetLastHeight", "Info no longer reports the persisted hash/height pair")
		// the getters read the same keys the setters write
		if f != nil {
			keyOf := func(fn string, write bool) string {
				for _, a := range f.Accesses {
					if strings.HasSuffix(core.ShortFn(a.Fn), fn) && a.Write == write {
						return a.Key
					}
				}
				return ""
			}
			c.Check(keyOf(".GetLastBlockHash", false) != "" && keyOf(".GetLastBlockHash", false) == keyOf(".SetLastBlockHash", true), "C10.info", "Info/hash-key", token.NoPos, "hash read from the key it is written to", "GetLastBlockHash and SetLastBlockHash use different keys")
			c.Check(keyOf(".getLastHeight", false) != "" && keyOf(".getLastHeight", false) == keyOf(".SetLastHeight", true), "C10.info", "Info/height-key", token.NoPos, "height read from the key it is written to", "getLastHeight and SetLastHeight use different keys")
		}
	}
}
