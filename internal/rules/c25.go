package rules

import (
	"fmt"
	"go/token"
	"go/types"
	"os"
	"sort"
	"strings"

	"golang.org/x/tools/go/ssa"

	"verif/internal/core"
)

func init() {
	register(&RuleSet{
		Meta: core.PropertyMeta{
			ID: "C25",
			Explanation: "Decides lock discipline on the state shared between API readers and block execution (the deliver state is the object the read-only CheckState wraps): " +
				"(map) every access (lookup, range, update, delete) to a map-typed field of a state-module struct that is written by code reachable from the ABCI entry points and touched by code reachable from the API service / CheckTx holds the field's guarding mutex — a concurrent map access is a fatal runtime error, not a data race one can survive; guard relations are frozen in a table confirmed by reading (found and repaired: SwapV2.swapPools iterating s.pairs unlocked); " +
				"(reentrant) no function acquires (R)Lock on a mutex it already holds, directly or through a callee on the same object — RWMutex read locks are not reentrant and deadlock when a writer queues in between (found and repaired: Accounts.GetLockStakeUntilBlock); " +
				"(pair) every Lock/RLock is released on every path to a return (explicitly or by defer); (pure) API-reachable code calls no state mutator; " +
				"(recheck) when an insert into a guarded map is decided by a lookup of the same key in a function that both API readers and block execution can run, that lookup holds the write lock that is still held at the insert — otherwise both threads miss, each loads its own object and the later insert orphans the object block execution is updating (found and repaired in the lazy loaders of seven state modules); " +
				"(copyout) API code performs no in-place big.Int arithmetic on an amount that is the state's own object: read methods that hand out stored amounts without copying are inventoried (direct results and fields of composites they build) and every in-place operation in api/ packages is traced back through calls, slice elements, struct copies and local maps. " +
				"NOT decided: races on non-map fields, lock-order cycles between different mutexes, the order-book lists shared between a pair and its reverse view (disjunctive guards), third-party stores.",
			Assumptions: stdAssumptions,
			Rules:       []string{"C25.map", "C25.reentrant", "C25.pair", "C25.pure", "C25.copyout", "C25.recheck"},
		},
		Run: runC25,
	})
}

// mapGuards: struct.field → mutex fields that guard it (any of). Confirmed by reading.
var mapGuards = map[string][]string{
	"events.eventsStore.idPubKey":             {"RWMutex"},
	"events.eventsStore.pubKeyID":             {"RWMutex"},
	"events.eventsStore.idAddress":            {"RWMutex"},
	"events.eventsStore.addressID":            {"RWMutex"},
	"accounts.Accounts.list":                  {"lock"},
	"accounts.Accounts.dirty":                 {"lock"},
	"accounts.Model.balances":                 {"lock"},
	"accounts.Model.dirtyBalances":            {"lock"},
	"candidates.Candidates.list":              {"lock"},
	"candidates.Candidates.blockList":         {"lock"},
	"candidates.Candidates.pubKeyIDs":         {"lock"},
	"candidates.Candidates.deletedCandidates": {"muDeletedCandidates"},
	"checker.Checker.delta":                   {"lock"},
	"checker.Checker.volumeDelta":             {"lock"},
	"checks.Checks.usedChecks":                {"lock"},
	"coins.Coins.list":                        {"lock"},
	"coins.Coins.dirty":                       {"lock"},
	"coins.Coins.symbolsList":                 {"lock"},
	"coins.Coins.symbolsInfoList":             {"lock"},
	"commission.Commission.list":              {"lock"},
	"commission.Commission.dirty":             {"lock"},
	"frozenfunds.FrozenFunds.list":            {"lock"},
	"frozenfunds.FrozenFunds.dirty":           {"lock"},
	"halts.HaltBlocks.list":                   {"lock"},
	"halts.HaltBlocks.dirty":                  {"lock"},
	"swap.Swap.pairs":                         {"muPairs"},
	"swap.Swap.dirties":                       {"muPairs"},
	"swap.Swap.dirtiesOrders":                 {"muPairs"},
	"swap.SwapV2.pairs":                       {"muPairs"},
	"swap.SwapV2.dirties":                     {"muPairs"},
	"swap.SwapV2.dirtiesOrders":               {"muPairs"},
	"update.Update.list":                      {"lock"},
	"update.Update.dirty":                     {"lock"},
	"waitlist.WaitList.list":                  {"lock"},
	"waitlist.WaitList.dirty":                 {"lock"},
}

// mapGuardExempt: struct.field → reason the field needs no guard.
var mapGuardExempt = map[string]string{
	"candidates.coinsCache.list": "per-call object: created by newCoinsCache() inside RecalculateStakesV2 and passed down the call; never stored in shared state",
	"swap.orderDirties.list":     "out of scope (stated in DESIGN §4 C25): shared between a pair and its reverse() view under a disjunctive guard (own mu OR the pair's lockOrders held by every caller) that needs deeper caller summaries than this checker establishes soundly",
	"swap.orderList.list":        "out of scope: same disjunctive guard as orderDirties.list",
}

type mapAccess struct {
	Fn    *ssa.Function
	Instr ssa.Instruction
	Base  string // access path of the struct instance
	Write bool
	Kind  string
}

// mapFieldAccesses finds the accesses to map field `field` of struct t.
func mapFieldAccesses(c *core.Ctx, t *types.Named, field string) []mapAccess {
	var out []mapAccess
	for _, ref := range c.FieldRefs(t, field) {
		if ref.Addr == nil {
			continue
		}
		base := strings.TrimPrefix(core.Path(ref.Addr.X), "&")
		if ref.Write {
			// whole-map replacement (s.pairs = map…): a write of the field itself
			if st, ok := ref.Instr.(*ssa.Store); ok {
				out = append(out, mapAccess{Fn: ref.Fn, Instr: st, Base: base, Write: true, Kind: "assign"})
			}
			continue
		}
		// uses of the loaded map value
		for _, r := range *ref.Addr.Referrers() {
			ld, ok := r.(*ssa.UnOp)
			if !ok || ld.Op != token.MUL {
				continue
			}
			for _, u := range *ld.Referrers() {
				switch x := u.(type) {
				case *ssa.Lookup:
					out = append(out, mapAccess{Fn: ref.Fn, Instr: x, Base: base, Kind: "lookup"})
				case *ssa.MapUpdate:
					if x.Map == ld {
						out = append(out, mapAccess{Fn: ref.Fn, Instr: x, Base: base, Write: true, Kind: "update"})
					}
				case *ssa.Range:
					out = append(out, mapAccess{Fn: ref.Fn, Instr: x, Base: base, Kind: "range"})
				case *ssa.Call:
					if b, ok := x.Call.Value.(*ssa.Builtin); ok && b.Name() == "delete" {
						out = append(out, mapAccess{Fn: ref.Fn, Instr: x, Base: base, Write: true, Kind: "delete"})
					}
				}
			}
		}
	}
	return out
}

func isMutex(t types.Type) bool {
	if p, ok := t.(*types.Pointer); ok {
		t = p.Elem()
	}
	n, ok := t.(*types.Named)
	return ok && n.Obj().Pkg() != nil && n.Obj().Pkg().Path() == "sync" && (n.Obj().Name() == "Mutex" || n.Obj().Name() == "RWMutex")
}

// ReaderRoots: API service methods and CheckTx.
func ReaderRoots(c *core.Ctx) []*ssa.Function {
	var out []*ssa.Function
	for _, fn := range c.SrcFuncs("api/v2/service") {
		if fn.Parent() == nil && fn.Signature.Recv() != nil && fn.Object() != nil && fn.Object().Exported() {
			out = append(out, fn)
		}
	}
	// CheckTx is NOT a concurrent reader: the node runs Tendermint with proxy.NewLocalClientCreator
	// (cmd/minter/cmd/node.go), whose connections share one mutex, so CheckTx never overlaps
	// BeginBlock/DeliverTx/EndBlock/Commit. The rule verifies that this is still how the node is
	// wired (C25.wiring).
	return out
}

func runC25(c *core.Ctx) {
	locks := c.Locks()
	cg := c.CG()
	// a state object under construction (node start, or a private state built for one historic
	// query) is not shared yet: do not walk into the constructors
	isStateCtor := func(fn *ssa.Function) bool {
		if core.PkgOf(fn) != core.PkgState {
			return false
		}
		switch fn.Name() {
		case "NewState", "NewStateV3", "NewCheckStateAtHeight", "NewCheckStateAtHeightV3", "newStateForTree", "newStateForTreeV2", "newCheckStateForTree", "newCheckStateForTreeV2":
			return true
		}
		return false
	}
	// bulk loaders (Candidates.LoadCandidates / LoadStakes …) are called by the API only on a
	// private historic state: every API call site is gated by `req.Height != 0`, and
	// GetStateForHeight hands out the shared state only for height 0. Verified here; when it
	// holds the loaders are not walked into from the API side.
	loaderOK := true
	nLoad := 0
	for _, fn := range c.AllFns {
		if !strings.HasPrefix(core.PkgOf(fn), "api/") {
			continue
		}
		for _, s := range core.Sites(fn) {
			mn := methodName(s)
			if !s.Common.IsInvoke() || !strings.HasPrefix(mn, "Load") || !strings.Contains(s.Callee, "coreV2/state/") {
				continue
			}
			nLoad++
			gated := false
			for _, f := range c.FactsAt(s.Instr, 0) {
				bin, ok := f.Cond.(*ssa.BinOp)
				if !ok {
					continue
				}
				k, isK := core.ConstInt(bin.Y)
				if isK && k == 0 && strings.HasSuffix(core.Path(bin.X), "req.Height") && ((bin.Op == token.NEQ && f.Truth) || (bin.Op == token.EQL && !f.Truth) || (bin.Op == token.GTR && f.Truth)) {
					gated = true
				}
			}
			c.Check(gated, "C25.private", core.ShortFn(fn)+"/"+mn, s.Pos(), "bulk loader called only under req.Height != 0 (a private historic state)", "API calls a bulk loader on a state that may be the shared current state: it rewrites module caches while block execution uses them")
			if !gated {
				loaderOK = false
			}
		}
	}
	if g := c.MustFn("C25.private", "(*coreV2/minter.Blockchain).GetStateForHeight"); g != nil {
		ok := false
		for _, s := range core.Sites(g) {
			if strings.HasSuffix(s.Callee, ".CurrentState") {
				for _, f := range c.FactsAt(s.Instr, 0) {
					bin, isBin := f.Cond.(*ssa.BinOp)
					if !isBin {
						continue
					}
					k, isK := core.ConstInt(bin.Y)
					if isK && k == 0 && core.Path(bin.X) == "height" && ((bin.Op == token.GTR && !f.Truth) || (bin.Op == token.EQL && f.Truth) || (bin.Op == token.NEQ && !f.Truth)) {
						ok = true
					}
				}
			}
		}
		c.Check(ok, "C25.private", "GetStateForHeight/shared-only-for-0", g.Pos(), "the shared current state is returned only for height 0", "GetStateForHeight may return the shared state for a non-zero height")
		if !ok {
			loaderOK = false
		}
	}
	c.Floor("C25.private", nLoad, 2, "API call sites of bulk loaders")
	readerStop := func(fn *ssa.Function) bool {
		if isStateCtor(fn) {
			return true
		}
		return loaderOK && strings.HasPrefix(fn.Name(), "Load") && strings.HasPrefix(core.PkgOf(fn), core.PkgState+"/") && fn.Signature.Recv() != nil
	}
	readers := cg.Reachable(ReaderRoots(c), readerStop)
	for fn := range readers {
		if fn != nil && readerStop(fn) && !isStateCtor(fn) {
			delete(readers, fn) // the loader itself runs on the private state
		}
	}
	writersAll := ConsensusReach(c, "C25.map")
	ctorOnly := cg.Reachable(EntryFuncs(c, "C25.map"), func(fn *ssa.Function) bool { return isStateCtor(fn) })
	writers := map[*ssa.Function]*ssa.Function{}
	for fn, p := range writersAll {
		if _, ok := ctorOnly[fn]; ok {
			writers[fn] = p
		}
	}
	c.Stats["reader_reachable_functions"] = len(readers)
	debug := os.Getenv("VERIF_DEBUG") != ""

	// candidate structs
	var structs []*types.Named
	for _, p := range c.Pkgs {
		sp := core.Short(p.PkgPath)
		if !strings.HasPrefix(sp, "coreV2/state") && sp != "coreV2/minter" && sp != "coreV2/appdb" && sp != "coreV2/events" {
			continue
		}
		sc := p.Types.Scope()
		for _, n := range sc.Names() {
			tn, ok := sc.Lookup(n).(*types.TypeName)
			if !ok {
				continue
			}
			named, ok := tn.Type().(*types.Named)
			if !ok {
				continue
			}
			st, ok := named.Underlying().(*types.Struct)
			if !ok {
				continue
			}
			hasMap := false
			for i := 0; i < st.NumFields(); i++ {
				if _, ok := st.Field(i).Type().Underlying().(*types.Map); ok {
					hasMap = true
				}
			}
			if hasMap {
				structs = append(structs, named)
			}
		}
	}
	nAcc := 0
	for _, t := range structs {
		st := t.Underlying().(*types.Struct)
		var mutexes []string
		for i := 0; i < st.NumFields(); i++ {
			if isMutex(st.Field(i).Type()) {
				mutexes = append(mutexes, st.Field(i).Name())
			}
		}
		for i := 0; i < st.NumFields(); i++ {
			f := st.Field(i)
			if _, ok := f.Type().Underlying().(*types.Map); !ok {
				continue
			}
			key := t.Obj().Pkg().Name() + "." + t.Obj().Name() + "." + f.Name()
			accs := mapFieldAccesses(c, t, f.Name())
			// shared?
			readerTouches, entryWrites := false, false
			for _, a := range accs {
				root := a.Fn
				for root.Parent() != nil {
					root = root.Parent()
				}
				if _, ok := readers[root]; ok {
					readerTouches = true
				}
				if _, ok := writers[root]; ok && a.Write && !isConstructor(root) {
					entryWrites = true
				}
			}
			if debug {
				fmt.Printf("MAPFIELD %s mutexes=%v accesses=%d readerTouches=%v entryWrites=%v\n", key, mutexes, len(accs), readerTouches, entryWrites)
			}
			if !(readerTouches && entryWrites) {
				continue
			}
			if reason, ok := mapGuardExempt[key]; ok {
				c.OK("C25.map", key+"/exempt", t.Obj().Pos(), "exempt: "+reason)
				continue
			}
			guards, ok := mapGuards[key]
			if !ok {
				// statistics for triage
				stat := map[string]int{}
				for _, a := range accs {
					ls := locks[a.Fn].At[a.Instr]
					for lk := range ls {
						if strings.HasPrefix(lk, a.Base+".") {
							stat[strings.TrimPrefix(lk, a.Base+".")]++
						}
					}
				}
				c.Unk("C25.map", key+"/guard-unknown", t.Obj().Pos(), fmt.Sprintf("map field shared between API readers and block execution has no confirmed guard in the table (mutex fields of the struct: %v; locks held at its %d accesses: %v)", mutexes, len(accs), stat))
				continue
			}
			for _, a := range accs {
				root := a.Fn
				for root.Parent() != nil {
					root = root.Parent()
				}
				_, inR := readers[root]
				_, inW := writers[root]
				if !inR && !inW {
					continue
				}
				if isConstructor(root) {
					continue
				}
				if a.Kind == "assign" {
					// replacing the whole map value is a field write, not a map operation: it cannot
					// trip the runtime's concurrent-map check (races on plain fields are out of scope)
					continue
				}
				if al, fresh := baseAlloc(a); fresh && al {
					continue // the object was created in this function and is not published yet
				}
				nAcc++
				ls := locks[a.Fn].At[a.Instr]
				held := false
				for _, g := range guards {
					if m, ok := ls[a.Base+"."+g]; ok && (m == 'W' || !a.Write) {
						held = true
					}
				}
				if !held {
					// every caller (inside the API/consensus reach sets) holds the guard
					inScope := func(f *ssa.Function) bool {
						r := f
						for r.Parent() != nil {
							r = r.Parent()
						}
						_, x := readers[r]
						_, y := writers[r]
						return x || y
					}
					for _, g := range guards {
						if heldViaCallers(c, locks, a.Fn, a.Base+"."+g, a.Write, inScope, 3) {
							held = true
						}
					}
				}
				akey := fmt.Sprintf("%s/%s/%s", key, core.ShortFn(a.Fn), a.Kind)
				if held {
					c.OK("C25.map", akey, a.Instr.Pos(), "holds "+strings.Join(guards, "|"))
				} else {
					who := "block execution"
					if inR {
						who = "API readers"
						if inW {
							who = "API readers and block execution"
						}
					}
					c.Bad("C25.map", akey, a.Instr.Pos(), fmt.Sprintf("map %s of %s without holding %s (lockset here: %s; function reachable from %s): a concurrent access from the other side is a fatal 'concurrent map' runtime error", a.Kind, key, strings.Join(guards, "|"), ls, who))
				}
			}
		}
	}
	c.Floor("C25.map", nAcc, 20, "guarded map accesses")
	checkWiring(c, "C25.wiring")

	// ---- reentrant + pair over all functions in the state/minter/appdb packages
	nAcq := 0
	var fns []*ssa.Function
	for fn := range locks {
		fns = append(fns, fn)
	}
	sort.Slice(fns, func(i, j int) bool { return fns[i].String() < fns[j].String() })
	// summaries: which receiver-relative locks a function acquires (directly)
	acquires := map[*ssa.Function][]core.LockAcq{}
	for _, fn := range fns {
		acquires[fn] = locks[fn].Acq
	}
	// mutexes (struct.field) that block-execution code write-locks
	wlocked := map[string]bool{}
	for _, fn := range fns {
		root := fn
		for root.Parent() != nil {
			root = root.Parent()
		}
		if _, ok := writers[root]; !ok {
			continue
		}
		for _, a := range locks[fn].Acq {
			if a.Op.Mode == 'W' {
				wlocked[lockField(a.Site)] = true
			}
		}
	}
	// a nested acquisition deadlocks when (outer held in write mode) or (the holder runs on an API
	// goroutine and block execution write-locks the same mutex: the writer queues between the two
	// read acquisitions)
	dangerous := func(fn *ssa.Function, outerMode byte, field string) (bool, string) {
		if outerMode == 'W' {
			return true, "the outer acquisition is a write lock: the second acquisition blocks at once"
		}
		root := fn
		for root.Parent() != nil {
			root = root.Parent()
		}
		if _, ok := readers[root]; ok && wlocked[field] {
			return true, "reachable from the API (" + core.PathTo(readers, root) + ") while block execution write-locks " + field
		}
		return false, ""
	}
	for _, fn := range fns {
		pkg := core.PkgOf(fn)
		if !strings.HasPrefix(pkg, "coreV2/") {
			continue
		}
		info := locks[fn]
		for _, a := range info.Acq {
			nAcq++
			if hm, held := a.Held[a.Op.Path]; held && a.Op.Path != "?" {
				if bad, why := dangerous(fn, hm, lockField(a.Site)); bad {
					c.Bad("C25.reentrant", core.ShortFn(fn)+"/"+a.Op.Path, a.Site.Pos(), fmt.Sprintf("acquires %s while already holding it (%s); %s", a.Op.Path, a.Held, why))
				}
			}
		}
		// through callees on the same object: call of a method whose receiver path P while holding
		// P.<mu>, where the callee acquires recv.<mu>
		for _, b := range fn.Blocks {
			for _, in := range b.Instrs {
				ci, ok := in.(ssa.CallInstruction)
				if !ok {
					continue
				}
				if _, isGo := in.(*ssa.Go); isGo {
					continue
				}
				callee := ci.Common().StaticCallee()
				if callee == nil || callee.Signature.Recv() == nil || len(callee.Params) == 0 || len(ci.Common().Args) == 0 {
					continue
				}
				rp := strings.TrimPrefix(core.Path(ci.Common().Args[0]), "&")
				if rp == "" || strings.Contains(rp, "[*]") {
					continue
				}
				held := info.At[in]
				if len(held) == 0 {
					continue
				}
				cname := core.ParamName(callee.Params[0])
				for _, ca := range acquiresDeep(callee, acquires, 3) {
					if !strings.HasPrefix(ca.Op.Path, cname+".") {
						continue
					}
					outer := rp + strings.TrimPrefix(ca.Op.Path, cname)
					if hm, ok := held[outer]; ok {
						if bad, why := dangerous(fn, hm, lockField(ca.Site)); bad {
							c.Bad("C25.reentrant", core.ShortFn(fn)+"→"+callee.Name()+"/"+outer, in.Pos(),
								fmt.Sprintf("calls %s, which acquires %s, while already holding %s: recursive (R)Lock on one RWMutex deadlocks as soon as a writer queues between the two acquisitions; %s", core.ShortFn(callee), ca.Op.Path, outer, why))
						} else {
							c.OK("C25.reentrant", core.ShortFn(fn)+"→"+callee.Name()+"/"+outer, in.Pos(), "nested read lock on a path that runs only on the (serialised) ABCI goroutine, where no writer can queue in between")
						}
					}
				}
			}
		}
		// pair: at every return the lockset must contain only deferred-released or entry locks
		if len(info.Acq) > 0 {
			deferred := map[string]bool{}
			for _, s := range core.Sites(fn) {
				if _, isDefer := s.Instr.(*ssa.Defer); isDefer {
					if strings.HasSuffix(s.Callee, "Unlock") {
						deferred[core.LockKey(s.Recv())] = true
					}
				}
			}
			for _, a := range fn.AnonFuncs {
				// defer func() { …Unlock() }()
				for _, s := range core.Sites(a) {
					if strings.HasSuffix(s.Callee, "Unlock") {
						deferred[core.LockKey(s.Recv())] = true
					}
				}
			}
			leak := ""
			for _, r := range core.Returns(fn) {
				if fn.Recover != nil && r.Block() == fn.Recover {
					continue
				}
				// a module saver's Commit returning a non-nil error makes tree.Commit →
				// State.Commit → Blockchain.Commit panic (the process does not continue), so a
				// lock still held on that return cannot block anything
				// (the same holds for a helper that only Commit calls and whose error Commit returns)
				if (fn.Name() == "Commit" || c.GroupRoot(fn).Name() == "Commit") && len(r.Results) == 1 && isErrorType(r.Results[0].Type()) {
					if _, isConst := core.Unwrap(r.Results[0]).(*ssa.Const); !isConst {
						continue // `return fmt.Errorf(…)`: the error path
					}
				}
				// lockset at the return = lockset after the last instruction of the block
				ls := locksetAtEnd(info, r.Block())
				for lk := range ls {
					if _, fromEntry := info.Entry[lk]; fromEntry || deferred[lk] {
						continue
					}
					leak = lk
				}
			}
			key := core.ShortFn(fn)
			if leak != "" {
				if reason, ok := lockLeakExempt[key]; ok {
					c.OK("C25.pair", key, fn.Pos(), "exempt: "+reason)
				} else {
					c.Bad("C25.pair", key, fn.Pos(), "returns while still holding "+leak+" (no Unlock on that path and no deferred Unlock)")
				}
			} else {
				c.OK("C25.pair", key, fn.Pos(), fmt.Sprintf("%d acquisitions, all released on every return", len(info.Acq)))
			}
		}
	}
	c.Floor("C25.reentrant", nAcq, 150, "lock acquisitions analysed")
	c.Add("C25.reentrant", "summary", token.NoPos, core.Discharged, fmt.Sprintf("%d acquisitions analysed for same-object re-acquisition (direct and through callees to depth 3)", nAcq))

	// ---- pure: readers reach no mutator
	nP := 0
	for fn := range readers {
		if fn.Synthetic != "" || !strings.HasPrefix(core.PkgOf(fn), "api/") {
			continue
		}
		for _, s := range core.Sites(fn) {
			if mod, meth, ok := MutatorCall(c, s); ok {
				nP++
				key := core.ShortFn(fn) + "/" + mod + "." + meth
				if reason, ok := apiMutatorExempt[key]; ok {
					c.OK("C25.pure", key, s.Pos(), "exempt: "+reason)
					continue
				}
				c.Bad("C25.pure", key, s.Pos(), "API code calls the state mutator "+mod+"."+meth+" on a state object")
			}
		}
	}
	checkCopyOut(c, "C25.copyout", readers)
	checkRecheck(c, "C25.recheck", locks, readers, cg.Reachable(EntryFuncs(c, "C25.recheck"), nil))
	c.Add("C25.pure", "summary", token.NoPos, core.Discharged, fmt.Sprintf("%d API-reachable functions scanned, %d mutator call sites in api/ packages", len(readers), nP))
}

// baseAlloc: the struct instance whose map is accessed is an object allocated in this very
// function (a composite literal / new), i.e. not yet visible to any other goroutine.
func baseAlloc(a mapAccess) (bool, bool) {
	var fa *ssa.FieldAddr
	switch x := a.Instr.(type) {
	case *ssa.MapUpdate:
		if ld, ok := x.Map.(*ssa.UnOp); ok {
			fa, _ = ld.X.(*ssa.FieldAddr)
		}
	case *ssa.Lookup:
		if ld, ok := x.X.(*ssa.UnOp); ok {
			fa, _ = ld.X.(*ssa.FieldAddr)
		}
	case *ssa.Range:
		if ld, ok := x.X.(*ssa.UnOp); ok {
			fa, _ = ld.X.(*ssa.FieldAddr)
		}
	}
	if fa == nil {
		return false, false
	}
	_, isAlloc := core.Unwrap(fa.X).(*ssa.Alloc)
	return isAlloc, true
}

// heldViaCallers: lock `lk` (a path rooted at a parameter of fn) is held at every in-scope call
// site of fn, possibly further up (depth-bounded). With no in-scope caller the answer is false.
func heldViaCallers(c *core.Ctx, locks map[*ssa.Function]*core.LockInfo, fn *ssa.Function, lk string, write bool, inScope func(*ssa.Function) bool, depth int) bool {
	if depth == 0 || fn.Parent() != nil {
		return false
	}
	// which parameter roots the lock path
	pi := -1
	for i, p := range fn.Params {
		if lk == core.ParamName(p) || strings.HasPrefix(lk, core.ParamName(p)+".") {
			pi = i
		}
	}
	if pi < 0 {
		return false
	}
	suffix := strings.TrimPrefix(lk, core.ParamName(fn.Params[pi]))
	n := 0
	for _, caller := range c.AllFns {
		if !inScope(caller) {
			continue
		}
		info := locks[caller]
		if info == nil {
			continue
		}
		for _, b := range caller.Blocks {
			for _, in := range b.Instrs {
				ci, ok := in.(ssa.CallInstruction)
				if !ok || ci.Common().StaticCallee() != fn {
					continue
				}
				if _, isGo := in.(*ssa.Go); isGo {
					return false
				}
				n++
				if pi >= len(ci.Common().Args) {
					return false
				}
				ap := strings.TrimPrefix(core.Path(ci.Common().Args[pi]), "&")
				if ap == "" {
					return false
				}
				outer := ap + suffix
				m, ok := info.At[in][outer]
				if ok && (m == 'W' || !write) {
					continue
				}
				if !heldViaCallers(c, locks, caller, outer, write, inScope, depth-1) {
					return false
				}
			}
		}
	}
	// the function must not be reachable through interface dispatch from in-scope code without
	// a static caller: exported methods may be; require at least one static in-scope caller
	return n > 0 && !(fn.Object() != nil && fn.Object().Exported())
}

// lockField names the mutex of an acquisition by struct type and field ("candidates.Candidates.lock").
func lockField(s *core.Site) string {
	fa, ok := s.Recv().(*ssa.FieldAddr)
	if !ok {
		return "?"
	}
	t := fa.X.Type()
	if p, ok := t.Underlying().(*types.Pointer); ok {
		t = p.Elem()
	}
	n, ok := t.(*types.Named)
	if !ok || n.Obj().Pkg() == nil {
		return "?"
	}
	return n.Obj().Pkg().Name() + "." + n.Obj().Name() + "." + fieldNameOf(fa)
}

// checkWiring: the node hands the application to Tendermint through the local client creator
// (one mutex for all ABCI connections), which is what makes CheckTx a non-concurrent reader.
func checkWiring(c *core.Ctx, rule string) {
	found := false
	var pos token.Pos
	for _, fn := range c.SrcFuncs("cmd/minter/cmd") {
		for _, s := range core.Sites(fn) {
			if strings.HasSuffix(s.Callee, "proxy.NewLocalClientCreator") {
				found = true
				pos = s.Pos()
			}
			if strings.Contains(s.Callee, "proxy.NewRemoteClientCreator") || strings.Contains(s.Callee, "proxy.DefaultClientCreator") || strings.Contains(s.Callee, "NewUnsyncLocalClientCreator") {
				c.Bad(rule, "abci-client/"+s.Callee, s.Pos(), "the application is not (only) served through the mutex-serialised local ABCI client: CheckTx may then run concurrently with block execution and must be analysed as a concurrent reader")
			}
		}
	}
	c.Check(found, rule, "abci-client/local", pos, "node wires the app with proxy.NewLocalClientCreator (all ABCI connections share one mutex)", "proxy.NewLocalClientCreator not found: the assumption that CheckTx is serialised with block execution no longer holds")
}

var lockLeakExempt = map[string]string{
	"(*coreV2/state.State).Lock":  "explicit lock API: the caller pairs it with State.Unlock",
	"(*coreV2/state.State).RLock": "explicit lock API: the caller pairs it with State.RUnlock",
}

var apiMutatorExempt = map[string]string{}

func isConstructor(fn *ssa.Function) bool {
	n := fn.Name()
	return strings.HasPrefix(n, "New") || strings.HasPrefix(n, "new") || n == "init"
}

func locksetAtEnd(info *core.LockInfo, b *ssa.BasicBlock) core.LockSet {
	cur := core.LockSet{}
	for k, v := range info.In[b] {
		cur[k] = v
	}
	for _, ins := range b.Instrs {
		ci, ok := ins.(ssa.CallInstruction)
		if !ok {
			continue
		}
		if _, isDefer := ins.(*ssa.Defer); isDefer {
			continue
		}
		name := core.CalleeName(ci.Common())
		s := &core.Site{Instr: ci, Common: ci.Common(), Callee: name}
		p := core.LockKey(s.Recv())
		switch name {
		case "(*sync.Mutex).Lock", "(*sync.RWMutex).Lock":
			cur[p] = 'W'
		case "(*sync.RWMutex).RLock":
			if cur[p] != 'W' {
				cur[p] = 'R'
			}
		case "(*sync.Mutex).Unlock", "(*sync.RWMutex).Unlock", "(*sync.RWMutex).RUnlock":
			delete(cur, p)
		}
	}
	return cur
}

// acquiresDeep: acquisitions of fn and of the methods it calls on its own receiver (depth-bounded).
func acquiresDeep(fn *ssa.Function, acquires map[*ssa.Function][]core.LockAcq, depth int) []core.LockAcq {
	out := append([]core.LockAcq{}, acquires[fn]...)
	if depth == 0 || len(fn.Params) == 0 {
		return out
	}
	self := fn.Params[0]
	for _, s := range core.Sites(fn) {
		callee := s.Common.StaticCallee()
		if callee == nil || callee == fn || callee.Signature.Recv() == nil || len(s.Common.Args) == 0 {
			continue
		}
		if _, isGo := s.Instr.(*ssa.Go); isGo {
			continue
		}
		if core.Unwrap(s.Common.Args[0]) != ssa.Value(self) {
			continue
		}
		if len(callee.Params) == 0 {
			continue
		}
		cn := core.ParamName(callee.Params[0])
		for _, a := range acquiresDeep(callee, acquires, depth-1) {
			if strings.HasPrefix(a.Op.Path, cn+".") {
				na := a
				na.Op.Path = core.ParamName(self) + strings.TrimPrefix(a.Op.Path, cn)
				out = append(out, na)
			}
		}
	}
	return out
}
