package rules

import (
	"fmt"
	"go/token"
	"sort"
	"strings"

	"golang.org/x/tools/go/ssa"

	"verif/internal/core"
)

func init() {
	register(&RuleSet{
		Meta: core.PropertyMeta{
			ID: "C09",
			Explanation: "Decides cache-coherence of the application DB and the block-level volatile state, the structural part of 'a restarted node continues like one that never stopped': " +
				"(dirty) for every cached record field of appdb.AppDB, each saver's skip guard reads only flags that EVERY mutator of that field sets (otherwise a restarted process — whose flags start false — silently stops persisting the record); " +
				"(reach) every saver of a field that block execution can mutate is called from Blockchain.Commit (InitChain-only fields: from InitChain); (keys) the saver and the loader of a record use the same key constant; " +
				"(volatile) every non-persisted field of minter.Blockchain read on a consensus path is either rebuilt by initState/constructor, block-local (assigned in BeginBlock/EndBlock/Commit before use), or configuration; an unclassified field fails. " +
				"(boot) the constructor rebuilds the state (initState) at start-up unconditionally or under a witness that InitChain sets to a non-zero value for every legal genesis — it does not (known finding: initial_height 1); " +
				"NOT decided: that reloaded values equal the in-memory ones (order-book lists, stake caches), iavl behaviour.",
			Assumptions: stdAssumptions,
			Rules:       []string{"C09.dirty", "C09.reach", "C09.keys", "C09.volatile", "C09.dirtycover", "C09.attach", "C09.evict", "C09.boot", "C09.lazy", "C09.persist", "C09.precommit"},
		},
		Run: runC09,
	})
}

// appField describes how one AppDB data field is saved, loaded and mutated.
type appField struct {
	Name     string
	Savers   []*dbAccess
	Loaders  []*dbAccess
	Mutators map[*ssa.Function]ssa.Instruction
}

func analyseAppFields(c *core.Ctx, f *appDBFacts) []*appField {
	var out []*appField
	for _, d := range f.dataFields() {
		af := &appField{Name: d, Mutators: map[*ssa.Function]ssa.Instruction{}}
		for _, a := range f.Accesses {
			if a.Write && a.Key != "" && dependsOnAppField(a.Site.Arg(1), d) {
				af.Savers = append(af.Savers, a)
			}
		}
		// writes of the field
		for _, fn := range f.Methods {
			var gets []*dbAccess
			for _, a := range f.Accesses {
				if a.Fn == fn && !a.Write {
					gets = append(gets, a)
				}
			}
			// a loader written as a call of a helper that reads the key and fills the cell it is
			// given: loadUint64(startHeightPath, &appDB.startHeight)
			for _, g := range gets {
				if g.Site.Common.IsInvoke() {
					continue
				}
				for _, a := range g.Site.Common.Args {
					if fa, ok := core.Unwrap(a).(*ssa.FieldAddr); ok && fieldNameOf(fa) == d && isAppDBPtr(fa.X.Type()) {
						af.Loaders = append(af.Loaders, g)
					}
				}
			}
			for _, b := range fn.Blocks {
				for _, in := range b.Instrs {
					var val ssa.Value
					var addr ssa.Value
					switch x := in.(type) {
					case *ssa.Store:
						addr, val = x.Addr, x.Val
					case *ssa.Call:
						// atomic.StoreUint64(&appDB.f, v)
						if n := core.CalleeName(core.NormCall(&x.Call)); strings.HasPrefix(n, "sync/atomic.Store") && len(core.NormCall(&x.Call).Args) == 2 {
							addr, val = core.NormCall(&x.Call).Args[0], core.NormCall(&x.Call).Args[1]
						} else if len(core.NormCall(&x.Call).Args) >= 2 && (strings.HasSuffix(n, ".Unmarshal") || strings.HasSuffix(n, ".DecodeBytes")) {
							// decode straight into the field: tmjson.Unmarshal(result, &appDB.f)
							addr, val = core.Unwrap(core.NormCall(&x.Call).Args[1]), core.NormCall(&x.Call).Args[0]
						}
					}
					fa, ok := addr.(*ssa.FieldAddr)
					if !ok || fieldNameOf(fa) != d || !isAppDBPtr(fa.X.Type()) {
						continue
					}
					// loader store: value derives from a db.Get in this function
					fromGet := false
					for _, g := range gets {
						gv := g.Site.Value()
						if gv != nil && core.DependsOn(val, func(x ssa.Value) bool { return x == gv }) {
							fromGet = true
							af.Loaders = append(af.Loaders, g)
						}
					}
					if _, fresh := core.Unwrap(val).(*ssa.Alloc); !fromGet && len(gets) > 0 && fresh {
						// rlp.DecodeBytes(result, appDB.price) after `appDB.price = &TimePrice{}`:
						// a store of a fresh empty record in a function that reads the key is part
						// of loading when the field is subsequently passed to a decoder
						for _, s := range core.Sites(fn) {
							if strings.HasSuffix(s.Callee, ".DecodeBytes") || strings.HasSuffix(s.Callee, ".Unmarshal") {
								if a1 := s.Arg(1); a1 != nil && dependsOnAppField(a1, d) {
									for _, g := range gets {
										gv := g.Site.Value()
										if gv != nil && core.DependsOn(s.Arg(0), func(x ssa.Value) bool { return x == gv }) {
											fromGet = true
											af.Loaders = append(af.Loaders, g)
										}
									}
								}
							}
						}
					}
					if fromGet {
						continue
					}
					if fn.Name() == "NewAppDB" {
						continue
					}
					af.Mutators[fn] = in
					// write-through: the same function stores a value derived from the same
					// parameter under a constant key
					for _, a := range f.Accesses {
						if a.Fn != fn || !a.Write || a.Key == "" {
							continue
						}
						for _, p := range fn.Params {
							p := p
							isP := func(x ssa.Value) bool { return x == ssa.Value(p) }
							if core.DependsOn(val, isP) && core.DependsOn(a.Site.Arg(1), isP) {
								dup := false
								for _, s := range af.Savers {
									if s == a {
										dup = true
									}
								}
								if !dup {
									af.Savers = append(af.Savers, a)
								}
							}
						}
					}
				}
			}
		}
		if len(af.Savers) == 0 && len(af.Mutators) == 0 && len(af.Loaders) == 0 {
			continue
		}
		out = append(out, af)
	}
	return out
}

func runC09(c *core.Ctx) {
	defer checkDirtyCover(c, "C09.dirtycover")
	defer checkSymbolInfoAttach(c, "C09.attach")
	defer checkEvict(c, "C09.evict")
	defer checkNoCacheDropInCommit(c, "C09.precommit")
	defer checkBoot(c, "C09.boot")
	defer checkLazyLoad(c, "C09.lazy")
	defer checkPersistAll(c, "C09.persist")
	f := loadAppDB(c)
	if f == nil {
		c.Unk("C09.dirty", "appdb.AppDB", token.NoPos, "type not found")
		return
	}
	fields := analyseAppFields(c, f)
	flags := f.flagFields()
	nDirty := 0
	for _, af := range fields {
		saverFns := map[*ssa.Function]bool{}
		for _, s := range af.Savers {
			saverFns[s.Fn] = true
		}
		// real mutators: not the saver resetting its own cache
		var muts []*ssa.Function
		for m := range af.Mutators {
			if saverFns[m] {
				continue
			}
			muts = append(muts, m)
		}
		sort.Slice(muts, func(i, j int) bool { return muts[i].String() < muts[j].String() })
		if len(muts) > 0 && len(af.Savers) == 0 {
			c.Bad("C09.dirty", "AppDB."+af.Name+"/no-saver", muts[0].Pos(), fmt.Sprintf("field %s is mutated (%s) but no method writes it to the store", af.Name, core.ShortFn(muts[0])))
			continue
		}
		for _, s := range af.Savers {
			// guard flags of this saver
			guards := map[string]bool{}
			for _, g := range core.GatesBefore(s.Site.Instr) {
				for _, fl := range flags {
					if dependsOnAppField(g.If.Cond, fl) {
						guards[fl] = true
					}
				}
			}
			if len(guards) == 0 {
				nDirty++
				c.OK("C09.dirty", fmt.Sprintf("AppDB.%s/saver:%s", af.Name, s.Fn.Name()), s.Site.Pos(), "saver writes unconditionally (or guarded only by the record itself)")
				continue
			}
			var gl []string
			for g := range guards {
				gl = append(gl, g)
			}
			sort.Strings(gl)
			for _, g := range gl {
				for _, m := range muts {
					nDirty++
					sets := false
					for _, b := range m.Blocks {
						for _, in := range b.Instrs {
							st, ok := in.(*ssa.Store)
							if !ok {
								continue
							}
							fa, ok := st.Addr.(*ssa.FieldAddr)
							if !ok || fieldNameOf(fa) != g || !isAppDBPtr(fa.X.Type()) {
								continue
							}
							if k, ok := core.Unwrap(st.Val).(*ssa.Const); ok && k.Value != nil && k.Value.String() == "true" {
								sets = true
							}
						}
					}
					key := fmt.Sprintf("AppDB.%s/saver:%s/guard:%s/mutator:%s", af.Name, s.Fn.Name(), g, m.Name())
					c.Check(sets, "C09.dirty", key, af.Mutators[m].Pos(),
						fmt.Sprintf("%s sets %s, which %s tests before writing", m.Name(), g, s.Fn.Name()),
						fmt.Sprintf("%s skips the write unless %s is set, but %s changes %s without setting it: after a restart (flags start false) the change stays in memory only and is lost by the next restart", s.Fn.Name(), g, m.Name(), af.Name))
				}
			}
		}
	}
	c.Floor("C09.dirty", nDirty, 6, "saver/guard/mutator combinations of AppDB")

	// ---- keys
	nKeys := 0
	for _, af := range fields {
		if len(af.Savers) == 0 || len(af.Loaders) == 0 {
			continue
		}
		sk, lk := map[string]bool{}, map[string]bool{}
		for _, s := range af.Savers {
			sk[s.Key] = true
		}
		for _, l := range af.Loaders {
			lk[l.Key] = true
		}
		same := len(sk) == 1 && len(lk) == 1
		for k := range sk {
			if !lk[k] {
				same = false
			}
		}
		nKeys++
		c.Check(same, "C09.keys", "AppDB."+af.Name, af.Savers[0].Site.Pos(), fmt.Sprintf("saved and loaded under the same key %v", keysOf(sk)), fmt.Sprintf("saved under %v but loaded from %v", keysOf(sk), keysOf(lk)))
	}
	c.Floor("C09.keys", nKeys, 5, "AppDB records with saver and loader")

	// ---- reach
	commit := c.MustFn("C09.reach", "(*coreV2/minter.Blockchain).Commit")
	initChain := c.MustFn("C09.reach", "(*coreV2/minter.Blockchain).InitChain")
	if commit != nil && initChain != nil {
		cg := c.CG()
		entries := map[string]*ssa.Function{}
		for _, n := range []string{"BeginBlock", "DeliverTx", "EndBlock", "Commit"} {
			entries[n] = c.Fn("(*coreV2/minter.Blockchain)." + n)
		}
		var blockRoots []*ssa.Function
		for _, e := range entries {
			if e != nil {
				blockRoots = append(blockRoots, e)
			}
		}
		blockReach := cg.Reachable(blockRoots, nil)
		calledFrom := func(root *ssa.Function) map[string]bool {
			out := map[string]bool{}
			for _, s := range c.GroupSites(root) {
				out[s.Callee] = true
			}
			return out
		}
		inCommit, inInit := calledFrom(commit), calledFrom(initChain)
		nReach := 0
		for _, af := range fields {
			var muts []*ssa.Function
			for m := range af.Mutators {
				muts = append(muts, m)
			}
			sort.Slice(muts, func(i, j int) bool { return muts[i].String() < muts[j].String() })
			perBlock := false
			var via *ssa.Function
			for _, m := range muts {
				if _, ok := blockReach[m]; ok {
					perBlock = true
					via = m
				}
			}
			for _, s := range af.Savers {
				name := core.ShortFn(s.Fn)
				nReach++
				key := fmt.Sprintf("AppDB.%s/saver:%s", af.Name, s.Fn.Name())
				if perBlock {
					if af.Mutators[s.Fn] != nil && len(muts) == 1 {
						c.OK("C09.reach", key, s.Site.Pos(), "the only mutator writes through to the store itself")
						continue
					}
					c.Check(inCommit[name], "C09.reach", key, s.Site.Pos(),
						fmt.Sprintf("field is mutated during block execution (%s) and its saver is called from Commit", core.PathTo(blockReach, via)),
						fmt.Sprintf("field is mutated during block execution (%s) but Blockchain.Commit never calls %s", core.PathTo(blockReach, via), s.Fn.Name()))
				} else {
					c.Check(inInit[name] || inCommit[name], "C09.reach", key, s.Site.Pos(), "mutated only at genesis; saver called from InitChain", "saver is never called from InitChain or Commit")
				}
			}
		}
		c.Floor("C09.reach", nReach, 6, "AppDB savers")
	}
	checkVolatile(c, "C09.volatile")
}

func keysOf(m map[string]bool) []string {
	var out []string
	for k := range m {
		out = append(out, k)
	}
	sort.Strings(out)
	return out
}

// volatileClass is the confirmed classification of minter.Blockchain's fields: how each survives
// (or does not need to survive) a restart. The rule verifies the structural part of each class.
var volatileClass = map[string]string{
	"BaseApplication":                 "config",
	"logger":                          "config",
	"executor":                        "rebuilt",    // initState: GetExecutor per stored version
	"statisticData":                   "config",     // observability only
	"appDB":                           "config",     // handle
	"eventsDB":                        "config",     // handle
	"stateDeliver":                    "rebuilt",    // initState
	"stateCheck":                      "rebuilt",    // initState
	"height":                          "rebuilt",    // initState from appDB.GetLastHeight
	"rewards":                         "blocklocal", // zeroed in BeginBlock
	"lockValidators":                  "config",
	"validatorsStatuses":              "blocklocal", // reassigned in BeginBlock
	"validatorsPowers":                "blocklocal", // calculatePowers in BeginBlock
	"totalPower":                      "blocklocal", // calculatePowers in BeginBlock
	"rewardsCounter":                  "config",     // constant table
	"updateStakesAndPayRewardsPeriod": "config",
	"expiredOrdersPeriod":             "config",
	"rpcClient":                       "config",
	"tmNode":                          "config",
	"currentMempool":                  "blocklocal", // CheckTx only; reset in Commit
	"haltHeight":                      "config",
	"cfg":                             "config",
	"storages":                        "config",
	"stopChan":                        "config",
	"stopped":                         "config",  // process-lifetime flag
	"grace":                           "rebuilt", // initState from stored versions
	"knownUpdates":                    "config",
	"stopOk":                          "config",
	"snapshotManager":                 "config",
	"snapshotInterval":                "config",
	"snapshotKeepRecent":              "config",
	"snapshotter":                     "config",
	"wgSnapshot":                      "config",
}

func checkVolatile(c *core.Ctx, rule string) {
	bc := c.Named(core.PkgMint, "Blockchain")
	if bc == nil {
		c.Unk(rule, "minter.Blockchain", token.NoPos, "type not found")
		return
	}
	initState := c.Fn("(*coreV2/minter.Blockchain).initState")
	ctor := c.Fn("coreV2/minter.NewMinterBlockchain")
	begin := c.Fn("(*coreV2/minter.Blockchain).BeginBlock")
	commit := c.Fn("(*coreV2/minter.Blockchain).Commit")
	calc := c.Fn("(*coreV2/minter.Blockchain).calculatePowers")
	if initState == nil || ctor == nil || begin == nil || commit == nil {
		c.Unk(rule, "anchors", token.NoPos, "initState/NewMinterBlockchain/BeginBlock/Commit not found")
		return
	}
	writesIn := func(field string, fns ...*ssa.Function) bool {
		for _, w := range c.FieldWrites(bc, field) {
			for _, fn := range fns {
				if fn != nil && (w.Fn == fn || c.GroupRoot(w.Fn) == fn) {
					return true
				}
			}
		}
		// atomic stores
		for _, r := range c.FieldRefs(bc, field) {
			if r.Addr == nil {
				continue
			}
			for _, ref := range *r.Addr.Referrers() {
				if call, ok := ref.(*ssa.Call); ok && strings.HasPrefix(core.CalleeName(core.NormCall(&call.Call)), "sync/atomic.Store") {
					for _, fn := range fns {
						if r.Fn == fn || (fn != nil && c.GroupRoot(r.Fn) == fn) {
							return true
						}
					}
				}
			}
		}
		return false
	}
	n := 0
	for _, fld := range core.StructFields(bc) {
		n++
		cls, ok := volatileClass[fld]
		key := "Blockchain." + fld
		if !ok {
			c.Bad(rule, key, bc.Obj().Pos(), "field is not classified (persisted / rebuilt on load / block-local / configuration): an in-memory value read by block execution that a restart would lose breaks restart equivalence")
			continue
		}
		switch cls {
		case "config":
			// must not be written by block-execution code except constructor/setters
			bad := ""
			for _, w := range c.FieldWrites(bc, fld) {
				switch w.Fn.Name() {
				case "BeginBlock", "EndBlock", "DeliverTx":
					bad = core.ShortFn(w.Fn)
				}
			}
			c.Check(bad == "", rule, key, bc.Obj().Pos(), "configuration/handle: never assigned by BeginBlock/DeliverTx/EndBlock", "classified as configuration but assigned during block execution in "+bad)
		case "rebuilt":
			c.Check(writesIn(fld, initState, ctor), rule, key, initState.Pos(), "assigned by initState/constructor from persisted data on every start", "classified as rebuilt-on-load but neither initState nor the constructor assigns it")
		case "blocklocal":
			okw := writesIn(fld, begin, commit, calc, ctor)
			if !okw {
				// in-place reset: blockchain.rewards.SetInt64(0) in BeginBlock
				for _, s := range core.Sites(begin) {
					if s.Callee == "(*math/big.Int).SetInt64" && strings.HasSuffix(core.Path(s.Recv()), "."+fld) {
						okw = true
					}
				}
			}
			// the reset must be a reset: a store that only happens when the field is still unset
			// (`if f == nil { f = make(…) }`) initialises once and keeps the previous block's content
			lazy, nW := true, 0
			for _, w := range c.FieldWrites(bc, fld) {
				if root := c.GroupRoot(w.Fn); w.Fn != begin && w.Fn != commit && w.Fn != calc && root != begin && root != commit && root != calc {
					continue
				}
				nW++
				all := true
				for _, g := range core.GatesBefore(w.Instr) {
					if core.DependsOn(g.If.Cond, func(v ssa.Value) bool {
						fa, ok := v.(*ssa.FieldAddr)
						return ok && fieldNameOf(fa) == fld
					}) {
						all = false
					}
				}
				if all {
					lazy = false // an unconditional (not self-gated) reset exists
				}
			}
			if nW == 0 {
				lazy = false // reset in place (SetInt64) or by atomic store: handled by okw
			}
			c.Check(okw && !lazy, rule, key, begin.Pos(), "block-local: (re)assigned in BeginBlock/Commit before use", "classified as block-local but BeginBlock/Commit do not reset it on every block (the assignment is missing, or happens only while the field is still unset): it carries the previous block's content into the next block — and nothing after a restart")
		}
	}
	c.Floor(rule, n, 30, "fields of minter.Blockchain")
	// rebuilt fields that are ALSO updated while running (grace periods, executor): the running
	// update and the rebuild on restart must be the same function of the same persisted data —
	// here the (name, height) pair handed to appDB.AddVersion
	end := c.Fn("(*coreV2/minter.Blockchain).EndBlock")
	if end != nil {
		var addV, graceRun, execRun *core.Site
		for _, s := range c.GroupSites(end) {
			switch {
			case s.Callee == "(*coreV2/appdb.AppDB).AddVersion":
				addV = s
			case s.Callee == "coreV2/minter.graceForUpdate":
				graceRun = s
			case s.Callee == "coreV2/minter.GetExecutor":
				execRun = s
			}
		}
		var graceInit, execInit *core.Site
		for _, s := range c.GroupSites(initState) {
			switch {
			case s.Callee == "coreV2/minter.graceForUpdate":
				graceInit = s
			case s.Callee == "coreV2/minter.GetExecutor":
				execInit = s
			}
		}
		if addV == nil || graceRun == nil || execRun == nil || graceInit == nil || execInit == nil {
			c.Unk(rule, "rebuild-consistency/shape", end.Pos(), "AddVersion / graceForUpdate / GetExecutor not all found in EndBlock and initState")
		} else {
			c.Check(core.SameValue(graceRun.Arg(0), addV.Arg(1)), rule, "rebuild-consistency/grace-running", graceRun.Pos(), "the running node derives the update's grace period from the height it persists with the version", "EndBlock registers the grace period for "+core.Path(graceRun.Arg(0))+" but persists the version with height "+core.Path(addV.Arg(1))+": a restarted node rebuilds a different grace window")
			c.Check(strings.HasSuffix(core.Path(graceInit.Arg(0)), ".Height") && strings.Contains(core.Path(graceInit.Arg(0)), "UpdateVersions()"), rule, "rebuild-consistency/grace-restart", graceInit.Pos(), "initState rebuilds each grace period from the stored version's height", "initState rebuilds grace periods from "+core.Path(graceInit.Arg(0)))
			c.Check(core.SameValue(execRun.Arg(0), addV.Arg(0)), rule, "rebuild-consistency/executor-running", execRun.Pos(), "the running node selects the executor from the version name it persists", "EndBlock selects the executor from a value other than the persisted version name")
			c.Check(strings.HasSuffix(core.Path(execInit.Arg(0)), ".Name") && strings.Contains(core.Path(execInit.Arg(0)), "UpdateVersions()"), rule, "rebuild-consistency/executor-restart", execInit.Pos(), "initState selects the executor from the stored version names", "initState selects the executor from "+core.Path(execInit.Arg(0)))
		}
	}
}
