package rules

import (
	"fmt"
	"go/constant"
	"go/token"
	"go/types"
	"math/big"
	"strings"

	"golang.org/x/tools/go/ssa"

	"verif/internal/core"
)

func init() {
	register(&RuleSet{
		Meta: core.PropertyMeta{
			ID: "C28",
			Explanation: "The 350·p^¼ formula, the −10 % rule and the recovery steps are arithmetic inside AppDB.UpdatePrice* and are NOT decided. Decided, the cap / window / burn skeleton: " +
				"(cap) the emission cap constant is 10^10 BIP (10^28 pip); in BeginBlock the reward is re-priced and SetReward(new…) is reached only under `Emission() < TotalEmissionBig()`, and the other branch sets the reward to (0, 0); in EndBlock the block reward is read from the state only under the same comparison, and the emission counter is advanced only on that branch; " +
				"(window) on every path to the re-pricing call in BeginBlock the block height satisfies height mod period == 1 and either no price was ever recorded or the block's header time has 12 ≤ hour ≤ 14 and header time − previous update > 3 h (constants evaluated), all times being req.Header.Time (C08.source separately forbids the wall clock); " +
				"(round) the whole-percent price change that is compared with −10 is computed with big.Int.Div (rounds down), not Quo (truncates); (mint) EndBlock advances the emission counter by App().Reward()'s per-block value, credits the positive difference between that value and the validators' reward to the zero address (the withheld part is burned), includes the difference in `reward`, and reports `reward` as the base-coin volume minted.",
			Assumptions: stdAssumptions,
			Rules:       []string{"C28.cap", "C28.window", "C28.mint", "C28.round", "C28.store", "C28.fresh"},
		},
		Run: runC28,
	})
}

// capFact: the fact list contains Emission().Cmp(TotalEmissionBig()) == -1 with the given truth.
func capFact(facts []core.Fact, want bool) bool {
	for _, f := range facts {
		cf, ok := f.AsCall()
		if !ok || cf.MethodName() != "Cmp" {
			continue
		}
		lt := (cf.Op == token.EQL && cf.Const == -1) || (cf.Op == token.LSS && cf.Const == 0)
		if !lt {
			continue
		}
		recv, arg := cf.RecvPath(), cf.ArgPath(0)
		if (strings.HasSuffix(recv, ".Emission()") || strings.Contains(recv, "Emission()")) && strings.HasSuffix(arg, ".TotalEmissionBig()") && f.Truth == want {
			return true
		}
	}
	return false
}

func runC28(c *core.Ctx) {
	defer checkRewardStore(c, "C28.store")
	defer checkEmissionFresh(c, "C28.fresh")
	// ---- the constant
	if p := c.PkgBy["coreV2/rewards"]; p != nil {
		k, ok := p.Types.Scope().Lookup("TotalEmission").(*types.Const)
		good := false
		if ok && k.Val().Kind() == constant.String {
			want := new(big.Int).Exp(big.NewInt(10), big.NewInt(28), nil)
			got, ok2 := new(big.Int).SetString(constant.StringVal(k.Val()), 10)
			good = ok2 && got.Cmp(want) == 0
		}
		c.Check(good, "C28.cap", "rewards.TotalEmission", token.NoPos, "emission cap constant is 10^28 pip (10 billion BIP)", "the emission cap constant is not 10^10 BIP")
	} else {
		c.Unk("C28.cap", "rewards.TotalEmission", token.NoPos, "package coreV2/rewards not loaded")
	}
	if rt := c.Named("coreV2/rewards", "Reward"); rt != nil {
		if fn := c.Method(rt, "TotalEmissionBig"); fn != nil {
			good := true
			for _, r := range core.Returns(fn) {
				if !strings.HasSuffix(core.Path(r.Results[0]), ".totalEmissionBig") {
					good = false
				}
			}
			// the field is set only by the constructor from the constant
			n := 0
			for _, w := range c.FieldWrites(rt, "totalEmissionBig") {
				n++
				if st, ok := w.Instr.(*ssa.Store); ok {
					okc := false
					if call, ok := core.Unwrap(st.Val).(*ssa.Call); ok && core.CalleeName(core.NormCall(&call.Call)) == "helpers.StringToBigInt" {
						if k, ok := core.NormCall(&call.Call).Args[0].(*ssa.Const); ok && k.Value != nil && strings.Contains(k.Value.ExactString(), "10000000000000000000000000000") {
							okc = true
						}
					}
					if !okc {
						good = false
					}
				}
			}
			c.Check(good && n == 1, "C28.cap", "Reward.TotalEmissionBig", fn.Pos(), "returns the field set once from the TotalEmission constant", "TotalEmissionBig no longer returns the constant cap")
		}
	}

	begin := c.MustFn("C28.cap", "(*coreV2/minter.Blockchain).BeginBlock")
	end := c.MustFn("C28.cap", "(*coreV2/minter.Blockchain).EndBlock")
	if begin != nil {
		// the block that prices the reward may live in a helper that only BeginBlock calls
		target := begin
		for _, h := range c.Helpers(begin) {
			for _, s := range core.Sites(h) {
				if methodName(s) == "SetReward" {
					target = h
				}
			}
		}
		checkBeginReward(c, target)
	}
	if end != nil {
		checkEndMint(c, end)
	}
	checkPercentRounding(c, "C28.round")
}

func checkBeginReward(c *core.Ctx, fn *ssa.Function) {
	var upd ssa.Instruction // call of the selected UpdatePrice function value
	var sets []*core.Site
	for _, s := range core.Sites(fn) {
		if methodName(s) == "SetReward" {
			sets = append(sets, s)
		}
		if call, ok := s.Instr.(*ssa.Call); ok && s.Common.StaticCallee() == nil && !s.Common.IsInvoke() {
			if _, isBuiltin := s.Common.Value.(*ssa.Builtin); !isBuiltin && s.Common.Signature().Results().Len() == 2 && s.Common.Signature().Params().Len() == 3 {
				upd = call
			}
		}
	}
	if upd == nil || len(sets) != 2 {
		c.Unk("C28.cap", "BeginBlock/shape", fn.Pos(), fmt.Sprintf("re-pricing call found=%v, %d SetReward calls (expected 2)", upd != nil, len(sets)))
		return
	}
	var setNew, setZero *core.Site
	for _, s := range sets {
		if isBigZero(s.Arg(0)) && isBigZero(s.Arg(1)) {
			setZero = s
		} else {
			setNew = s
		}
	}
	if setNew == nil || setZero == nil {
		c.Bad("C28.cap", "BeginBlock/branches", fn.Pos(), "BeginBlock no longer has one SetReward(new) and one SetReward(0, 0)")
		return
	}
	c.Check(capFact(c.FactsAt(upd, 1), true) && capFact(c.FactsAt(setNew.Instr, 1), true), "C28.cap", "BeginBlock/reprice-under-cap", setNew.Pos(), "re-pricing and SetReward(new) only while Emission() < TotalEmissionBig()", "the reward can be re-priced although the emission cap is reached")
	c.Check(capFact(c.FactsAt(setZero.Instr, 1), false), "C28.cap", "BeginBlock/zero-at-cap", setZero.Pos(), "at or above the cap the reward is set to (0, 0)", "the reward is not zeroed once the emission cap is reached")
	// the values stored are the re-pricing results
	c.Check(extractOf(setNew.Arg(0), upd.(ssa.Value), 0) && extractOf(setNew.Arg(1), upd.(ssa.Value), 1), "C28.cap", "BeginBlock/new-values", setNew.Pos(), "SetReward receives exactly the two results of the re-pricing function", "SetReward(new) is not fed with the re-pricing results")
	// the re-pricing function is one of AppDB.UpdatePrice*
	okFn := true
	var fnOrigins []ssa.Value
	for _, o := range core.Origins(upd.(*ssa.Call).Call.Value) {
		// chosen by a helper of the package (`priceUpdater(height)`): what that helper returns
		if call, ok := o.(*ssa.Call); ok {
			if h := call.Call.StaticCallee(); h != nil && h.Blocks != nil && core.PkgOf(h) == core.PkgOf(fn) {
				fnOrigins = append(fnOrigins, core.ResultOrigins(h, 0)...)
				continue
			}
		}
		fnOrigins = append(fnOrigins, o)
	}
	for _, o := range fnOrigins {
		name := ""
		switch x := o.(type) {
		case *ssa.MakeClosure:
			if f, ok := x.Fn.(*ssa.Function); ok {
				name = f.Name()
			}
		case *ssa.Function:
			name = x.Name()
		}
		if !strings.HasPrefix(name, "UpdatePrice") {
			okFn = false
		}
	}
	c.Check(okFn, "C28.cap", "BeginBlock/reprice-fn", upd.Pos(), "the re-pricing function is AppDB.UpdatePrice*", "the reward is re-priced by something other than AppDB.UpdatePrice*")

	// ---- window: path rule
	paths, ok := core.PathsTo(upd, 5000)
	if !ok {
		c.Unk("C28.window", "BeginBlock/paths", upd.Pos(), "too many paths to the re-pricing call")
		return
	}
	bad := ""
	n := 0
	for _, p := range paths {
		if !pathConsistent(p) {
			continue
		}
		n++
		var mod1, isZero, h12, h14, gap bool
		for _, e := range p.Edges {
			cond, truth := e.If.Cond, e.Taken
			switch x := cond.(type) {
			case *ssa.BinOp:
				k, _ := core.ConstInt(x.Y)
				switch {
				case x.Op == token.EQL && truth && k == 1 && isRemOfHeight(x.X):
					mod1 = true
				case isHeaderHour(c, x.X) && x.Op == token.GEQ && truth && k == 12, isHeaderHour(c, x.X) && x.Op == token.GTR && truth && k == 11, isHeaderHour(c, x.X) && x.Op == token.LSS && !truth && k == 12:
					h12 = true
				case isHeaderHour(c, x.X) && x.Op == token.LEQ && truth && k == 14, isHeaderHour(c, x.X) && x.Op == token.LSS && truth && k == 15, isHeaderHour(c, x.X) && x.Op == token.GTR && !truth && k == 14:
					h14 = true
				case x.Op == token.GTR && truth && k == 3*3600*1e9 && isHeaderSub(c, x.X):
					gap = true
				}
			case *ssa.Call:
				if methodNameOfCall(x) == "IsZero" && truth {
					isZero = true
				}
			}
		}
		if !(mod1 && (isZero || (h12 && h14 && gap))) {
			bad = fmt.Sprintf("path through blocks %s: height%%period==1:%v never-priced:%v hour≥12:%v hour≤14:%v gap>3h:%v", blockList(p), mod1, isZero, h12, h14, gap)
			break
		}
	}
	c.Check(bad == "" && n > 0, "C28.window", "BeginBlock/window", upd.Pos(), fmt.Sprintf("%d feasible paths to the re-pricing call, each with height mod period == 1 and (never priced, or 12 ≤ header hour ≤ 14 and header time − last update > 3 h)", n),
		"the reward can be re-priced outside its window: "+bad)
}

func isRemOfHeight(v ssa.Value) bool {
	bin, ok := core.Unwrap(v).(*ssa.BinOp)
	return ok && bin.Op == token.REM && strings.HasSuffix(core.Path(bin.Y), ".updateStakesAndPayRewardsPeriod")
}

// isHeaderTime: v is the Header.Time of the RequestBeginBlock being processed, read in place or
// handed down to a helper as an argument.
func isHeaderTime(c *core.Ctx, v ssa.Value) bool {
	v = c.CallerArg(v)
	if !strings.HasSuffix(core.Path(v), ".Header.Time") {
		return false
	}
	return core.DependsOn(v, func(o ssa.Value) bool {
		p, ok := o.(*ssa.Parameter)
		if !ok {
			return false
		}
		n := namedOf(p.Type())
		return n != nil && n.Obj().Name() == "RequestBeginBlock"
	})
}

func isHeaderHour(c *core.Ctx, v ssa.Value) bool {
	call, ok := core.Unwrap(v).(*ssa.Call)
	return ok && core.CalleeName(core.NormCall(&call.Call)) == "(time.Time).Hour" && isHeaderTime(c, core.NormCall(&call.Call).Args[0])
}

func isHeaderSub(c *core.Ctx, v ssa.Value) bool {
	call, ok := core.Unwrap(v).(*ssa.Call)
	if !ok || core.CalleeName(core.NormCall(&call.Call)) != "(time.Time).Sub" {
		return false
	}
	if !isHeaderTime(c, core.NormCall(&call.Call).Args[0]) {
		return false
	}
	// the subtrahend is the first result of GetPrice()
	for _, o := range core.Origins(core.NormCall(&call.Call).Args[1]) {
		if ex, ok := o.(*ssa.Extract); ok && ex.Index == 0 {
			if cc, ok := ex.Tuple.(*ssa.Call); ok && methodNameOfCall(cc) == "GetPrice" {
				return true
			}
		}
	}
	return false
}

func checkEndMint(c *core.Ctx, fn *ssa.Function) {
	// reads of the reward
	var reads []*core.Site
	for _, s := range core.Sites(fn) {
		if methodName(s) == "Reward" && s.Value() != nil && s.Value().Type().String() != "" && strings.Contains(s.Callee, "App") {
			reads = append(reads, s)
		}
	}
	if len(reads) != 2 {
		c.Unk("C28.mint", "EndBlock/shape", fn.Pos(), fmt.Sprintf("%d reads of App.Reward() (expected 2: validators' reward and per-block value)", len(reads)))
		return
	}
	first, second := reads[0], reads[1]
	if core.Dominates(second.Instr, first.Instr) {
		first, second = second, first
	}
	c.Check(capFact(c.FactsAt(first.Instr, 1), true), "C28.cap", "EndBlock/reward-under-cap", first.Pos(), "the block reward is read only while Emission() < TotalEmissionBig()", "a block reward is minted although the emission cap is reached")
	// the second read (and the emission advance) happens only when the flag set on the cap branch is set
	var setEm *core.Site
	for _, s := range core.Sites(fn) {
		if methodName(s) == "SetEmission" && s.Block() == second.Block() {
			setEm = s
		}
	}
	if setEm == nil {
		c.Bad("C28.mint", "EndBlock/emission-advance", second.Pos(), "the emission counter is not advanced next to the per-block reward read")
		return
	}
	// gate: heightFlag != MaxUint64 where heightFlag is a phi {MaxUint64, height} whose `height` edge comes from the cap branch
	flagOK := false
	for _, g := range core.GatesBefore(setEm.Instr) {
		bin, ok := g.If.Cond.(*ssa.BinOp)
		if !ok || !(bin.Op == token.NEQ && g.PassTrue || bin.Op == token.EQL && !g.PassTrue) {
			continue
		}
		ph, ok := core.Unwrap(bin.X).(*ssa.Phi)
		if !ok {
			continue
		}
		okEdges := true
		capEdge := false
		for i, e := range ph.Edges {
			if k, ok := e.(*ssa.Const); ok && k.Value != nil && k.Value.ExactString() == "18446744073709551615" {
				continue
			}
			pred := ph.Block().Preds[i]
			if capFact(c.FactsAt(pred.Instrs[len(pred.Instrs)-1], 1), true) || (len(pred.Instrs) > 0 && capEdgeBlock(c, pred)) {
				capEdge = true
			} else {
				okEdges = false
			}
		}
		if okEdges && capEdge {
			flagOK = true
		}
	}
	c.Check(flagOK, "C28.cap", "EndBlock/emission-under-cap", setEm.Pos(), "the emission counter advances only on blocks that took the below-cap branch", "the emission counter can advance although the cap branch was not taken")
	// amount: Emission() + second.#1
	amt := core.DependsOn(setEm.Arg(0), func(v ssa.Value) bool {
		ex, ok := v.(*ssa.Extract)
		return ok && ex.Tuple == second.Value() && ex.Index == 1
	}) && core.DependsOn(setEm.Arg(0), func(v ssa.Value) bool {
		call, ok := v.(*ssa.Call)
		return ok && methodNameOfCall(call) == "Emission"
	})
	c.Check(amt, "C28.mint", "EndBlock/emission-amount", setEm.Pos(), "emission += the per-block reward value read from the state", "the emission counter is not advanced by the state's per-block reward value")
	// burn of the withheld part: AddBalance(zero address, 0, diff) with diff = Sub(rewardForBlock, reward) under diff.Sign() == 1; reward.Add(reward, diff)
	var burn *core.Site
	for _, s := range core.Sites(fn) {
		if methodName(s) == "AddBalance" && core.ReachFrom(second.Block(), nil)[s.Block()] {
			if call, ok := core.Unwrap(s.Arg(2)).(*ssa.Call); ok && core.CalleeName(core.NormCall(&call.Call)) == "(*math/big.Int).Sub" {
				burn = s
			}
		}
	}
	if burn == nil {
		c.Bad("C28.mint", "EndBlock/burn", second.Pos(), "the withheld part of the block reward is no longer credited to the zero address")
		return
	}
	diff := core.Unwrap(burn.Arg(2)).(*ssa.Call)
	isRFB := func(v ssa.Value) bool {
		ex, ok := core.Unwrap(v).(*ssa.Extract)
		return ok && ex.Tuple == second.Value() && ex.Index == 1
	}
	isValReward := func(v ssa.Value) bool {
		for _, o := range core.Origins(v) {
			if ex, ok := o.(*ssa.Extract); ok && ex.Tuple == first.Value() && ex.Index == 0 {
				return true
			}
		}
		return false
	}
	zeroAddr := isZeroAggregate(burn.Arg(0))
	coinZero := false
	if k, ok := core.ConstInt(burn.Arg(1)); ok && k == 0 {
		coinZero = true
	}
	positive := false
	for _, f := range c.FactsAt(burn.Instr, 0) {
		if cf, ok := f.AsCall(); ok && cf.MethodName() == "Sign" && core.Unwrap(core.NormCall(&cf.Call.Call).Args[0]) == ssa.Value(diff) && cf.Op == token.EQL && cf.Const == 1 && f.Truth {
			positive = true
		}
	}
	c.Check(isRFB(core.NormCall(&diff.Call).Args[1]) && isValReward(core.NormCall(&diff.Call).Args[2]) && zeroAddr && coinZero && positive, "C28.mint", "EndBlock/burn", burn.Pos(),
		"AddBalance(zero address, base coin, perBlock − validatorsReward) only when that difference is positive", fmt.Sprintf("the burn of the withheld reward changed (minuend per-block:%v subtrahend validators' reward:%v zero address:%v base coin:%v positive gate:%v)", isRFB(core.NormCall(&diff.Call).Args[1]), isValReward(core.NormCall(&diff.Call).Args[2]), zeroAddr, coinZero, positive))
	// reward += diff ; AddCoinVolume(base, reward)
	added := false
	for _, s := range core.Sites(fn) {
		if s.Callee == "(*math/big.Int).Add" && s.Block() == burn.Block() && isValReward(s.Common.Args[0]) && core.Unwrap(s.Common.Args[2]) == ssa.Value(diff) {
			added = true
		}
	}
	vol := false
	for _, s := range core.Sites(fn) {
		if methodName(s) == "AddCoinVolume" && isValReward(s.Arg(1)) {
			vol = true
		}
	}
	c.Check(added && vol, "C28.mint", "EndBlock/minted-volume", burn.Pos(), "the burned part is included in `reward`, which is reported as minted base-coin volume", "the burned part of the reward is not included in the minted volume (supply checker would diverge)")
}

// isZeroAggregate: the value is the zero value of an array/struct type: a zero constant, or a
// load of a local cell that nothing ever writes (directly or through an element address).
func isZeroAggregate(v ssa.Value) bool {
	for {
		if ct, ok := v.(*ssa.ChangeType); ok {
			v = ct.X
			continue
		}
		break
	}
	switch x := v.(type) {
	case *ssa.Const:
		return x.Value == nil
	case *ssa.UnOp:
		if a, ok := x.X.(*ssa.Alloc); ok && x.Op == token.MUL {
			for _, r := range *a.Referrers() {
				if ld, ok := r.(*ssa.UnOp); ok && ld.Op == token.MUL {
					continue
				}
				return false
			}
			return true
		}
	}
	return false
}

func storeCountOf(a *ssa.Alloc) int {
	n := 0
	for _, r := range *a.Referrers() {
		if st, ok := r.(*ssa.Store); ok && st.Addr == a {
			n++
		}
	}
	return n
}

// capEdgeBlock: the block is dominated by the true edge of the cap comparison.
func capEdgeBlock(c *core.Ctx, b *ssa.BasicBlock) bool {
	if len(b.Instrs) == 0 {
		return false
	}
	return capFact(c.FactsAt(b.Instrs[0], 1), true)
}

// checkPercentRounding — "−10 % or worse (rounded down to a whole percent)": in the live price
// update the whole-percent change that is compared with −10 must be produced by big.Int.Div
// (Euclidean division: rounds toward −∞ for a positive divisor), not by big.Int.Quo (truncation
// toward zero, which turns −9.5 % into −9 %). Library semantics of math/big are trusted; the rule
// only looks at which of the two is used for the value that reaches the comparison.
func checkPercentRounding(c *core.Ctx, rule string) {
	fn := c.MustFn(rule, "(*coreV2/appdb.AppDB).UpdatePriceFix")
	if fn == nil {
		return
	}
	n := 0
	for _, s := range core.Sites(fn) {
		if s.Callee != "(*math/big.Int).Cmp" {
			continue
		}
		// compared with big.NewInt(-10)
		arg, ok := core.Unwrap(s.Common.Args[1]).(*ssa.Call)
		if !ok || core.CalleeName(core.NormCall(&arg.Call)) != "math/big.NewInt" {
			continue
		}
		if k, ok := core.ConstInt(core.NormCall(&arg.Call).Args[0]); !ok || k != -10 {
			continue
		}
		n++
		var how []string
		good := true
		var visit func(o ssa.Value, depth int)
		visit = func(o ssa.Value, depth int) {
			call, ok := o.(*ssa.Call)
			if !ok {
				good = false
				how = append(how, describe(o))
				return
			}
			// the division may sit in a helper of the package that returns the percentage
			if sc := call.Call.StaticCallee(); sc != nil && depth < 2 && sc.Blocks != nil && core.PkgOf(sc) == core.PkgOf(fn) {
				for _, ro := range core.ResultOrigins(sc, 0) {
					visit(ro, depth+1)
				}
				return
			}
			name := core.CalleeName(core.NormCall(&call.Call))
			how = append(how, name)
			if name != "(*math/big.Int).Div" {
				good = false
			}
		}
		for _, o := range core.Origins(s.Common.Args[0]) {
			visit(o, 0)
		}
		c.Check(good && len(how) > 0, rule, "UpdatePriceFix/percent-floor", s.Pos(), "the whole-percent price change compared with −10 is produced by big.Int.Div (rounds down)",
			"the whole-percent price change compared with −10 is produced by "+strings.Join(how, ", ")+" instead of big.Int.Div: a drop strictly between 9 % and 10 % is truncated toward zero to −9 and no longer switches the validators' reward off")
	}
	c.Floor(rule, n, 1, "comparisons of the price change with −10")
}

// checkRewardStore — C28.store. BeginBlock hands the reward pair of the block (the validators'
// share and the price-derived reward) to App.SetReward, which stores both. The only case in
// which it may skip the store is the degenerate one it was written for — after the cap the pair
// is (0, 0) on every block: the price-derived reward is zero and was zero before. A shortcut
// that only asks whether one of the two values is unchanged silently drops a change of the
// other (the validators' share growing back after a price fall while the pool is idle).
// Decided: every return of SetReward that does not pass the storing call lies behind a zero
// test of a parameter that the storing call receives.
func checkRewardStore(c *core.Ctx, rule string) {
	at := c.Named(core.PkgState+"/app", "App")
	if at == nil {
		c.Unk(rule, "app.App", token.NoPos, "type not found")
		return
	}
	fn := c.Method(at, "SetReward")
	if fn == nil {
		c.Unk(rule, "App.SetReward", token.NoPos, "method not found")
		return
	}
	// the storing call: a callee (in the package) that receives the big.Int parameters
	var store *core.Site
	params := map[ssa.Value]bool{}
	for _, p := range fn.Params {
		if isBigPtr(p.Type()) {
			params[p] = true
		}
	}
	for _, s := range core.Sites(fn) {
		sc := s.Common.StaticCallee()
		if sc == nil || core.PkgOf(sc) != core.PkgOf(fn) {
			continue
		}
		k := 0
		for _, a := range s.Common.Args {
			if params[core.Unwrap(a)] {
				k++
			}
		}
		if k == len(params) && k > 0 {
			store = s
		}
	}
	if store == nil {
		c.Bad(rule, "App.SetReward/store", fn.Pos(), "SetReward no longer hands both reward values to the model's setter")
		return
	}
	c.OK(rule, "App.SetReward/store", store.Pos(), "both reward values are handed to "+store.Common.StaticCallee().Name())
	n := 0
	afterStore := core.ReachFrom(store.Block(), nil)
	for _, r := range core.Returns(fn) {
		if r.Block() == fn.Recover || r.Block() == store.Block() || afterStore[r.Block()] {
			continue
		}
		n++
		zeroTested := false
		for _, g := range core.GatesBefore(r) {
			bin, ok := g.If.Cond.(*ssa.BinOp)
			if !ok {
				continue
			}
			call, ok := core.Unwrap(bin.X).(*ssa.Call)
			if !ok || core.CalleeName(core.NormCall(&call.Call)) != "(*math/big.Int).Sign" || !params[core.Unwrap(core.NormCall(&call.Call).Args[0])] {
				continue
			}
			if k, ok := core.ConstInt(bin.Y); ok && k == 0 && ((bin.Op == token.EQL && g.PassTrue) || (bin.Op == token.NEQ && !g.PassTrue)) {
				zeroTested = true
			}
		}
		c.Check(zeroTested, rule, fmt.Sprintf("App.SetReward/skip#%d", n), r.Pos(), "the store is skipped only for a zero reward (the pair (0, 0) repeated after the cap)",
			"SetReward can return without storing although the reward handed in is not zero: a change of the value the shortcut does not compare (the validators' share) is dropped, and the blocks until the next price change burn what should have been paid")
	}
}

// checkEmissionFresh — the emission counter is advanced several times in one EndBlock (the one-off
// correction, the extra reward of locked stakes, the block's reward). Each SetEmission(f(e)) must
// compute from an Emission() read that no other SetEmission can follow before the write: a value
// read earlier (for the cap test at the top of EndBlock) silently discards what was added in
// between, so the counter under-counts what was minted and the cap is reached too late.
func checkEmissionFresh(c *core.Ctx, rule string) {
	n := 0
	for _, rootName := range []string{"EndBlock", "BeginBlock", "InitChain"} {
		root := c.Fn("(*coreV2/minter.Blockchain)." + rootName)
		if root == nil {
			continue
		}
		group := append([]*ssa.Function{root}, c.Helpers(root)...)
		setsIn := map[*ssa.Function]bool{}
		for _, g := range group {
			for _, s := range core.Sites(g) {
				if s.Callee == "(*coreV2/appdb.AppDB).SetEmission" {
					setsIn[g] = true
				}
			}
		}
		for _, g := range group {
			// instructions of g after which the counter may have changed
			var writes []ssa.Instruction
			for _, s := range core.Sites(g) {
				if s.Callee == "(*coreV2/appdb.AppDB).SetEmission" {
					writes = append(writes, s.Instr)
				} else if h := s.Common.StaticCallee(); h != nil && h != g && setsIn[h] {
					writes = append(writes, s.Instr)
				}
			}
			k := 0
			for _, s := range core.Sites(g) {
				if s.Callee != "(*coreV2/appdb.AppDB).SetEmission" {
					continue
				}
				var reads []*ssa.Call
				core.DependsOn(s.Arg(0), func(v ssa.Value) bool {
					if call, ok := v.(*ssa.Call); ok && core.CalleeName(&call.Call) == "(*coreV2/appdb.AppDB).Emission" {
						reads = append(reads, call)
					}
					return false
				})
				if len(reads) == 0 {
					continue // an absolute value (genesis)
				}
				n++
				k++
				stale := ""
				for _, r := range reads {
					for _, w := range writes {
						if w != s.Instr && instrReaches(r, w) && instrReaches(w, s.Instr) && !core.InCycle(s.Block()) {
							stale = c.PosStr(w.Pos())
						}
					}
				}
				c.Check(stale == "", rule, fmt.Sprintf("%s/SetEmission#%d", g.Name(), k), s.Pos(), "computed from a read of the counter that no other write can follow",
					"the emission counter is set from a value read before the write at "+stale+": what that write added is discarded — the counter no longer equals what was minted, and the emission cap is reached too late")
			}
		}
	}
	c.Floor(rule, n, 2, "read-modify-write updates of the emission counter")
}
