package rules

import (
	"fmt"
	"go/token"
	"go/types"
	"sort"
	"strings"

	"golang.org/x/tools/go/ssa"

	"verif/internal/core"
)

// Records built in a loop — one per element of what is ranged over — get their mutable parts
// (amounts, bit arrays, sub-records: anything held by pointer) either freshly created in that
// iteration or taken from something found in that iteration. Two ways to get this wrong keep
// all tests green as long as a run never builds two such records at once:
//
//	shared: the default object is created once, before the loop, and stored into every record
//	        built without a match — the records then share it and an in-place update of one
//	        (BitArray.SetIndex, big.Int.Add) shows in the others;
//	carried: the value comes from a variable that lives across iterations (declared before the
//	        loop, assigned when something matched, never reset) — a record built in an iteration
//	        without a match silently inherits what the previous iteration found.
//
// checkPerIterationRecords decides, for every struct allocated inside a loop of the given
// functions and every pointer-typed value stored into one of its fields, that the value is not
// (shared) an object allocated in this function outside that loop, nor (carried) derived from a
// phi of the loop's header. Values that merely pass through (parameters, fields of the module,
// package variables) are references to things that exist independently of the loop and are fine.
func checkPerIterationRecords(c *core.Ctx, rule string, fns []*ssa.Function) int {
	n := 0
	for _, fn := range fns {
		if fn == nil || fn.Blocks == nil {
			continue
		}
		k := 0
		for _, b := range fn.Blocks {
			if !core.InCycle(b) {
				continue
			}
			for _, in := range b.Instrs {
				al, ok := in.(*ssa.Alloc)
				if !ok || !al.Heap {
					continue
				}
				pt, ok := al.Type().(*types.Pointer)
				if !ok {
					continue
				}
				named, ok := pt.Elem().(*types.Named)
				if !ok {
					continue
				}
				if _, isStruct := named.Underlying().(*types.Struct); !isStruct {
					continue
				}
				// the loop this record is built in
				loop := map[*ssa.BasicBlock]bool{b: true}
				for x := range core.ReachFrom(b, nil) {
					if core.ReachFrom(x, nil)[b] {
						loop[x] = true
					}
				}
				var header *ssa.BasicBlock
				for x := range loop {
					for _, pr := range x.Preds {
						if !loop[pr] {
							header = x
						}
					}
				}
				var fields []string
				problems := map[string]string{}
				for _, r := range *al.Referrers() {
					fa, ok := r.(*ssa.FieldAddr)
					if !ok {
						continue
					}
					for _, fr := range *fa.Referrers() {
						st, ok := fr.(*ssa.Store)
						if !ok || st.Addr != fa {
							continue
						}
						if !mutablePointer(st.Val.Type()) {
							continue
						}
						fields = append(fields, fieldNameOf(fa))
						if why := iterationLeak(st.Val, loop, header, map[ssa.Value]bool{}, 0); why != "" {
							problems[fieldNameOf(fa)] = why
						}
					}
				}
				if len(fields) == 0 {
					continue
				}
				n++
				k++
				key := fmt.Sprintf("%s/%s#%d", core.ShortFn(fn), named.Obj().Name(), k)
				var ps []string
				for f, why := range problems {
					ps = append(ps, f+": "+why)
				}
				sort.Strings(ps)
				c.Check(len(ps) == 0, rule, key, posOfAlloc(al), "the mutable parts of the record built per iteration are created or found in that iteration",
					fmt.Sprintf("a %s is built in every iteration of a loop, but %s — records built in different iterations are then tied to each other (an in-place update of one shows in the other, or a record inherits what an earlier iteration found)", named.Obj().Name(), strings.Join(ps, "; ")))
			}
		}
	}
	return n
}

func mutablePointer(t types.Type) bool {
	p, ok := t.Underlying().(*types.Pointer)
	if !ok {
		return false
	}
	switch e := p.Elem().(type) {
	case *types.Named:
		if e.Obj().Pkg() == nil {
			return false
		}
		if e.Obj().Pkg().Path() == "math/big" {
			return true
		}
		_, isStruct := e.Underlying().(*types.Struct)
		return isStruct && strings.Contains(e.Obj().Pkg().Path(), "minter-go-node")
	}
	return false
}

// iterationLeak: why the value ties iterations together ("" if it does not).
func iterationLeak(v ssa.Value, loop map[*ssa.BasicBlock]bool, header *ssa.BasicBlock, seen map[ssa.Value]bool, d int) string {
	if v == nil || seen[v] || d > 12 {
		return ""
	}
	seen[v] = true
	inLoop := func(x ssa.Value) bool {
		in, ok := x.(ssa.Instruction)
		return ok && in.Block() != nil && loop[in.Block()]
	}
	switch x := v.(type) {
	case *ssa.Phi:
		if x.Block() == header {
			return "its value is carried over from the previous iteration (a variable declared before the loop and not reset in it)"
		}
		if !inLoop(x) {
			return ""
		}
		for _, e := range x.Edges {
			if why := iterationLeak(e, loop, header, seen, d+1); why != "" {
				return why
			}
		}
	case *ssa.UnOp:
		if x.Op == token.MUL {
			switch a := x.X.(type) {
			case *ssa.FieldAddr:
				return iterationLeak(a.X, loop, header, seen, d+1)
			case *ssa.IndexAddr:
				return iterationLeak(a.X, loop, header, seen, d+1)
			}
		}
	case *ssa.ChangeType:
		return iterationLeak(x.X, loop, header, seen, d+1)
	case *ssa.Extract:
		return iterationLeak(x.Tuple, loop, header, seen, d+1)
	case *ssa.Alloc:
		if !inLoop(x) && x.Heap {
			return "it is one object allocated before the loop and stored into every record"
		}
	case *ssa.Call:
		if inLoop(x) {
			return ""
		}
		// a constructor call outside the loop: one object for all iterations
		name := core.CalleeName(core.NormCall(&x.Call))
		short := name
		if i := strings.LastIndex(short, "."); i >= 0 {
			short = short[i+1:]
		}
		if strings.HasPrefix(short, "New") && mutablePointer(x.Type()) {
			return "it is one object created before the loop (" + name + ") and stored into every record"
		}
	}
	return ""
}
