package rules

import (
	"fmt"
	"go/token"
	"go/types"
	"sort"
	"strings"

	"golang.org/x/tools/go/ssa"

	"verif/internal/core"
)

// C07.divzero — big.Int division panics on a zero divisor, and a panic in BeginBlock / EndBlock /
// DeliverTx halts every node on the same block. A stored amount that block processing itself
// sets to zero (a setter of a state object called with the constant 0: PunishByzantineValidator
// zeroes the offender's total stake) can be zero when it is read back later in the same block,
// so wherever an accessor of that amount supplies a divisor, the division has to be dominated
// by a decision that excludes zero for that very amount.
//
// Derived, not listed: (1) the zeroed cells — methods of state types that store their *big.Int
// parameter (or a copy) in a field F and are called from consensus code with big.NewInt(0);
// (2) the accessors of F; (3) every Div/Quo/Mod/Rem/DivMod/QuoRem in consensus code whose
// divisor is the result of such an accessor.
func checkDivZero(c *core.Ctx, rule string) {
	consensus := func(fn *ssa.Function) bool {
		pk := core.PkgOf(fn)
		return (strings.HasPrefix(pk, core.PkgState+"/") || pk == core.PkgState || pk == core.PkgTx || pk == "coreV2/minter") && fn.Synthetic == "" && !legacyV1(fn)
	}
	// (1) zeroed cells
	type cell struct {
		t *types.Named
		f string
	}
	zeroed := map[cell]string{}
	for _, fn := range c.AllFns {
		if !consensus(fn) || fn.Blocks == nil {
			continue
		}
		for _, s := range core.Sites(fn) {
			sc := s.Common.StaticCallee()
			if sc == nil || sc.Signature.Recv() == nil || sc.Blocks == nil || !strings.HasPrefix(core.PkgOf(sc), core.PkgState+"/") {
				continue
			}
			for i, a := range s.Common.Args {
				if i == 0 || !isBigIntPtr(a.Type()) || !isZeroBig(a) {
					continue
				}
				if f := storedField(sc, i); f != "" {
					if t := namedOf(sc.Signature.Recv().Type()); t != nil {
						zeroed[cell{t, f}] = core.ShortFn(fn) + " → " + sc.Name() + "(0) at " + c.PosStr(s.Pos())
					}
				}
			}
		}
	}
	// (2) accessors
	accessor := map[*ssa.Function]cell{}
	for cl := range zeroed {
		ms := c.Prog.MethodSets.MethodSet(types.NewPointer(cl.t))
		for i := 0; i < ms.Len(); i++ {
			fn := c.Prog.FuncValue(ms.At(i).Obj().(*types.Func))
			if fn == nil || fn.Blocks == nil || fn.Synthetic != "" || len(fn.Params) != 1 {
				continue
			}
			ok := false
			for _, r := range core.Returns(fn) {
				if r.Block() == fn.Recover || len(r.Results) != 1 || !isBigIntPtr(r.Results[0].Type()) {
					continue
				}
				v := core.Unwrap(stripCopy(resolveRet(r, 0)))
				if ld, isLd := v.(*ssa.UnOp); isLd {
					if fa, isFa := ld.X.(*ssa.FieldAddr); isFa && fieldNameOf(fa) == cl.f && core.Unwrap(fa.X) == ssa.Value(fn.Params[0]) {
						ok = true
					}
				}
			}
			if ok {
				accessor[fn] = cl
			}
		}
	}
	// (3) divisions
	divisorArg := map[string]int{"Div": 2, "Quo": 2, "Mod": 2, "Rem": 2, "DivMod": 2, "QuoRem": 2}
	var fns []*ssa.Function
	for _, fn := range c.AllFns {
		if consensus(fn) && fn.Blocks != nil {
			fns = append(fns, fn)
		}
	}
	sort.Slice(fns, func(i, j int) bool { return fns[i].String() < fns[j].String() })
	n := 0
	for _, fn := range fns {
		k := 0
		for _, s := range core.Sites(fn) {
			name := s.Callee
			if !strings.HasPrefix(name, "(*math/big.Int).") {
				continue
			}
			ai, ok := divisorArg[name[len("(*math/big.Int)."):]]
			if !ok || ai >= len(s.Common.Args) {
				continue
			}
			div := core.Unwrap(s.Common.Args[ai])
			call, ok := div.(*ssa.Call)
			if !ok {
				continue
			}
			acc := call.Call.StaticCallee()
			cl, isAcc := accessor[acc]
			if !isAcc {
				continue
			}
			n++
			k++
			key := fmt.Sprintf("%s/%s#%d", core.ShortFn(fn), acc.Name(), k)
			guarded := false
			for _, g := range core.GatesBefore(s.Instr) {
				if excludesZero(g, call) {
					guarded = true
				}
			}
			c.Check(guarded, rule, key, s.Pos(), "the divisor "+acc.Name()+"() is tested against zero before the division",
				fmt.Sprintf("the divisor is %s(), i.e. %s.%s, which block processing sets to 0 (%s); nothing on the way to this division excludes 0, and big.Int division by zero panics — in block processing that halts every node on the same block", acc.Name(), cl.t.Obj().Name(), cl.f, zeroed[cl]))
		}
	}
	c.Floor(rule, n, 4, "divisions by an amount that block processing can set to zero")
}

func isZeroBig(v ssa.Value) bool {
	call, ok := core.Unwrap(v).(*ssa.Call)
	if !ok || core.CalleeName(core.NormCall(&call.Call)) != "math/big.NewInt" {
		return false
	}
	k, ok := core.ConstInt(core.NormCall(&call.Call).Args[0])
	return ok && k == 0
}

// storedField: fn stores parameter i (or a big.Int copy of it) into a field of its receiver,
// directly or through one more method of the same receiver; returns the field name.
func storedField(fn *ssa.Function, i int) string {
	if i >= len(fn.Params) || len(fn.Params) == 0 {
		return ""
	}
	p, recv := fn.Params[i], fn.Params[0]
	for _, b := range fn.Blocks {
		for _, in := range b.Instrs {
			switch x := in.(type) {
			case *ssa.Store:
				fa, ok := x.Addr.(*ssa.FieldAddr)
				if !ok || core.Unwrap(fa.X) != ssa.Value(recv) {
					continue
				}
				if core.Unwrap(stripCopy(x.Val)) == ssa.Value(p) {
					return fieldNameOf(fa)
				}
			case *ssa.Call:
				// recv.F.Set(p)
				if core.CalleeName(core.NormCall(&x.Call)) == "(*math/big.Int).Set" && len(core.NormCall(&x.Call).Args) == 2 && core.Unwrap(core.NormCall(&x.Call).Args[1]) == ssa.Value(p) {
					if ld, ok := core.Unwrap(core.NormCall(&x.Call).Args[0]).(*ssa.UnOp); ok {
						if fa, ok := ld.X.(*ssa.FieldAddr); ok && core.Unwrap(fa.X) == ssa.Value(recv) {
							return fieldNameOf(fa)
						}
					}
				}
				if sc := x.Call.StaticCallee(); sc != nil && sc != fn && sc.Signature.Recv() != nil && len(core.NormCall(&x.Call).Args) > 0 && core.Unwrap(core.NormCall(&x.Call).Args[0]) == ssa.Value(recv) {
					for j, a := range core.NormCall(&x.Call).Args {
						if j > 0 && core.Unwrap(a) == ssa.Value(p) {
							if f := storedField(sc, j); f != "" {
								return f
							}
						}
					}
				}
			}
		}
	}
	return ""
}

// excludesZero: the gate passed on the way decides Sign()/Cmp(0-constant) of the same accessor
// expression in a way that leaves out zero.
func excludesZero(g core.Gate, divisor *ssa.Call) bool {
	b, ok := core.Unwrap(g.If.Cond).(*ssa.BinOp)
	if !ok {
		return false
	}
	q, ok := core.Unwrap(b.X).(*ssa.Call)
	if !ok {
		return false
	}
	k, ok := core.ConstInt(b.Y)
	if !ok {
		return false
	}
	name := core.CalleeName(core.NormCall(&q.Call))
	if name != "(*math/big.Int).Sign" && name != "(*math/big.Int).Cmp" {
		return false
	}
	if len(core.NormCall(&q.Call).Args) == 0 || !sameAccessorCall(core.NormCall(&q.Call).Args[0], divisor) {
		return false
	}
	if name == "(*math/big.Int).Cmp" && !(len(core.NormCall(&q.Call).Args) == 2 && isZeroBig(core.NormCall(&q.Call).Args[1])) {
		return false
	}
	// which of -1, 0, +1 pass the gate
	zeroPasses := false
	switch b.Op {
	case token.EQL:
		zeroPasses = (k == 0) == g.PassTrue
	case token.NEQ:
		zeroPasses = (k != 0) == g.PassTrue
	case token.GTR:
		zeroPasses = (0 > k) == g.PassTrue
	case token.GEQ:
		zeroPasses = (0 >= k) == g.PassTrue
	case token.LSS:
		zeroPasses = (0 < k) == g.PassTrue
	case token.LEQ:
		zeroPasses = (0 <= k) == g.PassTrue
	default:
		return false
	}
	return !zeroPasses
}

// sameAccessorCall: v is a call of the same accessor on the same receiver object as call (the
// stored amount cannot change in between: the only writers are setters, none of which the
// reward payment calls on the validator before dividing).
func sameAccessorCall(v ssa.Value, call *ssa.Call) bool {
	if core.SamePath(v, call) {
		return true
	}
	o, ok := core.Unwrap(v).(*ssa.Call)
	if !ok || o.Call.StaticCallee() == nil || o.Call.StaticCallee() != call.Call.StaticCallee() {
		return false
	}
	return len(core.NormCall(&o.Call).Args) > 0 && len(core.NormCall(&call.Call).Args) > 0 && core.Unwrap(core.NormCall(&o.Call).Args[0]) == core.Unwrap(core.NormCall(&call.Call).Args[0])
}
