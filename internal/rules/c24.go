package rules

import (
	"fmt"
	"go/token"
	"go/types"
	"sort"
	"strings"

	"golang.org/x/tools/go/ssa"

	"verif/internal/core"
)

const pkgEvents = "coreV2/events"

func init() {
	register(&RuleSet{
		Meta: core.PropertyMeta{
			ID: "C24",
			Explanation: "Decides the structural part of 'events load back unchanged': (pairs) for every event type with a compact form, convert() reads every field of the event (addresses and public keys travel as table ids supplied by the store) and writes every compact field that compile() reads; compile() writes every field of the event, each from the compact field of the same name or from the restored address / key parameter; " +
				"(dispatch) every event type handed to AddEvent anywhere in the repository is registered for (de)serialisation, and every compact type CommitEvents produces is registered and has a compile branch in LoadEvents; " +
				"(tables) the id tables: save and load use the same key prefixes and count keys, the persisted count is the table length after insertion (what the loaders' loop bounds assume), new ids are derived from the table length, and the id types are wide enough for their tables — the public-key id is a uint16 computed as uint16(len)+1, which wraps after 65 535 keys (known finding); " +
				"(lock) C25.map covers the tables' locking. NOT decided: JSON/amino encoding of the stored items, big.Int string round trips.",
			Assumptions: stdAssumptions,
			Rules:       []string{"C24.pairs", "C24.dispatch", "C24.tables", "C24.width", "C24.cache"},
		},
		Run: runC24,
	})
}

func namedOf(t types.Type) *types.Named {
	if p, ok := t.(*types.Pointer); ok {
		t = p.Elem()
	}
	n, _ := t.(*types.Named)
	return n
}

// fieldsStored returns, for a function that builds a `new(T)` and returns it, the fields of T it
// stores and, per field, the stored value.
func fieldsStored(fn *ssa.Function, t *types.Named) map[string]ssa.Value {
	out := map[string]ssa.Value{}
	for _, b := range fn.Blocks {
		for _, in := range b.Instrs {
			st, ok := in.(*ssa.Store)
			if !ok {
				continue
			}
			fa, ok := st.Addr.(*ssa.FieldAddr)
			if !ok {
				continue
			}
			if n := namedOf(fa.X.Type()); n != nil && n.Obj() == t.Obj() {
				out[fieldNameOf(fa)] = st.Val
			}
		}
	}
	return out
}

// fieldsRead returns the fields of t (receiver type) that fn loads.
func fieldsRead(fn *ssa.Function, t *types.Named) map[string]bool {
	out := map[string]bool{}
	for _, b := range fn.Blocks {
		for _, in := range b.Instrs {
			switch x := in.(type) {
			case *ssa.FieldAddr:
				if n := namedOf(x.X.Type()); n != nil && n.Obj() == t.Obj() {
					isStore := false
					for _, r := range *x.Referrers() {
						if st, ok := r.(*ssa.Store); ok && st.Addr == x {
							isStore = true
						}
					}
					if !isStore {
						out[fieldNameOf(x)] = true
					}
				}
			case *ssa.Field:
				if n := namedOf(x.X.Type()); n != nil && n.Obj() == t.Obj() {
					st := n.Underlying().(*types.Struct)
					out[st.Field(x.Field).Name()] = true
				}
			}
		}
	}
	return out
}

func isAddrOrKey(t types.Type) string {
	if p, ok := t.(*types.Pointer); ok {
		t = p.Elem()
	}
	if n, ok := t.(*types.Named); ok {
		switch n.Obj().Name() {
		case "Address":
			return "address"
		case "Pubkey":
			return "pubkey"
		}
	}
	return ""
}

func runC24(c *core.Ctx) {
	defer checkCacheLoaded(c, "C24.cache")
	pkg := c.PkgBy[pkgEvents]
	if pkg == nil {
		c.Unk("C24.pairs", "package", token.NoPos, "events package not found")
		return
	}
	// event types with convert
	sc := pkg.Types.Scope()
	var names []string
	for _, n := range sc.Names() {
		names = append(names, n)
	}
	sort.Strings(names)
	compactOf := map[string]*types.Named{} // event name → compact type
	nPairs := 0
	for _, n := range names {
		tn, ok := sc.Lookup(n).(*types.TypeName)
		if !ok {
			continue
		}
		ev, ok := tn.Type().(*types.Named)
		if !ok {
			continue
		}
		if _, isStruct := ev.Underlying().(*types.Struct); !isStruct {
			continue
		}
		conv := c.Method(ev, "convert")
		if conv == nil {
			continue
		}
		// compact type = type of the object returned
		var k *types.Named
		for _, o := range core.ResultOrigins(conv, 0) {
			if al, ok := core.Unwrap(o).(*ssa.Alloc); ok {
				k = namedOf(al.Type())
			}
		}
		if k == nil {
			c.Unk("C24.pairs", n+".convert", conv.Pos(), "the compact type built by convert was not recognised")
			continue
		}
		compactOf[n] = k
		comp := c.Method(k, "compile")
		if comp == nil {
			c.Bad("C24.pairs", n+"/"+k.Obj().Name()+".compile", conv.Pos(), "compact form without a compile method: the event could never be loaded back")
			continue
		}
		nPairs++
		evFields := core.StructFields(ev)
		kFields := core.StructFields(k)
		stored := fieldsStored(conv, k)
		readEv := fieldsRead(conv, ev)
		readK := fieldsRead(comp, k)
		rebuilt := fieldsStored(comp, ev)
		// (a) every event field reaches the compact form
		nAddr, nKey := 0, 0
		for _, p := range conv.Params[1:] {
			switch {
			case strings.Contains(strings.ToLower(p.Name()), "address"):
				nAddr++
			case strings.Contains(strings.ToLower(p.Name()), "pubkey"):
				nKey++
			}
		}
		var lost []string
		for _, f := range evFields {
			if readEv[f] {
				continue
			}
			fld := fieldOf(ev, f)
			switch isAddrOrKey(fld.Type()) {
			case "address":
				if nAddr > 0 {
					nAddr--
					continue
				}
			case "pubkey":
				if nKey > 0 {
					nKey--
					continue
				}
			}
			lost = append(lost, f)
		}
		c.Check(len(lost) == 0, "C24.pairs", n+".convert/reads-every-field", conv.Pos(), "every field of the event reaches the compact form (addresses/keys as ids)", "fields of "+n+" that convert() drops: "+strings.Join(lost, ", "))
		// (b) every compact field that compile reads is written by convert
		var unwritten []string
		for _, f := range kFields {
			if readK[f] && stored[f] == nil {
				unwritten = append(unwritten, f)
			}
		}
		c.Check(len(unwritten) == 0, "C24.pairs", n+".convert/writes-what-compile-reads", conv.Pos(), "convert writes every compact field compile reads", "compile() of "+k.Obj().Name()+" reads fields convert() never writes: "+strings.Join(unwritten, ", "))
		// (c) compile rebuilds every event field, from the same-named compact field or a parameter
		var missing, crossed []string
		for _, f := range evFields {
			v := rebuilt[f]
			if v == nil {
				missing = append(missing, f)
				continue
			}
			fromParam := core.DependsOn(v, func(x ssa.Value) bool {
				p, ok := x.(*ssa.Parameter)
				return ok && p != comp.Params[0]
			})
			var srcFields []string
			core.DependsOn(v, func(x ssa.Value) bool {
				if fa, ok := x.(*ssa.FieldAddr); ok {
					if nn := namedOf(fa.X.Type()); nn != nil && nn.Obj() == k.Obj() {
						srcFields = append(srcFields, fieldNameOf(fa))
					}
				}
				return false
			})
			if fromParam && len(srcFields) == 0 {
				continue
			}
			okName := false
			for _, s := range srcFields {
				if s == f {
					okName = true
				}
			}
			if !okName {
				crossed = append(crossed, fmt.Sprintf("%s←%v", f, srcFields))
			}
		}
		c.Check(len(missing) == 0, "C24.pairs", k.Obj().Name()+".compile/rebuilds-every-field", comp.Pos(), "compile writes every field of "+n, "compile() leaves fields of "+n+" unset: "+strings.Join(missing, ", "))
		c.Check(len(crossed) == 0, "C24.pairs", k.Obj().Name()+".compile/same-named-fields", comp.Pos(), "each event field is rebuilt from the compact field of the same name or from the restored key/address", "compile() rebuilds fields from differently named compact fields: "+strings.Join(crossed, ", "))
		// convert side: compact field F gets event field F
		var crossed2 []string
		for _, f := range kFields {
			v := stored[f]
			if v == nil {
				continue
			}
			var src []string
			core.DependsOn(v, func(x ssa.Value) bool {
				if fa, ok := x.(*ssa.FieldAddr); ok {
					if nn := namedOf(fa.X.Type()); nn != nil && nn.Obj() == ev.Obj() {
						src = append(src, fieldNameOf(fa))
					}
				}
				return false
			})
			if len(src) == 0 {
				continue // ids from parameters
			}
			okName := false
			for _, s := range src {
				if s == f || compactAlias[k.Obj().Name()+"."+f] == s {
					okName = true
				}
			}
			if !okName {
				crossed2 = append(crossed2, fmt.Sprintf("%s←%v", f, src))
			}
		}
		c.Check(len(crossed2) == 0, "C24.pairs", n+".convert/same-named-fields", conv.Pos(), "each compact field is filled from the event field of the same name", "convert() fills compact fields from differently named event fields: "+strings.Join(crossed2, ", "))
	}
	c.Floor("C24.pairs", nPairs, 9, "event types with a compact form")

	checkEventDispatch(c, compactOf)
	checkEventTables(c)
}

// compactAlias: compact field → differently named event field (confirmed).
var compactAlias = map[string]string{}

func fieldOf(t *types.Named, name string) *types.Var {
	st := t.Underlying().(*types.Struct)
	for i := 0; i < st.NumFields(); i++ {
		if st.Field(i).Name() == name {
			return st.Field(i)
		}
	}
	return nil
}

func checkEventDispatch(c *core.Ctx, compactOf map[string]*types.Named) {
	rule := "C24.dispatch"
	// registered types
	registered := map[string]bool{}
	for _, fn := range c.SrcFuncs(pkgEvents) {
		for _, s := range core.Sites(fn) {
			if strings.HasSuffix(s.Callee, "json.RegisterType") {
				if n := namedOf(s.Arg(0).Type()); n != nil {
					registered[n.Obj().Name()] = true
				} else if mi, ok := s.Arg(0).(*ssa.MakeInterface); ok {
					if n := namedOf(mi.X.Type()); n != nil {
						registered[n.Obj().Name()] = true
					}
				}
			}
		}
	}
	// event types passed to AddEvent anywhere
	used := map[string]token.Pos{}
	for _, fn := range c.AllFns {
		for _, s := range core.Sites(fn) {
			if methodName(s) != "AddEvent" || len(s.Common.Args) == 0 {
				continue
			}
			a := s.Common.Args[len(s.Common.Args)-1]
			if mi, ok := a.(*ssa.MakeInterface); ok {
				if n := namedOf(mi.X.Type()); n != nil && n.Obj().Pkg() != nil && core.Short(n.Obj().Pkg().Path()) == pkgEvents {
					used[n.Obj().Name()] = s.Pos()
				}
			}
		}
	}
	var names []string
	for n := range used {
		names = append(names, n)
	}
	sort.Strings(names)
	commit := c.Fn("(*coreV2/events.eventsStore).CommitEvents")
	load := c.Fn("(*coreV2/events.eventsStore).LoadEvents")
	// compact types LoadEvents can compile: callees named compile
	compiles := map[string]bool{}
	if load != nil {
		for _, s := range core.Sites(load) {
			if methodName(s) == "compile" {
				if s.Common.IsInvoke() {
					// interface (stake/address): every compact type implementing it
					it := s.Common.Value.Type().Underlying().(*types.Interface)
					for _, k := range compactOf {
						if types.Implements(types.NewPointer(k), it) {
							compiles[k.Obj().Name()] = true
						}
					}
				} else if sc := s.Common.StaticCallee(); sc != nil && sc.Signature.Recv() != nil {
					if n := namedOf(sc.Signature.Recv().Type()); n != nil {
						compiles[n.Obj().Name()] = true
					}
				}
			}
		}
	}
	// event types CommitEvents converts: callees named convert
	converts := map[string]bool{}
	if commit != nil {
		for _, s := range core.Sites(commit) {
			if methodName(s) != "convert" {
				continue
			}
			if s.Common.IsInvoke() {
				it := s.Common.Value.Type().Underlying().(*types.Interface)
				for en := range compactOf {
					if ev := c.Named(pkgEvents, en); ev != nil && types.Implements(types.NewPointer(ev), it) {
						converts[en] = true
					}
				}
			} else if sc := s.Common.StaticCallee(); sc != nil && sc.Signature.Recv() != nil {
				if n := namedOf(sc.Signature.Recv().Type()); n != nil {
					converts[n.Obj().Name()] = true
				}
			}
		}
	}
	for _, n := range names {
		c.Check(registered[n], rule, n+"/registered", used[n], "event type is registered for (de)serialisation", "event type "+n+" is emitted but not registered with tmjson: it cannot be stored or loaded")
		if converts[n] {
			k := compactOf[n]
			okc := k != nil && registered[k.Obj().Name()] && compiles[k.Obj().Name()]
			kn := "?"
			if k != nil {
				kn = k.Obj().Name()
			}
			c.Check(okc, rule, n+"/compact-roundtrip", used[n], "stored as "+kn+", which is registered and compiled back by LoadEvents", "CommitEvents stores "+n+" as "+kn+" but that compact type is not registered or LoadEvents has no compile branch for it")
		}
	}
	c.Floor(rule, len(names), 10, "event types emitted in the repository")
}

func checkEventTables(c *core.Ctx) {
	rule := "C24.tables"
	type tbl struct{ save, load, idMap, revMap string }
	for _, t := range []tbl{{"savePubKey", "loadPubKeys", "idPubKey", "pubKeyID"}, {"saveAddress", "loadAddresses", "idAddress", "addressID"}} {
		save := c.MustFn(rule, "(*coreV2/events.eventsStore)."+t.save)
		load := c.MustFn(rule, "(*coreV2/events.eventsStore)."+t.load)
		if save == nil || load == nil {
			continue
		}
		// keys written / read: prefixes (append([]byte(prefix), idbytes...)) and the count key
		keysOf := func(fn *ssa.Function, method string) (prefixes, plain map[string]bool) {
			prefixes, plain = map[string]bool{}, map[string]bool{}
			for _, s := range core.Sites(fn) {
				if !s.Common.IsInvoke() || s.Common.Method.Name() != method || !strings.HasSuffix(core.Path(s.Common.Value), ".db") {
					continue
				}
				k := s.Arg(0)
				if str, ok := constString(k); ok {
					plain[str] = true
					continue
				}
				// constants the key is built from, here or in a key-building helper of the package
				var scan func(v ssa.Value, depth int)
				scan = func(v ssa.Value, depth int) {
					core.DependsOn(v, func(x ssa.Value) bool {
						if str, ok := constString(x); ok {
							prefixes[str] = true
						}
						if call, ok := x.(*ssa.Call); ok && depth < 2 {
							if h := call.Call.StaticCallee(); h != nil && h.Blocks != nil && core.PkgOf(h) == core.PkgOf(fn) {
								for _, b := range h.Blocks {
									if ret, ok := b.Instrs[len(b.Instrs)-1].(*ssa.Return); ok {
										for _, r := range ret.Results {
											scan(r, depth+1)
										}
									}
								}
							}
						}
						return false
					})
				}
				scan(k, 0)
			}
			return
		}
		sp, sc := keysOf(save, "Set")
		lp, lc := keysOf(load, "Get")
		same := func(a, b map[string]bool) bool {
			if len(a) == 0 || len(a) != len(b) {
				return false
			}
			for k := range a {
				if !b[k] {
					return false
				}
			}
			return true
		}
		c.Check(same(sp, lp) && same(sc, lc), rule, t.save+"↔"+t.load+"/keys", save.Pos(), fmt.Sprintf("same item prefix %v and count key %v", keysOfMap(sp), keysOfMap(sc)), fmt.Sprintf("save uses prefix %v / count key %v, load uses %v / %v", keysOfMap(sp), keysOfMap(sc), keysOfMap(lp), keysOfMap(lc)))
		// the persisted count is len(table) after insertion
		cntOK := false
		for _, s := range core.Sites(save) {
			if !s.Common.IsInvoke() || s.Common.Method.Name() != "Set" {
				continue
			}
			if str, ok := constString(s.Arg(0)); !ok || !sc[str] {
				continue
			}
			// the insertion into the table (cachePubKey / cacheAddress)
			var insert ssa.Instruction
			for _, is := range core.Sites(save) {
				if strings.HasPrefix(methodName(is), "cache") {
					insert = is.Instr
				}
			}
			if core.DependsOn(s.Arg(1), func(x ssa.Value) bool {
				call, ok := x.(*ssa.Call)
				if !ok {
					return false
				}
				b, isB := call.Call.Value.(*ssa.Builtin)
				if !(isB && b.Name() == "len" && (strings.HasSuffix(core.Path(core.NormCall(&call.Call).Args[0]), "."+t.idMap) || strings.HasSuffix(core.Path(core.NormCall(&call.Call).Args[0]), "."+t.revMap))) {
					return false
				}
				// the length must be taken AFTER the insertion (the id is taken before it)
				return insert != nil && core.Dominates(insert, call)
			}) {
				cntOK = true
			}
			// equivalent form: (length BEFORE the insertion) + 1
			if off, base, okS := splitConst(s.Arg(1)); !cntOK && okS && off == 1 {
				if call, isCall := core.Unwrap(base).(*ssa.Call); isCall {
					if b, isB := call.Call.Value.(*ssa.Builtin); isB && b.Name() == "len" && insert != nil && core.Dominates(call, insert) {
						cntOK = true
					}
				}
			} else if !cntOK {
				// the value may be wrapped in a conversion helper: uint16ToBytes(id)
				if call, isCall := core.Unwrap(s.Arg(1)).(*ssa.Call); isCall && len(core.NormCall(&call.Call).Args) == 1 {
					if off, base, okS := splitConst(core.NormCall(&call.Call).Args[0]); okS && off == 1 {
						if lc, isLen := core.Unwrap(base).(*ssa.Call); isLen {
							if b, isB := lc.Call.Value.(*ssa.Builtin); isB && b.Name() == "len" && insert != nil && core.Dominates(lc, insert) {
								cntOK = true
							}
						}
					}
				}
			}
			// the value must not be the freshly assigned id variable
			if core.DependsOn(s.Arg(1), func(x ssa.Value) bool {
				_, isPhi := x.(*ssa.Phi)
				return isPhi
			}) {
				cntOK = false
			}
		}
		c.Check(cntOK, rule, t.save+"/count-is-table-length", save.Pos(), "the persisted count is len(table) after the insertion — what the loader's loop bound assumes", "the persisted count of "+t.save+" is not the table length: after a restart the loader reads too few (or too many) entries and stored events resolve to wrong or empty keys")
		// insertion happens before the count is taken: cache call dominates the count write
		// (len is evaluated after cachePubKey/cacheAddress)
	}
	// ---- width
	if save := c.Fn("(*coreV2/events.eventsStore).savePubKey"); save != nil {
		// id := uint16(len(store.idPubKey)) + 1
		narrow := false
		var pos token.Pos
		for _, b := range save.Blocks {
			for _, in := range b.Instrs {
				cv, ok := in.(*ssa.Convert)
				if !ok {
					continue
				}
				if bt, ok := cv.Type().Underlying().(*types.Basic); ok && (bt.Kind() == types.Uint16 || bt.Kind() == types.Uint8) {
					if call, ok := cv.X.(*ssa.Call); ok {
						if bi, isB := call.Call.Value.(*ssa.Builtin); isB && bi.Name() == "len" {
							narrow = true
							pos = cv.Pos()
						}
					}
				}
			}
		}
		checkNarrowing(c, "C24.width")
		c.Check(!narrow, "C24.width", "savePubKey/id-width", pos, "the public-key id type holds every table size", "the validator public-key id is uint16(len(table))+1: it wraps to 0 (the 'no key' sentinel) at the 65 536th distinct key and to 1 after that, overwriting earlier keys; at exactly 65 535 keys the loader's uint16 loop bound wraps and loads nothing after a restart")
	}
}

// checkNarrowing: every other integer-narrowing conversion to 16 bits or fewer in the events store
// (outside savePubKey, whose uint16 id is the recorded finding) is a violation: ids and counts of
// the address table are 32-bit, and a key or count squeezed through uint16 makes two ids share a
// record once the table is larger than 65 536 entries.
func checkNarrowing(c *core.Ctx, rule string) {
	n := 0
	width := func(t types.Type) int {
		bt, ok := t.Underlying().(*types.Basic)
		if !ok {
			return 0
		}
		switch bt.Kind() {
		case types.Uint8, types.Int8:
			return 8
		case types.Uint16, types.Int16:
			return 16
		case types.Uint32, types.Int32:
			return 32
		case types.Uint64, types.Int64, types.Int, types.Uint, types.Uintptr:
			return 64
		}
		return 0
	}
	for _, fn := range c.SrcFuncs(pkgEvents) {
		for _, b := range fn.Blocks {
			for _, in := range b.Instrs {
				cv, ok := in.(*ssa.Convert)
				if !ok {
					continue
				}
				to, from := width(cv.Type()), width(cv.X.Type())
				if to == 0 || from == 0 || to >= from || to > 16 {
					continue
				}
				if _, isConst := cv.X.(*ssa.Const); isConst {
					continue
				}
				n++
				name := core.ShortFn(fn)
				if strings.HasSuffix(name, "eventsStore).savePubKey") {
					c.OK(rule, name+"/narrowing", cv.Pos(), "the uint16 public-key id (see the recorded finding savePubKey/id-width)")
					continue
				}
				// a byte taken from a wider value for serialisation of a single byte-sized field is fine
				// only when the source is itself bounded by a mask / modulo; anything else is reported
				c.Bad(rule, name+"/narrowing", cv.Pos(), fmt.Sprintf("a %d-bit value is narrowed to %d bits in the events store: ids, counts or keys larger than the narrow type collide (two addresses / keys share one stored record after enough of them were seen)", from, to))
			}
		}
	}
	c.Floor(rule, n, 1, "narrowing conversions to ≤16 bits in the events package")
}

func keysOfMap(m map[string]bool) []string {
	var out []string
	for k := range m {
		out = append(out, k)
	}
	sort.Strings(out)
	return out
}

// checkCacheLoaded — C24.cache. The id tables of the events store (address ↔ id, public key ↔ id)
// live on disk and are read into memory on first use by a loader of the shape
// `if len(store.T) == 0 { …read the records… }`. Stored events carry ids only, so every entry
// point of the store that resolves or assigns ids has to run the loader first; an entry point
// that does not works on empty tables in a freshly started process — events are returned with
// zero addresses (or a nil key dereference crashes the API), and new ids collide with stored ones.
// Derived: the loader (method without parameters whose store reads are guarded by a len() test
// of a map field of the store), the tables (map fields written by what the loader calls), the
// entry points (exported methods of the store type). Decided: in every entry point that can
// reach an access of a table, a call of the loader dominates the access (or the call leading to it).
func checkCacheLoaded(c *core.Ctx, rule string) {
	st := c.Named(pkgEvents, "eventsStore")
	if st == nil {
		c.Unk(rule, "events.eventsStore", token.NoPos, "type not found")
		return
	}
	isStoreField := func(fa *ssa.FieldAddr) bool {
		n := namedOf(fa.X.Type())
		return n != nil && n.Obj() == st.Obj()
	}
	var methods []*ssa.Function
	ms := c.Prog.MethodSets.MethodSet(types.NewPointer(st))
	for i := 0; i < ms.Len(); i++ {
		if fn := c.Prog.FuncValue(ms.At(i).Obj().(*types.Func)); fn != nil && fn.Blocks != nil && fn.Synthetic == "" {
			methods = append(methods, fn)
		}
	}
	cg := c.CG()
	readsDB := func(fn *ssa.Function) bool {
		for _, s := range core.Sites(fn) {
			if s.Common.IsInvoke() && (s.Common.Method.Name() == "Get" || s.Common.Method.Name() == "Iterator") {
				return true
			}
		}
		return false
	}
	// the loader
	var loader *ssa.Function
	for _, fn := range methods {
		if len(fn.Params) != 1 {
			continue
		}
		for _, s := range core.Sites(fn) {
			callee := s.Common.StaticCallee()
			if callee == nil || !c.InRepo(callee) {
				continue
			}
			reach := cg.Reachable([]*ssa.Function{callee}, nil)
			rd := false
			for g := range reach {
				if readsDB(g) {
					rd = true
				}
			}
			if !rd {
				continue
			}
			for _, g := range core.GatesBefore(s.Instr) {
				if core.DependsOn(g.If.Cond, func(v ssa.Value) bool {
					fa, ok := v.(*ssa.FieldAddr)
					if !ok || !isStoreField(fa) {
						return false
					}
					_, isMap := fa.Type().(*types.Pointer).Elem().Underlying().(*types.Map)
					return isMap
				}) {
					loader = fn
				}
			}
		}
	}
	if loader == nil {
		c.Unk(rule, "eventsStore/loader", st.Obj().Pos(), "the lazy loader of the id tables was not found")
		return
	}
	// the tables: map fields of the store written below the loader
	tables := map[string]bool{}
	for g := range cg.Reachable([]*ssa.Function{loader}, nil) {
		for _, b := range g.Blocks {
			for _, in := range b.Instrs {
				if mu, ok := in.(*ssa.MapUpdate); ok {
					if ld, ok := core.Unwrap(mu.Map).(*ssa.UnOp); ok {
						if fa, ok := ld.X.(*ssa.FieldAddr); ok && isStoreField(fa) {
							tables[fieldNameOf(fa)] = true
						}
					}
				}
			}
		}
	}
	accesses := func(fn *ssa.Function) []ssa.Instruction {
		var out []ssa.Instruction
		for _, b := range fn.Blocks {
			for _, in := range b.Instrs {
				if fa, ok := in.(*ssa.FieldAddr); ok && isStoreField(fa) && tables[fieldNameOf(fa)] {
					out = append(out, in)
				}
			}
		}
		return out
	}
	below := cg.Reachable([]*ssa.Function{loader}, nil)
	n := 0
	for _, fn := range methods {
		if fn == loader || fn.Object() == nil || !fn.Object().Exported() {
			continue
		}
		// instructions of fn that are, or lead to, a table access outside the loader's own code
		var points []ssa.Instruction
		points = append(points, accesses(fn)...)
		for _, s := range core.Sites(fn) {
			callee := s.Common.StaticCallee()
			if callee == nil || callee == loader || !c.InRepo(callee) {
				continue
			}
			for g := range cg.Reachable([]*ssa.Function{callee}, func(x *ssa.Function) bool { return x == loader }) {
				if _, isBelow := below[g]; isBelow && g != callee {
					continue
				}
				if g != loader && len(accesses(g)) > 0 {
					points = append(points, s.Instr)
					break
				}
			}
		}
		if len(points) == 0 {
			continue
		}
		n++
		var loads []ssa.Instruction
		for _, s := range core.Sites(fn) {
			if s.Common.StaticCallee() == loader {
				loads = append(loads, s.Instr)
			}
		}
		bad := ""
		for _, p := range points {
			ok := false
			for _, l := range loads {
				if core.Dominates(l, p) {
					ok = true
				}
			}
			if !ok && bad == "" {
				bad = c.PosStr(p.Pos())
			}
		}
		c.Check(bad == "", rule, "eventsStore."+fn.Name(), fn.Pos(), "the id tables are loaded ("+loader.Name()+") before this entry point uses them",
			fmt.Sprintf("%s uses the id tables (at %s) without having called %s: in a freshly started process the tables are empty — stored events resolve to zero addresses / nil keys, and newly assigned ids collide with the stored ones", fn.Name(), bad, loader.Name()))
	}
	c.Floor(rule, n, 2, "entry points of the events store that use the id tables")
}
