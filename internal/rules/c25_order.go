package rules

import (
	"fmt"
	"sort"
	"strings"

	"golang.org/x/tools/go/ssa"

	"verif/internal/core"
)

// lock-order graph over mutex *fields* (type.field): an edge A → B is recorded where a function
// definitely holds A (must-hold lockset, acquired in that very function) and acquires B itself or
// calls a function that (transitively, over the resolved call graph) acquires B.

type orderEdge struct {
	from, to string
	modeFrom byte
	modeTo   byte
	where    string
}

func lockOrderEdges(c *core.Ctx) []orderEdge {
	locks := c.Locks()
	cg := c.CG()
	// direct acquisitions per function: field -> mode
	type acq struct {
		field string
		mode  byte
		pos   string
	}
	direct := map[*ssa.Function][]acq{}
	pathField := map[*ssa.Function]map[string]string{}
	for fn, info := range locks {
		if !c.InRepo(fn) {
			continue
		}
		for _, a := range info.Acq {
			f := lockField(a.Site)
			if f == "?" {
				continue
			}
			direct[fn] = append(direct[fn], acq{f, a.Op.Mode, c.PosStr(a.Site.Pos())})
			if pathField[fn] == nil {
				pathField[fn] = map[string]string{}
			}
			pathField[fn][a.Op.Path] = f
		}
	}
	// transitive acquisitions
	memo := map[*ssa.Function]map[string]acq{}
	var trans func(fn *ssa.Function, depth int, onStack map[*ssa.Function]bool) map[string]acq
	trans = func(fn *ssa.Function, depth int, onStack map[*ssa.Function]bool) map[string]acq {
		if m, ok := memo[fn]; ok {
			return m
		}
		out := map[string]acq{}
		if onStack[fn] || depth > 12 {
			return out
		}
		onStack[fn] = true
		for _, a := range direct[fn] {
			if o, ok := out[a.field]; !ok || (o.mode == 'R' && a.mode == 'W') {
				out[a.field] = a
			}
		}
		for _, cal := range cg.Edges[fn] {
			for f, a := range trans(cal, depth+1, onStack) {
				if o, ok := out[f]; !ok || (o.mode == 'R' && a.mode == 'W') {
					out[f] = acq{f, a.mode, core.ShortFn(cal) + " … " + a.pos}
				}
			}
		}
		onStack[fn] = false
		memo[fn] = out
		return out
	}
	var edges []orderEdge
	seen := map[string]bool{}
	add := func(e orderEdge) {
		k := e.from + "→" + e.to + string(e.modeFrom) + string(e.modeTo)
		if e.from == e.to || seen[k] {
			return
		}
		seen[k] = true
		edges = append(edges, e)
	}
	var fns []*ssa.Function
	for fn := range locks {
		if c.InRepo(fn) && fn.Blocks != nil {
			fns = append(fns, fn)
		}
	}
	sort.Slice(fns, func(i, j int) bool { return fns[i].String() < fns[j].String() })
	for _, fn := range fns {
		info := locks[fn]
		pf := pathField[fn]
		if len(pf) == 0 {
			continue
		}
		heldFields := func(ls core.LockSet) map[string]byte {
			out := map[string]byte{}
			for p, m := range ls {
				if f, ok := pf[p]; ok {
					out[f] = m
				}
			}
			return out
		}
		for _, a := range info.Acq {
			f := lockField(a.Site)
			for hf, hm := range heldFields(a.Held) {
				add(orderEdge{hf, f, hm, a.Op.Mode, core.ShortFn(fn) + " at " + c.PosStr(a.Site.Pos())})
			}
		}
		for _, s := range core.Sites(fn) {
			if _, isGo := s.Instr.(*ssa.Go); isGo {
				continue
			}
			held := heldFields(info.At[s.Instr])
			if len(held) == 0 {
				continue
			}
			var callees []*ssa.Function
			if sc := s.Common.StaticCallee(); sc != nil {
				callees = append(callees, sc)
			} else if s.Common.IsInvoke() {
				for _, cal := range cg.Edges[fn] {
					if cal.Name() == s.Common.Method.Name() {
						callees = append(callees, cal)
					}
				}
			}
			for _, cal := range callees {
				if !c.InRepo(cal) {
					continue
				}
				for f, a := range trans(cal, 0, map[*ssa.Function]bool{}) {
					for hf, hm := range held {
						add(orderEdge{hf, f, hm, a.mode, core.ShortFn(fn) + " at " + c.PosStr(s.Pos()) + " → " + core.ShortFn(cal) + " … " + a.pos})
					}
				}
			}
		}
	}
	sort.Slice(edges, func(i, j int) bool {
		if edges[i].from != edges[j].from {
			return edges[i].from < edges[j].from
		}
		return edges[i].to < edges[j].to
	})
	return edges
}

// DumpLockOrder prints the lock-order edges and the two-field cycles among them.
func DumpLockOrder(c *core.Ctx) {
	edges := lockOrderEdges(c)
	adj := map[string]map[string]orderEdge{}
	for _, e := range edges {
		if adj[e.from] == nil {
			adj[e.from] = map[string]orderEdge{}
		}
		if _, ok := adj[e.from][e.to]; !ok {
			adj[e.from][e.to] = e
		}
	}
	fmt.Printf("%d edges over %d lock fields\n", len(edges), len(adj))
	for _, e := range edges {
		fmt.Printf("EDGE %s(%c) -> %s(%c)  %s\n", e.from, e.modeFrom, e.to, e.modeTo, e.where)
	}
	// cycles: strongly connected components with more than one node
	var nodes []string
	for a := range adj {
		nodes = append(nodes, a)
	}
	sort.Strings(nodes)
	reach := func(from, to string) bool {
		seen := map[string]bool{}
		var dfs func(x string) bool
		dfs = func(x string) bool {
			if x == to {
				return true
			}
			if seen[x] {
				return false
			}
			seen[x] = true
			for y := range adj[x] {
				if dfs(y) {
					return true
				}
			}
			return false
		}
		for y := range adj[from] {
			if dfs(y) {
				return true
			}
		}
		return false
	}
	for _, a := range nodes {
		for b := range adj[a] {
			if a < b && reach(b, a) {
				fmt.Printf("CYCLE %s <-> %s\n   %s\n", a, b, strings.TrimSpace(adj[a][b].where))
				if e, ok := adj[b][a]; ok {
					fmt.Printf("   %s\n", e.where)
				}
			}
		}
	}
}
