package rules

import (
	"fmt"
	"go/token"
	"os"
	"strings"

	"golang.org/x/tools/go/ssa"

	"verif/internal/core"
)

func init() {
	register(&RuleSet{
		Meta: core.PropertyMeta{
			ID: "C02",
			Explanation: "Decides the gating skeleton that keeps balances, volumes and reserves from going negative or above max supply: " +
				"(debit) every Accounts.SubBalance(a, c, v) in a live deliver block is covered, on EVERY acyclic path from the function entry to the debit (rejecting branches pruned, coin-equality branch facts carried along the path), by a sufficiency gate `GetBalance(a, c').Cmp(x) < 0 ⇒ reject` with the same account, c' = c (syntactically or by an equality fact on that path) and x containing v; the Multisend aggregate helper and RunTx's balance cap are recognised as their own idioms; plain dominance would miss a gate removed from only one arm of a `gasCoin == coin` diamond; " +
				"(supply) every Coins.AddVolume on a deliver path is dominated by CheckForCoinSupplyOverflow (or MintToken's explicit Volume+Value > MaxSupply gate) on the same coin, and every bancor Coins.SubReserve by CheckReserveUnderflow — directly or through CalculateSaleReturnAndCheck / CalculateSaleAmountAndCheck / CalculateCommission. " +
				"NOT decided: stakes, frozen funds, pool reserves and order volumes (arithmetic inside modules); that the gate's amount is numerically sufficient when deliver recomputes a trade.",
			Assumptions: stdAssumptions,
			Rules:       []string{"C02.debit", "C02.supply", "C02.helper"},
		},
		Run: runC02,
	})
}

func runC02(c *core.Ctx) {
	models := LiveModels(c, "C02.debit")
	checkDebits(c, models)
	checkMultisendHelper(c)
	checkSupply(c, models)
}

// checkMultisendHelper validates the aggregate balance helper the Multisend handler relies on.
func checkMultisendHelper(c *core.Ctx) {
	fn := c.Fn("coreV2/transaction.checkBalances")
	if fn == nil {
		c.Unk("C02.helper", "checkBalances", token.NoPos, "helper not found")
		return
	}
	var initGas, accum, gate bool
	for _, b := range fn.Blocks {
		for _, in := range b.Instrs {
			switch x := in.(type) {
			case *ssa.MapUpdate:
				if core.Path(x.Key) == "gasCoin" {
					if call, ok := core.Unwrap(x.Value).(*ssa.Call); ok && core.CalleeName(core.NormCall(&call.Call)) == "(*math/big.Int).Set" && core.Path(core.NormCall(&call.Call).Args[1]) == "commission" {
						initGas = true
					}
				}
			case *ssa.Call:
				n := core.CalleeName(core.NormCall(&x.Call))
				if n == "(*math/big.Int).Add" && len(core.NormCall(&x.Call).Args) == 3 && strings.HasSuffix(core.Path(core.NormCall(&x.Call).Args[2]), ".Value") && strings.Contains(core.Path(core.NormCall(&x.Call).Args[2]), "items[") {
					accum = true
				}
			}
		}
		if iff := core.IfOf(b); iff != nil {
			f := core.Fact{Cond: iff.Cond, Truth: false, Fn: fn}
			if ga, _, gx, ok := balanceGate(f); ok && core.Path(ga) == "sender" {
				// compared with total[coin]
				if lk, isLk := core.Unwrap(gx).(*ssa.Lookup); isLk || strings.Contains(core.Path(gx), "[") {
					_ = lk
					gate = true
				}
			}
		}
	}
	c.Check(initGas && accum && gate, "C02.helper", "checkBalances/shape", fn.Pos(),
		"totals start with the commission under the gas coin, add every item's value under its coin, and each coin's total is compared with GetBalance(sender, coin)",
		fmt.Sprintf("the Multisend aggregate balance helper no longer has its shape (commission seeded=%v, items accumulated=%v, per-coin gate=%v)", initGas, accum, gate))
}

// checkSupply: AddVolume / SubReserve gates.
func checkSupply(c *core.Ctx, models []*RunModel) {
	n := 0
	for _, m := range models {
		for _, mu := range m.Mutators {
			if mu.Module != "Coins" {
				continue
			}
			switch mu.Method {
			case "AddVolume":
				n++
				coin := mu.Site.Arg(0)
				key := fmt.Sprintf("%s.Run/AddVolume(%s)", m.H.TypeName, coinLabel(coin))
				why := ""
				amountArg := mu.Site.Arg(1)
				mismatch := ""
				ok, nFeasible, _ := pathwiseP(c, mu.Site.Instr, 4, func(p core.CFGPath, facts []core.Fact) bool {
					for _, f := range facts {
						// CheckForCoinSupplyOverflow(coinModel, delta) == nil — and delta is the amount
						// this path adds to the volume
						if f.ReturnedOK(".CheckForCoinSupplyOverflow") && f.OutcomeOf != nil && len(core.NormCall(&f.OutcomeOf.Call).Args) == 2 {
							delta := core.NormCall(&f.OutcomeOf.Call).Args[1]
							amt := p.Resolve(amountArg)
							delta, amt = stripCopy(delta), stripCopy(amt)
							if core.Unwrap(delta) == core.Unwrap(amt) || core.SameValue(delta, amt) || core.SameValue(delta, stripCopy(amountArg)) {
								if os.Getenv("VERIF_DEBUG") != "" {
									fmt.Printf("DEBUG supply %s: delta=%s amt=%s arg=%s  %v %v %v\n", key, describe(delta), describe(amt), describe(amountArg), core.Unwrap(delta) == core.Unwrap(amt), core.SameValue(delta, amt), core.SameValue(delta, amountArg))
								}
								return true
							}
							mismatch = fmt.Sprintf("; a max-supply gate exists but checks %s while %s is added", describe(delta), describe(amt))
							continue
						}
						if cf, isC := f.AsCall(); isC && cf.MethodName() == "Cmp" && cf.Op == token.EQL && cf.Const == 1 && !f.Truth && strings.HasSuffix(cf.ArgPath(0), ".MaxSupply()") {
							inHelper := false
							for _, v := range f.Via {
								if strings.HasSuffix(v, ".CheckForCoinSupplyOverflow") {
									inHelper = true // that comparison is about the helper's own delta (handled above)
								}
							}
							if !inHelper {
								return true // explicit Volume+Value > MaxSupply ⇒ reject (MintToken)
							}
						}
					}
					return false
				})
				if os.Getenv("VERIF_DEBUG") != "" {
					fmt.Printf("DEBUG supply %s: ok=%v feasible=%d\n", key, ok, nFeasible)
				}
				if ok && nFeasible == 0 {
					ok = false
					mismatch = "; no feasible path to the site was found (analysis could not decide)"
				}
				if !ok {
					// LP tokens: PairMint/PairCreate liquidity is bounded by the pool module
					if isLiquidityVolume(mu.Site) {
						ok = true
						why = " (pool-token liquidity returned by PairMint/PairCreate; bounded inside the pool module)"
					}
				}
				c.Check(ok, "C02.supply", key, mu.Site.Pos(), "dominated by a max-supply gate"+why, "coin volume is increased without a max-supply gate on the amount added: volume could exceed max supply"+mismatch)
			case "SubReserve":
				if strings.HasSuffix(core.Path(mu.Site.Arg(0)), ".CommissionCoin()") {
					// fee burn: reserve side checked by CalculateCommission → commissionFromReserve
					n++
					key := fmt.Sprintf("%s.Run/SubReserve(fee)", m.H.TypeName)
					ok := false
					for _, f := range c.FactsAt(mu.Site.Instr, 5) {
						for _, v := range f.Via {
							if strings.HasSuffix(v, ".CheckReserveUnderflow") || strings.HasSuffix(v, ".CalculateSaleAmountAndCheck") || strings.HasSuffix(v, ".CalculateSaleReturnAndCheck") || strings.HasSuffix(v, ".commissionFromReserve") || strings.HasSuffix(v, ".CalculateCommission") {
								ok = true
							}
						}
					}
					c.Check(ok, "C02.supply", key, mu.Site.Pos(), "dominated by CalculateCommission's reserve-underflow check", "bancor reserve is reduced for the fee without a reserve-underflow gate")
				} else {
					n++
					key := fmt.Sprintf("%s.Run/SubReserve(%s)", m.H.TypeName, coinLabel(mu.Site.Arg(0)))
					ok, np, up := pathwise(c, mu.Site.Instr, 5, func(facts []core.Fact) bool {
						for _, f := range facts {
							if f.ReturnedOK(".CheckReserveUnderflow") || f.ReturnedOK(".CalculateSaleAmountAndCheck") || f.ReturnedOK(".CalculateSaleReturnAndCheck") {
								return true
							}
						}
						return false
					})
					c.Check(ok, "C02.supply", key, mu.Site.Pos(), fmt.Sprintf("a reserve-underflow gate lies on each of %d feasible paths", np), "bancor reserve is reduced without a reserve-underflow gate on the path "+up)
				}
			}
		}
	}
	c.Floor("C02.supply", n, 40, "volume/reserve mutation sites")
}

// stripCopy: big.NewInt(0).Set(x) / new(big.Int).Set(x) is a copy of x.
func stripCopy(v ssa.Value) ssa.Value {
	for i := 0; i < 4; i++ {
		call, ok := core.Unwrap(v).(*ssa.Call)
		if !ok || core.CalleeName(core.NormCall(&call.Call)) != "(*math/big.Int).Set" || len(core.NormCall(&call.Call).Args) != 2 {
			return v
		}
		switch r := core.Unwrap(core.NormCall(&call.Call).Args[0]).(type) {
		case *ssa.Call:
			if core.CalleeName(core.NormCall(&r.Call)) != "math/big.NewInt" {
				return v
			}
		case *ssa.Alloc:
		default:
			return v
		}
		v = core.NormCall(&call.Call).Args[1]
	}
	return v
}

// isLiquidityVolume: AddVolume(lpCoin, liquidity) where liquidity is a result of PairMint/PairCreate.
func isLiquidityVolume(s *core.Site) bool {
	for _, o := range core.Origins(s.Arg(1)) {
		if ex, ok := o.(*ssa.Extract); ok {
			if call, ok := ex.Tuple.(*ssa.Call); ok && call.Call.IsInvoke() {
				n := call.Call.Method.Name()
				if n == "PairMint" || n == "PairCreate" {
					return true
				}
			}
		}
		// big.NewInt(0).Set(liquidity) / Sub(liquidity, Bound)
		if call, ok := o.(*ssa.Call); ok {
			for _, a := range core.NormCall(&call.Call).Args {
				for _, oo := range core.Origins(a) {
					if ex, ok := oo.(*ssa.Extract); ok {
						if c2, ok := ex.Tuple.(*ssa.Call); ok && c2.Call.IsInvoke() && (c2.Call.Method.Name() == "PairMint" || c2.Call.Method.Name() == "PairCreate") {
							return true
						}
					}
				}
			}
		}
	}
	return false
}
