package rules

import (
	"fmt"
	"go/token"
	"go/types"
	"sort"
	"strings"

	"golang.org/x/tools/go/ssa"

	"verif/internal/core"
)

func init() {
	register(&RuleSet{
		Meta: core.PropertyMeta{
			ID: "C15",
			Explanation: "That the deliver-time recomputation of a trade (run with minimum 0 / maximum supply) reproduces the amounts the check phase compared with the user's limit is arithmetic and is NOT decided. Decided: " +
				"(limit) in every live handler whose data carries MinimumValueToBuy / MaximumValueToSell, that field flows, in the validation phase (outside the deliver block), into a comparison whose failing edge rejects — directly (`value.Cmp(limit)` of the bancor handlers) or as the valueOut (sell) / valueIn (buy) argument of CheckSwap with the matching isBuy constant, whose non-nil response is returned; inside CheckSwap those parameters govern the MinimumValueToBuyReached / MaximumValueToSellReached rejections with the right polarity (calculated < minimum, calculated > maximum); " +
				"(hopsim) inside the route loops the simulated fee conversion (AddLastSwapStepWithOrders) is guarded by a comparison of tx.GasCoin with the current hop's coin and an IsBaseCoin() test of the hop's other coin — per-hop conditions, not ones computed before the loop; (routedup) the set of pool ids that rejects a repeated pool is created before the route loop and filled inside it (each hop is priced on the untouched pool, so a repeated pool voids the limit); (tags) the amounts printed in tx.return and tx.sell_amount have the same call-result origins as an amount actually credited to / debited from tx.Sender() in the same deliver block; " +
				"(sellall) a sell-all handler debits the sender's whole balance of the sold coin: the debited amounts have the GetBalance(tx.Sender(), coin to sell) read as an origin and the amount handed to the trade is that balance minus the commission.",
			Assumptions: stdAssumptions,
			Rules:       []string{"C15.limit", "C15.checkswap", "C15.tags", "C15.sellall", "C15.hopsim", "C15.routedup", "C15.compool", "C15.lastiter"},
		},
		Run: runC15,
	})
}

// fieldLoadsOf returns the loads of field `name` of the handler's data value in fn (and, one
// level down, in the handler's basicCheck).
func fieldLoads(fn *ssa.Function, name string) []ssa.Value {
	var out []ssa.Value
	for _, b := range fn.Blocks {
		for _, in := range b.Instrs {
			switch x := in.(type) {
			case *ssa.FieldAddr:
				if fieldNameOf(x) != name {
					continue
				}
				for _, r := range *x.Referrers() {
					if ld, ok := r.(*ssa.UnOp); ok && ld.Op == token.MUL {
						out = append(out, ld)
					}
				}
			case *ssa.Field:
				if n, st := structOfType(x.X.Type()); n != nil && st != nil && st.Field(x.Field).Name() == name {
					out = append(out, x)
				}
			}
		}
	}
	return out
}

func structOfType(t types.Type) (*types.Named, *types.Struct) {
	if p, ok := t.Underlying().(*types.Pointer); ok {
		t = p.Elem()
	}
	n, _ := t.(*types.Named)
	st, _ := t.Underlying().(*types.Struct)
	return n, st
}

// forward walks the uses of v through phis and conversions and calls visit for every using
// instruction (with the value as seen by that instruction).
func forward(v ssa.Value, visit func(user ssa.Instruction, as ssa.Value)) {
	seen := map[ssa.Value]bool{}
	var walk func(v ssa.Value)
	walk = func(v ssa.Value) {
		if seen[v] || v.Referrers() == nil {
			return
		}
		seen[v] = true
		for _, r := range *v.Referrers() {
			visit(r, v)
			switch x := r.(type) {
			case *ssa.Phi:
				walk(x)
			case *ssa.ChangeType:
				walk(x)
			case *ssa.MakeInterface:
				// fmt arguments: not a flow of the limit
			case *ssa.Store:
				// local variable cell
				if al, ok := x.Addr.(*ssa.Alloc); ok && x.Val == v {
					for _, rr := range *al.Referrers() {
						if ld, ok := rr.(*ssa.UnOp); ok && ld.Op == token.MUL {
							walk(ld)
						}
					}
				}
			}
		}
	}
	walk(v)
}

// rejectsOn: the comparison `cmp <op> k` governs an If one of whose successors is a rejecting
// return block; returns the (op, k, edgeTrue) under which the rejection is taken.
func cmpRejects(cmp *ssa.Call) (token.Token, int64, bool) {
	if cmp.Referrers() == nil {
		return token.ILLEGAL, 0, false
	}
	for _, r := range *cmp.Referrers() {
		bin, ok := r.(*ssa.BinOp)
		if !ok {
			continue
		}
		k, okk := core.ConstInt(bin.Y)
		if !okk {
			continue
		}
		for _, rr := range *bin.Referrers() {
			iff, ok := rr.(*ssa.If)
			if !ok {
				continue
			}
			if blockRejects(iff.Block().Succs[0]) {
				return bin.Op, k, true
			}
		}
	}
	return token.ILLEGAL, 0, false
}

// blockRejects: b (possibly after straight-line jumps) ends in a return of a rejecting Response
// or of a non-nil *Response.
func blockRejects(b *ssa.BasicBlock) bool {
	for i := 0; i < 4 && b != nil; i++ {
		if len(b.Instrs) == 0 {
			return false
		}
		switch t := b.Instrs[len(b.Instrs)-1].(type) {
		case *ssa.Return:
			if len(t.Results) >= 1 {
				cr := classifyReturn(t)
				if cr.Class == "reject" {
					return true
				}
				// *Response / (resp, …) forms: first result is an Alloc'd &Response{…} (non-nil)
				switch core.Unwrap(resolveRet(t, 0)).(type) {
				case *ssa.Alloc:
					return true
				}
			}
			return false
		case *ssa.Jump:
			b = b.Succs[0]
		default:
			return false
		}
	}
	return false
}

func runC15(c *core.Ctx) {
	nLimit, nTags, nHop, nDup, nCom, nLast := 0, 0, 0, 0, 0, 0
	for _, m := range LiveModels(c, "C15.limit") {
		nCom += checkComPool(c, "C15.compool", m)
		nHop += checkHopSimulation(c, "C15.hopsim", m)
		nDup += checkRouteDuplicates(c, "C15.routedup", m)
		_, st := structOfType(m.H.Type)
		if st == nil {
			continue
		}
		var limitField string
		for i := 0; i < st.NumFields(); i++ {
			switch st.Field(i).Name() {
			case "MinimumValueToBuy", "MaximumValueToSell":
				limitField = st.Field(i).Name()
			}
		}
		if limitField == "" {
			continue
		}
		nLimit++
		nLast += checkLastIterationLimit(c, "C15.lastiter", m, limitField)
		checkLimitFlow(c, m, limitField)
		nTags += checkTradeTags(c, m)
		if strings.HasPrefix(m.H.ConstName, "TypeSellAll") {
			checkSellAll(c, m)
		}
	}
	c.Floor("C15.limit", nLimit, 6, "live handlers with a slippage limit field")
	c.Floor("C15.tags", nTags, 6, "result tags checked against balance changes")
	c.Floor("C15.hopsim", nHop, 4, "simulated fee-conversion steps inside route loops")
	c.Floor("C15.lastiter", nLast, 3, "route-loop hop checks")
	c.Floor("C15.compool", nCom, 14, "simulated fee-conversion steps in live handlers")
	c.Floor("C15.routedup", nDup, 3, "duplicate-pool membership tests in route loops")
	checkCheckSwap(c)
}

func checkLimitFlow(c *core.Ctx, m *RunModel, field string) {
	name := m.H.TypeName
	wantBuy := field == "MaximumValueToSell"
	fns := []*ssa.Function{m.Fn}
	if m.H.Basic != nil {
		fns = append(fns, m.H.Basic)
	}
	var sinks []string
	for _, fn := range fns {
		for _, ld := range fieldLoads(fn, field) {
			forward(ld, func(user ssa.Instruction, as ssa.Value) {
				call, ok := user.(*ssa.Call)
				if !ok {
					return
				}
				if fn == m.Fn && m.InDeliver(call.Block()) {
					return
				}
				cn := core.CalleeName(core.NormCall(&call.Call))
				switch {
				case cn == "(*math/big.Int).Cmp":
					op, k, _ := cmpRejects(call)
					if op == token.ILLEGAL {
						return
					}
					limitIsArg := len(core.NormCall(&call.Call).Args) == 2 && core.NormCall(&call.Call).Args[1] == as
					// sell: reject when calculated < minimum: calc.Cmp(min) == -1  |  min.Cmp(calc) == 1
					// buy:  reject when calculated > maximum: calc.Cmp(max) == 1   |  max.Cmp(calc) == -1
					var good bool
					if !wantBuy {
						good = (limitIsArg && (op == token.EQL && k == -1 || op == token.LSS && k == 0)) || (!limitIsArg && (op == token.EQL && k == 1 || op == token.GTR && k == 0))
					} else {
						good = (limitIsArg && (op == token.EQL && k == 1 || op == token.GTR && k == 0)) || (!limitIsArg && (op == token.EQL && k == -1 || op == token.LSS && k == 0))
					}
					if good {
						sinks = append(sinks, "direct comparison at "+c.PosStr(call.Pos()))
					}
				case strings.HasSuffix(cn, ".CheckSwap") && len(core.NormCall(&call.Call).Args) == 6:
					isBuy, ok := core.Unwrap(core.NormCall(&call.Call).Args[5]).(*ssa.Const)
					if !ok || isBuy.Value == nil {
						return
					}
					b := isBuy.Value.String() == "true"
					idx := 4 // valueOut
					if wantBuy {
						idx = 3 // valueIn
					}
					if b != wantBuy || !reachesArg(core.NormCall(&call.Call).Args[idx], as) {
						return
					}
					// the response must be returned when non-nil
					returned := false
					for _, r := range *call.Referrers() {
						ex, ok := r.(*ssa.Extract)
						if !ok || ex.Index != 0 {
							continue
						}
						forward(ex, func(u ssa.Instruction, _ ssa.Value) {
							if bin, ok := u.(*ssa.BinOp); ok && bin.Op == token.NEQ {
								for _, rr := range *bin.Referrers() {
									if iff, ok := rr.(*ssa.If); ok && blockReturnsForward(iff.Block().Succs[0]) {
										returned = true
									}
								}
							}
						})
					}
					if returned {
						sinks = append(sinks, "CheckSwap argument at "+c.PosStr(call.Pos()))
					}
				}
			})
		}
	}
	sort.Strings(sinks)
	c.Check(len(sinks) > 0, "C15.limit", name+"/"+field, m.Fn.Pos(), "the user's limit reaches a rejecting comparison before the deliver block: "+strings.Join(sinks, "; "),
		"data."+field+" does not reach, in the validation phase, a comparison with the calculated amount whose failing edge rejects (with the right polarity): the trade would execute beyond the user's limit")
}

func reachesArg(arg, v ssa.Value) bool {
	if arg == v {
		return true
	}
	for _, o := range core.Origins(arg) {
		if o == v {
			return true
		}
	}
	return false
}

// blockReturnsForward: the block returns (a dereferenced) response.
func blockReturnsForward(b *ssa.BasicBlock) bool {
	for i := 0; i < 3 && b != nil; i++ {
		if len(b.Instrs) == 0 {
			return false
		}
		switch b.Instrs[len(b.Instrs)-1].(type) {
		case *ssa.Return:
			return true
		case *ssa.Jump:
			b = b.Succs[0]
		default:
			return false
		}
	}
	return false
}

// checkCheckSwap: inside CheckSwap the sell arm rejects calculated < valueOut and the buy arm
// rejects calculated > valueIn.
func checkCheckSwap(c *core.Ctx) {
	fn := c.MustFn("C15.checkswap", core.PkgTx+".CheckSwap")
	if fn == nil {
		return
	}
	var pIn, pOut *ssa.Parameter
	for _, p := range fn.Params {
		switch core.ParamName(p) {
		case "valueIn":
			pIn = p
		case "valueOut":
			pOut = p
		}
	}
	if pIn == nil || pOut == nil {
		c.Unk("C15.checkswap", "CheckSwap/params", fn.Pos(), "parameters valueIn / valueOut not found")
		return
	}
	// the comparison may sit in CheckSwap itself or in a helper of the same package the parameter
	// is handed to and whose result CheckSwap returns (CheckSwap split into a buy and a sell half)
	var search func(p *ssa.Parameter, wantOp token.Token, wantK int64, depth int) bool
	search = func(p *ssa.Parameter, wantOp token.Token, wantK int64, depth int) bool {
		found := false
		forward(p, func(user ssa.Instruction, as ssa.Value) {
			call, ok := user.(*ssa.Call)
			if !ok {
				return
			}
			if core.CalleeName(core.NormCall(&call.Call)) == "(*math/big.Int).Cmp" && len(core.NormCall(&call.Call).Args) == 2 && core.NormCall(&call.Call).Args[1] == as {
				op, k, _ := cmpRejects(call)
				if op == wantOp && k == wantK {
					found = true
				}
				return
			}
			if sc := call.Call.StaticCallee(); sc != nil && depth < 2 && sc.Blocks != nil && core.PkgOf(sc) == core.PkgOf(p.Parent()) && returnsResultOf(p.Parent(), call) {
				for i, a := range core.NormCall(&call.Call).Args {
					if a == as && i < len(sc.Params) && search(sc.Params[i], wantOp, wantK, depth+1) {
						found = true
					}
				}
			}
		})
		return found
	}
	look := func(p *ssa.Parameter, wantOp token.Token, wantK int64, what string) {
		c.Check(search(p, wantOp, wantK, 0), "C15.checkswap", "CheckSwap/"+what, fn.Pos(), "calculated.Cmp("+core.ParamName(p)+") "+wantOp.String()+" "+fmt.Sprint(wantK)+" ⇒ reject", "CheckSwap no longer rejects when the calculated amount violates "+core.ParamName(p))
	}
	look(pOut, token.EQL, -1, "minimum-to-buy")
	look(pIn, token.EQL, 1, "maximum-to-sell")
}

// callOrigins: the call-result origins (calls and extracts of calls) of v, as canonical strings.
func callOrigins(v ssa.Value) map[ssa.Value]bool {
	out := map[ssa.Value]bool{}
	for _, o := range core.Origins(v) {
		switch x := o.(type) {
		case *ssa.Extract:
			out[x.Tuple] = true
		case *ssa.Call:
			n := core.CalleeName(core.NormCall(&x.Call))
			if n == "(*math/big.Int).Set" && len(core.NormCall(&x.Call).Args) == 2 {
				for k := range callOrigins(core.NormCall(&x.Call).Args[1]) {
					out[k] = true
				}
				continue
			}
			out[x] = true
		case *ssa.UnOp:
			out[x] = true
		}
	}
	return out
}

// tagValues finds, in the deliver region, the values printed under the given tag key:
// EventAttribute{Key: []byte("<key>"), Value: []byte(X.String())} → X.
func tagValues(m *RunModel, key string) []ssa.Value {
	var out []ssa.Value
	for _, b := range m.Fn.Blocks {
		for _, in := range b.Instrs {
			st, ok := in.(*ssa.Store)
			if !ok {
				continue
			}
			fa, ok := st.Addr.(*ssa.FieldAddr)
			if !ok || fieldNameOf(fa) != "Key" {
				continue
			}
			if !isBytesOfString(st.Val, key) {
				continue
			}
			// sibling store to .Value of the same element
			for _, r := range *fa.X.Referrers() {
				fv, ok := r.(*ssa.FieldAddr)
				if !ok || fieldNameOf(fv) != "Value" {
					continue
				}
				for _, rr := range *fv.Referrers() {
					if sv, ok := rr.(*ssa.Store); ok && sv.Addr == fv {
						if x := stringReceiver(sv.Val); x != nil {
							out = append(out, x)
						}
					}
				}
			}
		}
	}
	return out
}

func isBytesOfString(v ssa.Value, s string) bool {
	cv, ok := v.(*ssa.Convert)
	if !ok {
		return false
	}
	k, ok := cv.X.(*ssa.Const)
	return ok && k.Value != nil && k.Value.ExactString() == fmt.Sprintf("%q", s)
}

// stringReceiver: v = []byte(X.String()) → X.
func stringReceiver(v ssa.Value) ssa.Value {
	cv, ok := v.(*ssa.Convert)
	if !ok {
		return nil
	}
	call, ok := cv.X.(*ssa.Call)
	if !ok || !strings.HasSuffix(core.CalleeName(core.NormCall(&call.Call)), ".String") || len(core.NormCall(&call.Call).Args) == 0 {
		return nil
	}
	return core.NormCall(&call.Call).Args[0]
}

func checkTradeTags(c *core.Ctx, m *RunModel) int {
	name := m.H.TypeName
	n := 0
	// amounts moved on the sender's account
	var moved []ssa.Value
	for _, mu := range m.Mutators {
		if mu.Module == "Accounts" && (mu.Method == "AddBalance" || mu.Method == "SubBalance") && m.isTxSender(mu.Site.Arg(0)) {
			moved = append(moved, mu.Site.Arg(2))
		}
	}
	for _, key := range []string{"tx.return", "tx.sell_amount"} {
		for _, tv := range tagValues(m, key) {
			n++
			want := callOrigins(tv)
			// a loop-carried amount (`valueToSell = amountOut`) also has its initial value as an
			// origin; the route has at least one hop, so only the call results matter
			hasCall := false
			for k := range want {
				if _, isLoad := k.(*ssa.UnOp); !isLoad {
					hasCall = true
				}
			}
			if hasCall {
				for k := range want {
					if _, isLoad := k.(*ssa.UnOp); isLoad {
						delete(want, k)
					}
				}
			}
			good := len(want) > 0
			matched := false
			for _, mv := range moved {
				have := callOrigins(mv)
				// the pool functions hand back the amount they were given (amount0In / amount1Out):
				// an amount taken from their results also carries the origins of their amount arguments
				for k := range have {
					if call, ok := k.(*ssa.Call); ok && (methodNameOfCall(call) == "PairSellWithOrders" || methodNameOfCall(call) == "PairBuyWithOrders") && len(core.NormCall(&call.Call).Args) >= 4 {
						for _, a := range core.NormCall(&call.Call).Args[2:4] {
							for kk := range callOrigins(a) {
								have[kk] = true
							}
						}
					}
				}
				all := true
				for k := range want {
					if !have[k] {
						all = false
					}
				}
				if all && len(have) > 0 {
					matched = true
				}
			}
			// a tag printing data.ValueToBuy / data.ValueToSell itself (constant of the tx)
			if !matched {
				for _, mv := range moved {
					if core.SameValue(mv, tv) {
						matched = true
					}
				}
			}
			c.Check(good && matched, "C15.tags", name+"/"+key, tv.Pos(), "the tagged amount has the same origins as an amount credited to / debited from the sender", "the amount printed in "+key+" does not derive from the same call results as any balance change applied to the sender: the tag can disagree with the state")
		}
	}
	return n
}

func checkSellAll(c *core.Ctx, m *RunModel) {
	name := m.H.TypeName
	// the whole-balance read
	var balances []*ssa.Call
	for _, s := range core.Sites(m.Fn) {
		if methodName(s) == "GetBalance" && m.isTxSender(s.Arg(0)) && !m.InDeliver(s.Block()) {
			if call, ok := s.Instr.(*ssa.Call); ok {
				balances = append(balances, call)
			}
		}
	}
	// debits of the sender in the deliver block: their origins, together, must include a balance read
	debitHasBalance := false
	for _, mu := range m.Mutators {
		if mu.Module == "Accounts" && mu.Method == "SubBalance" && m.isTxSender(mu.Site.Arg(0)) {
			for k := range callOrigins(mu.Site.Arg(2)) {
				for _, b := range balances {
					if k == ssa.Value(b) {
						debitHasBalance = true
					}
				}
			}
			// pool form: the first hop debits amountIn of PairSellWithOrders whose input is balance − commission
			for k := range callOrigins(mu.Site.Arg(2)) {
				if call, ok := k.(*ssa.Call); ok && methodNameOfCall(call) == "PairSellWithOrders" {
					if core.DependsOn(core.NormCall(&call.Call).Args[2], func(v ssa.Value) bool {
						for _, b := range balances {
							if v == ssa.Value(b) {
								return true
							}
						}
						return false
					}) {
						debitHasBalance = true
					}
				}
			}
		}
	}
	c.Check(len(balances) > 0 && debitHasBalance, "C15.sellall", name+"/whole-balance", m.Fn.Pos(), "the amount debited from the sender derives from GetBalance(tx.Sender(), coin to sell) read in the validation phase", "a sell-all handler no longer debits an amount derived from the sender's whole balance of the sold coin")
}

// checkHopSimulation — the route handlers price every hop of a multi-pool trade in the validation
// phase; when the fee is converted through one of the route's pools, deliver converts the fee
// FIRST, so the validation phase must apply that conversion to the simulated pool
// (AddLastSwapStepWithOrders) on exactly the hop that goes through the fee pool. Which hop that is
// is a per-hop question: the guards of the simulation step inside the route loop must compare
// tx.GasCoin with the CURRENT hop's coins. A guard computed once before the loop (from the
// route's first coin, say) applies the correction on the wrong hops or not at all, and the trade
// then executes past the user's limit although the check accepted it.
func checkHopSimulation(c *core.Ctx, rule string, m *RunModel) int {
	n := 0
	loopVariant := func(v ssa.Value) bool {
		return core.DependsOn(v, func(x ssa.Value) bool {
			switch y := x.(type) {
			case *ssa.Phi:
				return core.InCycle(y.Block())
			case *ssa.Next:
				return true
			}
			return false
		})
	}
	for _, s := range core.Sites(m.Fn) {
		if methodName(s) != "AddLastSwapStepWithOrders" || !core.InCycle(s.Block()) || m.InDeliver(s.Block()) {
			continue
		}
		n++
		gasVsHop, baseOfHop := false, false
		for _, g := range core.GatesBefore(s.Instr) {
			if !core.InCycle(g.If.Block()) || !g.PassTrue {
				continue
			}
			switch x := g.If.Cond.(type) {
			case *ssa.BinOp:
				if x.Op != token.EQL {
					continue
				}
				a, b := x.X, x.Y
				isGas := func(v ssa.Value) bool {
					p := core.Path(v)
					return strings.HasSuffix(p, ".GasCoin") || strings.HasSuffix(p, ".CommissionCoin()")
				}
				if isGas(b) {
					a, b = b, a
				}
				if isGas(a) && loopVariant(b) {
					gasVsHop = true
				}
			case *ssa.Call:
				if methodNameOfCall(x) == "IsBaseCoin" && len(core.NormCall(&x.Call).Args) > 0 && loopVariant(core.NormCall(&x.Call).Args[0]) {
					baseOfHop = true
				}
			}
		}
		key := fmt.Sprintf("%s/hop-simulation#%d", m.H.TypeName, n)
		c.Check(gasVsHop && baseOfHop, rule, key, s.Pos(), "the fee-conversion step is simulated on the hop whose own coins are (gas coin, base coin)",
			fmt.Sprintf("the simulated fee conversion inside the route loop is not guarded by a comparison of tx.GasCoin with the current hop's coin and an IsBaseCoin() test of the current hop's other coin (gas-vs-hop:%v base-of-hop:%v): the correction is applied to the wrong hop, so the limit is checked against pools that deliver will have moved", gasVsHop, baseOfHop))
	}
	return n
}

// checkRouteDuplicates — each hop of a route is priced on the pool as it is before the trade, so the
// user's limit is only sound if no pool occurs twice in a route; the handlers reject a repeated
// pool with a set of the pool ids seen so far. That set has to live across the hops: it must be
// created before the route loop, inserted into inside it, and its membership test must reject.
func checkRouteDuplicates(c *core.Ctx, rule string, m *RunModel) int {
	n := 0
	for _, b := range m.Fn.Blocks {
		for _, in := range b.Instrs {
			lk, ok := in.(*ssa.Lookup)
			if !ok || !lk.CommaOk || !core.InCycle(b) || m.InDeliver(b) {
				continue
			}
			var mk *ssa.MakeMap
			for _, o := range core.Origins(lk.X) {
				if x, ok := o.(*ssa.MakeMap); ok {
					mk = x
				}
			}
			if mk == nil {
				continue
			}
			// the lookup's ok result governs a rejecting return
			rejects := false
			for _, r := range *lk.Referrers() {
				ex, ok := r.(*ssa.Extract)
				if !ok || ex.Index != 1 {
					continue
				}
				for _, rr := range *ex.Referrers() {
					if iff, ok := rr.(*ssa.If); ok && blockRejects(iff.Block().Succs[0]) {
						rejects = true
					}
				}
			}
			if !rejects {
				continue
			}
			n++
			inserted := false
			for _, r := range *mk.Referrers() {
				if mu, ok := r.(*ssa.MapUpdate); ok && core.InCycle(mu.Block()) && (core.SameValue(mu.Key, lk.Index) || sameCallOnSameRecv(mu.Key, lk.Index)) {
					inserted = true
				}
			}
			// through a cell (the map variable is captured / spilled)
			if !inserted {
				for _, bb := range m.Fn.Blocks {
					for _, i2 := range bb.Instrs {
						if mu, ok := i2.(*ssa.MapUpdate); ok && core.InCycle(bb) {
							for _, o := range core.Origins(mu.Map) {
								if o == ssa.Value(mk) && (core.SamePath(mu.Key, lk.Index) || sameCallOnSameRecv(mu.Key, lk.Index)) {
									inserted = true
								}
							}
						}
					}
				}
			}
			key := fmt.Sprintf("%s/duplicate-pool-set#%d", m.H.TypeName, n)
			c.Check(!core.InCycle(mk.Block()) && inserted, rule, key, lk.Pos(), "the set of pools already used is created before the route loop and every hop's pool is inserted into it",
				fmt.Sprintf("the duplicate-pool set does not survive from hop to hop (created inside the loop: %v, hop inserted: %v): a route can pass through the same pool twice, each pass priced on the untouched pool, so the trade costs more / returns less than the limit that was checked", core.InCycle(mk.Block()), inserted))
		}
	}
	return n
}

// sameCallOnSameRecv: both values are results of the same niladic method called on the same
// receiver value (`swapper.GetID()` written twice).
func sameCallOnSameRecv(a, b ssa.Value) bool {
	ca, ok1 := core.Unwrap(a).(*ssa.Call)
	cb, ok2 := core.Unwrap(b).(*ssa.Call)
	if !ok1 || !ok2 || methodNameOfCall(ca) == "" || methodNameOfCall(ca) != methodNameOfCall(cb) {
		return false
	}
	ra, rb := ca.Call.Value, cb.Call.Value
	if !ca.Call.IsInvoke() {
		if len(core.NormCall(&ca.Call).Args) != 1 || len(core.NormCall(&cb.Call).Args) != 1 {
			return false
		}
		ra, rb = core.NormCall(&ca.Call).Args[0], core.NormCall(&cb.Call).Args[0]
	} else if len(core.NormCall(&ca.Call).Args) != 0 || len(core.NormCall(&cb.Call).Args) != 0 {
		return false
	}
	return core.Unwrap(ra) == core.Unwrap(rb)
}

// checkComPool — when the fee is converted through the very pool the transaction operates on,
// the validation phase first applies the fee conversion to its scratch copy of that pool
// (AddLastSwapStep…). Which way the conversion moves the pool depends on which of the pool's two
// coins is the gas coin: the pool (P, Q) is the fee pool (gas coin, base coin) iff
// gas == P ∧ Q is the base coin — then the step is (+fee, +fee in base) — or gas == Q ∧ P is the
// base coin — then the step is (−fee in base, −fee). Decided for every such step of every live
// handler: it is governed by `tx.GasCoin == X` and `Y.IsBaseCoin()` where X and Y are the two
// different coins the scratch pool was obtained for, and the sign form of its arguments is the one
// of that arm. An arm that tests one coin twice never fires (or fires for the wrong pool), and the
// limit / balance checks are then made against reserves deliver will have moved.
func checkComPool(c *core.Ctx, rule string, m *RunModel) int {
	n := 0
	isGas := func(v ssa.Value) bool {
		p := core.Path(v)
		return strings.HasSuffix(p, ".GasCoin") || strings.HasSuffix(p, ".CommissionCoin()")
	}
	same := func(a, b ssa.Value) bool {
		return a != nil && b != nil && (core.Unwrap(a) == core.Unwrap(b) || core.SamePath(a, b))
	}
	for _, s := range core.Sites(m.Fn) {
		mn := methodName(s)
		if (mn != "AddLastSwapStepWithOrders" && mn != "AddLastSwapStep") || m.InDeliver(s.Block()) {
			continue
		}
		n++
		key := fmt.Sprintf("%s/fee-step#%d", m.H.TypeName, n)
		var X, Y ssa.Value
		for _, g := range core.GatesBefore(s.Instr) {
			if !g.PassTrue {
				continue
			}
			switch x := g.If.Cond.(type) {
			case *ssa.BinOp:
				if x.Op != token.EQL {
					continue
				}
				a, b := x.X, x.Y
				if isGas(b) {
					a, b = b, a
				}
				if isGas(a) {
					X = b
				}
			case *ssa.Call:
				if methodNameOfCall(x) == "IsBaseCoin" && len(core.NormCall(&x.Call).Args) > 0 {
					Y = core.NormCall(&x.Call).Args[0]
				}
			}
		}
		if X == nil || Y == nil {
			c.Bad(rule, key, s.Pos(), "the simulated fee conversion is not governed by a comparison of the gas coin with one coin of the pool and a base-coin test of the other")
			continue
		}
		if same(X, Y) {
			c.Bad(rule, key, s.Pos(), fmt.Sprintf("the arm tests one and the same coin twice (gas coin == %s and %s.IsBaseCoin()): with the fee paid through a pool the gas coin is not the base coin, so the arm never fires and the scratch pool is checked without the fee conversion deliver performs first", core.Path(X), core.Path(Y)))
			continue
		}
		// the pool the scratch copy was obtained for
		var P, Q ssa.Value
		for o := range callOrigins(s.Recv()) {
			if call, ok := o.(*ssa.Call); ok && methodNameOfCall(call) == "GetSwapper" {
				args := core.NormCall(&call.Call).Args
				if !call.Call.IsInvoke() && len(args) > 0 {
					args = args[1:]
				}
				if len(args) == 2 {
					P, Q = args[0], args[1]
				}
			}
		}
		if P == nil {
			c.Unk(rule, key, s.Pos(), "cannot find the GetSwapper call the scratch pool comes from")
			continue
		}
		neg := func(v ssa.Value) bool {
			call, ok := core.Unwrap(v).(*ssa.Call)
			return ok && core.CalleeName(core.NormCall(&call.Call)) == "(*math/big.Int).Neg"
		}
		a0, a1 := s.Arg(0), s.Arg(1)
		switch {
		case same(X, P) && same(Y, Q):
			c.Check(!neg(a0) && !neg(a1), rule, key, s.Pos(), "gas coin is the pool's first coin: step (+fee, +fee in base)", "the gas coin is the pool's first coin but the simulated step does not have the form (+fee, +fee in base coin)")
		case same(X, Q) && same(Y, P):
			c.Check(neg(a0) && neg(a1), rule, key, s.Pos(), "gas coin is the pool's second coin: step (−fee in base, −fee)", "the gas coin is the pool's second coin but the simulated step does not have the form (−fee in base coin, −fee)")
		default:
			c.Bad(rule, key, s.Pos(), fmt.Sprintf("the coins tested (gas coin == %s, %s.IsBaseCoin()) are not the two coins (%s, %s) the scratch pool was obtained for", core.Path(X), core.Path(Y), core.Path(P), core.Path(Q)))
		}
	}
	return n
}

// returnsResultOf: some return of fn hands back (the first result of) call.
func returnsResultOf(fn *ssa.Function, call *ssa.Call) bool {
	for _, r := range core.Returns(fn) {
		for _, res := range r.Results {
			for _, o := range append([]ssa.Value{res}, core.Origins(res)...) {
				switch x := core.Unwrap(o).(type) {
				case *ssa.Call:
					if x == call {
						return true
					}
				case *ssa.Extract:
					if x.Tuple == ssa.Value(call) {
						return true
					}
				}
			}
		}
	}
	return false
}

// checkLastIterationLimit — C15.lastiter. In a route the user's limit applies to the last hop:
// the handlers walk the route with the bound of every hop set to "anything" and replace it by
// data.MinimumValueToBuy / MaximumValueToSell under `i == lastIteration` before the hop is checked.
// Decided for the CheckSwap call inside each route loop: on every path through one iteration of
// the loop that reaches the call without having decided `i != lastIteration`, the bound handed to
// CheckSwap is the user's limit. (If the arming is made the `else` of some other condition, the
// paths through that condition reach the check of the last hop with no limit at all.)
func checkLastIterationLimit(c *core.Ctx, rule string, m *RunModel, field string) int {
	wantBuy := field == "MaximumValueToSell"
	limits := map[ssa.Value]bool{}
	for _, ld := range fieldLoads(m.Fn, field) {
		limits[ld] = true
	}
	n := 0
	for _, s := range core.Sites(m.Fn) {
		if !strings.HasSuffix(s.Callee, ".CheckSwap") || len(s.Common.Args) != 6 || !core.InCycle(s.Block()) || m.InDeliver(s.Block()) {
			continue
		}
		idx := 4
		if wantBuy {
			idx = 3
		}
		bound := s.Common.Args[idx]
		// the loop
		loop := map[*ssa.BasicBlock]bool{s.Block(): true}
		for x := range core.ReachFrom(s.Block(), nil) {
			if core.ReachFrom(x, nil)[s.Block()] {
				loop[x] = true
			}
		}
		var header *ssa.BasicBlock
		for x := range loop {
			for _, pr := range x.Preds {
				if !loop[pr] {
					header = x
				}
			}
		}
		if header == nil {
			continue
		}
		inLoopVal := func(v ssa.Value) bool {
			in, ok := v.(ssa.Instruction)
			return ok && in.Block() != nil && loop[in.Block()]
		}
		// `index == last`: an equality of a loop-variant integer with a loop-invariant one
		isLastTest := func(cond ssa.Value) bool {
			bin, ok := cond.(*ssa.BinOp)
			if !ok || (bin.Op != token.EQL && bin.Op != token.NEQ) {
				return false
			}
			if !isNumeric(bin.X.Type()) {
				return false
			}
			vx, vy := inLoopVal(core.Unwrap(bin.X)), inLoopVal(core.Unwrap(bin.Y))
			if _, isK := core.Unwrap(bin.Y).(*ssa.Const); isK {
				return false
			}
			if _, isK := core.Unwrap(bin.X).(*ssa.Const); isK {
				return false
			}
			return vx != vy
		}
		n++
		key := fmt.Sprintf("%s/route-check#%d", m.H.TypeName, n)
		// paths of one iteration: header → call, inside the loop, acyclic
		bad := ""
		count := 0
		var blocks []*ssa.BasicBlock
		var edges []core.Edge
		onPath := map[*ssa.BasicBlock]bool{}
		var dfs func(b *ssa.BasicBlock)
		dfs = func(b *ssa.BasicBlock) {
			if bad != "" || count > 4096 {
				return
			}
			blocks = append(blocks, b)
			onPath[b] = true
			defer func() { blocks = blocks[:len(blocks)-1]; onPath[b] = false }()
			if b == s.Block() {
				count++
				decidedNotLast := false
				for _, e := range edges {
					if isLastTest(e.If.Cond) {
						bin := e.If.Cond.(*ssa.BinOp)
						if (bin.Op == token.EQL) != e.Taken {
							decidedNotLast = true
						}
					}
				}
				if decidedNotLast {
					return
				}
				p := core.CFGPath{Blocks: append([]*ssa.BasicBlock{}, blocks...), Edges: append([]core.Edge{}, edges...)}
				v := p.Resolve(bound)
				// a value carried round the loop is, in an iteration that can be the last, what the
				// earlier (not last) iterations left: the value from before the loop
				for k := 0; k < 4; k++ {
					ph, ok := v.(*ssa.Phi)
					if !ok || ph.Block() != header {
						break
					}
					next := v
					for i, pr := range header.Preds {
						if !loop[pr] && i < len(ph.Edges) {
							next = ph.Edges[i]
						}
					}
					if next == v {
						break
					}
					v = next
				}
				armed := limits[v]
				for _, o := range core.Origins(v) {
					if limits[o] {
						armed = true
					}
				}
				if !armed {
					bad = describePath(c, edges)
				}
				return
			}
			iff := core.IfOf(b)
			for i, sc := range b.Succs {
				if !loop[sc] || onPath[sc] || sc == header {
					continue
				}
				if !(sc == s.Block() || core.ReachFrom(sc, map[*ssa.BasicBlock]bool{header: true})[s.Block()]) {
					continue
				}
				if iff != nil {
					edges = append(edges, core.Edge{If: iff, Taken: i == 0})
					dfs(sc)
					edges = edges[:len(edges)-1]
				} else {
					dfs(sc)
				}
			}
		}
		dfs(header)
		c.Check(bad == "" && count > 0, rule, key, s.Pos(), fmt.Sprintf("on each of %d paths through an iteration that can be the last one, the bound checked is data.%s", count, field),
			fmt.Sprintf("a path through the route loop reaches the hop check without having excluded the last hop and without data.%s as its bound (decisions: %s): the last hop of such a route is checked against no limit, and deliver executes it at any price", field, bad))
	}
	return n
}
