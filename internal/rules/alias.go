package rules

import (
	"go/token"
	"go/types"
	"strings"

	"golang.org/x/tools/go/ssa"

	"verif/internal/core"
)

// State aliasing through *big.Int: an in-place big.Int operation whose receiver IS an amount
// stored in a state object (a struct field of a state-module type, or what an accessor returns
// without copying) changes the state outside the deliver block and outside the module's dirty
// tracking — `wlStake = waitlist.Value; wlStake.Add(wlStake, stake)`.

var stateValueCache = map[*ssa.Function]map[int]bool{}

func isBigIntPtr(t types.Type) bool {
	p, ok := t.(*types.Pointer)
	if !ok {
		return false
	}
	n, ok := p.Elem().(*types.Named)
	return ok && n.Obj().Pkg() != nil && n.Obj().Pkg().Path() == "math/big" && n.Obj().Name() == "Int"
}

func structPkg(fa *ssa.FieldAddr) string {
	t := fa.X.Type()
	if p, ok := t.Underlying().(*types.Pointer); ok {
		t = p.Elem()
	}
	if n, ok := t.(*types.Named); ok && n.Obj().Pkg() != nil {
		return core.Short(n.Obj().Pkg().Path())
	}
	return ""
}

// stateOwned reports whether v is (an alias of) a *big.Int held inside a state-module object.
func stateOwned(c *core.Ctx, v ssa.Value, depth int, seen map[ssa.Value]bool) (bool, string) {
	if v == nil || depth > 6 || seen[v] {
		return false, ""
	}
	seen[v] = true
	v = core.Unwrap(v)
	switch x := v.(type) {
	case *ssa.Phi:
		for _, e := range x.Edges {
			if ok, why := stateOwned(c, e, depth+1, seen); ok {
				return true, why
			}
		}
	case *ssa.UnOp:
		if x.Op != token.MUL {
			return false, ""
		}
		switch a := x.X.(type) {
		case *ssa.FieldAddr:
			if strings.HasPrefix(structPkg(a), core.PkgState+"/") {
				return true, "field " + fieldNameOf(a) + " of a " + structPkg(a) + " object"
			}
		case *ssa.Alloc:
			for _, r := range *a.Referrers() {
				if st, ok := r.(*ssa.Store); ok && st.Addr == a {
					if ok2, why := stateOwned(c, st.Val, depth+1, seen); ok2 {
						return true, why
					}
				}
			}
		}
	case *ssa.Field:
		if n, ok := x.X.Type().(*types.Named); ok && n.Obj().Pkg() != nil && strings.HasPrefix(core.Short(n.Obj().Pkg().Path()), core.PkgState+"/") {
			return true, "field of a " + core.Short(n.Obj().Pkg().Path()) + " value"
		}
	case *ssa.Extract:
		if call, ok := x.Tuple.(*ssa.Call); ok {
			return callReturnsStateOwned(c, call, x.Index, depth, seen)
		}
	case *ssa.Call:
		n := core.CalleeName(core.NormCall(&x.Call))
		// a big.Int method returns its receiver
		if strings.HasPrefix(n, "(*math/big.Int).") && bigIntMutating[n[len("(*math/big.Int)."):]] {
			return stateOwned(c, core.NormCall(&x.Call).Args[0], depth+1, seen)
		}
		return callReturnsStateOwned(c, x, 0, depth, seen)
	}
	return false, ""
}

func callReturnsStateOwned(c *core.Ctx, call *ssa.Call, idx int, depth int, seen map[ssa.Value]bool) (bool, string) {
	var callees []*ssa.Function
	if sc := call.Call.StaticCallee(); sc != nil {
		callees = append(callees, sc)
	} else if call.Call.IsInvoke() {
		// state read interfaces have one implementation per method name in the state packages
		for _, fn := range c.AllFns {
			if fn.Synthetic == "" && fn.Name() == call.Call.Method.Name() && fn.Signature.Recv() != nil && (strings.HasPrefix(core.PkgOf(fn), core.PkgState+"/") || core.PkgOf(fn) == core.PkgTx) {
				if types.Implements(fn.Signature.Recv().Type(), call.Call.Value.Type().Underlying().(*types.Interface)) {
					callees = append(callees, fn)
				}
			}
		}
	}
	for _, fn := range callees {
		if fn.Blocks == nil || !c.InRepo(fn) {
			continue
		}
		if memo, ok := stateValueCache[fn]; ok {
			if r, ok2 := memo[idx]; ok2 {
				if r {
					return true, "result of " + core.ShortFn(fn) + ", which returns the stored amount without copying"
				}
				continue
			}
		} else {
			stateValueCache[fn] = map[int]bool{}
		}
		stateValueCache[fn][idx] = false // cycle guard
		res := false
		for _, r := range core.Returns(fn) {
			if idx >= len(r.Results) || !isBigIntPtr(r.Results[idx].Type()) {
				continue
			}
			if ok, _ := stateOwned(c, r.Results[idx], depth+1, map[ssa.Value]bool{}); ok {
				res = true
			}
		}
		stateValueCache[fn][idx] = res
		if res {
			return true, "result of " + core.ShortFn(fn) + ", which returns the stored amount without copying"
		}
	}
	return false, ""
}

// checkStateAliasing scans fn (and, to depth, the transaction-package helpers it calls) for
// in-place big.Int operations on state-owned amounts.
func checkStateAliasing(c *core.Ctx, rule, owner string, fn *ssa.Function, depth int, visited map[*ssa.Function]bool) int {
	if fn == nil || visited[fn] || fn.Blocks == nil {
		return 0
	}
	visited[fn] = true
	n := 0
	for _, s := range core.Sites(fn) {
		name := s.Callee
		if strings.HasPrefix(name, "(*math/big.Int).") && bigIntMutating[name[len("(*math/big.Int)."):]] && len(s.Common.Args) > 0 {
			n++
			if ok, why := stateOwned(c, s.Common.Args[0], 0, map[ssa.Value]bool{}); ok {
				c.Bad(rule, owner+"/"+core.ShortFn(fn)+"/"+name[len("(*math/big.Int)."):], s.Pos(), "in-place big.Int operation on an amount that lives inside the state ("+why+"): the state is modified outside the deliver block and behind the module's dirty tracking — also when the transaction is only being checked or is later rejected")
			}
			continue
		}
		if callee := s.Common.StaticCallee(); callee != nil && core.PkgOf(callee) == core.PkgTx && callee.Synthetic == "" && callee.Blocks != nil {
			// a helper that operates in place on one of its parameters (`price.Mul(price, …)`)
			// changes whatever the caller passes: the argument must not be a state-owned amount
			for _, pi := range mutatedParams(callee) {
				if pi < len(s.Common.Args) {
					n++
					if ok, why := stateOwned(c, s.Common.Args[pi], 0, map[ssa.Value]bool{}); ok {
						c.Bad(rule, owner+"/"+core.ShortFn(fn)+"→"+callee.Name(), s.Pos(), callee.Name()+" performs an in-place big.Int operation on its parameter "+callee.Params[pi].Name()+", and this call passes an amount that lives inside the state ("+why+"): the stored value itself is changed (e.g. a price-table entry multiplied by the gas price), outside the deliver block and behind the module's dirty tracking")
					}
				}
			}
			if depth > 0 {
				n += checkStateAliasing(c, rule, owner, callee, depth-1, visited)
			}
		}
	}
	return n
}

var mutParamCache = map[*ssa.Function][]int{}

// mutatedParams: indices (into Params / call Args) of *big.Int parameters that fn uses as the
// receiver of an in-place big.Int operation.
func mutatedParams(fn *ssa.Function) []int {
	if v, ok := mutParamCache[fn]; ok {
		return v
	}
	var out []int
	for i, p := range fn.Params {
		if !isBigIntPtr(p.Type()) {
			continue
		}
		mut := false
		for _, s := range core.Sites(fn) {
			name := s.Callee
			if strings.HasPrefix(name, "(*math/big.Int).") && bigIntMutating[name[len("(*math/big.Int)."):]] && len(s.Common.Args) > 0 && core.Unwrap(s.Common.Args[0]) == ssa.Value(p) {
				mut = true
			}
		}
		if mut {
			out = append(out, i)
		}
	}
	mutParamCache[fn] = out
	return out
}
