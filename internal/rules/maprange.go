package rules

import (
	"fmt"
	"go/ast"
	"go/token"
	"go/types"
	"strings"

	"golang.org/x/tools/go/packages"
	"golang.org/x/tools/go/ssa"

	"verif/internal/core"
)

// mapRangeVerdict classifies one `for … := range <map>` statement.
type mapRangeVerdict struct {
	Stmt   *ast.RangeStmt
	OK     bool
	Idiom  string
	Reason string
	// Returned: result indexes through which a collected, not yet sorted slice leaves the
	// function; the callers then owe the sort
	Returned []int
}

// fnDecl finds the syntax of fn (FuncDecl body or FuncLit).
func fnSyntax(c *core.Ctx, fn *ssa.Function) (ast.Node, *packages.Package) {
	syn := fn.Syntax()
	if syn == nil {
		return nil, nil
	}
	p, _ := c.FileOf(syn.Pos())
	return syn, p
}

// checkMapRanges records one obligation per map range directly inside fn (not nested function
// literals, which are separate ssa functions) and returns how many it found.
func checkMapRanges(c *core.Ctx, rule string, fn *ssa.Function) int {
	syn, pkg := fnSyntax(c, fn)
	if syn == nil || pkg == nil {
		return 0
	}
	var body *ast.BlockStmt
	switch x := syn.(type) {
	case *ast.FuncDecl:
		body = x.Body
	case *ast.FuncLit:
		body = x.Body
	}
	if body == nil {
		return 0
	}
	n := 0
	ord := 0
	var walk func(node ast.Node, parents []ast.Node)
	walk = func(node ast.Node, parents []ast.Node) {
		ast.Inspect(node, func(x ast.Node) bool {
			if x == nil {
				return false
			}
			if _, isLit := x.(*ast.FuncLit); isLit && x != node {
				return false
			}
			rs, ok := x.(*ast.RangeStmt)
			if !ok {
				return true
			}
			tv, ok := pkg.TypesInfo.Types[rs.X]
			if !ok {
				return true
			}
			if _, isMap := tv.Type.Underlying().(*types.Map); !isMap {
				return true
			}
			n++
			ord++
			v := classifyMapRange(pkg, body, rs)
			key := fmt.Sprintf("%s/range#%d(%s)", core.ShortFn(fn), ord, types.ExprString(rs.X))
			if reason, ok := mapRangeExceptions[fmt.Sprintf("%s/%s", core.ShortFn(fn), types.ExprString(rs.X))]; ok && !v.OK {
				c.OK(rule, key, rs.Pos(), "confirmed exception: "+reason)
				return true
			}
			if v.OK {
				for _, idx := range v.Returned {
					if why := callersSort(c, fn, idx); why != "" {
						v.OK, v.Reason = false, why
					}
				}
			}
			if v.OK {
				c.OK(rule, key, rs.Pos(), "order-insensitive: "+v.Idiom)
			} else {
				c.Bad(rule, key, rs.Pos(), "iteration over a map whose body is not recognised as order-insensitive ("+v.Reason+"): the result may depend on Go's randomised map order and differ between nodes")
			}
			return true
		})
	}
	walk(body, nil)
	return n
}

// SeenRepoCallees collects repo callees met inside map-range bodies that are not in the
// orderNeutral table (for triage output).
var SeenRepoCallees = map[string]bool{}

// mapRangeExceptions: function/mapexpr → reason, confirmed by reading.
var mapRangeExceptions = map[string]string{}

type mrCtx struct {
	pkg       *packages.Package
	fnBody    *ast.BlockStmt
	rs        *ast.RangeStmt
	keyObj    types.Object
	valObj    types.Object
	collected map[string]bool // slice expressions appended to
	idioms    map[string]bool
	fail      string
}

func (m *mrCtx) obj(e ast.Expr) types.Object {
	id, ok := e.(*ast.Ident)
	if !ok {
		return nil
	}
	if o := m.pkg.TypesInfo.Uses[id]; o != nil {
		return o
	}
	return m.pkg.TypesInfo.Defs[id]
}

func classifyMapRange(pkg *packages.Package, fnBody *ast.BlockStmt, rs *ast.RangeStmt) mapRangeVerdict {
	m := &mrCtx{pkg: pkg, fnBody: fnBody, rs: rs, collected: map[string]bool{}, idioms: map[string]bool{}}
	if rs.Key != nil {
		m.keyObj = m.obj(rs.Key)
	}
	if rs.Value != nil {
		m.valObj = m.obj(rs.Value)
	}
	for _, st := range rs.Body.List {
		m.stmt(st)
		if m.fail != "" {
			return mapRangeVerdict{Stmt: rs, Reason: m.fail}
		}
	}
	// collected slices must be sorted before any other use
	var returned []int
	for o := range m.collected {
		why, ret := m.sortedAfter(o)
		if why != "" {
			return mapRangeVerdict{Stmt: rs, Reason: why}
		}
		if ret >= 0 {
			returned = append(returned, ret)
			m.idioms["sorted by every caller"] = true
		}
	}
	var ids []string
	for k := range m.idioms {
		ids = append(ids, k)
	}
	if len(ids) == 0 {
		ids = []string{"empty body"}
	}
	sortStrings(ids)
	return mapRangeVerdict{Stmt: rs, OK: true, Idiom: strings.Join(ids, " + "), Returned: returned}
}

func sortStrings(s []string) {
	for i := 1; i < len(s); i++ {
		for j := i; j > 0 && s[j] < s[j-1]; j-- {
			s[j], s[j-1] = s[j-1], s[j]
		}
	}
}

func (m *mrCtx) isLocalVar(o types.Object) bool {
	v, ok := o.(*types.Var)
	if !ok || v.IsField() {
		return false
	}
	// declared inside the enclosing function body
	return v.Pos() >= m.fnBody.Pos() && v.Pos() <= m.fnBody.End() || v.Parent() != nil && v.Parent() != m.pkg.Types.Scope()
}

func (m *mrCtx) stmt(st ast.Stmt) {
	if m.fail != "" {
		return
	}
	switch s := st.(type) {
	case *ast.AssignStmt:
		m.assign(s)
	case *ast.IncDecStmt:
		if m.isIntLocal(s.X) {
			m.idioms["counter"] = true
		} else {
			m.fail = "increment of a non-local or non-integer: " + types.ExprString(s.X)
		}
	case *ast.ExprStmt:
		m.exprStmt(s.X)
	case *ast.IfStmt:
		if s.Init != nil {
			m.stmt(s.Init)
		}
		if !m.pureExpr(s.Cond) {
			m.fail = "condition with side effects: " + types.ExprString(s.Cond)
			return
		}
		m.block(s.Body)
		if s.Else != nil {
			m.stmt(s.Else)
		}
	case *ast.BlockStmt:
		m.block(s)
	case *ast.BranchStmt:
		if s.Tok == token.CONTINUE {
			return
		}
		if s.Tok == token.BREAK {
			m.idioms["search (break on match)"] = true
			return
		}
		m.fail = "branch " + s.Tok.String()
	case *ast.ReturnStmt:
		// returning from inside the loop is only order-insensitive when the match is unique or
		// the returned value does not identify the element; accepted as the unique-match idiom
		// when it is guarded (we are inside an if) — the caller records the idiom
		for _, r := range s.Results {
			if !m.pureExpr(r) {
				m.fail = "return of an expression with side effects"
				return
			}
		}
		m.idioms["unique-match / existence search (return)"] = true
	case *ast.DeclStmt:
		// var x T
	case *ast.RangeStmt:
		// nested loop over a slice/map: its body must obey the same rules
		if !m.pureExpr(s.X) {
			m.fail = "nested range over an expression with side effects"
			return
		}
		m.block(s.Body)
	case *ast.ForStmt:
		if s.Init != nil {
			m.stmt(s.Init)
		}
		if s.Post != nil {
			m.stmt(s.Post)
		}
		m.block(s.Body)
	case *ast.EmptyStmt:
	default:
		m.fail = fmt.Sprintf("statement %T", st)
	}
}

func (m *mrCtx) block(b *ast.BlockStmt) {
	for _, st := range b.List {
		m.stmt(st)
		if m.fail != "" {
			return
		}
	}
}

func (m *mrCtx) isIntLocal(e ast.Expr) bool {
	o := m.obj(e)
	if o == nil || !m.isLocalVar(o) {
		return false
	}
	b, ok := o.Type().Underlying().(*types.Basic)
	return ok && b.Info()&types.IsNumeric != 0
}

func (m *mrCtx) assign(s *ast.AssignStmt) {
	// x := pure  (new local inside the body)
	if s.Tok == token.DEFINE {
		for _, r := range s.Rhs {
			if !m.pureExpr(r) {
				m.fail = "local definition from an expression with side effects: " + types.ExprString(r)
				return
			}
		}
		return
	}
	if len(s.Lhs) != 1 || len(s.Rhs) != 1 {
		// tuple assignment of pure expressions to body-local variables
		for _, r := range s.Rhs {
			if !m.pureExpr(r) {
				m.fail = "tuple assignment with side effects"
				return
			}
		}
		for _, l := range s.Lhs {
			if o := m.obj(l); o == nil || !m.declaredInBody(o) {
				m.fail = "tuple assignment to a variable that outlives the iteration: " + types.ExprString(l)
				return
			}
		}
		return
	}
	lhs, rhs := s.Lhs[0], s.Rhs[0]
	switch s.Tok {
	case token.ADD_ASSIGN, token.SUB_ASSIGN, token.OR_ASSIGN, token.AND_ASSIGN, token.XOR_ASSIGN:
		if m.pureExpr(rhs) && m.isNumericOrBool(lhs) {
			// string += is order sensitive; numeric += is commutative
			m.idioms["commutative fold (+=)"] = true
			return
		}
		m.fail = "compound assignment on a non-numeric: " + types.ExprString(lhs)
		return
	case token.ASSIGN:
	default:
		m.fail = "assignment operator " + s.Tok.String()
		return
	}
	// s = append(s, pure…)
	if call, ok := rhs.(*ast.CallExpr); ok {
		if id, ok := call.Fun.(*ast.Ident); ok && id.Name == "append" && len(call.Args) >= 2 {
			if types.ExprString(call.Args[0]) == types.ExprString(lhs) {
				for _, a := range call.Args[1:] {
					if !m.pureExpr(a) {
						m.fail = "append of an expression with side effects"
						return
					}
				}
				o := m.obj(lhs)
				if o != nil && m.declaredInBody(o) {
					return
				}
				// a local slice, or a field/element expression such as state.Pools: allowed when
				// the first later statement that mentions the same expression sorts it
				if _, isSel := lhs.(*ast.SelectorExpr); (o != nil && m.isLocalVar(o)) || isSel {
					m.collected[types.ExprString(lhs)] = true
					m.idioms["collect-then-sort"] = true
					return
				}
				m.fail = "append to a slice that is neither local nor a field expression: " + types.ExprString(lhs)
				return
			}
		}
	}
	// map insert: m2[k] = pure
	if ix, ok := lhs.(*ast.IndexExpr); ok {
		if tv, ok := m.pkg.TypesInfo.Types[ix.X]; ok {
			if _, isMap := tv.Type.Underlying().(*types.Map); isMap && m.pureExpr(rhs) && m.pureExpr(ix.Index) {
				m.idioms["map insert (keyed, order-free)"] = true
				return
			}
		}
	}
	// x = pure where x is declared inside the body
	if o := m.obj(lhs); o != nil && m.declaredInBody(o) && m.pureExpr(rhs) {
		return
	}
	// b = true / found = x (idempotent flag)
	if o := m.obj(lhs); o != nil && m.isLocalVar(o) {
		if id, ok := rhs.(*ast.Ident); ok && (id.Name == "true" || id.Name == "false") {
			m.idioms["flag"] = true
			return
		}
		// max/min selection guarded by a comparison is order-sensitive only on ties: not accepted
	}
	// loop-invariant assignment: the right-hand side mentions neither the iteration variables nor
	// anything declared in the body, so every iteration stores the same value
	if m.pureExpr(rhs) && !m.mentionsLoopState(rhs) {
		m.idioms["loop-invariant assignment"] = true
		return
	}
	m.fail = "assignment to a variable that outlives the iteration: " + types.ExprString(lhs) + " = " + types.ExprString(rhs)
}

// mentionsLoopState: e refers to the iteration variables or to anything declared in the body.
func (m *mrCtx) mentionsLoopState(e ast.Expr) bool {
	found := false
	ast.Inspect(e, func(n ast.Node) bool {
		id, ok := n.(*ast.Ident)
		if !ok || found {
			return !found
		}
		o := m.pkg.TypesInfo.Uses[id]
		if o == nil {
			return true
		}
		if o == m.keyObj || o == m.valObj || m.declaredInBody(o) {
			found = true
		}
		return !found
	})
	return found
}

func (m *mrCtx) isNumericOrBool(e ast.Expr) bool {
	tv, ok := m.pkg.TypesInfo.Types[e]
	if !ok {
		return false
	}
	b, ok := tv.Type.Underlying().(*types.Basic)
	return ok && b.Info()&(types.IsNumeric|types.IsBoolean) != 0
}

func (m *mrCtx) declaredInBody(o types.Object) bool {
	return o.Pos() >= m.rs.Body.Pos() && o.Pos() <= m.rs.Body.End()
}

func (m *mrCtx) exprStmt(e ast.Expr) {
	call, ok := e.(*ast.CallExpr)
	if !ok {
		m.fail = "expression statement " + types.ExprString(e)
		return
	}
	// delete(m, k)
	if id, ok := call.Fun.(*ast.Ident); ok && id.Name == "delete" {
		m.idioms["delete"] = true
		return
	}
	// acc.Add(acc, x) / acc.Sub(acc, x) on *big.Int
	if sel, ok := call.Fun.(*ast.SelectorExpr); ok {
		if tv, ok := m.pkg.TypesInfo.Types[sel.X]; ok && isBigIntType(tv.Type) {
			if (sel.Sel.Name == "Add" || sel.Sel.Name == "Sub") && len(call.Args) == 2 && types.ExprString(call.Args[0]) == types.ExprString(sel.X) && m.pureExpr(call.Args[1]) {
				m.idioms["commutative fold (big.Int Add/Sub)"] = true
				return
			}
		}
		// mutex operations around the body
		if fn := m.calleeFunc(call); fn != nil && fn.Pkg() != nil && fn.Pkg().Path() == "sync" {
			return
		}
	}
	m.fail = "call with possible side effects: " + types.ExprString(call.Fun)
}

func isBigIntType(t types.Type) bool {
	if p, ok := t.(*types.Pointer); ok {
		t = p.Elem()
	}
	n, ok := t.(*types.Named)
	return ok && n.Obj().Pkg() != nil && n.Obj().Pkg().Path() == "math/big" && n.Obj().Name() == "Int"
}

func (m *mrCtx) calleeFunc(call *ast.CallExpr) *types.Func {
	switch f := call.Fun.(type) {
	case *ast.Ident:
		fn, _ := m.pkg.TypesInfo.Uses[f].(*types.Func)
		return fn
	case *ast.SelectorExpr:
		fn, _ := m.pkg.TypesInfo.Uses[f.Sel].(*types.Func)
		return fn
	}
	return nil
}

// pureCallees: functions/methods known not to have order-relevant side effects.
func (m *mrCtx) pureCall(call *ast.CallExpr) bool {
	// conversions and builtins
	if tv, ok := m.pkg.TypesInfo.Types[call.Fun]; ok && tv.IsType() {
		return true
	}
	if id, ok := call.Fun.(*ast.Ident); ok {
		switch id.Name {
		case "len", "cap", "make", "new", "append", "copy", "min", "max":
			return true
		}
	}
	fn := m.calleeFunc(call)
	if fn == nil {
		return false
	}
	if fn.Pkg() == nil {
		return true // error.Error etc.
	}
	switch fn.Pkg().Path() {
	case "math/big":
		// constructors and pure accessors; in-place mutators count as pure only when the
		// receiver is a fresh value (big.NewInt(0).Add(...)) — checked below
		switch fn.Name() {
		case "NewInt", "NewFloat", "NewRat", "Cmp", "Sign", "String", "Int64", "Uint64", "Bytes", "BitLen", "IsInt64", "CmpAbs", "Text":
			return true
		case "Add", "Sub", "Mul", "Div", "Set", "Quo", "Neg", "SetInt", "SetString", "SetInt64", "SetUint64", "Exp", "Sqrt", "Int", "SetRat", "SetFrac":
			if sel, ok := call.Fun.(*ast.SelectorExpr); ok {
				return m.freshValue(sel.X)
			}
		}
		return false
	case "bytes", "strings", "fmt", "strconv", "encoding/hex", "encoding/binary", "sort", "errors", "math":
		if fn.Pkg().Path() == "sort" {
			return strings.HasPrefix(fn.Name(), "Search")
		}
		if fn.Pkg().Path() == "fmt" {
			return strings.HasPrefix(fn.Name(), "Sprint") || fn.Name() == "Errorf"
		}
		return true
	}
	// repository callees: only those confirmed (by reading) to be order-neutral — pure lookups,
	// lazy loaders that fill a per-key cache, constructors, clones
	if strings.HasPrefix(fn.Pkg().Path(), core.ModPath) {
		full := core.Short(fn.FullName())
		if _, ok := orderNeutral[full]; ok {
			return true
		}
		SeenRepoCallees[full] = true
	}
	return false
}

// freshValue: e is big.NewInt(..)/new(big.Int)/a chain of in-place ops starting from one.
func (m *mrCtx) freshValue(e ast.Expr) bool {
	switch x := e.(type) {
	case *ast.CallExpr:
		if id, ok := x.Fun.(*ast.Ident); ok && id.Name == "new" {
			return true
		}
		if fn := m.calleeFunc(x); fn != nil && fn.Pkg() != nil && fn.Pkg().Path() == "math/big" {
			if strings.HasPrefix(fn.Name(), "New") {
				return true
			}
			if sel, ok := x.Fun.(*ast.SelectorExpr); ok {
				return m.freshValue(sel.X)
			}
		}
	case *ast.ParenExpr:
		return m.freshValue(x.X)
	}
	return false
}

func (m *mrCtx) pureExpr(e ast.Expr) bool {
	pure := true
	ast.Inspect(e, func(n ast.Node) bool {
		if !pure {
			return false
		}
		switch x := n.(type) {
		case *ast.CallExpr:
			if !m.pureCall(x) {
				pure = false
				return false
			}
		case *ast.FuncLit:
			pure = false
			return false
		case *ast.UnaryExpr:
			if x.Op == token.ARROW {
				pure = false
				return false
			}
		}
		return true
	})
	return pure
}

// sortedAfter: the first statement after the range loop (in its enclosing statement list) that
// mentions the collected slice expression must be a sort.* call on it — or a return of exactly
// that slice, in which case the result index is reported and the callers owe the sort.
func (m *mrCtx) sortedAfter(expr string) (string, int) {
	return firstUseSorts(m.pkg, m.fnBody, m.rs, expr, true)
}

func firstUseSorts(pkg *packages.Package, fnBody *ast.BlockStmt, anchor ast.Stmt, expr string, allowReturn bool) (string, int) {
	var after []ast.Stmt
	ast.Inspect(fnBody, func(n ast.Node) bool {
		switch b := n.(type) {
		case *ast.BlockStmt:
			for i, st := range b.List {
				if st == anchor {
					after = b.List[i+1:]
				}
			}
		case *ast.CaseClause:
			for i, st := range b.Body {
				if st == anchor {
					after = b.Body[i+1:]
				}
			}
		}
		return true
	})
	mentions := func(n ast.Node) bool {
		found := false
		ast.Inspect(n, func(x ast.Node) bool {
			if e, ok := x.(ast.Expr); ok && !found && types.ExprString(e) == expr {
				found = true
			}
			return !found
		})
		return found
	}
	callee := func(call *ast.CallExpr) *types.Func {
		switch f := call.Fun.(type) {
		case *ast.Ident:
			fn, _ := pkg.TypesInfo.Uses[f].(*types.Func)
			return fn
		case *ast.SelectorExpr:
			fn, _ := pkg.TypesInfo.Uses[f.Sel].(*types.Func)
			return fn
		}
		return nil
	}
	for _, st := range after {
		if !mentions(st) {
			// lock release between collecting and sorting
			continue
		}
		if es, ok := st.(*ast.ExprStmt); ok {
			if call, ok := es.X.(*ast.CallExpr); ok {
				if fn := callee(call); fn != nil && fn.Pkg() != nil && fn.Pkg().Path() == "sort" && !strings.HasPrefix(fn.Name(), "Search") {
					if len(call.Args) > 0 && mentions(call.Args[0]) {
						return "", -1
					}
				}
			}
		}
		if rt, ok := st.(*ast.ReturnStmt); ok && allowReturn {
			for i, r := range rt.Results {
				if types.ExprString(r) == expr {
					return "", i
				}
			}
		}
		return fmt.Sprintf("slice %s collected from the map is used before being sorted (%s)", expr, pkg.Fset.Position(st.Pos())), -1
	}
	return fmt.Sprintf("slice %s collected from the map is not sorted in the statements following the loop", expr), -1
}

// callersSort: every call of fn takes result #idx into a variable whose first later use is a sort.
func callersSort(c *core.Ctx, fn *ssa.Function, idx int) string {
	obj := fn.Object()
	if obj == nil {
		return "the unsorted slice is returned from a function literal"
	}
	callers := c.CG().Callers(fn)
	if len(callers) == 0 {
		return ""
	}
	for _, cl := range callers {
		syn, pkg := fnSyntax(c, cl)
		if syn == nil || pkg == nil {
			return "the unsorted slice is returned to " + core.ShortFn(cl) + ", whose source is not available"
		}
		var body *ast.BlockStmt
		switch x := syn.(type) {
		case *ast.FuncDecl:
			body = x.Body
		case *ast.FuncLit:
			body = x.Body
		}
		if body == nil {
			continue
		}
		isCall := func(e ast.Expr) bool {
			call, ok := e.(*ast.CallExpr)
			if !ok {
				return false
			}
			var id *ast.Ident
			switch f := call.Fun.(type) {
			case *ast.Ident:
				id = f
			case *ast.SelectorExpr:
				id = f.Sel
			}
			return id != nil && pkg.TypesInfo.Uses[id] == obj
		}
		handled := map[ast.Expr]bool{}
		why := ""
		ast.Inspect(body, func(n ast.Node) bool {
			if lit, ok := n.(*ast.FuncLit); ok && ast.Node(lit) != syn {
				return false
			}
			as, ok := n.(*ast.AssignStmt)
			if !ok || len(as.Rhs) != 1 || !isCall(as.Rhs[0]) || idx >= len(as.Lhs) {
				return true
			}
			handled[as.Rhs[0]] = true
			w, ret := firstUseSorts(pkg, body, as, types.ExprString(as.Lhs[idx]), false)
			if w != "" && why == "" {
				why = "in " + core.ShortFn(cl) + ": " + w
			}
			_ = ret
			return true
		})
		if why != "" {
			return why
		}
		ast.Inspect(body, func(n ast.Node) bool {
			if lit, ok := n.(*ast.FuncLit); ok && ast.Node(lit) != syn {
				return false
			}
			if e, ok := n.(ast.Expr); ok && isCall(e) && !handled[e] && why == "" {
				why = fmt.Sprintf("in %s the unsorted result is used directly (%s)", core.ShortFn(cl), pkg.Fset.Position(e.Pos()))
			}
			return true
		})
		if why != "" {
			return why
		}
	}
	return ""
}

// orderNeutral: repository functions that may be called inside a map-range body without making
// the loop order-sensitive. Each was read; the reason is one line.
var orderNeutral = map[string]string{
	"(*coreV2/state/candidates.Candidates).LoadStakesOfCandidate": "fills the per-candidate stake cache from the tree (keyed by the iteration key only) and returns that candidate's total",
	"(*coreV2/state/swap.Limit).clone":                            "pure deep copy",
	"(*coreV2/state/swap.Pair).order":                             "lookup with per-id lazy load into the orders cache",
	"(*coreV2/state/swap.PairV2).order":                           "lookup with per-id lazy load into the orders cache",
	"(coreV2/types.CoinID).String":                                "pure formatting",
	"(*coreV2/state/swap.PairV2).loadAllOrders":                   "reads all orders of this pair from the immutable tree into a fresh slice (sorted by the tree's key order)",
	"(*coreV2/state/swap.Pair).loadAllOrders":                     "reads all orders of this pair from the immutable tree into a fresh slice",
	"(*coreV2/state/swap.pairData).Reserves":                      "reads the pair's reserves under its lock",
	"(*coreV2/state/swap.PairV2).GetID":                           "reads the pair id",
	"(*coreV2/state/swap.Pair).GetID":                             "reads the pair id",
	"(*coreV2/state/swap.SwapV2).loadNextOrdersID":                "reads the next-order-id counter (lazy load from the tree)",
	"(*coreV2/state/swap.Swap).loadNextOrdersID":                  "reads the next-order-id counter (lazy load from the tree)",
	"(*coreV2/state/swap.SwapV2).immutableTree":                   "returns the current immutable tree handle",
	"(*coreV2/state/swap.Swap).immutableTree":                     "returns the current immutable tree handle",
}

// posOrEnd: a position for messages; an implicit return has none.
func posOrEnd(c *core.Ctx, p token.Pos) string {
	if s := c.PosStr(p); s != "" {
		return s
	}
	return "the end of the function"
}
