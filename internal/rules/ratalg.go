package rules

// A small exact algebra of rational functions over opaque atoms. It is what the expression
// rules (C12) compare in: the value a function returns on one path, recovered from the SSA
// def-use chain with transfer functions for math/big's in-place methods, against the formula
// the property names. Two expressions are equal when they are the same rational function of the
// same atoms (cross-multiplication, no solver) — so algebraically equal rewrites of the code
// (operand order, 1-x written as -(x-1), a common factor pulled out) compare equal, while a
// swapped operand, a dropped term or an inverted exponent does not.

import (
	"fmt"
	"math/big"
	"sort"
	"strconv"
	"strings"
)

// poly: monomial key -> coefficient. A monomial key is the sorted list of atom ids, one entry
// per power, joined by '.'; the empty key is the constant term.
type poly map[string]*big.Rat

type ratf struct{ num, den poly }

type atomDef struct {
	kind string // "param", "call", "intdiv", "trunc", "opaque"
	name string
	args []ratf
}

type algebra struct{ atoms []atomDef }

func pconst(r *big.Rat) poly {
	p := poly{}
	if r.Sign() != 0 {
		p[""] = new(big.Rat).Set(r)
	}
	return p
}

func pint(n int64) poly { return pconst(big.NewRat(n, 1)) }

func patom(id int) poly { return poly{strconv.Itoa(id): big.NewRat(1, 1)} }

func padd(a, b poly) poly {
	out := poly{}
	for k, v := range a {
		out[k] = new(big.Rat).Set(v)
	}
	for k, v := range b {
		if o, ok := out[k]; ok {
			o.Add(o, v)
			if o.Sign() == 0 {
				delete(out, k)
			}
		} else if v.Sign() != 0 {
			out[k] = new(big.Rat).Set(v)
		}
	}
	return out
}

func pneg(a poly) poly {
	out := poly{}
	for k, v := range a {
		out[k] = new(big.Rat).Neg(v)
	}
	return out
}

func mulKey(a, b string) string {
	if a == "" {
		return b
	}
	if b == "" {
		return a
	}
	ids := append(strings.Split(a, "."), strings.Split(b, ".")...)
	sort.Slice(ids, func(i, j int) bool {
		x, _ := strconv.Atoi(ids[i])
		y, _ := strconv.Atoi(ids[j])
		return x < y
	})
	return strings.Join(ids, ".")
}

func pmul(a, b poly) poly {
	out := poly{}
	for ka, va := range a {
		for kb, vb := range b {
			k := mulKey(ka, kb)
			t := new(big.Rat).Mul(va, vb)
			if o, ok := out[k]; ok {
				o.Add(o, t)
				if o.Sign() == 0 {
					delete(out, k)
				}
			} else if t.Sign() != 0 {
				out[k] = t
			}
		}
	}
	return out
}

func pequal(a, b poly) bool {
	if len(a) != len(b) {
		return false
	}
	for k, v := range a {
		w, ok := b[k]
		if !ok || v.Cmp(w) != 0 {
			return false
		}
	}
	return true
}

func rconst(r *big.Rat) ratf { return ratf{pconst(r), pint(1)} }
func rint(n int64) ratf      { return ratf{pint(n), pint(1)} }
func radd(a, b ratf) ratf {
	return ratf{padd(pmul(a.num, b.den), pmul(b.num, a.den)), pmul(a.den, b.den)}
}
func rneg(a ratf) ratf      { return ratf{pneg(a.num), a.den} }
func rsub(a, b ratf) ratf   { return radd(a, rneg(b)) }
func rmul(a, b ratf) ratf   { return ratf{pmul(a.num, b.num), pmul(a.den, b.den)} }
func rdiv(a, b ratf) ratf   { return ratf{pmul(a.num, b.den), pmul(a.den, b.num)} }
func requal(a, b ratf) bool { return pequal(pmul(a.num, b.den), pmul(b.num, a.den)) }
func (a ratf) isConst() bool {
	return len(a.num) <= 1 && len(a.den) == 1 && a.den[""] != nil && (len(a.num) == 0 || a.num[""] != nil)
}
func (a ratf) constVal() *big.Rat {
	if !a.isConst() {
		return nil
	}
	n := big.NewRat(0, 1)
	if v, ok := a.num[""]; ok {
		n.Set(v)
	}
	return n.Quo(n, a.den[""])
}

// atom interns an opaque term; two atoms are the same when kind, name and all arguments agree.
func (al *algebra) atom(kind, name string, args ...ratf) ratf {
	for id, d := range al.atoms {
		if d.kind != kind || d.name != name || len(d.args) != len(args) {
			continue
		}
		same := true
		for i := range args {
			if !requal(d.args[i], args[i]) {
				same = false
				break
			}
		}
		if same {
			return ratf{patom(id), pint(1)}
		}
	}
	al.atoms = append(al.atoms, atomDef{kind, name, args})
	return ratf{patom(len(al.atoms) - 1), pint(1)}
}

// fresh returns an atom equal to nothing else (an unknown value).
func (al *algebra) fresh(why string) ratf {
	al.atoms = append(al.atoms, atomDef{kind: "opaque", name: fmt.Sprintf("%s#%d", why, len(al.atoms))})
	return ratf{patom(len(al.atoms) - 1), pint(1)}
}

func (al *algebra) atomString(id int) string {
	d := al.atoms[id]
	if len(d.args) == 0 {
		return d.name
	}
	var as []string
	for _, a := range d.args {
		as = append(as, al.String(a))
	}
	return d.name + "(" + strings.Join(as, ", ") + ")"
}

func (al *algebra) polyString(p poly) string {
	if len(p) == 0 {
		return "0"
	}
	var keys []string
	for k := range p {
		keys = append(keys, k)
	}
	sort.Strings(keys)
	var terms []string
	for _, k := range keys {
		c := p[k].RatString()
		if k == "" {
			terms = append(terms, c)
			continue
		}
		var fs []string
		for _, s := range strings.Split(k, ".") {
			id, _ := strconv.Atoi(s)
			fs = append(fs, al.atomString(id))
		}
		m := strings.Join(fs, "*")
		switch c {
		case "1":
			terms = append(terms, m)
		case "-1":
			terms = append(terms, "-"+m)
		default:
			terms = append(terms, c+"*"+m)
		}
	}
	return strings.Join(terms, " + ")
}

// String renders a rational function for diagnostics.
func (al *algebra) String(a ratf) string {
	n := al.polyString(a.num)
	if pequal(a.den, pint(1)) {
		return n
	}
	return "(" + n + ")/(" + al.polyString(a.den) + ")"
}

// intdivAtom: the integer quotient of a by b, as an opaque function of the exact quotient a/b —
// so that the same division written at another scale (a·k over b·k) is the same term.
func intdivAtom(al *algebra, a, b ratf) ratf {
	return al.atom("intdiv", "intdiv", rdiv(a, b))
}
