package rules

import (
	"fmt"
	"go/constant"
	"go/token"
	"go/types"
	"sort"
	"strings"

	"golang.org/x/tools/go/ssa"

	"verif/internal/core"
)

func init() {
	register(&RuleSet{
		Meta: core.PropertyMeta{
			ID: "C18",
			Explanation: "Decides the gating/ordering skeleton of punishment: (jail) SetCandidateOn's effect is dominated by `IsCandidateJailed(pubkey, currentBlock) ⇒ reject`, IsCandidateJailed tests JailedUntil ≥ block, and Punish sets JailedUntil = height + GetJailPeriod(); " +
				"(absent) in SetValidatorAbsent, punish and switch-off are dominated by `CountAbsentTimes() > validatorMaxAbsentTimes`, punish additionally by `!IsGraceBlock(height)`, with the named constants evaluated to 12 and 24; " +
				"(byz) per evidence entry BeginBlock runs the skip gate (unknown candidate / offline / not a validator), then PunishFrozenFundsWithID(height, height+UnbondPeriod, candidate.ID) ≺ PunishByzantineValidator ≺ PunishByzantineCandidate for the same address; " +
				"(once) guard/marker rule: the state the skip gate READS must intersect the state the punishment WRITES, otherwise a second evidence entry against the same validator in one block is punished again (found: the gate read only Status and list membership, which the punishment never changes — repaired by also skipping validators already marked to-drop). " +
				"NOT decided: the 5 % arithmetic and its rounding, that Tendermint's vote info is truthful.",
			Assumptions: stdAssumptions,
			Rules:       []string{"C18.jail", "C18.absent", "C18.byz", "C18.once", "C18.window", "C18.fresh", "C18.allstakes", "C18.drop", "C18.addr"},
		},
		Run: runC18,
	})
}

type fieldID struct {
	T *types.TypeName
	F string
}

func (f fieldID) String() string { return f.T.Pkg().Name() + "." + f.T.Name() + "." + f.F }

// fieldEffects returns the struct fields written / read by fn and (static) callees to depth.
func fieldEffects(c *core.Ctx, fn *ssa.Function, depth int, seen map[*ssa.Function]bool, reads, writes map[fieldID]bool) {
	if fn == nil || fn.Blocks == nil || seen[fn] || !c.InRepo(fn) {
		return
	}
	seen[fn] = true
	for _, b := range fn.Blocks {
		for _, in := range b.Instrs {
			switch x := in.(type) {
			case *ssa.FieldAddr:
				t := x.X.Type()
				if p, ok := t.Underlying().(*types.Pointer); ok {
					t = p.Elem()
				}
				n, ok := t.(*types.Named)
				if !ok {
					continue
				}
				id := fieldID{n.Obj(), fieldNameOf(x)}
				w := false
				for _, r := range *x.Referrers() {
					if st, ok := r.(*ssa.Store); ok && st.Addr == x {
						w = true
					}
				}
				if w {
					writes[id] = true
				} else {
					reads[id] = true
				}
			case *ssa.Field:
				if n, ok := x.X.Type().(*types.Named); ok {
					if st, ok := n.Underlying().(*types.Struct); ok && x.Field < st.NumFields() {
						reads[fieldID{n.Obj(), st.Field(x.Field).Name()}] = true
					}
				}
			case ssa.CallInstruction:
				if depth <= 0 {
					continue
				}
				cc := x.Common()
				if callee := cc.StaticCallee(); callee != nil {
					fieldEffects(c, callee, depth-1, seen, reads, writes)
				} else if cc.IsInvoke() {
					// bus interfaces have one implementation each: resolve by method name in the
					// state packages
					for _, cand := range c.AllFns {
						if cand.Name() == cc.Method.Name() && cand.Signature.Recv() != nil && strings.HasPrefix(core.PkgOf(cand), core.PkgState+"/") && cand.Synthetic == "" {
							if types.Implements(cand.Signature.Recv().Type(), cc.Value.Type().Underlying().(*types.Interface)) {
								fieldEffects(c, cand, depth-1, seen, reads, writes)
							}
						}
					}
				}
			}
		}
	}
}

func constOf(c *core.Ctx, pkg, name string) (int64, bool) {
	p := c.PkgBy[pkg]
	if p == nil {
		return 0, false
	}
	k, ok := p.Types.Scope().Lookup(name).(*types.Const)
	if !ok {
		return 0, false
	}
	return constant.Int64Val(k.Val())
}

func runC18(c *core.Ctx) {
	defer checkAbsentWindowPersisted(c, "C18.window")
	defer checkDropFlag(c, "C18.drop")
	defer checkTmAddressFollowsKey(c, "C18.addr")
	defer checkSparseStakes(c, "C18.allstakes")
	defer func() {
		// records built per iteration in the consensus packages (the validator list of
		// SetNewValidators with its per-validator absence window and accrued reward is one)
		var fns []*ssa.Function
		for _, fn := range c.AllFns {
			pk := core.PkgOf(fn)
			if (strings.HasPrefix(pk, core.PkgState+"/") || pk == core.PkgState || pk == "coreV2/minter") && fn.Synthetic == "" && !legacyV1(fn) {
				fns = append(fns, fn)
			}
		}
		n := checkPerIterationRecords(c, "C18.fresh", fns)
		c.Floor("C18.fresh", n, 5, "records built per loop iteration with pointer-typed parts")
	}()
	// ---- jail
	for _, m := range LiveModels(c, "C18.jail") {
		if m.H.TypeName != "SetCandidateOnData" {
			continue
		}
		var on *MutSite
		for _, mu := range m.Mutators {
			if mu.Module == "Candidates" && mu.Method == "SetOnline" {
				on = mu
			}
		}
		if on == nil {
			c.Bad("C18.jail", "SetCandidateOnData/SetOnline", m.Fn.Pos(), "SetCandidateOn no longer switches the candidate on")
			continue
		}
		ok := false
		for _, f := range c.FactsAt(on.Site.Instr, 3) {
			if cf, isC := f.AsCall(); isC && cf.MethodName() == "IsCandidateJailed" && !f.Truth && cf.Op == token.ILLEGAL && (cf.ArgPath(0) == "data.PubKey" || cf.ArgPath(0) == "data.GetPubKey()") && cf.ArgPath(1) == "currentBlock" {
				ok = true
			}
		}
		c.Check(ok, "C18.jail", "SetCandidateOnData/jail-gate", on.Site.Pos(), "SetOnline dominated by `IsCandidateJailed(pubkey, currentBlock) ⇒ reject`", "a jailed candidate can be switched back on before the jail ends")
		c.Check(core.Path(on.Site.Arg(0)) == "data.PubKey", "C18.jail", "SetCandidateOnData/same-key", on.Site.Pos(), "the candidate switched on is the one tested", "SetOnline acts on a different key than the jail test")
	}
	if fn := c.MustFn("C18.jail", "(*coreV2/state/candidates.Candidates).IsCandidateJailed"); fn != nil {
		ok := false
		for _, o := range core.ResultOrigins(fn, 0) {
			if bin, isBin := core.Unwrap(o).(*ssa.BinOp); isBin && bin.Op == token.GEQ && strings.HasSuffix(core.Path(bin.X), "GetCandidate(pubkey).JailedUntil") && core.Path(bin.Y) == "block" {
				ok = true
			}
		}
		c.Check(ok, "C18.jail", "IsCandidateJailed/shape", fn.Pos(), "jailed ⇔ candidate.JailedUntil >= block", "IsCandidateJailed no longer tests JailedUntil >= block")
	}
	if fn := c.MustFn("C18.jail", "(*coreV2/state/candidates.Candidates).Punish"); fn != nil {
		ok := false
		// the call that stores its argument in Candidate.JailedUntil (whatever it is called)
		for _, s := range c.GroupSites(fn) {
			h := s.Common.StaticCallee()
			if h == nil || h.Blocks == nil || s.Arg(0) == nil {
				continue
			}
			setsJail := false
			for _, b := range h.Blocks {
				for _, in := range b.Instrs {
					if st, isStore := in.(*ssa.Store); isStore {
						if fa, isFA := st.Addr.(*ssa.FieldAddr); isFA && fieldNameOf(fa) == "JailedUntil" {
							setsJail = true
						}
					}
				}
			}
			if !setsJail {
				continue
			}
			if isOK, _ := isBlockPlusPeriod(s.Arg(0), "GetJailPeriod"); isOK {
				ok = true
			}
		}
		c.Check(ok, "C18.jail", "Punish/jail-until", fn.Pos(), "Punish jails until height + GetJailPeriod()", "Punish no longer jails until height + GetJailPeriod()")
	}

	// ---- absent
	if fn := c.MustFn("C18.absent", "(*coreV2/state/validators.Validators).SetValidatorAbsent"); fn != nil {
		var punish, off *core.Site
		for _, s := range core.Sites(fn) {
			if strings.HasSuffix(s.Callee, ".punishValidator") {
				punish = s
			}
			if strings.HasSuffix(s.Callee, ".turnValidatorOff") {
				off = s
			}
		}
		if punish == nil || off == nil {
			c.Bad("C18.absent", "SetValidatorAbsent/shape", fn.Pos(), "punishValidator / turnValidatorOff not found")
		} else {
			thr := func(s *core.Site) bool {
				for _, f := range c.FactsAt(s.Instr, 0) {
					bin, ok := f.Cond.(*ssa.BinOp)
					if !ok {
						continue
					}
					call, isCall := core.Unwrap(bin.X).(*ssa.Call)
					k, isK := core.ConstInt(bin.Y)
					if !isCall || !isK || !strings.HasSuffix(core.CalleeName(core.NormCall(&call.Call)), ".CountAbsentTimes") {
						continue
					}
					// count > 12, in any spelling: `> 12` true, `>= 13` true, `<= 12` false, `< 13` false
					switch {
					case bin.Op == token.GTR && f.Truth && k == 12, bin.Op == token.GEQ && f.Truth && k == 13, bin.Op == token.LEQ && !f.Truth && k == 12, bin.Op == token.LSS && !f.Truth && k == 13:
						return true
					}
				}
				return false
			}
			grace := false
			for _, f := range c.FactsAt(punish.Instr, 0) {
				if cf, ok := f.AsCall(); ok && cf.MethodName() == "IsGraceBlock" && !f.Truth && cf.ArgPath(0) == "height" {
					grace = true
				}
			}
			c.Check(thr(punish) && thr(off), "C18.absent", "SetValidatorAbsent/threshold", punish.Pos(), "punish and switch-off are dominated by CountAbsentTimes() > 12", "punish / switch-off is not gated by `CountAbsentTimes() > validatorMaxAbsentTimes (12)`")
			c.Check(grace, "C18.absent", "SetValidatorAbsent/grace", punish.Pos(), "punish additionally dominated by !grace.IsGraceBlock(height)", "absent validators are punished during grace periods")
			// switch-off must NOT depend on grace
			offGrace := false
			for _, f := range c.FactsAt(off.Instr, 0) {
				if cf, ok := f.AsCall(); ok && cf.MethodName() == "IsGraceBlock" {
					offGrace = true
				}
			}
			c.Check(!offGrace, "C18.absent", "SetValidatorAbsent/off-regardless-of-grace", off.Pos(), "switch-off does not depend on the grace period", "switch-off is skipped during grace periods")
		}
		kt, ok1 := constOf(c, core.PkgState+"/validators", "validatorMaxAbsentTimes")
		kw, ok2 := constOf(c, core.PkgState+"/validators", "ValidatorMaxAbsentWindow")
		c.Check(ok1 && ok2 && kt == 12 && kw == 24, "C18.absent", "constants", fn.Pos(), "validatorMaxAbsentTimes = 12, ValidatorMaxAbsentWindow = 24", fmt.Sprintf("absent constants are %d of %d, the property states 12 of 24", kt, kw))
		// turnValidatorOff switches the candidate offline and marks the validator to drop
		if tf := c.MustFn("C18.absent", "(*coreV2/state/validators.Validators).turnValidatorOff"); tf != nil {
			offl := false
			for _, s := range core.Sites(tf) {
				if s.Common.IsInvoke() && s.Common.Method.Name() == "SetOffline" {
					offl = true
				}
			}
			w := map[fieldID]bool{}
			fieldEffects(c, tf, 0, map[*ssa.Function]bool{}, map[fieldID]bool{}, w)
			drop := false
			for id := range w {
				if id.F == "toDrop" {
					drop = true
				}
			}
			c.Check(offl && drop, "C18.absent", "turnValidatorOff/effects", tf.Pos(), "sets toDrop and switches the candidate offline", "turnValidatorOff no longer drops the validator and switches the candidate off")
		}
	}

	// ---- byz
	begin := c.MustFn("C18.byz", "(*coreV2/minter.Blockchain).BeginBlock")
	if begin == nil {
		return
	}
	var pf, pv, pc *core.Site
	for _, s := range c.GroupSites(begin) {
		switch {
		case strings.HasSuffix(s.Callee, ".PunishFrozenFundsWithID"):
			pf = s
		case strings.HasSuffix(s.Callee, ".PunishByzantineValidator"):
			pv = s
		case strings.HasSuffix(s.Callee, ".PunishByzantineCandidate"):
			pc = s
		}
	}
	if pf == nil || pv == nil || pc == nil {
		c.Bad("C18.byz", "BeginBlock/shape", begin.Pos(), "the three punish calls are not all present in BeginBlock")
		return
	}
	// evidence is handled before the frozen funds that mature in this block are paid out: paid
	// first, the funds of a double signer leave unslashed, and the record (only marked deleted) is
	// slashed afterwards — value that nobody loses is added to the slashed total
	{
		topLevel := func(s *core.Site) ssa.Instruction {
			if s.Fn == begin {
				return s.Instr
			}
			// the call in BeginBlock that leads to the helper containing s
			for _, bs := range core.Sites(begin) {
				if sc := bs.Common.StaticCallee(); sc != nil {
					if sc == s.Fn {
						return bs.Instr
					}
					for _, h := range c.Helpers(sc) {
						if h == s.Fn {
							return bs.Instr
						}
					}
				}
			}
			return nil
		}
		var release *core.Site
		for _, s := range c.GroupSites(begin) {
			if s.MethodIs(core.PkgState+"/frozenfunds", "FrozenFunds", "GetFrozenFunds") {
				release = s
			}
		}
		if release == nil {
			c.Unk("C18.byz", "BeginBlock/punish-before-release", begin.Pos(), "the release of matured frozen funds was not found in BeginBlock")
		} else {
			pi, ri := topLevel(pf), topLevel(release)
			okOrder := pi != nil && ri != nil && pi != ri && !instrReaches(ri, pi) && instrReaches(pi, ri)
			if pi != nil && pi == ri {
				// both inside one helper: order within it
				okOrder = pf.Fn == release.Fn && !instrReaches(release.Instr, pf.Instr) && instrReaches(pf.Instr, release.Instr)
			}
			c.Check(okOrder, "C18.byz", "BeginBlock/punish-before-release", pf.Pos(), "double-sign evidence is handled before the frozen funds of this height are released",
				"the frozen funds maturing in this block are released before the block's double-sign evidence is handled: an offender's unbond that matures in the evidence block is paid out in full, and the paid-out record is slashed afterwards (total slashed grows, nobody loses the amount)")
		}
	}
	c.Check(pf.Fn == pv.Fn && pv.Fn == pc.Fn && core.Dominates(pf.Instr, pv.Instr) && core.Dominates(pv.Instr, pc.Instr), "C18.byz", "BeginBlock/order", pc.Pos(), "frozen funds ≺ validator ≺ candidate", "the punish order changed: PunishByzantineCandidate re-freezes the remaining stakes, which must happen after the frozen-fund slash or they are slashed twice")
	fromOK := core.Path(c.CallerArg(pf.Arg(0))) == "req.Header.Height"
	toOK, _ := isBlockPlusPeriodPath(pf.Arg(1), "GetUnbondPeriod", "req.Header.Height")
	if !toOK {
		// inside a helper the block height is a parameter: height + GetUnbondPeriod() with that
		// parameter being what the caller computed from req.Header.Height
		if bin, ok := core.Unwrap(pf.Arg(1)).(*ssa.BinOp); ok && bin.Op == token.ADD {
			x, y := bin.X, bin.Y
			if strings.Contains(core.Path(x), "GetUnbondPeriod") {
				x, y = y, x
			}
			if strings.Contains(core.Path(y), "GetUnbondPeriod") && core.Path(c.CallerArg(x)) == "req.Header.Height" {
				toOK = true
			}
		}
	}
	idOK := strings.HasSuffix(core.Path(pf.Arg(2)), ".ID") && strings.Contains(core.Path(pf.Arg(2)), "GetCandidateByTendermintAddress(")
	c.Check(fromOK && toOK && idOK, "C18.byz", "BeginBlock/frozen-range", pf.Pos(), "PunishFrozenFundsWithID(height, height+GetUnbondPeriod(), candidate.ID)", fmt.Sprintf("frozen-fund slash range/id changed: from=%s to-ok=%v id=%s", core.Path(pf.Arg(0)), toOK, core.Path(pf.Arg(2))))
	c.Check(core.SameValue(pv.Arg(0), pc.Arg(1)) || core.Path(pv.Arg(0)) == core.Path(pc.Arg(1)), "C18.byz", "BeginBlock/same-address", pc.Pos(), "validator and candidate punished for the same address", "validator and candidate punishments use different addresses")
	// skip gates
	var sawNil, sawOffline, sawNotValidator bool
	gateReads := map[fieldID]bool{}
	for _, f := range c.FactsAt(pf.Instr, 0) {
		bin, ok := f.Cond.(*ssa.BinOp)
		if ok {
			px := core.Path(bin.X)
			if isNil(bin.Y) && strings.Contains(px, "GetCandidateByTendermintAddress(") && ((bin.Op == token.EQL && !f.Truth) || (bin.Op == token.NEQ && f.Truth)) {
				sawNil = true
			}
			if isNil(bin.Y) && strings.Contains(px, "GetByTmAddress(") && ((bin.Op == token.EQL && !f.Truth) || (bin.Op == token.NEQ && f.Truth)) {
				sawNotValidator = true
			}
			if strings.HasSuffix(px, ".Status") && ((bin.Op == token.EQL && !f.Truth) || (bin.Op == token.NEQ && f.Truth)) {
				if k, isK := core.ConstInt(bin.Y); isK && k == 1 {
					sawOffline = true
				}
			}
		}
		// fields the gate reads (directly and through predicate callees)
		core.DependsOn(f.Cond, func(v ssa.Value) bool {
			switch x := v.(type) {
			case *ssa.FieldAddr:
				t := x.X.Type()
				if p, ok := t.Underlying().(*types.Pointer); ok {
					t = p.Elem()
				}
				if n, ok := t.(*types.Named); ok && n.Obj().Pkg() != nil && strings.HasPrefix(core.Short(n.Obj().Pkg().Path()), core.PkgState+"/") {
					gateReads[fieldID{n.Obj(), fieldNameOf(x)}] = true
				}
			case *ssa.Call:
				if callee := x.Call.StaticCallee(); callee != nil && strings.HasPrefix(core.PkgOf(callee), core.PkgState+"/") {
					// a lookup such as GetByTmAddress reads the container, a predicate such as
					// IsToDrop reads a field of the element: collect both
					fieldEffects(c, callee, 1, map[*ssa.Function]bool{}, gateReads, map[fieldID]bool{})
				}
			}
			return false
		})
	}
	c.Check(sawNil && sawOffline && sawNotValidator, "C18.byz", "BeginBlock/skip-gates", pf.Pos(), "evidence is skipped for unknown candidates, offline candidates and non-validators", fmt.Sprintf("skip gates missing (candidate-nil=%v offline=%v not-validator=%v)", sawNil, sawOffline, sawNotValidator))

	// ---- once: gate reads ∩ punish writes
	writes := map[fieldID]bool{}
	seen := map[*ssa.Function]bool{}
	for _, s := range []*core.Site{pf, pv, pc} {
		fieldEffects(c, s.Common.StaticCallee(), 3, seen, map[fieldID]bool{}, writes)
	}
	var inter, rd, wr []string
	for id := range gateReads {
		rd = append(rd, id.String())
		if writes[id] && isElementState(id) {
			inter = append(inter, id.String())
		}
	}
	for id := range writes {
		wr = append(wr, id.String())
	}
	sort.Strings(inter)
	sort.Strings(rd)
	sort.Strings(wr)
	c.Check(len(inter) > 0, "C18.once", "BeginBlock/evidence-loop/marker", pf.Pos(),
		"the skip gate reads state that the punishment writes ("+strings.Join(inter, ", ")+"): a second evidence entry against the same validator in this block is skipped",
		"the skip gate reads only {"+strings.Join(rd, ", ")+"}, none of which the punishment writes (it writes "+fmt.Sprint(len(wr))+" other fields): a second evidence entry against the same validator in the same block passes the gate again and frozen funds — including the stakes just re-frozen — are slashed a second time")
}

// isElementState: a per-validator / per-candidate field (not a container or cache field that
// every lookup touches).
func isElementState(id fieldID) bool {
	switch id.T.Name() {
	case "Validator", "Candidate":
		switch id.F {
		case "lock", "bus", "isDirty", "isTotalStakeDirty", "tmAddress":
			return false
		}
		return true
	}
	return false
}

func isNil(v ssa.Value) bool {
	k, ok := core.Unwrap(v).(*ssa.Const)
	return ok && k.Value == nil
}

// isBlockPlusPeriodPath: v = <path> + types.<period>() where the block operand's path ends with suffix.
func isBlockPlusPeriodPath(v ssa.Value, period, suffix string) (bool, string) {
	bin, ok := core.Unwrap(v).(*ssa.BinOp)
	if !ok || bin.Op != token.ADD {
		return false, "not a sum"
	}
	a, b := bin.X, bin.Y
	isPeriod := func(x ssa.Value) bool {
		call, ok := core.Unwrap(x).(*ssa.Call)
		return ok && core.CalleeName(core.NormCall(&call.Call)) == "coreV2/types."+period
	}
	if isPeriod(a) {
		a, b = b, a
	}
	if !isPeriod(b) {
		return false, "no period call"
	}
	return strings.HasSuffix(core.Path(a), suffix), core.Path(a)
}

// checkAbsentWindowPersisted — the 24-block window of missed blocks is persisted only when the
// validator model is marked dirty, and SetPresent/SetAbsent mark it "if the bit changes". For every
// AbsentTimes.SetIndex(i, v) in the validator model the dirty mark therefore has to be taken
// exactly when GetIndex(i) differs from v: with a constant v the mark must sit on the edge
// GetIndex(i) == !v; with a variable v the condition must compare GetIndex(i) with v. A mark on the
// wrong edge leaves newly recorded misses in memory only — after a restart the validator's window
// is empty and "more than 12 of the last 24" is counted from zero again.
func checkAbsentWindowPersisted(c *core.Ctx, rule string) {
	vt := c.Named(core.PkgState+"/validators", "Validator")
	if vt == nil {
		c.Unk(rule, "Validator", token.NoPos, "type not found")
		return
	}
	n := 0
	ms := c.Prog.MethodSets.MethodSet(types.NewPointer(vt))
	for i := 0; i < ms.Len(); i++ {
		fn := c.Prog.FuncValue(ms.At(i).Obj().(*types.Func))
		if fn == nil || fn.Blocks == nil || fn.Synthetic != "" {
			continue
		}
		for _, s := range core.Sites(fn) {
			if methodName(s) != "SetIndex" || !strings.HasSuffix(core.Path(s.Recv()), ".AbsentTimes") {
				continue
			}
			n++
			key := core.ShortFn(fn) + "/SetIndex"
			idx, val := s.Arg(0), s.Arg(1)
			// the dirty marks of this method
			var marks []*ssa.Store
			for _, b := range fn.Blocks {
				for _, in := range b.Instrs {
					if st, ok := in.(*ssa.Store); ok {
						if fa, ok := st.Addr.(*ssa.FieldAddr); ok && fieldNameOf(fa) == "isDirty" {
							marks = append(marks, st)
						}
					}
				}
			}
			good := false
			detail := "no dirty mark"
			for _, m := range marks {
				gates := core.GatesBefore(m)
				if len(gates) == 0 {
					good = true // unconditional mark
					continue
				}
				for _, g := range gates {
					cond, truth := g.If.Cond, g.PassTrue
					for {
						u, ok := cond.(*ssa.UnOp)
						if !ok || u.Op != token.NOT {
							break
						}
						cond, truth = u.X, !truth
					}
					switch x := cond.(type) {
					case *ssa.Call:
						if methodNameOfCall(x) == "GetIndex" && len(core.NormCall(&x.Call).Args) == 2 && core.SameValue(core.NormCall(&x.Call).Args[1], idx) {
							if k, ok := core.Unwrap(val).(*ssa.Const); ok && k.Value != nil {
								newBit := k.Value.String() == "true"
								if truth == !newBit {
									good = true
								} else {
									detail = fmt.Sprintf("the model is marked dirty when the stored bit is %v, but the bit is being set to %v: the mark is taken exactly when nothing changes", truth, newBit)
								}
							} else {
								detail = "the new bit is a variable but the dirty mark depends on the old bit alone"
							}
						}
					case *ssa.BinOp:
						if x.Op == token.NEQ || x.Op == token.EQL {
							a, b := core.Unwrap(x.X), core.Unwrap(x.Y)
							isGet := func(v ssa.Value) bool {
								call, ok := v.(*ssa.Call)
								return ok && methodNameOfCall(call) == "GetIndex" && core.SameValue(core.NormCall(&call.Call).Args[1], idx)
							}
							if (isGet(a) && core.SameValue(b, val) || isGet(b) && core.SameValue(a, val)) && ((x.Op == token.NEQ) == truth) {
								good = true
							}
						}
					}
				}
			}
			c.Check(good, rule, key, s.Pos(), "the model is marked dirty exactly when the window bit changes", "the missed-blocks window is changed without the dirty mark that persists it ("+detail+"): after a restart the window is reloaded without these blocks")
		}
	}
	c.Floor(rule, n, 1, "AbsentTimes.SetIndex sites in the validator model")
}

// checkSparseStakes — C18.allstakes. A candidate's stakes live in a fixed array of slots, and a
// slot is emptied (set to nil) when its owner unbonds everything — the array is sparse. Code that
// has to reach *every* stake (slashing on double signing, re-freezing) therefore skips empty slots
// and goes on; a loop over the slots that *ends* at the first empty one leaves every stake behind
// the hole unslashed. Decided for the candidates module: no loop is left on a nil test of an
// element of the `stakes` array.
func checkSparseStakes(c *core.Ctx, rule string) {
	n, bad := 0, 0
	for _, fn := range c.SrcFuncs(core.PkgState + "/candidates") {
		if fn.Blocks == nil {
			continue
		}
		for _, b := range fn.Blocks {
			iff := core.IfOf(b)
			if iff == nil || !core.InCycle(b) {
				continue
			}
			// does the condition test a stakes slot for nil?
			testsSlot := core.DependsOn(iff.Cond, func(y ssa.Value) bool {
				ld, ok := y.(*ssa.UnOp)
				if !ok || ld.Op != token.MUL {
					return false
				}
				ia, ok := ld.X.(*ssa.IndexAddr)
				if !ok {
					return false
				}
				fa, ok := ia.X.(*ssa.FieldAddr)
				return ok && fieldNameOf(fa) == "stakes"
			})
			if !testsSlot {
				continue
			}
			bin, ok := iff.Cond.(*ssa.BinOp)
			if !ok || !isNil(bin.Y) {
				continue
			}
			n++
			// the loop of b
			loop := map[*ssa.BasicBlock]bool{b: true}
			for x := range core.ReachFrom(b, nil) {
				if core.ReachFrom(x, nil)[b] {
					loop[x] = true
				}
			}
			// the "is nil" edge must stay in the loop (continue), not leave it
			nilEdge := b.Succs[0]
			if bin.Op == token.NEQ {
				nilEdge = b.Succs[1]
			}
			if !loop[nilEdge] {
				bad++
				c.Bad(rule, fmt.Sprintf("%s/slot-test#%d", core.ShortFn(fn), n), iff.Cond.Pos(), "the loop over the stake slots is left when a slot is empty: slots are emptied by full unbonds, so the stakes behind the first hole are never reached (not slashed, not unbonded)")
			}
		}
	}
	if bad == 0 {
		c.OK(rule, "loops", token.NoPos, fmt.Sprintf("%d nil tests of stake slots inside loops: each continues with the next slot", n))
	}
	c.Floor(rule, n, 3, "nil tests of stake slots inside loops of the candidates module")
}

// checkDropFlag — a validator marked to be dropped (jailed for absence, slashed on evidence) leaves
// the validator set at the end of that very block: EndBlock raises its "some validator is to be
// dropped" flag for EVERY validator whose IsToDrop() holds, and the flag forces updateValidators().
// Decided on the loop that raises the flag: the edge that carries `true` into the loop-carried
// boolean is governed, inside the loop, by IsToDrop() alone — a second condition (the accumulated
// reward being non-zero, …) lets a punished validator keep its seat until the next period boundary.
func checkDropFlag(c *core.Ctx, rule string) {
	end := c.MustFn(rule, "(*coreV2/minter.Blockchain).EndBlock")
	if end == nil {
		return
	}
	n := 0
	for _, fn := range append([]*ssa.Function{end}, c.Helpers(end)...) {
		for _, b := range fn.Blocks {
			for _, in := range b.Instrs {
				ph, ok := in.(*ssa.Phi)
				if !ok {
					break
				}
				if bt, isB := ph.Type().Underlying().(*types.Basic); !isB || bt.Kind() != types.Bool || !core.InCycle(b) {
					continue
				}
				for i, e := range ph.Edges {
					k, isK := core.Unwrap(e).(*ssa.Const)
					if !isK || k.Value == nil || k.Value.String() != "true" {
						continue
					}
					pred := b.Preds[i]
					gates := core.GatesBefore(pred.Instrs[len(pred.Instrs)-1])
					hasDrop, other := false, ""
					for _, g := range gates {
						if !core.InCycle(g.If.Block()) || !core.ReachFrom(g.If.Block(), nil)[b] || !core.ReachFrom(b, nil)[g.If.Block()] {
							continue // a condition outside the loop
						}
						cond, truth := g.If.Cond, g.PassTrue
						for {
							u, isNot := cond.(*ssa.UnOp)
							if !isNot || u.Op != token.NOT {
								break
							}
							cond, truth = u.X, !truth
						}
						if call, isCall := cond.(*ssa.Call); isCall && methodNameOfCall(call) == "IsToDrop" {
							if truth {
								hasDrop = true
							}
							continue
						}
						if other == "" {
							other = c.PosStr(g.If.Cond.Pos())
						}
					}
					if !hasDrop {
						continue // another flag
					}
					n++
					c.Check(other == "", rule, fmt.Sprintf("%s/drop-flag#%d", fn.Name(), n), ph.Pos(), "the flag is raised for every validator whose IsToDrop() holds",
						"the flag that makes EndBlock rebuild the validator set is raised only when, besides IsToDrop(), the condition at "+other+" holds: a punished validator for which it does not hold keeps its seat (and its power in Tendermint) until the next period boundary")
				}
			}
		}
	}
	c.Floor(rule, n, 1, "loop-carried drop flags in EndBlock")
}

// checkTmAddressFollowsKey — votes and evidence name a validator by its Tendermint address, which
// is derived from the public key and cached next to it. Wherever a candidate's PubKey field is
// assigned, the cached address is recomputed FROM THE NEW KEY: the value stored into tmAddress
// derives from the value stored into PubKey (or from a read of PubKey that follows that store), or
// the function calls the recomputing method after the store. An address computed from the key
// being replaced makes every later lookup by address miss: the validator can no longer be
// recorded absent, jailed or slashed.
func checkTmAddressFollowsKey(c *core.Ctx, rule string) {
	cand := c.Named(core.PkgState+"/candidates", "Candidate")
	if cand == nil {
		c.Unk(rule, "candidates.Candidate", token.NoPos, "type not found")
		return
	}
	// reads of the PubKey field in a function (FieldAddr uses other than the given store)
	keyReads := func(fn *ssa.Function, except ssa.Instruction) []ssa.Instruction {
		var out []ssa.Instruction
		for _, b := range fn.Blocks {
			for _, in := range b.Instrs {
				fa, ok := in.(*ssa.FieldAddr)
				if !ok || fieldNameOf(fa) != "PubKey" || namedOf(fa.X.Type()) != cand {
					continue
				}
				for _, r := range *fa.Referrers() {
					if r != except {
						out = append(out, r)
					}
				}
			}
		}
		return out
	}
	// the methods that recompute the address from the current key: they write tmAddress and read PubKey
	recompute := map[*ssa.Function]bool{}
	for _, w := range c.FieldWrites(cand, "tmAddress") {
		if len(w.Fn.Params) == 1 && len(keyReads(w.Fn, nil)) > 0 {
			recompute[w.Fn] = true
		}
	}
	// … and the methods that only wrap one (take the lock, call the …Locked variant)
	for round := 0; round < 2; round++ {
		for _, m := range c.SrcFuncs(core.PkgState + "/candidates") {
			if recompute[m] || len(m.Params) != 1 || m.Blocks == nil {
				continue
			}
			for _, s := range core.Sites(m) {
				if h := s.Common.StaticCallee(); h != nil && recompute[h] && s.Recv() != nil && core.Unwrap(s.Recv()) == ssa.Value(m.Params[0]) {
					recompute[m] = true
				}
			}
		}
	}
	n := 0
	for _, w := range c.FieldWrites(cand, "PubKey") {
		st, ok := w.Instr.(*ssa.Store)
		if !ok || w.Fn.Blocks == nil {
			continue
		}
		// constructors that fill a fresh struct are covered by the loader's setTmAddress; here:
		// assignments to an existing candidate (a parameter/receiver)
		fa, _ := st.Addr.(*ssa.FieldAddr)
		if fa == nil {
			continue
		}
		if _, fresh := core.Unwrap(fa.X).(*ssa.Alloc); fresh {
			continue
		}
		n++
		good, why := false, ""
		for _, s := range core.Sites(w.Fn) {
			if h := s.Common.StaticCallee(); h != nil && recompute[h] && core.SameValue(s.Recv(), fa.X) && instrReaches(st, s.Instr) && !instrReaches(s.Instr, st) {
				good = true
			}
		}
		for _, w2 := range c.FieldWrites(cand, "tmAddress") {
			if w2.Fn != w.Fn {
				continue
			}
			// the address is set in the same function: from the new value, i.e. not from a read of
			// the field that precedes the assignment
			stale := false
			for _, r := range keyReads(w.Fn, st) {
				if !core.Dominates(st, r) {
					stale = true
				}
			}
			if !stale {
				good = true
			} else {
				why = "the address stored at " + c.PosStr(w2.Instr.Pos()) + " is computed from a read of PubKey that precedes the assignment of the new key"
			}
		}
		if why == "" {
			why = "the cached Tendermint address is not recomputed after the key is assigned"
		}
		c.Check(good, rule, core.ShortFn(w.Fn)+"/PubKey", st.Pos(), "the cached Tendermint address is recomputed from the new key", why+": votes and evidence, which name the validator by the address of its NEW key, no longer find it — it cannot be recorded absent, jailed or slashed")
	}
	c.Floor(rule, n, 1, "assignments of Candidate.PubKey on an existing candidate")
}
