package rules

import (
	"fmt"
	"go/token"
	"go/types"
	"sort"
	"strings"

	"golang.org/x/tools/go/ssa"

	"verif/internal/core"
)

// C25.copyout — a read method of a state module that is reachable from the API hands amounts out
// as *big.Int. API code (and check-phase code) is free to do arithmetic on what it receives
// (`totalStake.Add(totalStake, delegated)` in the /address handler), so such a method must return
// a copy: returning the stored *big.Int itself lets a concurrent read-only query change a balance
// that block execution is using. The rule looks at every exported function of the state packages
// that is reachable from the API service and whose result contains a *big.Int — directly, or as a
// field of a struct / slice element the function builds — and requires that value not to be an
// alias of an amount stored in a state object.

// containsBigInt: the type is *big.Int or a struct/slice/array/pointer containing one (depth ≤ 3).
func containsBigInt(t types.Type, d int) bool {
	if d > 3 {
		return false
	}
	if isBigIntPtr(t) {
		return true
	}
	switch x := t.Underlying().(type) {
	case *types.Slice:
		return containsBigInt(x.Elem(), d+1)
	case *types.Array:
		return containsBigInt(x.Elem(), d+1)
	case *types.Struct:
		for i := 0; i < x.NumFields(); i++ {
			if x.Field(i).Exported() && containsBigInt(x.Field(i).Type(), d+1) {
				return true
			}
		}
	}
	return false
}

// ownedOrLookup extends stateOwned with map-element reads of a state object's map field
// (`model.balances[coin]`).
func ownedOrLookup(c *core.Ctx, v ssa.Value) (bool, string) {
	if ok, why := stateOwned(c, v, 0, map[ssa.Value]bool{}); ok {
		return true, why
	}
	seen := map[ssa.Value]bool{}
	var walk func(v ssa.Value, d int) (bool, string)
	walk = func(v ssa.Value, d int) (bool, string) {
		if v == nil || d > 6 || seen[v] {
			return false, ""
		}
		seen[v] = true
		v = core.Unwrap(v)
		switch x := v.(type) {
		case *ssa.Phi:
			for _, e := range x.Edges {
				if ok, why := walk(e, d+1); ok {
					return true, why
				}
			}
		case *ssa.Lookup:
			if ld, ok := x.X.(*ssa.UnOp); ok && ld.Op == token.MUL {
				if fa, ok := ld.X.(*ssa.FieldAddr); ok && strings.HasPrefix(structPkg(fa), core.PkgState+"/") {
					return true, "element of map field " + fieldNameOf(fa) + " of a " + structPkg(fa) + " object"
				}
			}
		case *ssa.Extract:
			if l, ok := x.Tuple.(*ssa.Lookup); ok && x.Index == 0 {
				return walk(l, d+1)
			}
			if call, ok := x.Tuple.(*ssa.Call); ok {
				return calleeReturnsOwned(c, call, x.Index, d, walk)
			}
		case *ssa.Call:
			n := core.CalleeName(core.NormCall(&x.Call))
			if strings.HasPrefix(n, "(*math/big.Int).") {
				if bigIntMutating[n[len("(*math/big.Int)."):]] && len(core.NormCall(&x.Call).Args) > 0 {
					return walk(core.NormCall(&x.Call).Args[0], d+1)
				}
				return false, ""
			}
			return calleeReturnsOwned(c, x, 0, d, walk)
		case *ssa.UnOp:
			if x.Op == token.MUL {
				if al, ok := x.X.(*ssa.Alloc); ok {
					for _, r := range *al.Referrers() {
						if st, ok := r.(*ssa.Store); ok && st.Addr == al {
							if ok2, why := walk(st.Val, d+1); ok2 {
								return true, why
							}
						}
					}
				}
			}
		}
		return false, ""
	}
	return walk(v, 0)
}

var ownedRetCache = map[*ssa.Function]map[int]string{}

func calleeReturnsOwned(c *core.Ctx, call *ssa.Call, idx, d int, walk func(ssa.Value, int) (bool, string)) (bool, string) {
	sc := call.Call.StaticCallee()
	if sc == nil || sc.Blocks == nil || !c.InRepo(sc) || !strings.HasPrefix(core.PkgOf(sc), core.PkgState) {
		return false, ""
	}
	if m, ok := ownedRetCache[sc]; ok {
		if why, ok := m[idx]; ok {
			return why != "", why
		}
	} else {
		ownedRetCache[sc] = map[int]string{}
	}
	ownedRetCache[sc][idx] = "" // cycle guard
	for _, r := range core.Returns(sc) {
		if sc.Recover != nil && r.Block() == sc.Recover {
			continue
		}
		if idx >= len(r.Results) || !isBigIntPtr(r.Results[idx].Type()) {
			continue
		}
		if ok, why := ownedOrLookup(c, resolveRet(r, idx)); ok {
			w := "result of " + core.ShortFn(sc) + " (" + why + ")"
			ownedRetCache[sc][idx] = w
			return true, w
		}
	}
	return false, ""
}

// ownedOut: what a state read method hands out without copying.
type ownedOut struct {
	direct string            // non-empty: a *big.Int result is the stored amount itself (why)
	fields map[string]string // field name of a handed-out composite → why
}

func checkCopyOut(c *core.Ctx, rule string, apiReach map[*ssa.Function]*ssa.Function) {
	var fns []*ssa.Function
	for fn := range apiReach {
		if fn.Synthetic != "" || fn.Blocks == nil || !strings.HasPrefix(core.PkgOf(fn), core.PkgState+"/") {
			continue
		}
		if fn.Signature.Recv() == nil || !token.IsExported(fn.Name()) {
			continue
		}
		res := fn.Signature.Results()
		has := false
		for i := 0; i < res.Len(); i++ {
			if containsBigInt(res.At(i).Type(), 0) {
				has = true
			}
		}
		if has {
			fns = append(fns, fn)
		}
	}
	sort.Slice(fns, func(i, j int) bool { return fns[i].String() < fns[j].String() })
	// step 1: which read methods hand out stored amounts
	outs := map[string]*ownedOut{} // by bare method name (API code calls them through the R-interfaces)
	nLive := 0
	for _, fn := range fns {
		oo := &ownedOut{fields: map[string]string{}}
		for _, r := range core.Returns(fn) {
			if fn.Recover != nil && r.Block() == fn.Recover {
				continue
			}
			for i := range r.Results {
				if !isBigIntPtr(r.Results[i].Type()) {
					continue
				}
				if ok, why := ownedOrLookup(c, resolveRet(r, i)); ok {
					oo.direct = why
				}
			}
		}
		for _, b := range fn.Blocks {
			for _, in := range b.Instrs {
				st, ok := in.(*ssa.Store)
				if !ok || !isBigIntPtr(st.Val.Type()) {
					continue
				}
				fa, ok := st.Addr.(*ssa.FieldAddr)
				if !ok || !localComposite(fa.X) {
					continue
				}
				if ok, why := ownedOrLookup(c, st.Val); ok {
					oo.fields[fieldNameOf(fa)] = why
				}
			}
		}
		if oo.direct != "" || len(oo.fields) > 0 {
			nLive++
			if prev := outs[fn.Name()]; prev != nil {
				if prev.direct == "" {
					prev.direct = oo.direct
				}
				for k, v := range oo.fields {
					prev.fields[k] = v
				}
			} else {
				outs[fn.Name()] = oo
			}
		}
	}
	c.Stats["read_methods_handing_out_live_amounts"] = nLive
	// step 2: no API function performs in-place arithmetic on such a value
	nOps := 0
	for _, fn := range c.AllFns {
		if fn.Synthetic != "" || !strings.HasPrefix(core.PkgOf(fn), "api/") {
			continue
		}
		for _, s := range core.Sites(fn) {
			name := s.Callee
			if !strings.HasPrefix(name, "(*math/big.Int).") || !bigIntMutating[name[len("(*math/big.Int)."):]] || len(s.Common.Args) == 0 {
				continue
			}
			nOps++
			why := liveFromState(c, s.Common.Args[0], outs)
			key := core.ShortFn(fn) + "/" + name[len("(*math/big.Int)."):]
			c.Check(why == "", rule, key, s.Pos(), "in-place big.Int operation on a value the API code owns",
				"API code performs in-place arithmetic on an amount that is the state's own object ("+why+"): a read-only query served concurrently with block execution changes the shared state")
		}
	}
	c.OK(rule, "summary", token.NoPos, fmt.Sprintf("%d API-reachable state read methods hand out amounts, %d of them hand out a stored object without copying; %d in-place big.Int operations in api/ packages examined", len(fns), nLive, nOps))
	c.Floor(rule, nOps, 5, "in-place big.Int operations in API code")
}

// liveFromState: the receiver of an in-place operation in API code is the state's own object —
// the direct result of a read method that hands out the stored amount, or field F of a composite
// (or slice element) returned by a read method that fills F with the stored amount.
func liveFromState(c *core.Ctx, v ssa.Value, outs map[string]*ownedOut) string {
	seen := map[ssa.Value]bool{}
	var walk func(v ssa.Value, d int) string
	calleeName := func(call *ssa.Call) string {
		if call.Call.IsInvoke() {
			return call.Call.Method.Name()
		}
		if sc := call.Call.StaticCallee(); sc != nil && strings.HasPrefix(core.PkgOf(sc), core.PkgState) {
			return sc.Name()
		}
		return ""
	}
	// fromCall: does value x originate (through slices, ranges, element loads) from a call of a read method?
	var fromCall func(x ssa.Value, d int) *ssa.Call
	fromCall = func(x ssa.Value, d int) *ssa.Call {
		if x == nil || d > 8 {
			return nil
		}
		switch y := core.Unwrap(x).(type) {
		case *ssa.Call:
			return y
		case *ssa.Extract:
			if call, ok := y.Tuple.(*ssa.Call); ok {
				return call
			}
			if nx, ok := y.Tuple.(*ssa.Next); ok {
				if rg, ok := nx.Iter.(*ssa.Range); ok {
					return fromCall(rg.X, d+1)
				}
			}
		case *ssa.UnOp:
			if y.Op == token.MUL {
				switch a := y.X.(type) {
				case *ssa.IndexAddr:
					return fromCall(a.X, d+1)
				case *ssa.FieldAddr:
					return fromCall(a.X, d+1)
				case *ssa.Alloc:
					for _, r := range *a.Referrers() {
						if st, ok := r.(*ssa.Store); ok && st.Addr == a {
							if cc := fromCall(st.Val, d+1); cc != nil {
								return cc
							}
						}
					}
				}
			}
		case *ssa.Alloc:
			// a local struct copy (`for _, coin := range balances`): what was stored into it
			for _, r := range *y.Referrers() {
				if st, ok := r.(*ssa.Store); ok && st.Addr == ssa.Value(y) {
					if cc := fromCall(st.Val, d+1); cc != nil {
						return cc
					}
				}
			}
		case *ssa.IndexAddr:
			return fromCall(y.X, d+1)
		case *ssa.Index:
			return fromCall(y.X, d+1)
		case *ssa.Field:
			return fromCall(y.X, d+1)
		case *ssa.Phi:
			for _, e := range y.Edges {
				if cc := fromCall(e, d+1); cc != nil {
					return cc
				}
			}
		case *ssa.Slice:
			return fromCall(y.X, d+1)
		}
		return nil
	}
	walk = func(v ssa.Value, d int) string {
		if v == nil || d > 8 || seen[v] {
			return ""
		}
		seen[v] = true
		v = core.Unwrap(v)
		switch x := v.(type) {
		case *ssa.Phi:
			for _, e := range x.Edges {
				if w := walk(e, d+1); w != "" {
					return w
				}
			}
		case *ssa.Call:
			n := core.CalleeName(core.NormCall(&x.Call))
			if strings.HasPrefix(n, "(*math/big.Int).") {
				if bigIntMutating[n[len("(*math/big.Int)."):]] && len(core.NormCall(&x.Call).Args) > 0 {
					return walk(core.NormCall(&x.Call).Args[0], d+1) // z.Op(...) returns z
				}
				return ""
			}
			if oo := outs[calleeName(x)]; oo != nil && oo.direct != "" {
				return "result of " + calleeName(x) + ": " + oo.direct
			}
		case *ssa.Extract:
			if call, ok := x.Tuple.(*ssa.Call); ok {
				if oo := outs[calleeName(call)]; oo != nil && oo.direct != "" {
					return "result of " + calleeName(call) + ": " + oo.direct
				}
			}
			if lk, ok := x.Tuple.(*ssa.Lookup); ok && x.Index == 0 {
				return walk(lk, d+1)
			}
		case *ssa.Lookup:
			// an element of a local map: whatever was put into that map
			for _, o := range core.Origins(x.X) {
				mk, ok := o.(*ssa.MakeMap)
				if !ok {
					continue
				}
				for _, r := range *mk.Referrers() {
					if mu, ok := r.(*ssa.MapUpdate); ok && mu.Map == ssa.Value(mk) {
						if w := walk(mu.Value, d+1); w != "" {
							return w
						}
					}
				}
			}
		case *ssa.UnOp:
			if x.Op != token.MUL {
				return ""
			}
			switch a := x.X.(type) {
			case *ssa.FieldAddr:
				f := fieldNameOf(a)
				if call := fromCall(a.X, 0); call != nil {
					if oo := outs[calleeName(call)]; oo != nil && oo.fields[f] != "" {
						return "field " + f + " of what " + calleeName(call) + " returned: " + oo.fields[f]
					}
				}
			case *ssa.Alloc:
				for _, r := range *a.Referrers() {
					if st, ok := r.(*ssa.Store); ok && st.Addr == a {
						if w := walk(st.Val, d+1); w != "" {
							return w
						}
					}
				}
			}
		case *ssa.Field:
			_, stt := structOfType(x.X.Type())
			if stt != nil {
				f := stt.Field(x.Field).Name()
				if call := fromCall(x.X, 0); call != nil {
					if oo := outs[calleeName(call)]; oo != nil && oo.fields[f] != "" {
						return "field " + f + " of what " + calleeName(call) + " returned: " + oo.fields[f]
					}
				}
			}
		}
		return ""
	}
	return walk(v, 0)
}

// localComposite: the address is (an element of) a local allocation — a composite literal or a
// slice made in this function.
func localComposite(v ssa.Value) bool {
	switch x := v.(type) {
	case *ssa.Alloc:
		return true
	case *ssa.IndexAddr:
		for _, o := range core.Origins(x.X) {
			switch o.(type) {
			case *ssa.MakeSlice, *ssa.Alloc, *ssa.Slice:
				return true
			}
		}
	case *ssa.FieldAddr:
		return localComposite(x.X)
	}
	return false
}

// ---------------------------------------------------------------- C25.recheck

// checkRecheck — check-then-insert atomicity on guarded maps. When a function inserts into a
// guarded map (directly or through a same-package helper) on a path that was selected by the
// outcome of a lookup of that same map ("not there yet ⇒ load and insert"), the lookup that
// decides must run under the write lock that protects the insert. A lookup made under the read
// lock (or no lock) that is then released gives two threads the same "missing" answer: both load
// their own object and the second insert replaces the object the first thread is already using —
// every access is locked, yet block execution's updates land on an orphaned object.
func checkRecheck(c *core.Ctx, rule string, locks map[*ssa.Function]*core.LockInfo, readers, entry map[*ssa.Function]*ssa.Function) {
	n := 0
	both := func(fn *ssa.Function) bool {
		_, r := readers[fn]
		_, e := entry[fn]
		return r && e
	}
	keyOf := func(in ssa.Instruction) ssa.Value {
		switch x := in.(type) {
		case *ssa.Lookup:
			return x.Index
		case *ssa.MapUpdate:
			return x.Key
		case ssa.CallInstruction:
			s := &core.Site{Instr: x, Common: x.Common()}
			return s.Arg(0)
		}
		return nil
	}
	var keys []string
	for k := range mapGuards {
		keys = append(keys, k)
	}
	sort.Strings(keys)
	for _, k := range keys {
		parts := strings.Split(k, ".")
		if len(parts) != 3 {
			continue
		}
		pk, tn, field := parts[0], parts[1], parts[2]
		t := namedInStatePkgs(c, pk, tn)
		if t == nil {
			continue
		}
		accs := mapFieldAccesses(c, t, field)
		// helpers: functions that update / look up the field on their receiver
		inserters, lookupers := map[*ssa.Function]bool{}, map[*ssa.Function]bool{}
		for _, a := range accs {
			switch a.Kind {
			case "update":
				inserters[a.Fn] = true
			case "lookup":
				lookupers[a.Fn] = true
			}
		}
		// candidate functions: contain an insert (direct or via helper call)
		seenFn := map[*ssa.Function]bool{}
		var cands []*ssa.Function
		for _, fn := range c.AllFns {
			if fn.Synthetic != "" || fn.Blocks == nil {
				continue
			}
			for _, s := range core.Sites(fn) {
				if sc := s.Common.StaticCallee(); sc != nil && inserters[sc] && !seenFn[fn] {
					seenFn[fn] = true
					cands = append(cands, fn)
				}
			}
			if inserters[fn] && !seenFn[fn] {
				seenFn[fn] = true
				cands = append(cands, fn)
			}
		}
		for _, fn := range cands {
			info := locks[fn]
			// a lost insert needs two threads in the function at once, one of them block execution
			if info == nil || !both(fn) {
				continue
			}
			// insert sites and lookup sites in fn
			var ins, looks []ssa.Instruction
			for _, a := range accs {
				if a.Fn != fn {
					continue
				}
				if a.Kind == "update" {
					ins = append(ins, a.Instr)
				}
				if a.Kind == "lookup" {
					looks = append(looks, a.Instr)
				}
			}
			for _, s := range core.Sites(fn) {
				sc := s.Common.StaticCallee()
				if sc == nil || sc == fn {
					continue
				}
				if inserters[sc] && !lookupers[sc] {
					ins = append(ins, s.Instr)
				}
				if lookupers[sc] && !inserters[sc] {
					if v := s.Value(); v != nil {
						looks = append(looks, s.Instr)
					}
				}
			}
			if len(ins) == 0 || len(looks) == 0 {
				continue
			}
			for _, in := range ins {
				// lookups whose result decides whether `in` executes
				var deciding []ssa.Instruction
				for _, g := range core.GatesBefore(in) {
					for _, l := range looks {
						lv, ok := l.(ssa.Value)
						if !ok {
							continue
						}
						if core.DependsOn(g.If.Cond, func(v ssa.Value) bool { return v == lv }) {
							// the same key is looked up and inserted
							if !sameKey(keyOf(l), in) {
								continue
							}
							deciding = append(deciding, l)
						}
					}
				}
				if len(deciding) == 0 {
					continue
				}
				n++
				key := fmt.Sprintf("%s/%s.%s", core.ShortFn(fn), tn, field)
				// at least one deciding lookup must hold a write lock that is still held at the insert
				heldAtInsert := info.At[in]
				good := false
				var detail []string
				for _, l := range deciding {
					ls := info.At[l]
					w := ""
					for lk, mode := range ls {
						if mode == 'W' && heldAtInsert[lk] == 'W' && isGuardOf(lk, mapGuards[k]) {
							w = lk
						}
					}
					if w != "" && !releasedBetween(fn, l, in, w) {
						good = true
					}
					detail = append(detail, fmt.Sprintf("lookup at %s under %s", c.PosStr(l.Pos()), ls.String()))
				}
				c.Check(good, rule, key, in.Pos(), "the lookup that decides the insert runs under the same write lock as the insert",
					fmt.Sprintf("an insert into the guarded map %s.%s is decided by a lookup that does not hold the write lock held at the insert (%s; insert under %s): two threads can both miss, load their own object, and the later insert replaces the object the other thread is already using", tn, field, strings.Join(detail, "; "), heldAtInsert.String()))
			}
		}
	}
	c.Floor(rule, n, 2, "check-then-insert sites on guarded maps")
}

// sameKey: the key that was looked up is (one of) the argument(s) of the insert.
func sameKey(k ssa.Value, insert ssa.Instruction) bool {
	if k == nil {
		return true
	}
	switch x := insert.(type) {
	case *ssa.MapUpdate:
		return core.SameValue(k, x.Key)
	case ssa.CallInstruction:
		for _, a := range x.Common().Args {
			if core.SameValue(k, a) {
				return true
			}
		}
		return false
	}
	return true
}

func isGuardOf(lockPath string, guards []string) bool {
	for _, g := range guards {
		if strings.HasSuffix(lockPath, "."+g) || lockPath == g {
			return true
		}
	}
	return false
}

// releasedBetween: some release of lock lk is reachable from a and can reach b.
func releasedBetween(fn *ssa.Function, a, b ssa.Instruction, lk string) bool {
	fromA := core.ReachFrom(a.Block(), nil)
	for _, s := range core.Sites(fn) {
		if _, isDefer := s.Instr.(*ssa.Defer); isDefer {
			continue
		}
		switch s.Callee {
		case "(*sync.Mutex).Unlock", "(*sync.RWMutex).Unlock", "(*sync.RWMutex).RUnlock":
		default:
			continue
		}
		if core.LockKey(s.Recv()) != lk {
			continue
		}
		sb := s.Block()
		if !fromA[sb] || !core.ReachFrom(sb, nil)[b.Block()] {
			continue
		}
		if sb == a.Block() && core.InstrIndex(s.Instr) < core.InstrIndex(a) {
			continue
		}
		if sb == b.Block() && core.InstrIndex(s.Instr) > core.InstrIndex(b) {
			continue
		}
		return true
	}
	return false
}

func namedInStatePkgs(c *core.Ctx, pkgName, typeName string) *types.Named {
	for sp, p := range c.PkgBy {
		if p.Types.Name() != pkgName || !(strings.HasPrefix(sp, core.PkgState) || sp == "coreV2/events") {
			continue
		}
		if o := p.Types.Scope().Lookup(typeName); o != nil {
			if n, ok := o.Type().(*types.Named); ok {
				return n
			}
		}
	}
	return nil
}
