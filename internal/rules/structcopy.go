package rules

import (
	"fmt"
	"go/token"
	"go/types"
	"sort"
	"strings"

	"golang.org/x/tools/go/ssa"

	"verif/internal/core"
)

// checkPartialCopies: a composite literal of a state-module struct type T, two or more of whose
// fields are copied from ONE existing value of the same type T, is a copy of that value; every
// exported (i.e. persisted) field of T must then be carried over — a field left out silently
// resets it (e.g. rebuilding a frozen-fund Item without its move target turns a stake move into
// an unbond). pkgs restricts the scan to functions of those packages.
func checkPartialCopies(c *core.Ctx, rule string, pkgs ...string) int {
	n := 0
	for _, fn := range c.AllFns {
		if fn.Synthetic != "" {
			continue
		}
		in := false
		for _, p := range pkgs {
			if strings.HasPrefix(core.PkgOf(fn), p) {
				in = true
			}
		}
		if !in {
			continue
		}
		ord := 0
		for _, b := range fn.Blocks {
			for _, ins := range b.Instrs {
				al, ok := ins.(*ssa.Alloc)
				if !ok {
					continue
				}
				t := namedOf(al.Type())
				if t == nil || t.Obj().Pkg() == nil || !strings.HasPrefix(core.Short(t.Obj().Pkg().Path()), core.PkgState+"/") {
					continue
				}
				st, isStruct := t.Underlying().(*types.Struct)
				if !isStruct {
					continue
				}
				stored := map[string]bool{}
				sources := map[ssa.Value]int{}
				for _, r := range *al.Referrers() {
					fa, ok := r.(*ssa.FieldAddr)
					if !ok {
						continue
					}
					for _, fr := range *fa.Referrers() {
						s, ok := fr.(*ssa.Store)
						if !ok || s.Addr != fa {
							continue
						}
						stored[fieldNameOf(fa)] = true
						// the stored value is a field of another T?
						for _, o := range append([]ssa.Value{s.Val}, core.Origins(s.Val)...) {
							var base ssa.Value
							switch x := core.Unwrap(o).(type) {
							case *ssa.UnOp:
								if sfa, ok := x.X.(*ssa.FieldAddr); ok {
									if sn := namedOf(sfa.X.Type()); sn != nil && sn.Obj() == t.Obj() {
										base = core.Unwrap(sfa.X)
									}
								}
							case *ssa.Field:
								if sn := namedOf(x.X.Type()); sn != nil && sn.Obj() == t.Obj() {
									base = core.Unwrap(x.X)
								}
							}
							if base != nil && base != ssa.Value(al) {
								sources[base]++
							}
						}
					}
				}
				copied := 0
				for _, k := range sources {
					if k > copied {
						copied = k
					}
				}
				if copied < 2 {
					continue
				}
				n++
				ord++
				var missing []string
				for i := 0; i < st.NumFields(); i++ {
					f := st.Field(i)
					if !f.Exported() || stored[f.Name()] {
						continue
					}
					missing = append(missing, f.Name())
				}
				sort.Strings(missing)
				key := fmt.Sprintf("%s/copy-of-%s#%d", core.ShortFn(fn), t.Obj().Name(), ord)
				c.Check(len(missing) == 0, rule, key, posOfAlloc(al), fmt.Sprintf("copy of a %s carries all %d persisted fields", t.Obj().Name(), len(stored)), fmt.Sprintf("a %s is rebuilt from an existing one (%d fields copied) without its field(s) %s: that part of the stored record is silently reset", t.Obj().Name(), copied, strings.Join(missing, ", ")))
			}
		}
	}
	return n
}

func posOfAlloc(al *ssa.Alloc) token.Pos {
	if al.Pos().IsValid() {
		return al.Pos()
	}
	for _, r := range *al.Referrers() {
		if r.Pos().IsValid() {
			return r.Pos()
		}
	}
	return token.NoPos
}
