package rules

import (
	"fmt"
	"go/token"
	"go/types"
	"sort"
	"strings"

	"golang.org/x/tools/go/ssa"

	"verif/internal/core"
)

// checkPartialCopies: a composite literal of a state-module struct type T, two or more of whose
// fields are copied from ONE existing value of the same type T, is a copy of that value; every
// exported (i.e. persisted) field of T must then be carried over — a field left out silently
// resets it (e.g. rebuilding a frozen-fund Item without its move target turns a stake move into
// an unbond). pkgs restricts the scan to functions of those packages.
func checkPartialCopies(c *core.Ctx, rule string, pkgs ...string) int {
	n := 0
	for _, fn := range c.AllFns {
		if fn.Synthetic != "" {
			continue
		}
		in := false
		for _, p := range pkgs {
			if strings.HasPrefix(core.PkgOf(fn), p) {
				in = true
			}
		}
		if !in {
			continue
		}
		ord := 0
		for _, b := range fn.Blocks {
			for _, ins := range b.Instrs {
				al, ok := ins.(*ssa.Alloc)
				if !ok {
					continue
				}
				t := namedOf(al.Type())
				if t == nil || t.Obj().Pkg() == nil || !strings.HasPrefix(core.Short(t.Obj().Pkg().Path()), core.PkgState+"/") {
					continue
				}
				st, isStruct := t.Underlying().(*types.Struct)
				if !isStruct {
					continue
				}
				stored := map[string]bool{}
				sources := map[ssa.Value]int{}
				for _, r := range *al.Referrers() {
					fa, ok := r.(*ssa.FieldAddr)
					if !ok {
						continue
					}
					for _, fr := range *fa.Referrers() {
						s, ok := fr.(*ssa.Store)
						if !ok || s.Addr != fa {
							continue
						}
						stored[fieldNameOf(fa)] = true
						// the stored value is a field of another T?
						for _, o := range append([]ssa.Value{s.Val}, core.Origins(s.Val)...) {
							var base ssa.Value
							switch x := core.Unwrap(o).(type) {
							case *ssa.UnOp:
								if sfa, ok := x.X.(*ssa.FieldAddr); ok {
									if sn := namedOf(sfa.X.Type()); sn != nil && sn.Obj() == t.Obj() {
										base = core.Unwrap(sfa.X)
									}
								}
							case *ssa.Field:
								if sn := namedOf(x.X.Type()); sn != nil && sn.Obj() == t.Obj() {
									base = core.Unwrap(x.X)
								}
							}
							if base != nil && base != ssa.Value(al) {
								sources[base]++
							}
						}
					}
				}
				copied := 0
				for _, k := range sources {
					if k > copied {
						copied = k
					}
				}
				if copied < 2 {
					continue
				}
				n++
				ord++
				var missing []string
				for i := 0; i < st.NumFields(); i++ {
					f := st.Field(i)
					if !f.Exported() || stored[f.Name()] {
						continue
					}
					missing = append(missing, f.Name())
				}
				sort.Strings(missing)
				key := fmt.Sprintf("%s/copy-of-%s#%d", core.ShortFn(fn), t.Obj().Name(), ord)
				c.Check(len(missing) == 0, rule, key, posOfAlloc(al), fmt.Sprintf("copy of a %s carries all %d persisted fields", t.Obj().Name(), len(stored)), fmt.Sprintf("a %s is rebuilt from an existing one (%d fields copied) without its field(s) %s: that part of the stored record is silently reset", t.Obj().Name(), copied, strings.Join(missing, ", ")))
			}
		}
	}
	return n
}

func posOfAlloc(al *ssa.Alloc) token.Pos {
	if al.Pos().IsValid() {
		return al.Pos()
	}
	for _, r := range *al.Referrers() {
		if r.Pos().IsValid() {
			return r.Pos()
		}
	}
	return token.NoPos
}

// checkSourceMix: a record that is rebuilt field by field from the same-named fields of ONE
// source object (`Price{Send: f(vc.Send), Lock: f(vc.Lock), …}`) must take every such field from
// that object. A field taken from a *different* object of the source's type (`c.Lock` — the table
// currently in force instead of the voted one) silently replaces that part of the record. Decided
// over the given functions; a record with fewer than three same-named fields from one object is
// not considered a field-by-field copy.
func checkSourceMix(c *core.Ctx, rule string, fns []*ssa.Function) int {
	n := 0
	type src struct {
		key string
		typ string
	}
	for _, fn := range fns {
		if fn == nil || fn.Blocks == nil {
			continue
		}
		ord := 0
		for _, b := range fn.Blocks {
			for _, ins := range b.Instrs {
				al, ok := ins.(*ssa.Alloc)
				if !ok {
					continue
				}
				t := namedOf(al.Type().(*types.Pointer).Elem())
				if t == nil {
					continue
				}
				if _, isStruct := t.Underlying().(*types.Struct); !isStruct {
					continue
				}
				perField := map[string][]src{}
				for _, r := range *al.Referrers() {
					fa, ok := r.(*ssa.FieldAddr)
					if !ok {
						continue
					}
					fname := fieldNameOf(fa)
					for _, fr := range *fa.Referrers() {
						s, ok := fr.(*ssa.Store)
						if !ok || s.Addr != fa {
							continue
						}
						var leaves []ssa.Value
						for _, o := range append([]ssa.Value{s.Val}, core.Origins(s.Val)...) {
							leaves = append(leaves, o)
							if call, ok := core.Unwrap(o).(*ssa.Call); ok {
								for _, a := range core.NormCall(&call.Call).Args {
									leaves = append(leaves, a)
									leaves = append(leaves, core.Origins(a)...)
								}
							}
						}
						for _, o := range leaves {
							var base ssa.Value
							var sname string
							switch x := core.Unwrap(o).(type) {
							case *ssa.UnOp:
								if sfa, ok := x.X.(*ssa.FieldAddr); ok {
									base, sname = sfa.X, fieldNameOf(sfa)
								}
							case *ssa.Field:
								if st := structUnder(x.X.Type()); st != nil {
									base, sname = x.X, st.Field(x.Field).Name()
								}
							}
							if base == nil || sname != fname || core.Unwrap(base) == ssa.Value(al) {
								continue
							}
							k := core.Path(base)
							if k == "" {
								k = fmt.Sprintf("%p", core.Unwrap(base))
							}
							bt := base.Type().String()
							perField[fname] = append(perField[fname], src{key: k, typ: strings.TrimPrefix(bt, "*")})
						}
					}
				}
				count := map[src]int{}
				for _, ss := range perField {
					seen := map[src]bool{}
					for _, s := range ss {
						if !seen[s] {
							seen[s] = true
							count[s]++
						}
					}
				}
				var major src
				best := 0
				for s, k := range count {
					if k > best || (k == best && s.key < major.key) {
						major, best = s, k
					}
				}
				if best < 3 {
					continue
				}
				n++
				ord++
				var odd []string
				for f, ss := range perField {
					fromMajor := false
					var other *src
					for i := range ss {
						if ss[i] == major {
							fromMajor = true
						} else if ss[i].typ == major.typ {
							other = &ss[i]
						}
					}
					if !fromMajor && other != nil {
						odd = append(odd, fmt.Sprintf("%s (from %s)", f, other.key))
					}
				}
				sort.Strings(odd)
				key := fmt.Sprintf("%s/%s-from-one-source#%d", core.ShortFn(fn), t.Obj().Name(), ord)
				c.Check(len(odd) == 0, rule, key, posOfAlloc(al), fmt.Sprintf("%d same-named fields, all taken from %s", best, major.key),
					fmt.Sprintf("a %s is rebuilt from the same-named fields of %s (%d fields), except %s — taken from another object of the same type: that part of the record is replaced by the other object's value", t.Obj().Name(), major.key, best, strings.Join(odd, ", ")))
			}
		}
	}
	return n
}
