package rules

import (
	"fmt"
	"go/token"
	"go/types"
	"sort"

	"golang.org/x/tools/go/ssa"

	"verif/internal/core"
)

// C07.pad — the fixed-width padding idiom is used only after the length was shown to fit.
//
// `make([]byte, 65-len(sig))`, `copy(buf[32-len(b):], b)` right-align a variable-length byte
// string (the bytes of an integer decoded from a transaction: a signature part, a check's lock)
// in a fixed-width buffer, and panic when the string is LONGER than the width: the difference is
// negative. For every slice bound, make length and index in the functions reachable from the
// ABCI entry points (repository code) of the form `K − n` with K a constant and n derived from a
// `len(…)`, one of the following must hold:
//   - a comparison governs the use that excludes n > K (`if len(sig) < 65 {…}`, `if len(b) > 32
//     { return }`, in either spelling), or the difference itself is compared with zero;
//   - n is the length of something whose size is fixed by its type (an array) and not above K;
//   - n is the byte length of an integer the path has range-checked with
//     crypto.ValidateSignatureValues (R and S below the curve order: at most 32 bytes).
//
// What is not decided: other index arithmetic (`len(x)−1` of a list known to be non-empty, an
// index chosen by a decoder) — there is no uniform structural guard for those.
func checkLenDifferences(c *core.Ctx, rule string, fns []*ssa.Function) {
	n := 0
	for _, fn := range fns {
		if fn.Blocks == nil || !c.InRepo(fn) || fn.Synthetic != "" {
			continue
		}
		ord := 0
		for _, b := range fn.Blocks {
			for _, in := range b.Instrs {
				var bounds []ssa.Value
				switch x := in.(type) {
				case *ssa.Slice:
					bounds = []ssa.Value{x.Low, x.High, x.Max}
				case *ssa.MakeSlice:
					bounds = []ssa.Value{x.Len, x.Cap}
				case *ssa.IndexAddr:
					bounds = []ssa.Value{x.Index}
				case *ssa.Index:
					bounds = []ssa.Value{x.Index}
				}
				for _, bv := range bounds {
					if bv == nil {
						continue
					}
					sub, ok := core.Unwrap(bv).(*ssa.BinOp)
					if !ok || sub.Op != token.SUB {
						continue
					}
					if _, isK := core.ConstInt(core.Unwrap(sub.X)); !isK || !derivesFromLen(sub.Y) {
						continue
					}
					n++
					ord++
					key := fmt.Sprintf("%s/difference#%d", core.ShortFn(fn), ord)
					why := nonNegativeDifference(c, in, sub)
					if why == "" {
						why = guardedByCallers(c, fn, sub)
					}
					c.Check(why != "", rule, key, in.Pos(), "the difference used as a bound cannot be negative: "+why,
						fmt.Sprintf("%s − %s is used as a slice bound, length or index without anything on the way excluding that it is negative: an input of the right length makes the node panic", describe(sub.X), describe(sub.Y)))
				}
			}
		}
	}
	c.Floor(rule, n, 4, "constant − length differences used as bounds in consensus-reachable code")
}

func derivesFromLen(v ssa.Value) bool {
	return core.DependsOn(v, func(x ssa.Value) bool {
		call, ok := x.(*ssa.Call)
		if !ok {
			return false
		}
		b, ok := call.Call.Value.(*ssa.Builtin)
		return ok && (b.Name() == "len" || b.Name() == "cap")
	})
}

// nonNegativeDifference: why sub.X − sub.Y ≥ 0 at the use ("" when nothing shows it).
func nonNegativeDifference(c *core.Ctx, use ssa.Instruction, sub *ssa.BinOp) string {
	A, B := core.Unwrap(sub.X), core.Unwrap(sub.Y)
	// fixed-size operand
	if k, ok := core.ConstInt(A); ok {
		if m, fixed := fixedLen(B); fixed && m <= k {
			return fmt.Sprintf("the subtrahend is the length of a fixed-size value (%d ≤ %d)", m, k)
		}
	}
	if kb, ok := core.ConstInt(B); ok {
		if m, fixed := fixedLen(A); fixed && m >= kb {
			return fmt.Sprintf("the minuend is the length of a fixed-size value (%d ≥ %d)", m, kb)
		}
	}
	same := func(p, q ssa.Value) bool {
		p, q = core.Unwrap(p), core.Unwrap(q)
		if p == q {
			return true
		}
		kp, ok1 := core.ConstInt(p)
		kq, ok2 := core.ConstInt(q)
		if ok1 && ok2 {
			return kp == kq
		}
		return core.SameValue(p, q)
	}
	// a governing comparison
	for _, g := range core.GatesBefore(use) {
		if call, ok := g.If.Cond.(*ssa.Call); ok && g.PassTrue && core.CalleeName(core.NormCall(&call.Call)) == "crypto.ValidateSignatureValues" {
			// B = len(x.Bytes()) with x one of the range-checked integers
			for _, a := range core.NormCall(&call.Call).Args {
				a := core.Unwrap(a)
				if core.DependsOn(B, func(v ssa.Value) bool { return core.Unwrap(v) == a }) {
					if ka, isK := core.ConstInt(A); isK && ka >= 32 {
						return "the integer was range-checked by crypto.ValidateSignatureValues (at most 32 bytes)"
					}
				}
			}
		}
		bin, ok := g.If.Cond.(*ssa.BinOp)
		if !ok {
			continue
		}
		op := bin.Op
		if !g.PassTrue {
			switch op {
			case token.LSS:
				op = token.GEQ
			case token.LEQ:
				op = token.GTR
			case token.GTR:
				op = token.LEQ
			case token.GEQ:
				op = token.LSS
			case token.EQL:
				op = token.NEQ
			case token.NEQ:
				op = token.EQL
			default:
				continue
			}
		}
		x, y := bin.X, bin.Y
		// normalise to  x OP y  with the facts  A ≥ B  wanted
		switch {
		case same(x, A) && same(y, B) && (op == token.GEQ || op == token.GTR || op == token.EQL):
			return "governed by " + describe(A) + " " + op.String() + " " + describe(B)
		case same(x, B) && same(y, A) && (op == token.LEQ || op == token.LSS || op == token.EQL):
			return "governed by " + describe(B) + " " + op.String() + " " + describe(A)
		}
		// the difference itself compared with a constant ≥ 0
		if same(x, sub) {
			if k, ok := core.ConstInt(y); ok && ((op == token.GEQ && k >= 0) || (op == token.GTR && k >= -1) || (op == token.EQL && k >= 0)) {
				return "the difference is compared with " + fmt.Sprint(k)
			}
		}
		// a stronger bound on one side: B < K' with K' ≤ A (constants), or A > K' with K' ≥ B
		if ka, ok := core.ConstInt(A); ok && same(x, B) {
			if k, ok := core.ConstInt(y); ok && ((op == token.LSS && k-1 <= ka) || (op == token.LEQ && k <= ka) || (op == token.EQL && k <= ka)) {
				return fmt.Sprintf("governed by %s %s %d", describe(B), op, k)
			}
		}
		if ka, ok := core.ConstInt(A); ok && same(y, B) {
			if k, ok := core.ConstInt(x); ok && ((op == token.GTR && k-1 <= ka) || (op == token.GEQ && k <= ka) || (op == token.EQL && k <= ka)) {
				return fmt.Sprintf("governed by %d %s %s", k, op, describe(B))
			}
		}
		if kb, ok := core.ConstInt(B); ok && same(x, A) {
			if k, ok := core.ConstInt(y); ok && ((op == token.GTR && k+1 >= kb) || (op == token.GEQ && k >= kb) || (op == token.EQL && k >= kb)) {
				return fmt.Sprintf("governed by %s %s %d", describe(A), op, k)
			}
		}
		if kb, ok := core.ConstInt(B); ok && same(y, A) {
			if k, ok := core.ConstInt(x); ok && ((op == token.LSS && k+1 >= kb) || (op == token.LEQ && k >= kb) || (op == token.EQL && k >= kb)) {
				return fmt.Sprintf("governed by %d %s %s", k, op, describe(A))
			}
		}
	}
	return ""
}

// fixedLen: v is len(x) of an array (or pointer to array): its length.
func fixedLen(v ssa.Value) (int64, bool) {
	call, ok := core.Unwrap(v).(*ssa.Call)
	if !ok {
		return 0, false
	}
	b, ok := call.Call.Value.(*ssa.Builtin)
	if !ok || (b.Name() != "len" && b.Name() != "cap") || len(core.NormCall(&call.Call).Args) != 1 {
		return 0, false
	}
	t := core.NormCall(&call.Call).Args[0].Type().Underlying()
	if p, ok := t.(*types.Pointer); ok {
		t = p.Elem().Underlying()
	}
	if a, ok := t.(*types.Array); ok {
		return a.Len(), true
	}
	return 0, false
}

var _ = sort.Strings

// guardedByCallers: the padding sits in an unexported helper (encodeSignature(R, S, V)) and the
// integer whose length is subtracted is one of its parameters: every call of the helper is
// governed by crypto.ValidateSignatureValues on the argument passed for that parameter.
func guardedByCallers(c *core.Ctx, fn *ssa.Function, sub *ssa.BinOp) string {
	if fn.Object() == nil || fn.Object().Exported() {
		return ""
	}
	ka, isK := core.ConstInt(core.Unwrap(sub.X))
	if !isK || ka < 32 {
		return ""
	}
	idx := -1
	for i, p := range fn.Params {
		p := p
		if core.DependsOn(sub.Y, func(v ssa.Value) bool { return v == ssa.Value(p) }) {
			idx = i
		}
	}
	if idx < 0 {
		return ""
	}
	n := 0
	for _, cl := range c.CG().Callers(fn) {
		for _, s := range core.Sites(cl) {
			if s.Common.StaticCallee() != fn || idx >= len(s.Common.Args) {
				continue
			}
			n++
			arg := core.Unwrap(s.Common.Args[idx])
			ok := false
			for _, g := range core.GatesBefore(s.Instr) {
				call, isCall := g.If.Cond.(*ssa.Call)
				if !isCall || !g.PassTrue || core.CalleeName(&call.Call) != "crypto.ValidateSignatureValues" {
					continue
				}
				for _, a := range call.Call.Args {
					if core.Unwrap(a) == arg {
						ok = true
					}
				}
			}
			if !ok {
				return ""
			}
		}
	}
	if n == 0 {
		return ""
	}
	return fmt.Sprintf("every call of %s (%d) passes an integer range-checked by crypto.ValidateSignatureValues", fn.Name(), n)
}
