package rules

import (
	"fmt"
	"go/token"

	"golang.org/x/tools/go/ssa"

	"verif/internal/core"
)

func init() {
	register(&RuleSet{
		Meta: core.PropertyMeta{
			ID: "C26",
			Explanation: "Rule: on every deliver-mode path that debits the payer, the payer's replay guard (the nonce the RunTx gate compares against) is advanced, so the same bytes meet the nonce gate next time and are rejected before any effect. " +
				"(success) every accepted path of the 37 live Runs passes SetNonce(tx.Sender(), tx.Nonce) [same CFG rule as C03.nonce]; (early) every rejection of RunTx before the dispatch happens with no state mutator executed (free rejection); " +
				"(failure) every mutating region of RunTx itself (the failure-fee branch) must also advance a replay guard. The failure-fee branch debits the payer and advances nothing: that site is a genuine violation of C26 recorded in known_findings.json (it cannot be repaired by bumping the nonce without breaking C03's 'nonce unchanged on rejection'); any other unguarded debit is still reported. " +
				"NOT decided: Tendermint's own tx cache, which is outside this repository.",
			Assumptions: stdAssumptions,
			Rules:       []string{"C26.success", "C26.early", "C26.failure"},
		},
		Run: runC26,
	})
}

func runC26(c *core.Ctx) {
	for _, lm := range LiveModels(c, "C26.success") {
		checkNonce(c, "C26.success", lm)
	}
	c.Floor("C26.success", c.Count("C26.success"), 37, "live Run methods")

	fn := c.RunTx()
	if fn == nil {
		c.Unk("C26.early", "RunTx", token.NoPos, "live RunTx not found")
		return
	}
	m := BuildRunModel(c, nil, fn)
	disp := findDispatch(fn)
	if disp == nil {
		c.Unk("C26.early", "RunTx/dispatch", fn.Pos(), "dispatch not found")
		return
	}
	// early: returns not reachable from the dispatch are free of mutators on every path to them
	afterDisp := core.ReachFrom(disp.Block(), nil)
	nEarly := 0
	for _, r := range m.Returns {
		if afterDisp[r.R.Block()] {
			continue
		}
		nEarly++
		// is any mutator able to reach this return?
		dirty := false
		for _, mu := range m.Mutators {
			if core.ReachFrom(mu.Site.Block(), nil)[r.R.Block()] {
				dirty = true
			}
		}
		key := fmt.Sprintf("RunTx/early-return/code=%s", r.Code)
		c.Check(!dirty, "C26.early", key, r.R.Pos(), "rejection before dispatch with no mutator on any path to it", "a pre-dispatch rejection is reachable after a state mutator")
	}
	c.Floor("C26.early", nEarly, 10, "pre-dispatch rejections in RunTx")

	// failure: each payer debit in RunTx must be followed (on every path to a return) or preceded
	// by a nonce write
	var nonceSites []*core.Site
	for _, mu := range m.Mutators {
		if mu.Module == "Accounts" && mu.Method == "SetNonce" {
			nonceSites = append(nonceSites, mu.Site)
		}
	}
	nDebit := 0
	for _, mu := range m.Mutators {
		if !(mu.Module == "Accounts" && mu.Method == "SubBalance") {
			continue
		}
		nDebit++
		guarded := false
		if len(nonceSites) > 0 {
			avoid := map[*ssa.BasicBlock]bool{}
			for _, ns := range nonceSites {
				avoid[ns.Block()] = true
			}
			reach := core.ReachFrom(mu.Site.Block(), avoid)
			guarded = true
			for _, r := range m.Returns {
				if reach[r.R.Block()] {
					guarded = false
				}
			}
		}
		c.Check(guarded, "C26.failure", "RunTx/debit-without-replay-guard", mu.Site.Pos(),
			"debit is followed by a nonce write on every path",
			"RunTx debits the payer (Accounts.SubBalance of the failure fee) on a path that never advances the payer's nonce: redelivering the same failed bytes passes the nonce gate again and is charged again")
	}
	c.Floor("C26.failure", nDebit, 1, "payer debits inside RunTx")
}
