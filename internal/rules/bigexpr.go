package rules

// Expression recovery for functions that compute with math/big values (used by C12).
//
// For one acyclic CFG path of a function the def-use chain is followed in path order with a
// transfer function per math/big method (z.Add(x, y) sets the object z points to and yields z,
// x.Int(nil) yields a new integer holding the truncation, …), giving for every *big.Int /
// *big.Float object the rational function (ratalg.go) it holds when the path ends, and for
// every conditional decided on the path the comparison it made on which expressions. Nothing is
// executed and no solver is asked: values are terms, unknown operations are opaque atoms that
// equal nothing but themselves.

import (
	"go/constant"
	"go/token"
	"go/types"
	"math/big"
	"sort"
	"strings"

	"golang.org/x/tools/go/ssa"

	"verif/internal/core"
)

type bobj struct {
	val   ratf
	param int // index of the parameter this object is, -1 otherwise
}

type queryRec struct {
	kind string // "sign", "cmp", "isinf"
	a, b ratf
}

// pathCond is one decision taken on the path, in a normal form.
type pathCond struct {
	kind  string // "sign", "cmp", "isinf", "num", "other"
	a, b  ratf
	op    token.Token
	k     *big.Rat
	truth bool
}

type pathEval struct {
	c       *core.Ctx
	al      *algebra
	fn      *ssa.Function
	path    core.CFGPath
	objs    map[ssa.Value]*bobj
	nums    map[ssa.Value]ratf
	tuples  map[ssa.Value][]interface{}
	queries map[ssa.Value]queryRec
	mutated map[int]token.Pos // parameter index -> position of the first in-place write
	depth   int
	// hook, when set, may name a value the evaluator has no transfer function for (a state
	// accessor recognised by the caller of the evaluator)
	hook func(v ssa.Value) (ratf, bool)
	// tupleHook, when set, may give the results of a multi-result call (an accessor returning
	// several amounts at once)
	tupleHook func(in *ssa.Call) ([]interface{}, bool)
	// cells: the amount last stored in a local pointer cell (a named result spilled because of a
	// defer, a variable captured by reference)
	cells map[*ssa.Alloc]ssa.Value
	// ctl is shared by an evaluation and the helper evaluations nested in it: which return path
	// of a branching helper this run follows (choices), and how many each such call has (forks)
	ctl *evalCtl
	// extra: the decisions taken inside the helpers evaluated in place, in the caller's terms
	extra []pathCond
	// boolConds: what a call of a boolean helper evaluated in place decides (lt(x, y) ≡ x.Cmp(y) == -1)
	boolConds map[*ssa.Call]pathCond
}

type evalCtl struct {
	choices map[*ssa.Call]int
	forks   map[*ssa.Call]int
}

func isBigPtr(t types.Type) bool {
	s := t.String()
	return s == "*math/big.Int" || s == "*math/big.Float" || s == "*math/big.Rat"
}

func isNumeric(t types.Type) bool {
	b, ok := t.Underlying().(*types.Basic)
	return ok && b.Info()&(types.IsInteger|types.IsFloat) != 0
}

func newPathEval(c *core.Ctx, al *algebra, fn *ssa.Function, path core.CFGPath, depth int) *pathEval {
	return &pathEval{c: c, al: al, fn: fn, path: path, depth: depth,
		objs: map[ssa.Value]*bobj{}, nums: map[ssa.Value]ratf{}, tuples: map[ssa.Value][]interface{}{},
		queries: map[ssa.Value]queryRec{}, mutated: map[int]token.Pos{}}
}

// bindParams gives every parameter its own atom (top-level evaluation).
func (e *pathEval) bindParams() {
	for i, p := range e.fn.Params {
		if isBigPtr(p.Type()) {
			e.objs[p] = &bobj{val: e.al.atom("param", core.ParamName(p)), param: i}
		} else if isNumeric(p.Type()) {
			e.nums[p] = e.al.atom("param", core.ParamName(p))
		}
	}
}

func constRat(k *ssa.Const) (*big.Rat, bool) {
	if k.Value == nil {
		return nil, false
	}
	switch k.Value.Kind() {
	case constant.Int, constant.Float:
		r, ok := new(big.Rat).SetString(k.Value.ExactString())
		return r, ok
	}
	return nil, false
}

func (e *pathEval) resolve(v ssa.Value) ssa.Value {
	for i := 0; i < 8; i++ {
		switch x := v.(type) {
		case *ssa.ChangeType:
			v = x.X
			continue
		case *ssa.Phi:
			r := e.path.Resolve(x)
			if r == v {
				return v
			}
			v = r
			continue
		case *ssa.UnOp:
			if a, ok := x.X.(*ssa.Alloc); ok && x.Op == token.MUL {
				if w, ok := e.cells[a]; ok {
					v = w
					continue
				}
			}
		}
		break
	}
	return v
}

// num evaluates a numeric SSA value.
func (e *pathEval) num(v ssa.Value) ratf {
	v = e.resolve(v)
	if r, ok := e.nums[v]; ok {
		return r
	}
	var out ratf
	switch x := v.(type) {
	case *ssa.Const:
		if r, ok := constRat(x); ok {
			out = rconst(r)
		} else {
			out = e.al.fresh("const")
		}
	case *ssa.Convert:
		src, dst := x.X.Type().Underlying(), x.Type().Underlying()
		sb, ok1 := src.(*types.Basic)
		db, ok2 := dst.(*types.Basic)
		switch {
		case ok1 && ok2 && sb.Info()&types.IsFloat != 0 && db.Info()&types.IsInteger != 0:
			out = e.al.atom("trunc", "trunc", e.num(x.X))
		case ok1 && ok2 && isNumeric(src) && isNumeric(dst):
			out = e.num(x.X)
		default:
			out = e.al.fresh("convert")
		}
	case *ssa.BinOp:
		a, b := e.num(x.X), e.num(x.Y)
		switch x.Op {
		case token.ADD:
			out = radd(a, b)
		case token.SUB:
			out = rsub(a, b)
		case token.MUL:
			out = rmul(a, b)
		case token.QUO:
			if bt, ok := x.Type().Underlying().(*types.Basic); ok && bt.Info()&types.IsFloat != 0 {
				out = rdiv(a, b)
			} else {
				out = intdivAtom(e.al, a, b)
			}
		default:
			out = e.al.fresh("binop")
		}
	case *ssa.UnOp:
		if x.Op == token.SUB {
			out = rneg(e.num(x.X))
		} else {
			out = e.al.fresh("unop")
		}
	case *ssa.Extract:
		if t, ok := e.tuples[x.Tuple]; ok && x.Index < len(t) {
			if r, ok := t[x.Index].(ratf); ok {
				out = r
				break
			}
		}
		out = e.al.fresh("extract")
	default:
		if e.hook != nil {
			if r, ok := e.hook(v); ok {
				out = r
				break
			}
		}
		out = e.al.fresh("value")
	}
	e.nums[v] = out
	return out
}

// obj returns the big object a pointer value designates (nil for the nil constant).
func (e *pathEval) obj(v ssa.Value) *bobj {
	v = e.resolve(v)
	if o, ok := e.objs[v]; ok {
		return o
	}
	var o *bobj
	switch x := v.(type) {
	case *ssa.Const:
		return nil
	case *ssa.Alloc:
		o = &bobj{val: rint(0), param: -1} // new(big.Float): the zero value
	case *ssa.Extract:
		if t, ok := e.tuples[x.Tuple]; ok && x.Index < len(t) {
			if oo, ok := t[x.Index].(*bobj); ok {
				e.objs[v] = oo
				return oo
			}
		}
		o = &bobj{val: e.al.fresh("extract"), param: -1}
	default:
		if e.hook != nil {
			if r, ok := e.hook(v); ok {
				o = &bobj{val: r, param: -1}
				break
			}
		}
		o = &bobj{val: e.al.atom("value", core.Path(v)), param: -1}
	}
	e.objs[v] = o
	return o
}

func (e *pathEval) valOf(v ssa.Value) ratf {
	if isBigPtr(v.Type()) {
		if o := e.obj(v); o != nil {
			return o.val
		}
		return e.al.fresh("nil")
	}
	if isNumeric(v.Type()) {
		return e.num(v)
	}
	return e.al.fresh("nonnumeric")
}

func (e *pathEval) write(o *bobj, val ratf, pos token.Pos) {
	if o == nil {
		return
	}
	if o.param >= 0 {
		if _, seen := e.mutated[o.param]; !seen {
			e.mutated[o.param] = pos
		}
	}
	o.val = val
}

// call applies the transfer function of one call.
func (e *pathEval) call(in *ssa.Call) {
	callee := in.Call.StaticCallee()
	setResult := func(o *bobj) { e.objs[in] = o }
	if e.tupleHook != nil {
		if t, ok := e.tupleHook(in); ok {
			e.tuples[in] = t
			return
		}
	}
	if e.hook != nil {
		if r, ok := e.hook(in); ok {
			if isBigPtr(in.Type()) {
				e.objs[in] = &bobj{val: r, param: -1}
			} else {
				e.nums[in] = r
			}
			return
		}
	}
	unknownResult := func() {
		if isBigPtr(in.Type()) {
			e.objs[in] = &bobj{val: e.al.fresh("call"), param: -1}
		} else if isNumeric(in.Type()) {
			e.nums[in] = e.al.fresh("call")
		}
	}
	if callee == nil || callee.Pkg == nil {
		unknownResult()
		return
	}
	pkg := callee.Pkg.Pkg.Path()
	name := callee.Name()
	args := core.NormCall(&in.Call).Args
	if pkg == "math/big" {
		hasRecv := callee.Signature.Recv() != nil
		if !hasRecv {
			switch name {
			case "NewFloat", "NewInt":
				setResult(&bobj{val: e.num(args[0]), param: -1})
			default:
				unknownResult()
			}
			return
		}
		recv := e.obj(args[0])
		rest := args[1:]
		bin := func(f func(a, b ratf) ratf) {
			e.write(recv, f(e.valOf(rest[0]), e.valOf(rest[1])), in.Pos())
			setResult(recv)
		}
		switch name {
		case "Add":
			bin(radd)
		case "Sub":
			bin(rsub)
		case "Mul":
			bin(rmul)
		case "Quo", "Div":
			if strings.HasSuffix(args[0].Type().String(), "big.Int") {
				bin(func(a, b ratf) ratf { return intdivAtom(e.al, a, b) })
			} else {
				bin(rdiv)
			}
		case "QuoRem", "DivMod":
			// z.QuoRem(x, y, r): z = ⌊x/y⌋, r = the remainder (an unknown amount); returns (z, r)
			if len(rest) == 3 {
				e.write(recv, intdivAtom(e.al, e.valOf(rest[0]), e.valOf(rest[1])), in.Pos())
				rem := e.obj(rest[2])
				if rem == nil {
					rem = &bobj{param: -1}
				}
				e.write(rem, e.al.fresh("remainder"), in.Pos())
				e.tuples[in] = []interface{}{recv, rem}
			} else {
				unknownResult()
			}
		case "Neg":
			e.write(recv, rneg(e.valOf(rest[0])), in.Pos())
			setResult(recv)
		case "Set", "Copy", "SetInt", "SetInt64", "SetUint64", "SetFloat64", "SetRat":
			e.write(recv, e.valOf(rest[0]), in.Pos())
			setResult(recv)
		case "SetPrec", "SetMode":
			setResult(recv) // the value is kept (rounding to the new precision is not modelled)
		case "Int":
			// (*Float).Int(z): z (or a new Int when z is nil) is set to the truncation
			var tv ratf
			if recv != nil {
				tv = e.al.atom("trunc", "trunc", recv.val)
			} else {
				tv = e.al.fresh("trunc")
			}
			dst := e.obj(rest[0])
			if dst == nil {
				dst = &bobj{param: -1}
				dst.val = tv
			} else {
				e.write(dst, tv, in.Pos())
			}
			e.tuples[in] = []interface{}{dst, e.al.fresh("accuracy")}
		case "Sign":
			if recv != nil {
				e.queries[in] = queryRec{kind: "sign", a: recv.val}
			}
			e.nums[in] = e.al.fresh("sign")
		case "Cmp":
			if recv != nil {
				e.queries[in] = queryRec{kind: "cmp", a: recv.val, b: e.valOf(rest[0])}
			}
			e.nums[in] = e.al.fresh("cmp")
		case "IsInf":
			if recv != nil {
				e.queries[in] = queryRec{kind: "isinf", a: recv.val}
			}
		case "Prec", "MinPrec", "Mode", "Acc", "IsInt", "Signbit", "String", "Text", "Int64", "Uint64", "Float64", "BitLen", "Bytes", "IsInt64", "IsUint64":
			unknownResult()
		default:
			// an unmodelled method with a receiver: the receiver's value is no longer known
			e.write(recv, e.al.fresh("big."+name), in.Pos())
			unknownResult()
			if isBigPtr(in.Type()) {
				setResult(recv)
			}
		}
		return
	}
	if !e.c.InRepo(callee) {
		unknownResult()
		return
	}
	// the repository's own math package: opaque functions of their argument values
	if strings.HasSuffix(pkg, "/math") && callee.Signature.Recv() == nil && callee != e.fn {
		var as []ratf
		for _, a := range args {
			as = append(as, e.valOf(a))
		}
		v := e.al.atom("call", name, as...)
		if isBigPtr(in.Type()) {
			setResult(&bobj{val: v, param: -1})
		} else {
			e.nums[in] = v
		}
		return
	}
	if callee == e.fn {
		// recursion: an opaque application of the function itself
		var as []ratf
		for _, a := range args {
			as = append(as, e.valOf(a))
		}
		v := e.al.atom("call", name, as...)
		if isBigPtr(in.Type()) {
			setResult(&bobj{val: v, param: -1})
		} else {
			e.nums[in] = v
		}
		return
	}
	// a small helper (newFloat, mulDiv, a price formula with its guards): evaluate it in place.
	// A helper with several return paths is followed along the path the driver chose for this
	// call (evalAll enumerates all of them); the decisions of that path join the caller's.
	if e.depth < 2 && len(callee.Blocks) > 0 {
		type alt struct {
			ret  *ssa.Return
			path core.CFGPath
		}
		var alts []alt
		fine := true
		for _, r := range core.Returns(callee) {
			if callee.Recover != nil && r.Block() == callee.Recover {
				continue
			}
			ps, ok := core.PathsTo(r, 16)
			if !ok {
				fine = false
				break
			}
			for _, p := range ps {
				alts = append(alts, alt{r, p})
			}
		}
		if fine && len(alts) > 1 && e.ctl == nil {
			fine = false // no driver to enumerate the alternatives
		}
		if fine && len(alts) >= 1 && len(alts) <= 16 {
			idx := 0
			if len(alts) > 1 {
				e.ctl.forks[in] = len(alts)
				idx = e.ctl.choices[in]
				if idx >= len(alts) {
					idx = 0
				}
			}
			a := alts[idx]
			sub := newPathEval(e.c, e.al, callee, a.path, e.depth+1)
			sub.hook, sub.tupleHook, sub.ctl = e.hook, e.tupleHook, e.ctl
			for i, p := range callee.Params {
				if i >= len(args) {
					break
				}
				if isBigPtr(p.Type()) {
					if o := e.obj(args[i]); o != nil {
						sub.objs[p] = o
					} else {
						sub.objs[p] = nil
					}
				} else if isNumeric(p.Type()) {
					sub.nums[p] = e.num(args[i])
				}
			}
			res := sub.run(a.ret)
			e.extra = append(e.extra, sub.conds()...)
			if len(a.ret.Results) == 1 {
				if bt, ok := a.ret.Results[0].Type().Underlying().(*types.Basic); ok && bt.Kind() == types.Bool {
					if pc := sub.classify(a.ret.Results[0], true); pc.kind != "other" {
						if e.boolConds == nil {
							e.boolConds = map[*ssa.Call]pathCond{}
						}
						e.boolConds[in] = pc
					}
				}
			}
			for k, pos := range sub.mutated {
				if _, seen := e.mutated[k]; !seen {
					e.mutated[k] = pos
				}
			}
			if len(res) == 1 {
				switch r := res[0].(type) {
				case *bobj:
					setResult(r)
					return
				case ratf:
					e.nums[in] = r
					return
				}
			} else if len(res) > 1 {
				e.tuples[in] = res
				return
			}
		}
	}
	unknownResult()
}

// run interprets the path up to the return and yields the returned values (*bobj or ratf).
func (e *pathEval) run(ret *ssa.Return) []interface{} {
	for _, b := range e.path.Blocks {
		for _, in := range b.Instrs {
			if c, ok := in.(*ssa.Call); ok {
				e.call(c)
			}
			if st, ok := in.(*ssa.Store); ok && isBigPtr(st.Val.Type()) {
				if a, ok := st.Addr.(*ssa.Alloc); ok {
					if e.cells == nil {
						e.cells = map[*ssa.Alloc]ssa.Value{}
					}
					e.cells[a] = e.resolve(st.Val)
				}
			}
			if in == ssa.Instruction(ret) {
				break
			}
		}
	}
	var out []interface{}
	for _, r := range ret.Results {
		if isBigPtr(r.Type()) {
			o := e.obj(r)
			if o == nil {
				out = append(out, (*bobj)(nil))
			} else {
				out = append(out, o)
			}
		} else if isNumeric(r.Type()) {
			out = append(out, e.num(r))
		} else {
			out = append(out, e.al.fresh("result"))
		}
	}
	return out
}

// conds lists the decisions of the path in normal form. Must be called after run.
func (e *pathEval) conds() []pathCond {
	var out []pathCond
	for _, ed := range e.path.Edges {
		out = append(out, e.classify(ed.If.Cond, ed.Taken))
	}
	return append(out, e.extra...)
}

func (e *pathEval) classify(cond ssa.Value, truth bool) pathCond {
	cond = e.resolve(cond)
	switch x := cond.(type) {
	case *ssa.UnOp:
		if x.Op == token.NOT {
			return e.classify(x.X, !truth)
		}
	case *ssa.Call:
		if q, ok := e.queries[x]; ok && q.kind == "isinf" {
			return pathCond{kind: "isinf", a: q.a, truth: truth}
		}
		if pc, ok := e.boolConds[x]; ok {
			if !pc.truth {
				truth = !truth
			}
			pc.truth = truth
			return pc
		}
	case *ssa.BinOp:
		l, r := e.resolve(x.X), e.resolve(x.Y)
		op := x.Op
		if _, ok := l.(*ssa.Const); ok {
			l, r = r, l
			switch op {
			case token.LSS:
				op = token.GTR
			case token.GTR:
				op = token.LSS
			case token.LEQ:
				op = token.GEQ
			case token.GEQ:
				op = token.LEQ
			}
		}
		kc, ok := r.(*ssa.Const)
		if !ok {
			break
		}
		k, ok := constRat(kc)
		if !ok {
			break
		}
		if call, ok := l.(*ssa.Call); ok {
			if q, ok := e.queries[call]; ok && (q.kind == "sign" || q.kind == "cmp") {
				return pathCond{kind: q.kind, a: q.a, b: q.b, op: op, k: k, truth: truth}
			}
		}
		if isNumeric(l.Type()) {
			return pathCond{kind: "num", a: e.num(l), op: op, k: k, truth: truth}
		}
	}
	return pathCond{kind: "other", truth: truth}
}

// allowed returns which of -1, 0, +1 the three-valued result of Sign/Cmp may be, given the
// decision taken.
func (pc pathCond) allowed() map[int]bool {
	out := map[int]bool{}
	for _, s := range []int{-1, 0, 1} {
		c := big.NewRat(int64(s), 1).Cmp(pc.k)
		var holds bool
		switch pc.op {
		case token.EQL:
			holds = c == 0
		case token.NEQ:
			holds = c != 0
		case token.LSS:
			holds = c < 0
		case token.LEQ:
			holds = c <= 0
		case token.GTR:
			holds = c > 0
		case token.GEQ:
			holds = c >= 0
		default:
			return map[int]bool{-1: true, 0: true, 1: true}
		}
		if holds == pc.truth {
			out[s] = true
		}
	}
	return out
}

// signOf returns the set of signs the path allows for expression x (all three when the path
// never tested it).
func signOf(conds []pathCond, x ratf) map[int]bool {
	out := map[int]bool{-1: true, 0: true, 1: true}
	for _, pc := range conds {
		if pc.kind == "sign" && requal(pc.a, x) {
			al := pc.allowed()
			for s := range out {
				if !al[s] {
					delete(out, s)
				}
			}
		}
	}
	return out
}

// cmpOf returns the set of orderings of x against y the path allows.
func cmpOf(conds []pathCond, x, y ratf) map[int]bool {
	out := map[int]bool{-1: true, 0: true, 1: true}
	for _, pc := range conds {
		if pc.kind != "cmp" {
			continue
		}
		var al map[int]bool
		if requal(pc.a, x) && requal(pc.b, y) {
			al = pc.allowed()
		} else if requal(pc.a, y) && requal(pc.b, x) {
			al = map[int]bool{}
			for s := range pc.allowed() {
				al[-s] = true
			}
		} else {
			continue
		}
		for s := range out {
			if !al[s] {
				delete(out, s)
			}
		}
	}
	return out
}

func onlyZero(m map[int]bool) bool { return len(m) == 1 && m[0] }

// numEq: the path established x == k for a machine-number expression.
func numEq(conds []pathCond, x ratf, k int64) bool {
	for _, pc := range conds {
		if pc.kind == "num" && requal(pc.a, x) && pc.k.Cmp(big.NewRat(k, 1)) == 0 {
			if (pc.op == token.EQL && pc.truth) || (pc.op == token.NEQ && !pc.truth) {
				return true
			}
		}
	}
	return false
}

func isInfOn(conds []pathCond, x ratf) bool {
	for _, pc := range conds {
		if pc.kind == "isinf" && pc.truth && requal(pc.a, x) {
			return true
		}
	}
	return false
}

// evalReturns evaluates every acyclic path to every return of fn.
type retEval struct {
	ret   *ssa.Return
	ev    *pathEval
	res   []interface{}
	conds []pathCond
}

func evalReturns(c *core.Ctx, al *algebra, fn *ssa.Function, maxPaths int) ([]retEval, bool) {
	return evalAll(c, al, fn, maxPaths, nil)
}

// evalAll evaluates every acyclic path to every return of fn, and for every call of a branching
// helper met on the way every return path of that helper. setup may install hooks.
func evalAll(c *core.Ctx, al *algebra, fn *ssa.Function, maxPaths int, setup func(*pathEval)) ([]retEval, bool) {
	var out []retEval
	runs := 0
	for _, r := range core.Returns(fn) {
		if fn.Recover != nil && r.Block() == fn.Recover {
			continue
		}
		paths, ok := core.PathsTo(r, maxPaths)
		if !ok {
			return nil, false
		}
		for _, p := range paths {
			over := false
			var rec func(ch map[*ssa.Call]int)
			rec = func(ch map[*ssa.Call]int) {
				if over {
					return
				}
				runs++
				if runs > 4*maxPaths+64 {
					over = true
					return
				}
				ev := newPathEval(c, al, fn, p, 0)
				ev.ctl = &evalCtl{choices: ch, forks: map[*ssa.Call]int{}}
				ev.bindParams()
				if setup != nil {
					setup(ev)
				}
				res := ev.run(r)
				var fresh []*ssa.Call
				for k := range ev.ctl.forks {
					if _, chosen := ch[k]; !chosen {
						fresh = append(fresh, k)
					}
				}
				if len(fresh) == 0 {
					out = append(out, retEval{ret: r, ev: ev, res: res, conds: ev.conds()})
					return
				}
				sort.Slice(fresh, func(i, j int) bool { return fresh[i].Pos() < fresh[j].Pos() })
				k := fresh[0]
				for j := 0; j < ev.ctl.forks[k]; j++ {
					ch2 := map[*ssa.Call]int{k: j}
					for a, b := range ch {
						ch2[a] = b
					}
					rec(ch2)
				}
			}
			rec(map[*ssa.Call]int{})
			if over {
				return nil, false
			}
		}
	}
	return out, true
}
