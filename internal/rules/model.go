package rules

import (
	"fmt"
	"go/token"
	"go/types"
	"sort"
	"strings"

	"golang.org/x/tools/go/ssa"

	"verif/internal/core"
)

// ---------------------------------------------------------------- module facts

// Module is one state module held by state.State.
type Module struct {
	Field    string       // field name in state.State (Accounts, Coins, …)
	Type     *types.Named // accounts.Accounts
	Pkg      string       // coreV2/state/accounts
	RIface   *types.Named // accounts.RAccounts (nil: no read-only view)
	Mutators map[string]bool
	Readers  map[string]bool
}

var modulesCache []*Module

// Modules derives, from state.State and state.CheckState, the module types, their read-only
// interfaces and the mutator set MUT = exported methods of *T that the read-only interface does
// not expose.
func Modules(c *core.Ctx) []*Module {
	if modulesCache != nil {
		return modulesCache
	}
	st := c.Named(core.PkgState, "State")
	cs := c.Named(core.PkgState, "CheckState")
	if st == nil || cs == nil {
		return nil
	}
	// accessor result interface per field: method of *CheckState whose body returns cs.state.<F>
	ifaceOf := map[string]*types.Named{}
	ms := c.Prog.MethodSets.MethodSet(types.NewPointer(cs))
	for i := 0; i < ms.Len(); i++ {
		fn := c.Prog.FuncValue(ms.At(i).Obj().(*types.Func))
		if fn == nil || fn.Blocks == nil || fn.Signature.Results().Len() != 1 {
			continue
		}
		rn, ok := fn.Signature.Results().At(0).Type().(*types.Named)
		if !ok {
			continue
		}
		if _, isI := rn.Underlying().(*types.Interface); !isI {
			continue
		}
		for _, r := range core.Returns(fn) {
			p := core.Path(r.Results[0])
			// "cs.state.Accounts"
			parts := strings.Split(p, ".")
			if len(parts) == 3 && parts[1] == "state" {
				ifaceOf[parts[2]] = rn
			}
		}
	}
	// swap: both Swap and SwapV2 are served by RSwap
	if r, ok := ifaceOf["SwapV2"]; ok {
		ifaceOf["Swap"] = r
	} else if r, ok := ifaceOf["Swap"]; ok {
		ifaceOf["SwapV2"] = r
	}
	sst := st.Underlying().(*types.Struct)
	var out []*Module
	for i := 0; i < sst.NumFields(); i++ {
		f := sst.Field(i)
		p, ok := f.Type().(*types.Pointer)
		if !ok {
			continue
		}
		n, ok := p.Elem().(*types.Named)
		if !ok || n.Obj().Pkg() == nil || !strings.HasPrefix(core.Short(n.Obj().Pkg().Path()), core.PkgState+"/") {
			continue
		}
		if strings.HasSuffix(n.Obj().Pkg().Path(), "/bus") {
			continue
		}
		m := &Module{Field: f.Name(), Type: n, Pkg: core.Short(n.Obj().Pkg().Path()), RIface: ifaceOf[f.Name()], Mutators: map[string]bool{}, Readers: map[string]bool{}}
		if m.RIface != nil {
			it := m.RIface.Underlying().(*types.Interface)
			for j := 0; j < it.NumMethods(); j++ {
				if _, forced := forcedMutators[n.Obj().Pkg().Name()+"."+n.Obj().Name()+"."+it.Method(j).Name()]; forced {
					continue
				}
				m.Readers[it.Method(j).Name()] = true
			}
		}
		mset := c.Prog.MethodSets.MethodSet(types.NewPointer(n))
		for j := 0; j < mset.Len(); j++ {
			name := mset.At(j).Obj().Name()
			if !token.IsExported(name) {
				continue
			}
			if !m.Readers[name] {
				m.Mutators[name] = true
			}
		}
		out = append(out, m)
	}
	sort.Slice(out, func(i, j int) bool { return out[i].Field < out[j].Field })
	modulesCache = out
	return out
}

// readOnlyExtra lists exported module methods that are not part of the module's R-interface but
// were confirmed by reading to mutate nothing (one line of reason each).
var readOnlyExtra = map[string]string{
	"accounts.Accounts.IsX3Mining":                          "pure predicate over GetLockStakeUntilBlock",
	"accounts.Accounts.HasDirtyCoins":                       "reads a flag under the model lock",
	"accounts.Accounts.IsNewOrDirty":                        "reads flags under the model lock",
	"candidates.Candidates.GetCandidateByTendermintAddress": "lookup; read-only",
	"candidates.Candidates.IsChangedPublicKeys":             "reads a flag",
	"candidates.Candidates.PubKey":                          "id→pubkey lookup",
	"candidates.Candidates.ID":                              "pubkey→id lookup",
	"candidates.Candidates.GetTotalStake":                   "lookup (lazy load only)",
	"candidates.Candidates.GetNewCandidates":                "selection over loaded candidates; no writes",
	"candidates.Candidates.GetCandidates":                   "lookup",
	"candidates.Candidates.GetStakes":                       "lookup",
	"validators.Validators.GetValidators":                   "returns the cached list",
	"validators.Validators.GetByTmAddress":                  "lookup",
	"validators.Validators.GetByPublicKey":                  "lookup",
	"app.App.GetNextCoinID":                                 "reads the counter",
	"app.App.GetMaxGas":                                     "reads a field",
	"frozenfunds.FrozenFunds.GetFrozenFunds":                "lookup (lazy load only)",
	"halts.HaltBlocks.GetHaltBlocks":                        "lookup (lazy load only)",
	"halts.HaltBlocks.IsHaltExists":                         "lookup",
	"checks.Checks.IsCheckUsed":                             "lookup",
	"swap.SwapV2.GetSwapper":                                "returns the pair view",
	"swap.SwapV2.SwapPool":                                  "reads reserves",
	"swap.Swap.GetSwapper":                                  "returns the pair view",
	"swap.Swap.SwapPool":                                    "reads reserves",
}

// forcedMutators lists methods that the module's read-only interface exposes although they
// mutate (confirmed by reading); calls through the interface are treated as mutators too.
var forcedMutators = map[string]string{
	"coins.Coins.SubReserve": "declared on RCoins but subtracts from the reserve and marks the coin dirty",
}

// MutatorCall classifies a call site: returns (module field, method) when the call is a state
// mutator: a static call of a MUT method on a module type, or an interface call through the
// anonymous State.Swapper() interface of a method that RSwap does not expose.
func MutatorCall(c *core.Ctx, s *core.Site) (string, string, bool) {
	var f *types.Func
	if s.Common.IsInvoke() {
		f = s.Common.Method
	} else if sc := s.Common.StaticCallee(); sc != nil {
		f, _ = sc.Object().(*types.Func)
	}
	if f == nil {
		return "", "", false
	}
	sig := f.Type().(*types.Signature)
	if sig.Recv() == nil {
		return "", "", false
	}
	rt := sig.Recv().Type()
	if p, ok := rt.(*types.Pointer); ok {
		rt = p.Elem()
	}
	name := f.Name()
	for _, m := range Modules(c) {
		if n, ok := rt.(*types.Named); ok && n.Obj() == m.Type.Obj() {
			if m.Mutators[name] {
				if _, ro := readOnlyExtra[m.Type.Obj().Pkg().Name()+"."+m.Type.Obj().Name()+"."+name]; ro {
					return "", "", false
				}
				return m.Field, name, true
			}
			return "", "", false
		}
	}
	if n, ok := rt.(*types.Named); ok && s.Common.IsInvoke() {
		for _, m := range Modules(c) {
			if m.RIface != nil && m.RIface.Obj() == n.Obj() {
				if _, forced := forcedMutators[m.Type.Obj().Pkg().Name()+"."+m.Type.Obj().Name()+"."+name]; forced {
					return m.Field, name, true
				}
			}
		}
	}
	// anonymous interface returned by State.Swapper()/GetSwap(): a method name that is a swap mutator
	if _, ok := rt.Underlying().(*types.Interface); ok && s.Common.IsInvoke() {
		if n, isNamed := rt.(*types.Named); isNamed && n.Obj().Pkg() != nil {
			// named interfaces: swap.EditableChecker exposes pair-level mutators
			if core.Short(n.Obj().Pkg().Path()) == core.PkgState+"/swap" && n.Obj().Name() == "EditableChecker" {
				switch name {
				case "Buy", "Sell", "BuyWithOrders", "SellWithOrders", "Mint", "Burn", "Create", "AddOrder", "SetOrder", "RemoveOrder":
					return "Swap", "pair." + name, true
				}
			}
			return "", "", false
		}
		rp := core.Path(s.Common.Value)
		if strings.HasSuffix(rp, ".Swapper()") || strings.HasSuffix(rp, ".GetSwap()") {
			for _, m := range Modules(c) {
				if m.Field == "SwapV2" && m.Mutators[name] {
					if _, ro := readOnlyExtra["swap.SwapV2."+name]; ro {
						return "", "", false
					}
					return "Swap", name, true
				}
			}
		}
	}
	return "", "", false
}

// ---------------------------------------------------------------- handler model

// RunModel is the structural model of one live `Run` method (or of RunTx).
type RunModel struct {
	H        *core.Handler
	Fn       *ssa.Function
	Tx       *ssa.Parameter
	Context  *ssa.Parameter
	Reward   *ssa.Parameter
	Block    *ssa.Parameter
	Price    *ssa.Parameter
	Data     ssa.Value
	TxPath   string // access path of the transaction value ("tx" in a Run)
	Asserts  []*DeliverAssert
	Mutators []*MutSite
	Returns  []*Ret
}

// DeliverAssert is one `deliverState, ok := context.(*state.State)` with its guarded region.
type DeliverAssert struct {
	TA     *ssa.TypeAssert
	If     *ssa.If
	Region map[*ssa.BasicBlock]bool // blocks reachable only through the ok edge
	State  ssa.Value                // the *state.State value
}

// MutSite is a call that mutates state (or the reward pool).
type MutSite struct {
	Site   *core.Site
	Module string
	Method string
}

// Ret is a classified return of a function returning transaction.Response.
type Ret struct {
	R     *ssa.Return
	Class string // "ok" | "reject" | "forward" (returns another function's *Response / Response) | "unknown"
	Code  string
}

func paramByName(fn *ssa.Function, name string) *ssa.Parameter {
	for _, p := range fn.Params {
		if p.Name() == name {
			return p
		}
	}
	return nil
}

func isStatePtr(t types.Type, name string) bool {
	p, ok := t.(*types.Pointer)
	if !ok {
		return false
	}
	n, ok := p.Elem().(*types.Named)
	return ok && n.Obj().Pkg() != nil && core.Short(n.Obj().Pkg().Path()) == core.PkgState && n.Obj().Name() == name
}

// BuildRunModel analyses fn (a live Run or RunTx).
func BuildRunModel(c *core.Ctx, h *core.Handler, fn *ssa.Function) *RunModel {
	m := &RunModel{H: h, Fn: fn}
	for _, p := range fn.Params {
		switch {
		case p.Type().String() == "*"+core.ModPath+"/coreV2/transaction.Transaction":
			m.Tx = p
		case p.Type().String() == core.ModPath+"/coreV2/state.Interface":
			m.Context = p
		case core.ParamName(p) == "rewardPool":
			m.Reward = p
		case core.ParamName(p) == "currentBlock":
			m.Block = p
		case core.ParamName(p) == "price":
			m.Price = p
		}
	}
	if len(fn.Params) > 0 && fn.Signature.Recv() != nil {
		m.Data = fn.Params[0]
	}
	if m.Tx != nil {
		m.TxPath = core.ParamName(m.Tx)
	} else {
		// RunTx: tx is the first result of the decoder call
		for _, s := range core.Sites(fn) {
			if strings.HasSuffix(s.Callee, ".DecodeFromBytes") && s.Value() != nil && strings.HasPrefix(core.PkgOf(fn), core.PkgTx) && strings.Contains(s.Callee, "Executor") {
				m.TxPath = core.Path(s.Value()) + "#0"
			}
		}
	}
	for _, b := range fn.Blocks {
		for _, in := range b.Instrs {
			ta, ok := in.(*ssa.TypeAssert)
			if !ok || !ta.CommaOk || !isStatePtr(ta.AssertedType, "State") {
				continue
			}
			if m.Context != nil && core.Unwrap(ta.X) != m.Context {
				continue
			}
			da := &DeliverAssert{TA: ta, Region: map[*ssa.BasicBlock]bool{}}
			var okv ssa.Value
			for _, r := range *ta.Referrers() {
				if ex, ok := r.(*ssa.Extract); ok {
					if ex.Index == 1 {
						okv = ex
					} else {
						da.State = ex
					}
				}
			}
			if okv != nil {
				for _, r := range *okv.Referrers() {
					if iff, ok := r.(*ssa.If); ok {
						da.If = iff
					}
				}
			}
			if da.If != nil {
				ib := da.If.Block()
				avoid := map[*ssa.BasicBlock]bool{ib: true}
				fromTrue := core.ReachFrom(ib.Succs[0], avoid)
				fromFalse := core.ReachFrom(ib.Succs[1], avoid)
				for blk := range fromTrue {
					if !fromFalse[blk] && ib.Dominates(blk) {
						da.Region[blk] = true
					}
				}
			}
			m.Asserts = append(m.Asserts, da)
		}
	}
	for _, s := range core.Sites(fn) {
		if mod, meth, ok := MutatorCall(c, s); ok {
			m.Mutators = append(m.Mutators, &MutSite{Site: s, Module: mod, Method: meth})
			continue
		}
		// in-place big.Int arithmetic on the reward pool
		if m.Reward != nil && s.MethodIs("math/big", "Int", methodName(s)) {
			if r := s.Recv(); r != nil && core.Unwrap(r) == m.Reward && bigIntMutating[methodName(s)] {
				m.Mutators = append(m.Mutators, &MutSite{Site: s, Module: "rewardPool", Method: methodName(s)})
			}
		}
	}
	for _, r := range core.Returns(fn) {
		m.Returns = append(m.Returns, classifyReturn(r))
	}
	return m
}

var bigIntMutating = map[string]bool{"Add": true, "Sub": true, "Mul": true, "Div": true, "Set": true, "SetInt64": true, "SetUint64": true, "Neg": true, "Quo": true, "Rem": true, "Mod": true, "SetBytes": true, "SetString": true, "Exp": true, "Lsh": true, "Rsh": true, "Abs": true}

func methodName(s *core.Site) string {
	if s.Common.IsInvoke() {
		return s.Common.Method.Name()
	}
	if sc := s.Common.StaticCallee(); sc != nil {
		return sc.Name()
	}
	return ""
}

// InDeliver reports whether block b lies in some deliver region.
func (m *RunModel) InDeliver(b *ssa.BasicBlock) bool {
	for _, a := range m.Asserts {
		if a.Region[b] {
			return true
		}
	}
	return false
}

// classifyReturn decides whether a Return of a Response is the OK return or a rejection.
func classifyReturn(r *ssa.Return) *Ret {
	out := &Ret{R: r, Class: "unknown"}
	if len(r.Results) != 1 {
		return out
	}
	v := r.Results[0]
	load, ok := v.(*ssa.UnOp)
	if !ok || load.Op != token.MUL {
		// a phi or call result
		if ph, ok := v.(*ssa.Phi); ok {
			_ = ph
		}
		return out
	}
	al, ok := load.X.(*ssa.Alloc)
	if !ok {
		// *resp where resp is a *Response from a helper: forwarded rejection
		out.Class = "forward"
		return out
	}
	// composite literal: find the store to field Code
	codeSet := false
	nStores := 0
	for _, ref := range *al.Referrers() {
		fa, ok := ref.(*ssa.FieldAddr)
		if !ok {
			if st, ok := ref.(*ssa.Store); ok && st.Addr == al {
				// whole-struct store (response := callee(); … return response)
				nStores++
			}
			continue
		}
		if fieldNameOf(fa) != "Code" {
			continue
		}
		for _, fr := range *fa.Referrers() {
			if st, ok := fr.(*ssa.Store); ok && st.Addr == fa {
				codeSet = true
				if k, ok := core.ConstInt(st.Val); ok {
					out.Code = fmt.Sprint(k)
					if k == 0 {
						out.Class = "ok"
					} else {
						out.Class = "reject"
					}
				} else {
					out.Class = "unknown"
					out.Code = "non-constant"
				}
			}
		}
	}
	if !codeSet {
		if nStores > 0 {
			out.Class = "forward"
		} else {
			out.Class = "ok" // zero value: Code 0
			out.Code = "0 (zero value)"
		}
	}
	return out
}

func fieldNameOf(fa *ssa.FieldAddr) string {
	t := fa.X.Type()
	if p, ok := t.Underlying().(*types.Pointer); ok {
		t = p.Elem()
	}
	if st, ok := t.Underlying().(*types.Struct); ok && fa.Field < st.NumFields() {
		return st.Field(fa.Field).Name()
	}
	return ""
}

// LiveModels builds the model of every live handler.
func LiveModels(c *core.Ctx, rule string) []*RunModel {
	hs, err := c.Live()
	if err != nil {
		c.Unk(rule, "live-set", token.NoPos, "cannot derive the live handler set: "+err.Error())
		return nil
	}
	var out []*RunModel
	for _, h := range hs {
		out = append(out, BuildRunModel(c, h, h.Run))
	}
	return out
}

// isTxSender reports whether v is (the first result of) tx.Sender() on the model's tx.
func (m *RunModel) isTxSender(v ssa.Value) bool {
	p := core.Path(v)
	return m.TxPath != "" && (p == m.TxPath+".Sender()#0" || p == m.TxPath+".MustSender()")
}
