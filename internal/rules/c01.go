package rules

import (
	"fmt"
	"go/token"
	"go/types"
	"sort"
	"strings"

	"golang.org/x/tools/go/ssa"

	"verif/internal/core"
)

func init() {
	register(&RuleSet{
		Meta: core.PropertyMeta{
			ID: "C01",
			Explanation: "Whole-history conservation is arithmetic and is NOT decided. Decided: the pairing skeleton without which value is created or destroyed whatever the numbers are. " +
				"(own) every write to a value-holding field (balances, coin volume/reserve, stake values, frozen-fund/waitlist values, pool reserves, order volumes, accumulated rewards, total slashed) happens inside its own package; " +
				"(fill) every Pair{Sell,Buy}WithOrders call in live code is followed on every path by a loop over its 5th result crediting AddBalance(order.Owner, <the coin sold into the pool = the call's first argument>, order.ValueBigInt) — otherwise the coins a taker pays to filled limit orders vanish; " +
				"(fee) the commission block of every live Run matches one of the confirmed fee signatures (which source each of PairSellWithOrders / AddBalance / SubVolume / SubReserve / SubBalance / rewardPool.Add takes its amount from), deviants are violations (Engler-style sibling agreement frozen to an exact table); " +
				"(move) funds are moved, not copied: each FrozenFunds.AddFund in a handler is paired with removal of the same value from its source; BeginBlock credits each matured item once and deletes the height; " +
				"(slash) in both punish functions each slashed amount goes to AddTotalSlashed (base coin) or SubCoinVolume+SubCoinReserve+AddTotalSlashed(return) (custom coin); EndBlock's reward remainder goes to AddTotalSlashed; " +
				"(carry) validators' accumulated rewards survive a validator-set rebuild or return to the pool (known finding on key change). NOT decided: equality of amounts, rounding, bancor reserve math, module internals.",
			Assumptions: stdAssumptions,
			Rules:       []string{"C01.own", "C01.fill", "C01.fee", "C01.move", "C01.slash", "C01.carry", "C01.share"},
		},
		Run: runC01,
	})
}

// holdFields: value-holding fields (package short path, type, field).
var holdFields = [][3]string{
	{"coreV2/state/accounts", "Model", "balances"},
	{"coreV2/state/coins", "Info", "Volume"},
	{"coreV2/state/coins", "Info", "Reserve"},
	{"coreV2/state/coins", "Model", "CMaxSupply"},
	{"coreV2/state/candidates", "stake", "Value"},
	{"coreV2/state/candidates", "stake", "BipValue"},
	{"coreV2/state/frozenfunds", "Item", "Value"},
	{"coreV2/state/waitlist", "Item", "Value"},
	{"coreV2/state/swap", "pairData", "Reserve0"},
	{"coreV2/state/swap", "pairData", "Reserve1"},
	{"coreV2/state/swap", "Limit", "WantBuy"},
	{"coreV2/state/swap", "Limit", "WantSell"},
	{"coreV2/state/validators", "Validator", "accumReward"},
	{"coreV2/state/app", "Model", "TotalSlashed"},
}

// canonical fee signatures (sorted lines), confirmed by reading the handlers
var feeSignatures = map[string]string{
	"std": strings.Join([]string{
		"AddBalance(order owner, commissionCoin, order value)",
		"PairSellWithOrders(commissionCoin, base, CalculateCommission#0, big(0))",
		"SubBalance(payer, gasCoin, CalculateCommission#0|feeSwap#0)",
		"SubReserve(commissionCoin, param:price)",
		"SubVolume(commissionCoin, CalculateCommission#0)",
		"rewardPool.Add(feeSwap#1|param:price)",
	}, " ; "),
	// handlers that simulate the fee swap against the pool they are about to change
	"pool-aware": strings.Join([]string{
		"AddBalance(order owner, commissionCoin, order value)",
		"PairSellWithOrders(commissionCoin, base, CalculateCommission#0, big(0))",
		"SubBalance(payer, gasCoin, CalculateCommission#0|feeSwap#0)",
		"SubReserve(commissionCoin, CalculateBuyForSellWithOrders#0|param:price)",
		"SubVolume(commissionCoin, CalculateCommission#0)",
		"rewardPool.Add(CalculateBuyForSellWithOrders#0|feeSwap#1|param:price)",
	}, " ; "),
}

// feeDeviant: a handler whose fee block legitimately differs from its siblings.
type feeDeviant struct {
	reason   string
	required []string // lines that must be present
	allowed  []string // prefixes of additional lines that belong to the handler's own trade
}

var feeDeviants = map[string]feeDeviant{
	"SellAllCoinData": {
		reason: "sell-all: the fee coin is the sold coin (CommissionCoin() = data.CoinToSell), the whole balance is debited once and the fee is taken out of it; the pool route must yield at least the price (minimum = price)",
		required: []string{
			"AddBalance(order owner, commissionCoin, order value)",
			"PairSellWithOrders(commissionCoin, base, CalculateCommission#0, param:price)",
			"SubReserve(commissionCoin, param:price)",
			"SubVolume(commissionCoin, CalculateCommission#0)",
			"rewardPool.Add(feeSwap#1|param:price)",
		},
		allowed: []string{"SubReserve(commissionCoin, ", "SubVolume(commissionCoin, "},
	},
	"SellAllSwapPoolDataV260": {
		reason: "sell-all through pools: the fee is debited in the first coin of the route (= CommissionCoin()), not in tx.GasCoin",
		required: []string{
			"AddBalance(order owner, commissionCoin, order value)",
			"PairSellWithOrders(commissionCoin, base, CalculateCommission#0, big(0))",
			"SubReserve(commissionCoin, CalculateBuyForSellWithOrders#0|param:price)",
			"SubVolume(commissionCoin, CalculateCommission#0)",
			"rewardPool.Add(CalculateBuyForSellWithOrders#0|feeSwap#1|param:price)",
		},
		allowed: []string{"SubBalance(payer, "},
	},
}

func sortedSig(m *RunModel) string {
	lines := append([]string{}, feeSignature(m).Lines...)
	// fee debit
	for _, mu := range m.Mutators {
		if mu.Module == "Accounts" && mu.Method == "SubBalance" {
			ok := true
			for _, k := range strings.Split(originKind(m, mu.Site.Arg(2)), "|") {
				if k != "CalculateCommission#0" && k != "feeSwap#0" {
					ok = false
				}
			}
			if !ok {
				continue
			}
			payer := "other:" + core.Path(mu.Site.Arg(0))
			if m.isTxSender(mu.Site.Arg(0)) || (m.H.ConstName == "TypeRedeemCheck" && core.Path(mu.Site.Arg(0)) == checkPath+".Sender()#0") {
				payer = "payer"
			}
			coin := coinKind(core.Path(mu.Site.Arg(1)))
			if coin == "commissionCoin" || coin == checkPath+".GasCoin" {
				coin = "gasCoin"
			}
			lines = append(lines, fmt.Sprintf("SubBalance(%s, %s, %s)", payer, coin, originKind(m, mu.Site.Arg(2))))
		}
	}
	sort.Strings(lines)
	return strings.Join(lines, " ; ")
}

func runC01(c *core.Ctx) {
	defer checkShare(c, "C01.share")
	// ---- own
	nOwn := 0
	for _, hf := range holdFields {
		t := c.Named(hf[0], hf[1])
		key := hf[0][strings.LastIndex(hf[0], "/")+1:] + "." + hf[1] + "." + hf[2]
		if t == nil {
			c.Unk("C01.own", key, token.NoPos, "holding type not found; the HOLD table must be re-confirmed")
			continue
		}
		found := false
		for _, f := range core.StructFields(t) {
			if f == hf[2] {
				found = true
			}
		}
		if !found {
			c.Unk("C01.own", key, t.Obj().Pos(), "holding field not found; the HOLD table must be re-confirmed")
			continue
		}
		bad := ""
		n := 0
		for _, w := range c.FieldWrites(t, hf[2]) {
			n++
			if core.PkgOf(w.Fn) != hf[0] {
				bad = core.ShortFn(w.Fn)
			}
		}
		nOwn += n
		c.Check(bad == "", "C01.own", key, t.Obj().Pos(), fmt.Sprintf("%d write sites, all inside %s", n, hf[0]), "value-holding field written outside its module, in "+bad+": the module's checker deltas and dirty tracking are bypassed")
	}
	c.Floor("C01.own", nOwn, 30, "write sites of value-holding fields")

	// ---- fill
	models := LiveModels(c, "C01.fill")
	runTx := c.RunTx()
	var fns []*RunModel
	fns = append(fns, models...)
	if runTx != nil {
		fns = append(fns, BuildRunModel(c, &core.Handler{TypeName: "RunTx"}, runTx))
	}
	nFill := 0
	for _, m := range fns {
		// credits grouped by source call
		credits := map[*ssa.Call][]*core.Site{}
		for _, mu := range m.Mutators {
			if mu.Module == "Accounts" && mu.Method == "AddBalance" {
				if src := ownerCreditSource(mu.Site); src != nil {
					credits[src] = append(credits[src], mu.Site)
				}
			}
		}
		ord := 0
		for _, mu := range m.Mutators {
			if mu.Module != "Swap" || (mu.Method != "PairSellWithOrders" && mu.Method != "PairBuyWithOrders") {
				continue
			}
			nFill++
			ord++
			call := mu.Site.Instr.(*ssa.Call)
			key := fmt.Sprintf("%s/%s#%d", m.H.TypeName, mu.Method, ord)
			cs := credits[call]
			if len(cs) == 0 {
				c.Bad("C01.fill", key, mu.Site.Pos(), "the owners of the limit orders filled by this swap are never credited: what the taker paid them disappears from the supply")
				continue
			}
			ok := true
			why := ""
			for _, cr := range cs {
				if !core.SameValue(cr.Arg(1), mu.Site.Arg(0)) {
					ok = false
					why = fmt.Sprintf("owners are credited in %s, the coin sold into the pool is %s", core.Path(cr.Arg(1)), core.Path(mu.Site.Arg(0)))
				}
			}
			// every path from the call to a return passes the credit loop's header
			var header *ssa.BasicBlock
			cb := cs[0].Block()
			for _, b := range m.Fn.Blocks {
				iff := core.IfOf(b)
				if iff == nil || !b.Dominates(cb) {
					continue
				}
				if core.ReachFrom(cb, nil)[b] { // in a cycle with the credit block
					if header == nil || header.Dominates(b) {
						header = b
					}
				}
			}
			if header == nil {
				ok = false
				why = "credit is not inside a loop over the filled orders"
			} else {
				reach := core.ReachFrom(mu.Site.Block(), map[*ssa.BasicBlock]bool{header: true})
				for _, r := range m.Returns {
					if reach[r.R.Block()] && mu.Site.Block() != header {
						ok = false
						why = "a return is reachable after the swap without passing the owners' credit loop"
					}
				}
			}
			c.Check(ok, "C01.fill", key, mu.Site.Pos(), "followed on every path by the loop crediting each filled order's owner in the coin sold into the pool", why)
		}
	}
	c.Floor("C01.fill", nFill, 40, "order-filling swap call sites")

	// ---- fee
	byName := map[string]string{}
	for name, s := range feeSignatures {
		byName[s] = name
	}
	nFee := 0
	for _, m := range models {
		nFee++
		sig := sortedSig(m)
		name := m.H.TypeName
		if kind, ok := byName[sig]; ok {
			c.OK("C01.fee", name, m.Fn.Pos(), "fee block matches the confirmed '"+kind+"' signature")
			continue
		}
		if dv, ok := feeDeviants[name]; ok {
			have := map[string]bool{}
			for _, l := range strings.Split(sig, " ; ") {
				have[l] = true
			}
			problem := ""
			for _, r := range dv.required {
				if !have[r] {
					problem = "missing " + r
				}
				delete(have, r)
			}
			for l := range have {
				okExtra := false
				for _, p := range dv.allowed {
					if strings.HasPrefix(l, p) {
						okExtra = true
					}
				}
				if !okExtra {
					problem = "unexpected " + l
				}
			}
			c.Check(problem == "", "C01.fee", name, m.Fn.Pos(), "confirmed deviant: "+dv.reason, "fee block of a confirmed deviant changed ("+problem+"): "+sig)
			continue
		}
		c.Bad("C01.fee", name, m.Fn.Pos(), "fee block differs from every confirmed signature (siblings agree on where each amount comes from): "+sig)
	}
	c.Floor("C01.fee", nFee, 37, "live Run methods")

	checkMoves(c, models)
	checkSlash(c)
	checkCarry(c, "C01.carry")
}

// checkMoves: freezing funds is paired with removing them from their source.
func checkMoves(c *core.Ctx, models []*RunModel) {
	n := 0
	for _, m := range models {
		for _, mu := range m.Mutators {
			if !(mu.Module == "FrozenFunds" && mu.Method == "AddFund") {
				continue
			}
			n++
			name := m.H.TypeName
			val := mu.Site.Arg(5)
			coin := mu.Site.Arg(4)
			switch name {
			case "LockData":
				// source: the sender's balance
				ok := false
				for _, o := range m.Mutators {
					if o.Module == "Accounts" && o.Method == "SubBalance" && core.SameValue(o.Site.Arg(2), val) && core.SameValue(o.Site.Arg(1), coin) && m.isTxSender(o.Site.Arg(0)) {
						ok = true
					}
				}
				c.Check(ok, "C01.move", name+"/AddFund", mu.Site.Pos(), "the locked value is debited from the sender's balance in the same coin", "Lock freezes funds without debiting the same value from the sender's balance")
			case "UnbondDataV3", "MoveStakeData":
				// source: stake and/or waitlist: on every path to AddFund either SubStake(…, data.Value)
				// or Waitlist.Delete (+ remainder re-added / difference sub-staked)
				var subFull, wlDelete, wlReadd, subDiff bool
				for _, o := range m.Mutators {
					switch o.Module + "." + o.Method {
					case "Candidates.SubStake":
						if core.SameValue(o.Site.Arg(3), val) {
							subFull = true
						} else {
							subDiff = true
						}
					case "Waitlist.Delete":
						wlDelete = true
					case "Waitlist.AddWaitList":
						wlReadd = true
					}
				}
				// AddFund must be dominated-or-preceded on each path by one removal: check that no
				// path from the deliver entry reaches AddFund avoiding all removal blocks
				avoid := map[*ssa.BasicBlock]bool{}
				for _, o := range m.Mutators {
					if (o.Module == "Candidates" && o.Method == "SubStake") || (o.Module == "Waitlist" && o.Method == "Delete") {
						avoid[o.Site.Block()] = true
					}
				}
				bypass := false
				for _, a := range m.Asserts {
					if a.If != nil && a.Region[mu.Site.Block()] {
						if core.ReachFrom(a.If.Block().Succs[0], avoid)[mu.Site.Block()] && !avoid[mu.Site.Block()] {
							bypass = true
						}
					}
				}
				c.Check(subFull && wlDelete && wlReadd && subDiff && !bypass, "C01.move", name+"/AddFund", mu.Site.Pos(),
					"the frozen value leaves the stake (SubStake of the full value) or the waitlist (Delete, remainder re-added, shortfall sub-staked) on every path",
					fmt.Sprintf("funds are frozen without being removed from stake/waitlist on some path (subFull=%v wlDelete=%v wlReadd=%v subDiff=%v bypass=%v)", subFull, wlDelete, wlReadd, subDiff, bypass))
			default:
				c.Bad("C01.move", name+"/AddFund", mu.Site.Pos(), "unclassified handler freezes funds")
			}
		}
	}
	c.Floor("C01.move", n, 3, "fund-freezing sites in live handlers")
}

// checkSlash: slashed amounts are accounted for.
func checkSlash(c *core.Ctx) {
	for _, name := range []string{"(*coreV2/state/candidates.Candidates).PunishByzantineCandidate", "(*coreV2/state/frozenfunds.FrozenFunds).PunishFrozenFundsWithID"} {
		fn := c.MustFn("C01.slash", name)
		if fn == nil {
			continue
		}
		var slashBase, subVol, subRes, slashRet *core.Site
		for _, s := range c.GroupSites(fn) {
			switch methodName(s) {
			case "AddTotalSlashed":
				// base branch passes `slashed`; custom branch passes the sale return
				if call, ok := core.Unwrap(s.Arg(0)).(*ssa.Call); ok && strings.HasSuffix(core.CalleeName(core.NormCall(&call.Call)), "CalculateSaleReturn") {
					slashRet = s
				} else {
					slashBase = s
				}
			case "SubCoinVolume":
				subVol = s
			case "SubCoinReserve":
				subRes = s
			}
		}
		short := fn.Name()
		c.Check(slashBase != nil, "C01.slash", short+"/base", fn.Pos(), "base-coin slash goes to AddTotalSlashed", "a base-coin slash is not added to the total-slashed pool: the coins are destroyed")
		okCustom := subVol != nil && subRes != nil && slashRet != nil
		if okCustom {
			// the reserve removed equals what is added to total slashed
			okCustom = core.SameValue(subRes.Arg(1), slashRet.Arg(0))
		}
		c.Check(okCustom, "C01.slash", short+"/custom", fn.Pos(), "custom-coin slash burns volume, removes the sale return from the reserve and adds that same return to total slashed", "a custom-coin slash does not pair SubCoinVolume + SubCoinReserve(ret) + AddTotalSlashed(ret)")
		// complement: the slashed part is computed as original − kept (one rounding), never as an
		// independently rounded share — two roundings lose a unit per item
		if slashBase != nil {
			sl := core.Unwrap(c.CallerArg(slashBase.Arg(0)))
			compl := false
			for _, s2 := range c.GroupSites(fn) {
				if s2.Callee != "(*math/big.Int).Sub" || len(s2.Common.Args) != 3 || core.Unwrap(s2.Common.Args[0]) != sl {
					continue
				}
				// the subtrahend is the kept value: it has a Mul and a Div applied in place
				kept := core.Unwrap(s2.Common.Args[2])
				mul, div := false, false
				for _, s3 := range c.GroupSites(fn) {
					if len(s3.Common.Args) > 0 && core.Unwrap(s3.Common.Args[0]) == kept {
						switch s3.Callee {
						case "(*math/big.Int).Mul":
							mul = true
						case "(*math/big.Int).Div":
							div = true
						}
					}
				}
				// the minuend is (a copy of) the original amount
				if mul && div && (core.Unwrap(s2.Common.Args[1]) == sl) {
					compl = true
				}
			}
			c.Check(compl, "C01.slash", short+"/complement", slashBase.Pos(), "slashed = original − kept (the kept part is the only rounded quantity)", "the slashed amount is not computed as the original minus the kept part: independently rounded shares do not add up to the original, so units vanish (or appear) on every slash")
		}
		// branch discipline: base slash under IsBaseCoin, custom under !IsBaseCoin
		if slashBase != nil && subVol != nil {
			var baseTrue, customFalse bool
			for _, f := range c.FactsAt(slashBase.Instr, 0) {
				if cf, ok := f.AsCall(); ok && cf.MethodName() == "IsBaseCoin" && f.Truth {
					baseTrue = true
				}
			}
			for _, f := range c.FactsAt(subVol.Instr, 0) {
				if cf, ok := f.AsCall(); ok && cf.MethodName() == "IsBaseCoin" && !f.Truth {
					customFalse = true
				}
			}
			c.Check(baseTrue && customFalse, "C01.slash", short+"/branches", slashBase.Pos(), "base/custom accounting selected by the coin's IsBaseCoin()", "slash accounting branches are not selected by IsBaseCoin()")
		}
	}
	// EndBlock remainder
	if end := c.MustFn("C01.slash", "(*coreV2/minter.Blockchain).EndBlock"); end != nil {
		ok := false
		for _, s := range c.GroupSites(end) {
			if strings.HasSuffix(s.Callee, ".AddTotalSlashed") {
				// remainder := Set(rewardWithTxs); remainder.Sub(remainder, r) in the loop
				if core.DependsOn(s.Arg(0), func(v ssa.Value) bool {
					call, isCall := v.(*ssa.Call)
					return isCall && core.CalleeName(core.NormCall(&call.Call)) == "(*math/big.Int).Set"
				}) {
					ok = true
				}
			}
		}
		c.Check(ok, "C01.slash", "EndBlock/remainder", end.Pos(), "the undistributed remainder of reward+fees goes to AddTotalSlashed", "the undistributed reward remainder is no longer added to total slashed")
	}
	c.Floor("C01.slash", c.Count("C01.slash"), 6, "slash accounting obligations")
}

// checkCarry: SetNewValidators carries accumReward by a key that survives a public-key change.
func checkCarry(c *core.Ctx, rule string) {
	fn := c.MustFn(rule, "(*coreV2/state/validators.Validators).SetNewValidators")
	if fn == nil {
		return
	}
	// the carry-over is guarded by an equality test between an old validator and a new candidate;
	// find what it compares
	var cmp *ssa.BinOp
	for _, b := range fn.Blocks {
		iff := core.IfOf(b)
		if iff == nil {
			continue
		}
		bin, ok := iff.Cond.(*ssa.BinOp)
		if !ok || (bin.Op != token.EQL && bin.Op != token.NEQ) {
			continue // (`if a == b {carry}` or `if a != b {continue}`)
		}
		px, py := core.Path(bin.X), core.Path(bin.Y)
		if strings.Contains(px+py, "GetAddress()") || strings.Contains(px+py, "GetTmAddress()") || strings.Contains(px+py, ".ID") || strings.Contains(px+py, "PubKey") {
			cmp = bin
		}
	}
	if cmp == nil {
		c.Unk(rule, "SetNewValidators/match", fn.Pos(), "the old↔new validator match was not recognised")
		return
	}
	px, py := core.Path(cmp.X), core.Path(cmp.Y)
	byAddr := strings.Contains(px+py, "GetAddress()") || strings.Contains(px+py, "GetTmAddress()") || strings.Contains(px+py, "PubKey")
	// is there any other sink for an unmatched old validator's accumReward?
	sink := false
	for _, s := range core.Sites(fn) {
		n := methodName(s)
		if n == "AddTotalSlashed" || n == "GetAccumReward" && false {
			sink = true
		}
	}
	c.Check(!byAddr || sink, rule, "SetNewValidators/accumReward", cmp.Pos(),
		"accumulated rewards are carried by a key that survives a public-key change, or unmatched rewards are returned",
		"old validators are matched to new candidates by Tendermint address / public key ("+px+" == "+py+"); after EditCandidatePublicKey the address changes, the match fails, the new Validator starts with accumReward 0 and the old object's accumulated reward is neither carried nor returned to the pool or total-slashed — base coin silently destroyed, unnoticed by the delta-based Checker")
}

var _ = types.Typ
