package rules

import (
	"go/constant"
	"go/token"
	"go/types"
	"sort"
	"strings"

	"golang.org/x/tools/go/ssa"

	"verif/internal/core"
)

const pkgAppDB = "coreV2/appdb"

// dbAccess is one db.Get / db.Set on the AppDB's own key-value store.
type dbAccess struct {
	Fn    *ssa.Function
	Site  *core.Site
	Write bool
	Key   string // constant key ("" when dynamic)
	// Raw: the db.Get / db.Set itself when the access is attributed to a caller of the helper
	// that contains it (nil otherwise)
	Raw *core.Site
}

// appDBFacts collects, for every method of *appdb.AppDB, the store accesses.
type appDBFacts struct {
	T        *types.Named
	Methods  []*ssa.Function
	Accesses []*dbAccess
}

func constString(v ssa.Value) (string, bool) {
	v = core.Unwrap(v)
	if k, ok := v.(*ssa.Const); ok && k.Value != nil && k.Value.Kind() == constant.String {
		return constant.StringVal(k.Value), true
	}
	return "", false
}

func loadAppDB(c *core.Ctx) *appDBFacts {
	t := c.Named(pkgAppDB, "AppDB")
	if t == nil {
		return nil
	}
	f := &appDBFacts{T: t}
	for _, fn := range c.SrcFuncs(pkgAppDB) {
		root := fn
		for root.Parent() != nil {
			root = root.Parent()
		}
		if root.Signature.Recv() == nil {
			continue
		}
		rt := root.Signature.Recv().Type()
		if p, ok := rt.(*types.Pointer); ok {
			rt = p.Elem()
		}
		if n, ok := rt.(*types.Named); !ok || n.Obj() != t.Obj() {
			continue
		}
		f.Methods = append(f.Methods, fn)
		for _, s := range core.Sites(fn) {
			if !s.Common.IsInvoke() {
				continue
			}
			name := s.Common.Method.Name()
			if name != "Get" && name != "Set" && name != "SetSync" && name != "Delete" {
				continue
			}
			// receiver must be the AppDB's own store field `db`
			if !strings.HasSuffix(core.Path(s.Common.Value), ".db") {
				continue
			}
			key, _ := constString(s.Arg(0))
			if key == "" {
				// the key is a parameter of a helper (`loadUint64(path string, …)`, `mustGet(path)`):
				// one access per call of the helper, with the key passed there, attributed to the
				// caller — followed upwards while the caller itself only hands its own parameter on
				if pi := paramIndexOf(root, s.Arg(0)); pi >= 0 {
					if f.attribute(c, root, pi, name != "Get", 0, s) {
						continue
					}
				}
			}
			f.Accesses = append(f.Accesses, &dbAccess{Fn: fn, Site: s, Write: name != "Get", Key: key})
		}
	}
	return f
}

// attribute records one access per call site that passes a constant key for parameter pi of the
// key-taking helper h (receiver included in the index); a caller that passes one of its own
// parameters is itself treated as such a helper.
func (f *appDBFacts) attribute(c *core.Ctx, h *ssa.Function, pi int, write bool, depth int, raw *core.Site) bool {
	found := false
	for _, cl := range c.SrcFuncs(pkgAppDB) {
		for _, cs := range core.Sites(cl) {
			if cs.Common.StaticCallee() != h || pi >= len(cs.Common.Args) {
				continue
			}
			if k, ok := constString(cs.Common.Args[pi]); ok {
				f.Accesses = append(f.Accesses, &dbAccess{Fn: cl, Site: cs, Write: write, Key: k, Raw: raw})
				found = true
				continue
			}
			root := cl
			for root.Parent() != nil {
				root = root.Parent()
			}
			if qi := paramIndexOf(root, cs.Common.Args[pi]); qi >= 0 && depth < 3 && root == cl {
				if f.attribute(c, root, qi, write, depth+1, raw) {
					found = true
				}
			}
		}
	}
	return found
}

// getLike: v is what a read of the store returned — the value of db.Get itself or of a helper of
// the package that returns it (mustGet).
func (f *appDBFacts) getLike(v ssa.Value, depth int) bool {
	call, ok := v.(*ssa.Call)
	if !ok {
		return false
	}
	if call.Call.IsInvoke() {
		return call.Call.Method.Name() == "Get" && strings.HasSuffix(core.Path(call.Call.Value), ".db")
	}
	h := call.Call.StaticCallee()
	if h == nil || h.Blocks == nil || core.PkgOf(h) != pkgAppDB || depth > 2 {
		return false
	}
	for i := 0; i < h.Signature.Results().Len(); i++ {
		for _, o := range core.ResultOrigins(h, i) {
			if core.DependsOn(o, func(x ssa.Value) bool { return f.getLike(x, depth+1) }) {
				return true
			}
		}
	}
	return false
}

// paramIndexOf: v is (a []byte conversion of) parameter i of fn; -1 otherwise.
func paramIndexOf(fn *ssa.Function, v ssa.Value) int {
	v = core.Unwrap(v)
	for i, p := range fn.Params {
		if v == ssa.Value(p) {
			return i
		}
	}
	return -1
}

// keys returns the distinct constant keys used.
func (f *appDBFacts) keys() []string {
	set := map[string]bool{}
	for _, a := range f.Accesses {
		if a.Key != "" {
			set[a.Key] = true
		}
	}
	var out []string
	for k := range set {
		out = append(out, k)
	}
	sort.Strings(out)
	return out
}

// dependsOnField reports whether v's data dependence closure loads field `field` of the AppDB.
func dependsOnAppField(v ssa.Value, field string) bool {
	return core.DependsOn(v, func(x ssa.Value) bool {
		fa, ok := x.(*ssa.FieldAddr)
		return ok && fieldNameOf(fa) == field && isAppDBPtr(fa.X.Type())
	})
}

func isAppDBPtr(t types.Type) bool {
	p, ok := t.(*types.Pointer)
	if !ok {
		return false
	}
	n, ok := p.Elem().(*types.Named)
	return ok && n.Obj().Name() == "AppDB" && n.Obj().Pkg() != nil && core.Short(n.Obj().Pkg().Path()) == pkgAppDB
}

// appDBDataFields: fields holding cached record contents (not infrastructure, not flags).
func (f *appDBFacts) dataFields() []string {
	st := f.T.Underlying().(*types.Struct)
	var out []string
	for i := 0; i < st.NumFields(); i++ {
		fl := st.Field(i)
		if b, ok := fl.Type().Underlying().(*types.Basic); ok && b.Kind() == types.Bool {
			continue
		}
		switch fl.Type().String() {
		case "sync.WaitGroup", "sync.Mutex", "sync.RWMutex":
			continue
		}
		if _, isI := fl.Type().Underlying().(*types.Interface); isI {
			continue // db handles, tree
		}
		out = append(out, fl.Name())
	}
	return out
}

func (f *appDBFacts) flagFields() []string {
	st := f.T.Underlying().(*types.Struct)
	var out []string
	for i := 0; i < st.NumFields(); i++ {
		fl := st.Field(i)
		if b, ok := fl.Type().Underlying().(*types.Basic); ok && b.Kind() == types.Bool {
			out = append(out, fl.Name())
		}
	}
	return out
}

// commitCallOrder returns the sequence of (callee name, site) in Blockchain.Commit in CFG
// dominance order for calls on blockchain.appDB / stateDeliver / eventsDB.
func posOf(s *core.Site) token.Pos { return s.Pos() }
