package rules

import (
	"fmt"
	"go/token"
	"strings"

	"golang.org/x/tools/go/ssa"

	"verif/internal/core"
)

func init() {
	register(&RuleSet{
		Meta: core.PropertyMeta{
			ID: "C05",
			Explanation: "Decides the authorisation skeleton: (debitor) the account named by every debit-like mutator in live transaction code — Accounts.SubBalance, Candidates.SubStake, Waitlist.Delete, Accounts.SetLockStakeUntilBlock, the owner of every frozen fund created — is tx.Sender() (for RedeemCheck and the failure fee: the issuer of the redeemed check), and no code outside transaction handlers and the accounts module debits balances at all; " +
				"(gates) each live handler that edits somebody's object is dominated by its ownership gate — candidate owner (EditCandidate, EditCandidatePublicKey, EditCandidateCommission, SetHaltBlock, VoteCommission, VoteUpdate), owner-or-control address (SetCandidateOn/Off), ticker owner through GetSymbolInfo(<the tx's own symbol>).OwnerAddress() (RecreateCoin, RecreateToken, EditCoinOwner, MintToken), order owner (RemoveLimitOrder), multisig self-edit (EditMultisig) — each comparing a state lookup keyed by the transaction's own data with tx.Sender(); " +
				"(sig) in RunTx the dispatch of a multisig transaction is dominated by: account IsMultisig, signature-count bounds, per-signature RecoverPlain error gate, duplicate-signer gate keyed by the recovered address, weight accumulated from GetWeight(recovered signer), `totalWeight < Threshold ⇒ reject`; single signatures recover the sender from tx.Hash(). " +
				"NOT decided: cryptographic soundness, fairness of order fills and slashes (C14/C18 arithmetic).",
			Assumptions: stdAssumptions,
			Rules:       []string{"C05.debitor", "C05.outside", "C05.gates", "C05.sig"},
		},
		Run: runC05,
	})
}

// debit-like mutators: module.method → index of the address argument
var debitLike = map[string]int{
	"Accounts.SubBalance":             0,
	"Candidates.SubStake":             0,
	"Waitlist.Delete":                 0,
	"Accounts.SetLockStakeUntilBlock": 0,
	"FrozenFunds.AddFund":             1,
	"Accounts.EditMultisig":           3,
}

func runC05(c *core.Ctx) {
	models := LiveModels(c, "C05.debitor")
	nd := 0
	for _, m := range models {
		for _, mu := range m.Mutators {
			idx, ok := debitLike[mu.Module+"."+mu.Method]
			if !ok {
				continue
			}
			nd++
			a := mu.Site.Arg(idx)
			key := fmt.Sprintf("%s.Run/%s.%s", m.H.TypeName, mu.Module, mu.Method)
			p := core.Path(a)
			switch {
			case m.isTxSender(a):
				c.OK("C05.debitor", key, mu.Site.Pos(), "acts on tx.Sender()")
			case m.H.ConstName == "TypeRedeemCheck" && p == checkPath+".Sender()#0":
				c.OK("C05.debitor", key, mu.Site.Pos(), "acts on the issuer of the redeemed check (its own signature authorises the debit)")
			default:
				c.Bad("C05.debitor", key, mu.Site.Pos(), "debits / withdraws from an account that is not the transaction's signer: "+p)
			}
		}
	}
	c.Floor("C05.debitor", nd, 60, "debit-like mutator sites in live handlers")

	// ---- outside: who calls SubBalance / SetBalance at all
	liveFn := map[*ssa.Function]bool{}
	for _, m := range models {
		liveFn[m.Fn] = true
	}
	no := 0
	for _, fn := range c.AllFns {
		if fn.Synthetic != "" {
			continue
		}
		for _, s := range core.Sites(fn) {
			isSub := s.MethodIs(core.PkgState+"/accounts", "Accounts", "SubBalance")
			isSet := s.MethodIs(core.PkgState+"/accounts", "Accounts", "SetBalance")
			if !isSub && !isSet {
				continue
			}
			no++
			fname := core.ShortFn(fn)
			key := fname
			switch {
			case liveFn[fn] || fn == c.RunTx():
				c.OK("C05.outside", key, s.Pos(), "live transaction code (argument checked by C05.debitor / C03.failfee)")
			case core.PkgOf(fn) == core.PkgState+"/accounts":
				c.OK("C05.outside", key, s.Pos(), "the accounts module's own AddBalance/SubBalance→SetBalance plumbing")
			case fname == "(*coreV2/state.State).Import":
				c.OK("C05.outside", key, s.Pos(), "genesis import")
			case strings.HasPrefix(core.PkgOf(fn), core.PkgTx) && (isDataRun(fn) || fn.Name() == "RunTx"):
				c.OK("C05.outside", key, s.Pos(), "superseded handler/executor version, unreachable from the live decoder")
			case senderOnlyHelper(c, fn, s, models):
				c.OK("C05.outside", key, s.Pos(), "a helper of live transaction handlers; every call passes the transaction's sender for the debited account")
			default:
				c.Bad("C05.outside", key, s.Pos(), "balance debit/overwrite outside transaction handlers, the accounts module and genesis import: protocol code may only credit, slash stakes or freeze")
			}
		}
	}
	c.Floor("C05.outside", no, 90, "SubBalance/SetBalance call sites")

	checkOwnershipGates(c, models)
	checkSigGates(c)
}

type gateSpec struct {
	kind string
}

var c05Gates = map[string]string{
	"EditCandidateData":          "owner",
	"EditCandidatePublicKeyData": "owner",
	"EditCandidateCommission":    "owner",
	"SetHaltBlockData":           "owner",
	"VoteCommissionDataV3":       "owner",
	"VoteUpdateDataV230":         "owner",
	"SetCandidateOnData":         "control",
	"SetCandidateOffData":        "control",
	"RecreateCoinData":           "ticker:data.Symbol",
	"RecreateTokenData":          "ticker:data.Symbol",
	"EditCoinOwnerData":          "ticker:data.Symbol",
	"MintTokenData":              "ticker:GetCoin(data.Coin).Symbol()",
	"RemoveLimitOrderData":       "order",
	"EditMultisigData":           "multisig",
}

func checkOwnershipGates(c *core.Ctx, models []*RunModel) {
	rule := "C05.gates"
	seen := map[string]bool{}
	for _, m := range models {
		kind, ok := c05Gates[m.H.TypeName]
		if !ok {
			continue
		}
		seen[m.H.TypeName] = true
		name := m.H.TypeName
		if len(m.Mutators) == 0 {
			c.Unk(rule, name, m.Fn.Pos(), "no mutator")
			continue
		}
		// the gate must hold at EVERY mutator
		holdsAll := true
		var firstBad *MutSite
		detail := ""
		for _, mu := range m.Mutators {
			facts := c.FactsAt(mu.Site.Instr, 4)
			ok, d := gateHolds(m, kind, facts)
			if !ok {
				holdsAll = false
				firstBad = mu
				detail = d
				break
			}
			detail = d
		}
		if holdsAll {
			c.OK(rule, name+"/"+strings.SplitN(kind, ":", 2)[0], m.Mutators[0].Site.Pos(), detail)
		} else {
			c.Bad(rule, name+"/"+strings.SplitN(kind, ":", 2)[0], firstBad.Site.Pos(), fmt.Sprintf("mutator %s.%s is reachable without the %s gate (%s)", firstBad.Module, firstBad.Method, kind, detail))
		}
		// GetPubKey returns the tx's own key
		if kind == "owner" || kind == "control" {
			if gp := c.Method(m.H.Type, "GetPubKey"); gp != nil {
				okp := false
				for _, o := range core.ResultOrigins(gp, 0) {
					if core.Path(o) == "data.PubKey" {
						okp = true
					}
				}
				c.Check(okp, rule, name+"/GetPubKey", gp.Pos(), "GetPubKey() returns data.PubKey, the candidate the transaction edits", "GetPubKey() does not return data.PubKey: the ownership gate would test a different candidate than the one edited")
			} else {
				c.Bad(rule, name+"/GetPubKey", m.Fn.Pos(), "no GetPubKey method")
			}
		}
	}
	for t := range c05Gates {
		if !seen[t] {
			c.Bad(rule, t, token.NoPos, "handler type in the gate table is no longer live; re-confirm the table")
		}
	}
	// shape of the shared gate functions
	if fn := c.MustFn(rule, "coreV2/transaction.checkCandidateControl"); fn != nil {
		ok := true
		n := 0
		for _, r := range core.Returns(fn) {
			if k, isK := core.Unwrap(r.Results[0]).(*ssa.Const); !isK || k.Value != nil {
				continue
			}
			// every predecessor edge into the nil-return block is the true edge of
			// tx.Sender() == candidate.{Owner,Control}Address
			for _, pred := range r.Block().Preds {
				n++
				iff := core.IfOf(pred)
				if iff == nil || pred.Succs[0] != r.Block() {
					ok = false
					continue
				}
				bin, isBin := iff.Cond.(*ssa.BinOp)
				if !isBin || bin.Op != token.EQL {
					ok = false
					continue
				}
				px, py := core.Path(bin.X), core.Path(bin.Y)
				if px != "tx.Sender()#0" {
					px, py = py, px
				}
				if px != "tx.Sender()#0" || !(strings.HasSuffix(py, "GetCandidate(data.GetPubKey()).OwnerAddress") || strings.HasSuffix(py, "GetCandidate(data.GetPubKey()).ControlAddress")) {
					ok = false
				}
			}
		}
		c.Check(ok && n == 2, rule, "checkCandidateControl/shape", fn.Pos(), "returns nil only when tx.Sender() equals the candidate's owner or control address", "checkCandidateControl can return nil without tx.Sender() matching the candidate's owner/control address")
	}
	c.Floor(rule, c.Count(rule), 20, "ownership-gate obligations")
}

// gateHolds evaluates one gate kind against the facts at a mutator.
func gateHolds(m *RunModel, kind string, facts []core.Fact) (bool, string) {
	switch {
	case kind == "owner":
		for _, f := range facts {
			if len(f.Via) == 0 || !strings.HasSuffix(f.Via[len(f.Via)-1], ".checkCandidateOwnership") {
				continue
			}
			bin, ok := f.Cond.(*ssa.BinOp)
			if !ok || bin.Op != token.NEQ || f.Truth {
				continue
			}
			px, py := f.Path(bin.X), f.Path(bin.Y)
			if px == "tx.Sender()#0" {
				px, py = py, px
			}
			if py == "tx.Sender()#0" && strings.HasSuffix(px, ".GetCandidateOwner(data.GetPubKey())") {
				return true, "dominated by checkCandidateOwnership: GetCandidateOwner(data.GetPubKey()) == tx.Sender()"
			}
		}
		return false, "no `GetCandidateOwner(data.GetPubKey()) != tx.Sender() ⇒ reject` fact"
	case kind == "control":
		for _, f := range facts {
			if len(f.Via) > 0 && strings.HasSuffix(f.Via[len(f.Via)-1], ".checkCandidateControl") {
				// any fact imported from checkCandidateControl's nil outcome proves the nil outcome holds
				return true, "dominated by checkCandidateControl(data, tx, …) == nil"
			}
		}
		return false, "checkCandidateControl's nil outcome does not dominate"
	case strings.HasPrefix(kind, "ticker:"):
		want := strings.TrimPrefix(kind, "ticker:")
		for _, f := range facts {
			// *info.OwnerAddress() != sender  is false
			if bin, ok := f.Cond.(*ssa.BinOp); ok && bin.Op == token.NEQ && !f.Truth {
				px, py := f.Path(bin.X), f.Path(bin.Y)
				if px == "tx.Sender()#0" {
					px, py = py, px
				}
				if py == "tx.Sender()#0" && strings.Contains(px, "GetSymbolInfo(") && strings.HasSuffix(px, ".OwnerAddress()") && strings.Contains(px, want) {
					return true, "dominated by GetSymbolInfo(" + want + ").OwnerAddress() == tx.Sender()"
				}
			}
			// OwnerAddress().Compare(sender) != 0 is false
			if cf, ok := f.AsCall(); ok && cf.MethodName() == "Compare" && cf.Op == token.NEQ && cf.Const == 0 && !f.Truth {
				rp := cf.RecvPath()
				if cf.ArgPath(0) == "tx.Sender()#0" && strings.Contains(rp, "GetSymbolInfo(") && strings.HasSuffix(rp, ".OwnerAddress()") && strings.Contains(rp, want) {
					return true, "dominated by GetSymbolInfo(" + want + ").OwnerAddress().Compare(tx.Sender()) == 0"
				}
			}
		}
		return false, "no comparison of the ticker owner of " + want + " with tx.Sender()"
	case kind == "order":
		for _, f := range facts {
			if cf, ok := f.AsCall(); ok && cf.MethodName() == "Compare" && cf.Op == token.NEQ && cf.Const == 0 && !f.Truth {
				rp := cf.RecvPath()
				if cf.ArgPath(0) == "tx.Sender()#0" && strings.Contains(rp, "GetOrder(data.ID)") && strings.HasSuffix(rp, ".Owner") {
					return true, "dominated by GetOrder(data.ID).Owner.Compare(tx.Sender()) == 0"
				}
			}
		}
		return false, "no comparison of the order's owner with tx.Sender()"
	case kind == "multisig":
		for _, f := range facts {
			if cf, ok := f.AsCall(); ok && cf.MethodName() == "IsMultisig" && f.Truth && cf.Op == token.ILLEGAL {
				if strings.HasSuffix(cf.RecvPath(), ".GetAccount(tx.Sender()#0)") {
					return true, "dominated by Accounts().GetAccount(tx.Sender()).IsMultisig()"
				}
			}
		}
		return false, "no IsMultisig gate on the signer's own account"
	}
	return false, "unknown gate kind"
}

// checkSigGates: multisig verification in RunTx dominates the dispatch (on the multisig arm).
func checkSigGates(c *core.Ctx) {
	rule := "C05.sig"
	fn := c.RunTx()
	if fn == nil {
		c.Unk(rule, "RunTx", token.NoPos, "live RunTx not found")
		return
	}
	m := BuildRunModel(c, nil, fn)
	tx := m.TxPath
	// the block that tests SignatureType == SigTypeMulti
	var multiIf *ssa.If
	for _, b := range fn.Blocks {
		iff := core.IfOf(b)
		if iff == nil {
			continue
		}
		bin, ok := iff.Cond.(*ssa.BinOp)
		if !ok || bin.Op != token.EQL {
			continue
		}
		if core.Path(bin.X) == tx+".SignatureType" {
			if k, ok := core.ConstInt(bin.Y); ok && k == 2 {
				multiIf = iff
			}
		}
	}
	// the test may also sit, as a guard clause, at the top of a helper that RunTx calls for every
	// transaction (`if tx.SignatureType != SigTypeMulti { return nil }`): then the whole function
	// is searched for the helper and the arm is the helper's part behind the guard
	inArm := map[*ssa.BasicBlock]bool{}
	arm := fn.Blocks[0]
	var hStart *ssa.BasicBlock // where the multisig part of a helper starts (its entry, or behind its guard)
	if multiIf != nil {
		arm = multiIf.Block().Succs[0]
		join := multiIf.Block().Succs[1]
		inArm = core.ReachFrom(arm, map[*ssa.BasicBlock]bool{join: true})
	} else {
		for _, b := range fn.Blocks {
			inArm[b] = true
		}
	}
	rets := map[*ssa.BasicBlock]bool{}
	for _, r := range m.Returns {
		if r.Class != "ok" {
			rets[r.R.Block()] = true
		}
	}
	// the verification is either written in the arm itself, or in a helper of the package that the
	// arm calls and whose non-nil result it returns as the rejection
	region, rejecting, regionTx, regionFn := inArm, rets, tx, fn
	var helperGate *ssa.If // the `h(…) != nil ⇒ reject` test in the arm, when a helper is used
	var helper *ssa.Function
	for b := range inArm {
		iff := core.IfOf(b)
		if iff == nil || !(rets[b.Succs[0]] || rets[b.Succs[1]]) {
			continue
		}
		bin, ok := iff.Cond.(*ssa.BinOp)
		if !ok || (bin.Op != token.NEQ && bin.Op != token.EQL) {
			continue
		}
		k, isNil := core.Unwrap(bin.Y).(*ssa.Const)
		if !isNil || !k.IsNil() {
			continue
		}
		call, ok := core.Unwrap(bin.X).(*ssa.Call)
		if !ok {
			continue
		}
		h := call.Call.StaticCallee()
		if h == nil || h.Blocks == nil || core.PkgOf(h) != core.PkgTx {
			continue
		}
		// rejects on non-nil?
		rejOnNonNil := (bin.Op == token.NEQ && rets[b.Succs[0]]) || (bin.Op == token.EQL && rets[b.Succs[1]])
		if !rejOnNonNil {
			continue
		}
		// the helper must contain the signature recovery
		hasRecover := false
		for _, hs := range core.Sites(h) {
			if hs.Callee == "coreV2/transaction.RecoverPlain" {
				hasRecover = true
			}
		}
		if !hasRecover {
			continue
		}
		helper, helperGate = h, iff
		region = map[*ssa.BasicBlock]bool{}
		rejecting = map[*ssa.BasicBlock]bool{}
		for _, hb := range h.Blocks {
			region[hb] = true
		}
		for _, r := range core.Returns(h) {
			if len(r.Results) == 1 {
				if kk, isK := core.Unwrap(r.Results[0]).(*ssa.Const); !(isK && kk.IsNil()) {
					rejecting[r.Block()] = true
				}
			}
		}
		regionFn = h
		regionTx = ""
		for i, pp := range h.Params {
			if i < len(core.NormCall(&call.Call).Args) && strings.TrimPrefix(core.Path(core.NormCall(&call.Call).Args[i]), "&") == tx {
				regionTx = core.ParamName(pp)
			}
		}
		if multiIf == nil {
			// the guard inside the helper
			for _, hb := range h.Blocks {
				iff := core.IfOf(hb)
				if iff == nil {
					continue
				}
				bin, ok := iff.Cond.(*ssa.BinOp)
				if !ok || (bin.Op != token.EQL && bin.Op != token.NEQ) || core.Path(bin.X) != regionTx+".SignatureType" {
					continue
				}
				if k, ok := core.ConstInt(bin.Y); ok && k == 2 {
					multiIf = iff
					side := hb.Succs[0]
					if bin.Op == token.NEQ {
						side = hb.Succs[1]
					}
					region = core.ReachFrom(side, nil)
					region[side] = true
					hStart = side
				}
			}
		}
	}
	if multiIf == nil {
		c.Unk(rule, "RunTx/multisig-arm", fn.Pos(), "the `tx.SignatureType == SigTypeMulti` branch was not found")
		return
	}
	type g struct {
		name string
		ok   bool
		pos  token.Pos
	}
	var thresholdBlock *ssa.BasicBlock
	gates := map[string]*g{
		"is-multisig": {}, "count": {}, "recover-error": {}, "duplicate": {}, "threshold": {},
	}
	// weight accumulation: total += GetWeight(recovered signer); the accumulator is the phi the sum feeds
	var weightAdd *ssa.BinOp
	for b := range region {
		for _, in := range b.Instrs {
			if bin, ok := in.(*ssa.BinOp); ok && bin.Op == token.ADD {
				if call, ok := core.Unwrap(bin.Y).(*ssa.Call); ok && strings.HasSuffix(core.CalleeName(core.NormCall(&call.Call)), ".GetWeight") {
					s := &core.Site{Instr: call, Common: &call.Call}
					if isRecovered(s.Arg(0)) {
						weightAdd = bin
					}
				}
			}
		}
	}
	isAccumulator := func(v ssa.Value) bool {
		if weightAdd == nil {
			return false
		}
		v = core.Unwrap(v)
		if v == ssa.Value(weightAdd) || v == core.Unwrap(weightAdd.X) {
			return true
		}
		if ph, ok := v.(*ssa.Phi); ok {
			for _, e := range ph.Edges {
				if core.Unwrap(e) == ssa.Value(weightAdd) {
					return true
				}
			}
		}
		return false
	}
	for b := range region {
		iff := core.IfOf(b)
		if iff == nil {
			continue
		}
		// one edge must be a rejecting return block
		rejTrue := rejecting[b.Succs[0]]
		rejFalse := rejecting[b.Succs[1]]
		if !rejTrue && !rejFalse {
			continue
		}
		cond, truth := iff.Cond, true
		for {
			u, ok := cond.(*ssa.UnOp)
			if !ok || u.Op != token.NOT {
				break
			}
			cond, truth = u.X, !truth
		}
		rejectWhen := truth
		if rejFalse {
			rejectWhen = !truth
		}
		switch x := cond.(type) {
		case *ssa.Call:
			if strings.HasSuffix(core.CalleeName(core.NormCall(&x.Call)), ".IsMultisig") && !rejectWhen && regionTx != "" && strings.Contains(core.Path(core.NormCall(&x.Call).Args[0]), ".GetAccount("+regionTx+".multisig.Multisig)") {
				gates["is-multisig"].ok, gates["is-multisig"].pos = true, iff.Pos()
			}
		case *ssa.Lookup:
			// usedAccounts[signer]
			if rejectWhen {
				if isRecovered(x.Index) {
					gates["duplicate"].ok, gates["duplicate"].pos = true, iff.Pos()
				}
			}
		case *ssa.BinOp:
			px, py := core.Path(x.X), core.Path(x.Y)
			switch {
			case isNilErrOfRecover(x) && rejectWhen == (x.Op == token.NEQ):
				gates["recover-error"].ok, gates["recover-error"].pos = true, iff.Pos()
			case x.Op == token.LSS && rejectWhen && strings.HasSuffix(py, ".Threshold") && isAccumulator(x.X):
				gates["threshold"].ok, gates["threshold"].pos = true, iff.Pos()
				thresholdBlock = b
			case (x.Op == token.GTR || x.Op == token.LSS) && rejectWhen && (strings.Contains(px, "len(") || strings.Contains(py, "len(") || strings.Contains(px, "Signatures") || strings.Contains(py, "Signatures")):
				gates["count"].ok, gates["count"].pos = true, iff.Pos()
			}
		}
	}
	where := "the multisig arm"
	if helper != nil {
		where = core.ShortFn(helper) + " (called from the multisig arm, its non-nil result rejects)"
	}
	for name, gg := range gates {
		c.Check(gg.ok, rule, "RunTx/multisig/"+name, gg.pos, "gate present in "+where+" with a rejecting edge", "multisig verification lacks the "+name+" gate")
	}
	c.Check(weightAdd != nil, rule, "RunTx/multisig/weight-source", posOfVal(weightAdd), "weight accumulated from GetWeight(address recovered from the signature)", "the accumulated weight does not come from GetWeight of the recovered signer")
	// every signature is verified: the loop that recovers the signers is left only when the
	// signatures are exhausted (from its header) or towards a rejection — not as soon as the
	// collected weight suffices, which would leave the remaining signature slots unchecked bytes
	// (no low-S / range / duplicate test) and the transaction malleable
	var recoverBlock *ssa.BasicBlock
	for b := range region {
		for _, in := range b.Instrs {
			if call, ok := in.(*ssa.Call); ok && core.CalleeName(core.NormCall(&call.Call)) == "coreV2/transaction.RecoverPlain" && core.InCycle(b) {
				recoverBlock = b
			}
		}
	}
	if recoverBlock == nil {
		c.Bad(rule, "RunTx/multisig/all-signatures", regionFn.Pos(), "no loop that recovers the signer of each signature was found in the multisig verification")
	} else {
		loop := map[*ssa.BasicBlock]bool{}
		fromRec := core.ReachFrom(recoverBlock, nil)
		for b := range fromRec {
			if core.ReachFrom(b, nil)[recoverBlock] {
				loop[b] = true
			}
		}
		loop[recoverBlock] = true
		var header *ssa.BasicBlock
		for b := range loop {
			for _, pr := range b.Preds {
				if !loop[pr] {
					header = b
				}
			}
		}
		early := ""
		for b := range loop {
			for _, sc := range b.Succs {
				if loop[sc] || b == header || rejecting[sc] {
					continue
				}
				early = c.PosStr(b.Instrs[len(b.Instrs)-1].Pos())
				if early == "" {
					early = fmt.Sprintf("block %d of %s", b.Index, regionFn.Name())
				}
			}
		}
		c.Check(early == "", rule, "RunTx/multisig/all-signatures", posOfBlock(recoverBlock), "the signature loop is left only when all signatures were recovered or towards a rejection", "the loop that recovers the signers can be left early ("+early+") without rejecting: the signatures after that point are never verified — arbitrary bytes there still yield an accepted transaction")
	}
	// the arm cannot be skipped towards the dispatch except through the threshold gate
	disp := findDispatch(fn)
	if disp != nil {
		okDom := false
		if thresholdBlock != nil {
			if helper == nil {
				reach := core.ReachFrom(arm, map[*ssa.BasicBlock]bool{thresholdBlock: true})
				okDom = !reach[disp.Block()]
			} else {
				// every accepting (nil) return of the helper passes the threshold test, and the arm
				// reaches the dispatch only through the helper's accepting outcome
				if hStart == nil {
					hStart = regionFn.Blocks[0]
				}
				reachH := core.ReachFrom(hStart, map[*ssa.BasicBlock]bool{thresholdBlock: true})
				okDom = true
				for _, r := range core.Returns(regionFn) {
					if !rejecting[r.Block()] && r.Block() != regionFn.Recover && (reachH[r.Block()] || r.Block() == hStart) {
						okDom = false
					}
				}
				reachArm := core.ReachFrom(arm, map[*ssa.BasicBlock]bool{helperGate.Block(): true})
				if reachArm[disp.Block()] {
					okDom = false
				}
			}
		}
		c.Check(okDom, rule, "RunTx/multisig/threshold-dominates-dispatch", disp.Pos(), "every path through the multisig arm to the dispatch passes the threshold test", "the dispatch is reachable from the multisig arm without passing the threshold test")
	}
	// single signature: Sender() recovers from tx.Hash()
	if sfn := c.MustFn(rule, "(*coreV2/transaction.Transaction).Sender"); sfn != nil {
		ok := false
		for _, s := range core.Sites(sfn) {
			if s.Callee == "coreV2/transaction.RecoverPlain" && core.Path(s.Arg(0)) == "tx.Hash()" && core.Path(s.Arg(1)) == "tx.sig.R" && core.Path(s.Arg(2)) == "tx.sig.S" && core.Path(s.Arg(3)) == "tx.sig.V" {
				ok = true
			}
		}
		c.Check(ok, rule, "Transaction.Sender/single", sfn.Pos(), "single-signature sender = RecoverPlain(tx.Hash(), sig.R, sig.S, sig.V)", "Sender() no longer recovers the signer from tx.Hash() and the transaction's own signature")
	}
	// every value Sender() can return is: the address recovered from THIS transaction's hash and
	// signature, the per-transaction memo of exactly that value, the multisig address, or the zero
	// address on error. Anything else (a shared cache, a lookup keyed by less than the hash) lets a
	// signature be re-attached to another body.
	if sfn := c.Fn("(*coreV2/transaction.Transaction).Sender"); sfn != nil {
		bad := ""
		n := 0
		for _, o := range core.ResultOrigins(sfn, 0) {
			n++
			p := core.Path(o)
			switch {
			case isRecovered(o):
				if ex, ok := o.(*ssa.Extract); ok {
					call := ex.Tuple.(*ssa.Call)
					if core.Path(core.NormCall(&call.Call).Args[0]) != "tx.Hash()" {
						bad = "recovered from something other than tx.Hash(): " + core.Path(core.NormCall(&call.Call).Args[0])
					}
				}
			case senderMemo(sfn) != "" && (p == "tx."+senderMemo(sfn) || p == "*tx."+senderMemo(sfn)):
			case p == "tx.multisig.Multisig":
			case isZeroAddress(o):
			default:
				if k, isK := o.(*ssa.Const); isK && k.Value == nil {
					continue
				}
				bad = "origin " + p + " (" + o.String() + ")"
			}
		}
		c.Check(bad == "" && n > 0, rule, "Transaction.Sender/origins", sfn.Pos(), "Sender() returns only: RecoverPlain(tx.Hash(), own signature), its per-transaction memo, the multisig address, or the zero address", "Sender() can return a value from another source — "+bad+": the sender would no longer be bound to this transaction's hash")
		// the memo field is written only by Sender() itself, with the recovered value
		txT := c.Named(core.PkgTx, "Transaction")
		okW := true
		nw := 0
		for _, w := range c.FieldWrites(txT, senderMemo(sfn)) {
			nw++
			if core.ShortFn(w.Fn) != "(*coreV2/transaction.Transaction).Sender" {
				okW = false
				continue
			}
			st, isStore := w.Instr.(*ssa.Store)
			if !isStore {
				okW = false
				continue
			}
			al, isAl := core.Unwrap(st.Val).(*ssa.Alloc)
			if !isAl {
				okW = false
				continue
			}
			rec := false
			for _, r := range *al.Referrers() {
				if s2, ok := r.(*ssa.Store); ok && s2.Addr == al && isRecovered(s2.Val) {
					rec = true
				}
			}
			if !rec {
				okW = false
			}
		}
		c.Check(okW && nw > 0, rule, "Transaction.sender/memo-writers", sfn.Pos(), "the per-transaction sender memo is written only by Sender() with the recovered address", "the sender memo is written elsewhere or with a value that was not recovered from the signature")
	}
	// tx.Hash covers every signed field
	if hfn := c.MustFn(rule, "(*coreV2/transaction.Transaction).Hash"); hfn != nil {
		want := []string{"Nonce", "ChainID", "GasPrice", "GasCoin", "Type", "Data", "Payload", "ServiceData", "SignatureType"}
		got := map[string]bool{}
		for _, b := range hfn.Blocks {
			for _, in := range b.Instrs {
				if fa, ok := in.(*ssa.FieldAddr); ok {
					got[fieldNameOf(fa)] = true
				}
			}
		}
		missing := []string{}
		for _, w := range want {
			if !got[w] {
				missing = append(missing, w)
			}
		}
		c.Check(len(missing) == 0, rule, "Transaction.Hash/covers", hfn.Pos(), "the signed hash covers Nonce, ChainID, GasPrice, GasCoin, Type, Data, Payload, ServiceData, SignatureType", "the signed hash no longer covers: "+strings.Join(missing, ", "))
	}
}

func posOfVal(v *ssa.BinOp) token.Pos {
	if v == nil {
		return token.NoPos
	}
	return v.Pos()
}

// isRecovered: v is (a load of a cell holding) the address result of RecoverPlain.
func isRecovered(v ssa.Value) bool {
	for _, o := range core.Origins(v) {
		if ex, ok := o.(*ssa.Extract); ok && ex.Index == 0 {
			if call, ok := ex.Tuple.(*ssa.Call); ok && core.CalleeName(core.NormCall(&call.Call)) == "coreV2/transaction.RecoverPlain" {
				return true
			}
		}
	}
	return false
}

func isNilErrOfRecover(bin *ssa.BinOp) bool {
	if bin.Op != token.NEQ && bin.Op != token.EQL {
		return false
	}
	if k, ok := core.Unwrap(bin.Y).(*ssa.Const); !ok || k.Value != nil {
		return false
	}
	if ex, ok := core.Unwrap(bin.X).(*ssa.Extract); ok && ex.Index == 1 {
		if call, ok := ex.Tuple.(*ssa.Call); ok && core.CalleeName(core.NormCall(&call.Call)) == "coreV2/transaction.RecoverPlain" {
			return true
		}
	}
	return false
}

func posOfBlock(b *ssa.BasicBlock) token.Pos {
	for _, in := range b.Instrs {
		if in.Pos().IsValid() {
			return in.Pos()
		}
	}
	return token.NoPos
}

// senderMemo: the per-transaction memo of the recovered sender — the field of the transaction
// that Sender() itself stores into.
func senderMemo(sfn *ssa.Function) string {
	memo := ""
	for _, b := range sfn.Blocks {
		for _, in := range b.Instrs {
			if st, ok := in.(*ssa.Store); ok {
				if fa, ok := st.Addr.(*ssa.FieldAddr); ok && len(sfn.Params) > 0 && core.Unwrap(fa.X) == ssa.Value(sfn.Params[0]) {
					memo = fieldNameOf(fa)
				}
			}
		}
	}
	return memo
}

// senderOnlyHelper: fn is an unexported function of the transaction package that debits the account
// it is given as a parameter, it is called from live handlers only, and every one of those calls
// passes the transaction's sender for that parameter (a fee-charging block moved out of Run).
func senderOnlyHelper(c *core.Ctx, fn *ssa.Function, s *core.Site, models []*RunModel) bool {
	if !strings.HasPrefix(core.PkgOf(fn), core.PkgTx) || fn.Object() == nil || fn.Object().Exported() || s.Arg(0) == nil {
		return false
	}
	acct, ok := core.Unwrap(s.Arg(0)).(*ssa.Parameter)
	if !ok {
		return false
	}
	idx := -1
	for i, q := range fn.Params {
		if q == acct {
			idx = i
		}
	}
	if idx < 0 {
		return false
	}
	byFn := map[*ssa.Function]*RunModel{}
	for _, m := range models {
		byFn[m.Fn] = m
	}
	n := 0
	for _, cl := range c.CG().Callers(fn) {
		root := cl
		for root.Parent() != nil {
			root = root.Parent()
		}
		m := byFn[root]
		if m == nil {
			if isDataRun(root) || root.Synthetic != "" {
				continue // a superseded handler version; a compiler-made wrapper of the method
			}
			return false
		}
		for _, cs := range core.Sites(cl) {
			if cs.Common.StaticCallee() != fn || idx >= len(cs.Common.Args) {
				continue
			}
			n++
			if !m.isTxSender(cs.Common.Args[idx]) {
				return false
			}
		}
	}
	return n > 0
}
