package rules

import (
	"fmt"
	"go/token"
	"go/types"
	"strings"

	"golang.org/x/tools/go/ssa"

	"verif/internal/core"
)

func init() {
	register(&RuleSet{
		Meta: core.PropertyMeta{
			ID: "C20",
			Explanation: "Decides the threshold and gating skeleton of governance: (exact) in each of the three tally functions (halt, commission update, network update) every vote-based accepting return is governed by a comparison recognised as the exact strict test 3·voted > 2·total over big.Int (accepted normal forms: Mul(voted,3).Cmp(Mul(total,2)) ==1 / >0 and the mirrored form, directly or through a bool helper), `total` being the block's totalPower, and no float64/big.Float value occurs in the decision's data dependences; any other shape is undecided and fails. " +
				"(largest) among competing proposals the winner replaces the current leader only on strictly larger voted power; (effect) stop(), SetNewCommissions and AddVersion are dominated by the respective decision; (votes) the three vote handlers reject past heights (`data.Height < currentBlock`), duplicate votes (IsVoteExists/IsHaltExists on the same height and key) and non-owners, and the vote they record is what the duplicate test reads. " +
				"NOT decided: that validatorsPowers/totalPower hold the present validators' stakes (C17/C19), big.Int arithmetic itself.",
			Assumptions: stdAssumptions,
			Rules:       []string{"C20.exact", "C20.largest", "C20.effect", "C20.votes", "C20.powers", "C20.presence", "C20.dupsource"},
		},
		Run: runC20,
	})
}

type tally struct {
	name   string // function
	lookup string // votes lookup method
	effect string // effect method in the caller
	caller string
}

var tallies = []tally{
	{"(*coreV2/minter.Blockchain).isApplicationHalted", "GetHaltBlocks", "(*coreV2/minter.Blockchain).stop", "(*coreV2/minter.Blockchain).BeginBlock"},
	{"(*coreV2/minter.Blockchain).isUpdateCommissionsBlockV2", "GetVotes", "(*coreV2/state/commission.Commission).SetNewCommissions", "(*coreV2/minter.Blockchain).EndBlock"},
	{"(*coreV2/minter.Blockchain).isUpdateNetworkBlockV2", "GetVotes", "(*coreV2/appdb.AppDB).AddVersion", "(*coreV2/minter.Blockchain).EndBlock"},
}

func hasFloat(v ssa.Value) (bool, string) {
	var what string
	found := core.DependsOn(v, func(x ssa.Value) bool {
		t := x.Type()
		if p, ok := t.(*types.Pointer); ok {
			t = p.Elem()
		}
		if b, ok := t.Underlying().(*types.Basic); ok && b.Info()&types.IsFloat != 0 {
			what = "float value " + x.Name()
			return true
		}
		if n, ok := t.(*types.Named); ok && n.Obj().Pkg() != nil && n.Obj().Pkg().Path() == "math/big" && (n.Obj().Name() == "Float" || n.Obj().Name() == "Rat") {
			what = "big." + n.Obj().Name() + " value " + x.Name()
			return true
		}
		return false
	})
	return found, what
}

// mulBy: v is x.Mul(a, big.NewInt(k)) / Mul(big.NewInt(k), a); returns (a, k).
func mulBy(v ssa.Value) (ssa.Value, int64, bool) {
	call, ok := core.Unwrap(v).(*ssa.Call)
	if !ok || core.CalleeName(core.NormCall(&call.Call)) != "(*math/big.Int).Mul" || len(core.NormCall(&call.Call).Args) != 3 {
		return nil, 0, false
	}
	for i := 1; i <= 2; i++ {
		if k, ok := bigConst(core.NormCall(&call.Call).Args[i]); ok {
			return core.NormCall(&call.Call).Args[3-i], k, true
		}
	}
	return nil, 0, false
}

func bigConst(v ssa.Value) (int64, bool) {
	call, ok := core.Unwrap(v).(*ssa.Call)
	if !ok || core.CalleeName(core.NormCall(&call.Call)) != "math/big.NewInt" {
		return 0, false
	}
	return core.ConstInt(core.NormCall(&call.Call).Args[0])
}

// exactQuorum decides whether cond (holding with `truth`) is the strict 3v > 2t test. env maps
// parameters of the function cond lives in to the caller's values.
// Returns status and explanation, plus the (voted, total) values when recognised.
func exactQuorum(cond ssa.Value, truth bool, env map[*ssa.Parameter]ssa.Value, depth int) (core.Status, string, ssa.Value, ssa.Value) {
	resolve := func(v ssa.Value) ssa.Value {
		if p, ok := core.Unwrap(v).(*ssa.Parameter); ok {
			if a, ok := env[p]; ok {
				return a
			}
		}
		return v
	}
	// helper call returning bool
	if call, ok := core.Unwrap(cond).(*ssa.Call); ok && depth < 3 {
		callee := call.Call.StaticCallee()
		if callee != nil && callee.Blocks != nil && truth {
			ne := map[*ssa.Parameter]ssa.Value{}
			for i, p := range callee.Params {
				if i < len(core.NormCall(&call.Call).Args) {
					ne[p] = resolve(core.NormCall(&call.Call).Args[i])
				}
			}
			rets := core.Returns(callee)
			if len(rets) == 1 && len(rets[0].Results) == 1 {
				return exactQuorum(rets[0].Results[0], true, ne, depth+1)
			}
			return core.Undecided, "quorum helper " + core.ShortFn(callee) + " has more than one return; not recognised", nil, nil
		}
	}
	if f, what := hasFloat(cond); f {
		return core.Violated, "the quorum decision depends on a " + what + ": a float quotient compared with float64(2./3.) accepts exactly two-thirds (and slightly less)", nil, nil
	}
	bin, ok := cond.(*ssa.BinOp)
	if !ok {
		return core.Undecided, "decision is not a comparison", nil, nil
	}
	cmp, ok := core.Unwrap(bin.X).(*ssa.Call)
	if !ok || core.CalleeName(core.NormCall(&cmp.Call)) != "(*math/big.Int).Cmp" {
		return core.Undecided, "decision is not a big.Int Cmp test", nil, nil
	}
	k, ok := core.ConstInt(bin.Y)
	if !ok {
		return core.Undecided, "Cmp result is not compared with a constant", nil, nil
	}
	// normalise to "lhs > rhs" strict
	lhs, rhs := core.NormCall(&cmp.Call).Args[0], core.NormCall(&cmp.Call).Args[1]
	op := bin.Op
	if !truth {
		return core.Undecided, "accept branch is the false edge of the comparison", nil, nil
	}
	greater := (op == token.EQL && k == 1) || (op == token.GTR && k == 0)
	less := (op == token.EQL && k == -1) || (op == token.LSS && k == 0)
	switch {
	case greater:
	case less:
		lhs, rhs = rhs, lhs
	default:
		return core.Violated, fmt.Sprintf("threshold comparison `Cmp %s %d` is not a strict greater-than (>= would accept exactly two-thirds)", op, k), nil, nil
	}
	a, ka, okA := mulBy(lhs)
	b, kb, okB := mulBy(rhs)
	if !okA || !okB {
		return core.Undecided, "operands are not of the form Mul(x, big.NewInt(k))", nil, nil
	}
	if ka != 3 || kb != 2 {
		return core.Violated, fmt.Sprintf("threshold is %d·voted > %d·total, the property requires 3·voted > 2·total", ka, kb), nil, nil
	}
	return core.Discharged, "exact strict test 3·voted > 2·total over big.Int", resolve(a), resolve(b)
}

// checkVotingPowers: the quorum compares the power of the validators that voted with
// blockchain.totalPower. Both are filled by calculatePowers: a validator's stake must enter the
// per-validator table (what a vote weighs) under exactly the condition under which it enters the
// total — not marked to drop and recorded as present in this block. A validator that is weighed
// but not counted in the total lets a minority of the present power pass a vote.
func checkVotingPowers(c *core.Ctx, rule string) {
	fn := c.MustFn(rule, "(*coreV2/minter.Blockchain).calculatePowers")
	if fn == nil {
		return
	}
	var weigh, count ssa.Instruction
	// the two stores may sit in a helper that calculatePowers calls per validator; the condition
	// they are made under is then the one governing that call
	at := map[ssa.Instruction]ssa.Instruction{}
	for _, g := range append([]*ssa.Function{fn}, c.Helpers(fn)...) {
		var site ssa.Instruction
		if g != fn {
			for _, s := range core.Sites(fn) {
				if s.Common.StaticCallee() == g {
					site = s.Instr
				}
			}
			if site == nil {
				continue
			}
		}
		for _, b := range g.Blocks {
			for _, in := range b.Instrs {
				switch x := in.(type) {
				case *ssa.MapUpdate:
					if strings.HasSuffix(core.Path(x.Map), ".validatorsPowers") {
						weigh = x
						at[x] = site
					}
				case *ssa.Call:
					if core.CalleeName(core.NormCall(&x.Call)) == "(*math/big.Int).Add" && strings.HasSuffix(core.Path(core.NormCall(&x.Call).Args[0]), ".totalPower") {
						count = x
						at[x] = site
					}
				}
			}
		}
	}
	if weigh == nil || count == nil {
		c.Unk(rule, "calculatePowers/shape", fn.Pos(), "the per-validator table store / the total accumulation was not recognised")
		return
	}
	present := func(in ssa.Instruction) (bool, bool) {
		notDrop, pres := false, false
		for _, f := range c.FactsAt(in, 1) {
			cf, ok := f.AsCall()
			if !ok {
				continue
			}
			switch cf.MethodName() {
			case "IsToDrop":
				if cf.Op == token.ILLEGAL && !f.Truth {
					notDrop = true
				}
			case "GetValidatorStatus":
				k, okk := constOf(c, core.PkgMint, "ValidatorPresent")
				if okk && k == cf.Const && ((cf.Op == token.NEQ && !f.Truth) || (cf.Op == token.EQL && f.Truth)) {
					pres = true
				}
			}
		}
		return notDrop, pres
	}
	where := func(in ssa.Instruction) ssa.Instruction {
		if s := at[in]; s != nil {
			return s
		}
		return in
	}
	wd, wp := present(where(weigh))
	cd, cp := present(where(count))
	c.Check(wd && wp && cd && cp, rule, "calculatePowers/same-condition", weigh.Pos(), "a validator's stake enters the vote-weight table and the total power under the same `not dropped ∧ present` condition",
		fmt.Sprintf("vote weights and the quorum base are filled under different conditions (weight: not-dropped=%v present=%v; total: not-dropped=%v present=%v): an absent validator's earlier vote still counts while its stake is missing from the total", wd, wp, cd, cp))
}

func runC20(c *core.Ctx) {
	defer checkVotingPowers(c, "C20.powers")
	defer checkDuplicateSource(c, "C20.dupsource")
	defer func() {
		// the presence map the tallies weigh votes with is the one of the block being processed
		bt := c.Named("coreV2/minter", "Blockchain")
		if bt == nil {
			c.Unk("C20.presence", "minter.Blockchain", token.NoPos, "type not found")
			return
		}
		if bb := c.Method(bt, "BeginBlock"); bb != nil {
			n := checkFieldReadyBeforeRead(c, "C20.presence", bb, bt, "validatorsStatuses")
			c.Floor("C20.presence", n, 1, "calls in BeginBlock that read the presence map")
		} else {
			c.Unk("C20.presence", "BeginBlock", token.NoPos, "Blockchain.BeginBlock not found")
		}
	}()
	for _, t := range tallies {
		fn := c.MustFn("C20.exact", t.name)
		if fn == nil {
			continue
		}
		short := fn.Name()
		// votes lookup
		var lookup *core.Site
		for _, s := range core.Sites(fn) {
			if methodName(s) == t.lookup {
				lookup = s
			}
		}
		if lookup == nil {
			c.Unk("C20.exact", short+"/lookup", fn.Pos(), "votes lookup "+t.lookup+" not found")
			continue
		}
		// accepting returns dominated by the lookup
		nAcc := 0
		for _, r := range core.Returns(fn) {
			if !core.Dominates(lookup.Instr, r) {
				continue
			}
			ind := r.Results[len(r.Results)-1]
			if len(r.Results) == 1 {
				ind = r.Results[0]
			}
			var conds []struct {
				v ssa.Value
				t bool
			}
			accept := false
			switch x := core.Unwrap(ind).(type) {
			case *ssa.Const:
				if x.Value != nil && x.Value.String() == "true" {
					accept = true
				}
			default:
				// non-constant indicator: []byte(price) (accept) or a bool expression
				if b, ok := ind.Type().Underlying().(*types.Basic); ok && b.Kind() == types.Bool {
					accept = true
					conds = append(conds, struct {
						v ssa.Value
						t bool
					}{ind, true})
				} else {
					accept = true
				}
			}
			if !accept {
				continue
			}
			nAcc++
			for _, g := range core.GatesBefore(r) {
				// gates after the lookup only
				if !core.Dominates(lookup.Instr, g.If) {
					continue
				}
				conds = append(conds, struct {
					v ssa.Value
					t bool
				}{g.If.Cond, g.PassTrue})
			}
			// at least one governing condition must be the exact quorum; none may involve floats
			best := core.Undecided
			detail := "no governing condition recognised as the quorum test"
			var voted, total ssa.Value
			for _, cd := range conds {
				st, d, v, tt := exactQuorum(cd.v, cd.t, nil, 0)
				if st == core.Violated {
					best, detail = st, d
					break
				}
				if st == core.Discharged {
					best, detail, voted, total = st, d, v, tt
				}
			}
			if best == core.Discharged {
				// total must be the block's total power; voted must not be the total
				tp := core.Path(total)
				if !strings.HasSuffix(tp, ".totalPower") {
					best, detail = core.Violated, "the right-hand side of the quorum test is not blockchain.totalPower: "+tp
				} else if strings.HasSuffix(core.Path(voted), ".totalPower") {
					best, detail = core.Violated, "the voted side of the quorum test is the total power itself"
				}
			}
			c.Add("C20.exact", fmt.Sprintf("%s/accept-return", short), r.Pos(), best, detail)
		}
		if nAcc == 0 {
			c.Unk("C20.exact", short+"/accept", fn.Pos(), "no vote-based accepting return found")
		}
		// largest: leader replacement must be a strict big.Int comparison, float-free
		for _, b := range fn.Blocks {
			iff := core.IfOf(b)
			if iff == nil {
				continue
			}
			bin, ok := iff.Cond.(*ssa.BinOp)
			if !ok {
				continue
			}
			cmp, ok := core.Unwrap(bin.X).(*ssa.Call)
			if !ok || !strings.HasSuffix(core.CalleeName(core.NormCall(&cmp.Call)), ".Cmp") {
				continue
			}
			// is this the leader update? the true branch stores the proposal's value (a phi of the
			// returned name changes) — recognise by: condition inside a loop and not gating a return
			if !selfLoop(b) {
				continue
			}
			if f, what := hasFloat(iff.Cond); f {
				c.Bad("C20.largest", short+"/leader-update", iff.Pos(), "the competing-proposal comparison uses a "+what)
				continue
			}
			k, _ := core.ConstInt(bin.Y)
			strict := (bin.Op == token.EQL && (k == 1 || k == -1)) || (bin.Op == token.LSS && k == 0) || (bin.Op == token.GTR && k == 0)
			if core.CalleeName(core.NormCall(&cmp.Call)) == "(*math/big.Int).Cmp" {
				c.Check(strict, "C20.largest", short+"/leader-update", iff.Pos(), "leader replaced only by strictly larger voted power (big.Int)", "leader comparison is not strict")
			}
		}
		// leader aliasing: the leader's power must not be the very big.Int that the loop keeps
		// accumulating into — a tally object allocated once outside the loop, reset per proposal and
		// assigned to the leader variable makes the "largest so far" track whatever was tallied last
		aliasBad := false
		for _, s2 := range core.Sites(fn) {
			name := s2.Callee
			if !strings.HasPrefix(name, "(*math/big.Int).") || !bigIntMutating[name[len("(*math/big.Int)."):]] || len(s2.Common.Args) == 0 || !core.InCycle(s2.Block()) {
				continue
			}
			acc := core.Unwrap(s2.Common.Args[0])
			ai, ok := acc.(ssa.Instruction)
			if !ok || core.InCycle(ai.Block()) {
				continue // a fresh object per iteration
			}
			// the reused accumulator flows into another loop-carried variable
			for _, b := range fn.Blocks {
				for _, in := range b.Instrs {
					ph, ok := in.(*ssa.Phi)
					if !ok {
						break
					}
					for _, e := range ph.Edges {
						if core.Unwrap(e) == acc && core.InCycle(ph.Block()) {
							aliasBad = true
							c.Bad("C20.largest", short+"/leader-alias", ph.Pos(), "the variable "+ph.Comment+" is assigned the tally accumulator itself, which is allocated once and reset/added to on every iteration: the recorded maximum changes with every later proposal (the first proposal with any support wins, judged by the last proposal's power)")
						}
					}
				}
			}
		}
		if !aliasBad {
			c.OK("C20.largest", short+"/leader-alias", fn.Pos(), "no loop-carried variable aliases a tally object that is reused across iterations")
		}
		// effect gating in the caller
		caller := c.MustFn("C20.effect", t.caller)
		if caller == nil {
			continue
		}
		var eff, tcall *core.Site
		// the tally and its effect may have been moved together into a helper of the caller
		tname := t.name
		caller = groupFnWith(c, caller, func(s *core.Site) bool { return s.Callee == tname })
		for _, s := range core.Sites(caller) {
			if s.Callee == t.name {
				tcall = s
			}
		}
		for _, s := range core.Sites(caller) {
			if s.Callee != t.effect || tcall == nil {
				continue
			}
			// several sites may exist (BeginBlock also stops on an unknown version): take the one
			// whose gates mention the tally result, else the first
			if eff == nil {
				eff = s
			}
			for _, g := range core.GatesBefore(s.Instr) {
				if core.DependsOn(g.If.Cond, func(x ssa.Value) bool { return x == tcall.Value() }) {
					eff = s
				}
			}
		}
		if eff == nil || tcall == nil {
			c.Bad("C20.effect", short+"→"+t.effect, caller.Pos(), "the tally call or its effect is no longer in "+t.caller)
			continue
		}
		gated := false
		for _, g := range core.GatesBefore(eff.Instr) {
			if core.DependsOn(g.If.Cond, func(x ssa.Value) bool { return x == tcall.Value() }) {
				gated = true
			}
		}
		c.Check(gated && core.Dominates(tcall.Instr, eff.Instr), "C20.effect", short+"→"+eff.Callee[strings.LastIndex(eff.Callee, ".")+1:], eff.Pos(),
			"effect is dominated by a branch on the tally's result", "the governance effect is not gated by the tally's result")
	}
	c.Floor("C20.exact", c.Count("C20.exact"), 3, "vote-based accepting returns")
	c.Floor("C20.effect", c.Count("C20.effect"), 3, "governance effects")
	checkVoteHandlers(c, "C20.votes")
}

type voteHandler struct {
	typ    string
	exists string // duplicate test method
	record string // recording mutator
}

var voteHandlers = []voteHandler{
	{"SetHaltBlockData", "IsHaltExists", "AddHaltBlock"},
	{"VoteCommissionDataV3", "IsVoteExists", "AddVote"},
	{"VoteUpdateDataV230", "IsVoteExists", "AddVote"},
}

func checkVoteHandlers(c *core.Ctx, rule string) {
	models := LiveModels(c, rule)
	for _, vh := range voteHandlers {
		var m *RunModel
		for _, x := range models {
			if x.H.TypeName == vh.typ {
				m = x
			}
		}
		if m == nil {
			c.Bad(rule, vh.typ, token.NoPos, "vote handler is no longer live")
			continue
		}
		var rec *MutSite
		for _, mu := range m.Mutators {
			if mu.Method == vh.record {
				rec = mu
			}
		}
		if rec == nil {
			c.Bad(rule, vh.typ+"/record", m.Fn.Pos(), "the vote is never recorded ("+vh.record+")")
			continue
		}
		facts := c.FactsAt(rec.Site.Instr, 4)
		var past, dup, owner bool
		for _, f := range facts {
			// data.Height < block  must be FALSE
			if bin, ok := f.Cond.(*ssa.BinOp); ok && !f.Truth && bin.Op == token.LSS {
				if f.Path(bin.X) == "data.Height" && (f.Path(bin.Y) == "currentBlock" || f.Path(bin.Y) == "block") {
					past = true
				}
			}
			if bin, ok := f.Cond.(*ssa.BinOp); ok && f.Truth && bin.Op == token.GEQ {
				if f.Path(bin.X) == "data.Height" && f.Path(bin.Y) == "currentBlock" {
					past = true
				}
			}
			if cf, ok := f.AsCall(); ok {
				if cf.MethodName() == vh.exists && !f.Truth && cf.Op == token.ILLEGAL && cf.ArgPath(0) == "data.Height" && cf.ArgPath(1) == "data.PubKey" {
					dup = true
				}
			}
			// owner != sender must be FALSE inside checkCandidateOwnership
			if len(f.Via) > 0 && strings.HasSuffix(f.Via[len(f.Via)-1], ".checkCandidateOwnership") {
				if bin, ok := f.Cond.(*ssa.BinOp); ok && bin.Op == token.NEQ && !f.Truth {
					owner = true
				}
			}
		}
		c.Check(past, rule, vh.typ+"/past-height", rec.Site.Pos(), "recording the vote is dominated by `data.Height < currentBlock ⇒ reject`", "a vote for a past height is not rejected before being recorded")
		c.Check(dup, rule, vh.typ+"/duplicate", rec.Site.Pos(), "recording is dominated by `"+vh.exists+"(data.Height, data.PubKey) ⇒ reject`", "a duplicate vote (same height, same key) is not rejected before being recorded")
		c.Check(owner, rule, vh.typ+"/owner", rec.Site.Pos(), "recording is dominated by checkCandidateOwnership(data, tx, …) == nil", "the vote is recorded without the candidate-ownership gate")
		// marker: the recorded vote uses the same height and key the duplicate test reads
		okArgs := core.Path(rec.Site.Arg(0)) == "data.Height" && core.Path(rec.Site.Arg(1)) == "data.PubKey"
		c.Check(okArgs, rule, vh.typ+"/marker", rec.Site.Pos(), vh.record+"(data.Height, data.PubKey, …) records what the duplicate test reads", "the recorded vote is keyed by something other than (data.Height, data.PubKey): "+core.Path(rec.Site.Arg(0))+", "+core.Path(rec.Site.Arg(1)))
	}
	// the shared ownership gate itself
	if fn := c.MustFn(rule, "coreV2/transaction.checkCandidateOwnership"); fn != nil {
		ok := false
		for _, b := range fn.Blocks {
			iff := core.IfOf(b)
			if iff == nil {
				continue
			}
			bin, isBin := iff.Cond.(*ssa.BinOp)
			if !isBin || bin.Op != token.NEQ {
				continue
			}
			px, py := core.Path(bin.X), core.Path(bin.Y)
			isOwner := func(p string) bool { return strings.Contains(p, "GetCandidateOwner(data.GetPubKey())") }
			isSender := func(p string) bool { return p == "tx.Sender()#0" }
			if (isOwner(px) && isSender(py)) || (isOwner(py) && isSender(px)) {
				// true edge must be a rejection (returns non-nil)
				ok = true
			}
		}
		c.Check(ok, rule, "checkCandidateOwnership/shape", fn.Pos(), "compares Candidates().GetCandidateOwner(data.GetPubKey()) with tx.Sender()", "checkCandidateOwnership no longer compares the candidate's owner with tx.Sender()")
	}
	c.Floor(rule, c.Count(rule), 12, "vote-handler gates")
}

// checkDuplicateSource — C20.dupsource. "This validator already voted for that height" has to be
// answered from what is persisted — the vote lists of the module's records (exported, i.e. encoded,
// fields loaded through the module's loader) — because the answer must be the same after a
// restart. Decided for the three duplicate tests (IsHaltExists, Commission.IsVoteExists,
// Update.IsVoteExists): a positive answer is returned under a comparison that reads an exported
// field of a record of the module, and no answer is the outcome of a lookup in an unexported map
// of the module itself (an index that only the running process fills).
func checkDuplicateSource(c *core.Ctx, rule string) {
	targets := []struct{ pkg, typ, method string }{
		{core.PkgState + "/halts", "HaltBlocks", "IsHaltExists"},
		{core.PkgState + "/commission", "Commission", "IsVoteExists"},
		{core.PkgState + "/update", "Update", "IsVoteExists"},
	}
	for _, t := range targets {
		nt := c.Named(t.pkg, t.typ)
		if nt == nil {
			c.Unk(rule, t.typ+"."+t.method, token.NoPos, "type not found")
			continue
		}
		fn := c.Method(nt, t.method)
		if fn == nil {
			c.Unk(rule, t.typ+"."+t.method, token.NoPos, "method not found")
			continue
		}
		key := t.typ + "." + t.method
		recv := fn.Params[0]
		exportedRecordField := func(y ssa.Value) bool {
			fa, ok := y.(*ssa.FieldAddr)
			if !ok || !token.IsExported(fieldNameOf(fa)) {
				return false
			}
			n := namedOf(fa.X.Type())
			return n != nil && n.Obj().Pkg() != nil && strings.HasSuffix(n.Obj().Pkg().Path(), t.pkg)
		}
		volatileLookup := func(y ssa.Value) bool {
			lk, ok := y.(*ssa.Lookup)
			if !ok {
				return false
			}
			x := lk.X
			if inner, ok := core.Unwrap(x).(*ssa.Lookup); ok {
				x = inner.X
			}
			ld, ok := core.Unwrap(x).(*ssa.UnOp)
			if !ok {
				return false
			}
			fa, ok := ld.X.(*ssa.FieldAddr)
			return ok && core.Unwrap(fa.X) == ssa.Value(recv) && !token.IsExported(fieldNameOf(fa))
		}
		positive, bad := false, ""
		for _, r := range core.Returns(fn) {
			if r.Block() == fn.Recover || len(r.Results) != 1 {
				continue
			}
			v := resolveRet(r, 0)
			if k, ok := core.Unwrap(v).(*ssa.Const); ok {
				if k.Value != nil && k.Value.String() == "true" {
					for _, g := range core.GatesBefore(r) {
						if core.DependsOn(g.If.Cond, exportedRecordField) {
							positive = true
						}
					}
				}
				continue
			}
			if core.DependsOn(v, volatileLookup) {
				bad = posOrEnd(c, r.Pos())
			} else if core.DependsOn(v, exportedRecordField) {
				positive = true
			}
		}
		c.Check(positive && bad == "", rule, key, fn.Pos(), "the duplicate test answers from the persisted vote list of the module's records",
			"the duplicate test does not answer from the persisted vote list (its result at "+bad+" is the outcome of a lookup in an in-memory map of the module, or no positive answer reads a record field): after a restart the map is empty and a validator can vote a second time — its power is counted twice in the tally")
	}
}
