package rules

import (
	"fmt"
	"go/token"
	"strings"

	"golang.org/x/tools/go/ssa"

	"verif/internal/core"
)

func init() {
	register(&RuleSet{
		Meta: core.PropertyMeta{
			ID: "C22",
			Explanation: "Decides the registry skeleton: (id) every live handler that creates a coin/token/pool token takes its id from App().GetNextCoinID(), passes exactly that id to Coins.Create*/Recreate*, and stores it back with App.SetCoinsCount(id) on every accepted path; GetNextCoinID is count+1 and nothing else moves the counter (so ids are fresh and never reused); " +
				"(who) Coins.Create/CreateToken/Recreate/RecreateToken are called only from those handlers, superseded handler versions and genesis import; (ticker) CreateCoin/CreateToken are dominated by `ExistsBySymbol(data.Symbol) ⇒ reject` and checkAllowSymbol, and register data.Symbol; Recreate*/EditCoinOwner/MintToken are dominated by the ticker-owner gate (C05.gates, repeated here); " +
				"(lp) pool tokens are created with a nil ticker owner and MintToken rejects coins without symbol info (and versions ≠ 0), so pool tokens are minted only by adding liquidity; (mint) MintToken's AddVolume is dominated by IsMintable and `Volume+Value > MaxSupply ⇒ reject`. " +
				"NOT decided: version numbering inside Coins.Recreate, symbol regexp semantics.",
			Assumptions: stdAssumptions,
			Rules:       []string{"C22.id", "C22.who", "C22.ticker", "C22.lp", "C22.mint", "C22.counter"},
		},
		Run: runC22,
	})
}

var creators = map[string]bool{"Create": true, "CreateToken": true, "Recreate": true, "RecreateToken": true}

func runC22(c *core.Ctx) {
	models := LiveModels(c, "C22.id")
	liveFn := map[*ssa.Function]*RunModel{}
	for _, m := range models {
		liveFn[m.Fn] = m
	}
	nID := 0
	for _, m := range models {
		var create, setCount *MutSite
		for _, mu := range m.Mutators {
			if mu.Module == "Coins" && creators[mu.Method] {
				create = mu
			}
			if mu.Module == "App" && mu.Method == "SetCoinsCount" {
				setCount = mu
			}
		}
		if create == nil {
			if setCount != nil {
				c.Bad("C22.id", m.H.TypeName+"/SetCoinsCount-without-create", setCount.Site.Pos(), "moves the coin counter without creating a coin")
			}
			continue
		}
		nID++
		name := m.H.TypeName
		idv := create.Site.Arg(0)
		idp := core.Path(idv)
		fresh := strings.HasSuffix(idp, ".App().GetNextCoinID()")
		c.Check(fresh, "C22.id", name+"/fresh-id", create.Site.Pos(), "the id handed to Coins."+create.Method+" is App().GetNextCoinID()", "the new coin's id is not App().GetNextCoinID(): "+idp)
		if setCount == nil {
			c.Bad("C22.id", name+"/counter-advanced", create.Site.Pos(), "creates a coin without App.SetCoinsCount: the next coin would reuse this id")
			continue
		}
		// SetCoinsCount(id.Uint32()) with the same id
		same := false
		if call, ok := core.Unwrap(setCount.Site.Arg(0)).(*ssa.Call); ok && strings.HasSuffix(core.CalleeName(core.NormCall(&call.Call)), "CoinID).Uint32") {
			same = core.SameValue(core.NormCall(&call.Call).Args[0], idv)
		}
		c.Check(same, "C22.id", name+"/counter-is-id", setCount.Site.Pos(), "App.SetCoinsCount(id.Uint32()) with the id just used", "the counter is set to something other than the id just used: "+core.Path(setCount.Site.Arg(0)))
		// must-pass: every OK return after create passes setCount
		reach := core.ReachFrom(create.Site.Block(), map[*ssa.BasicBlock]bool{setCount.Site.Block(): true})
		leak := false
		for _, r := range m.Returns {
			if r.Class == "ok" && reach[r.R.Block()] && create.Site.Block() != setCount.Site.Block() {
				leak = true
			}
		}
		if create.Site.Block() == setCount.Site.Block() && core.InstrIndex(setCount.Site.Instr) < core.InstrIndex(create.Site.Instr) {
			leak = false
		}
		c.Check(!leak, "C22.id", name+"/counter-on-every-accept", setCount.Site.Pos(), "every accepted path that creates the coin also advances the counter", "an accepted path creates the coin without advancing the counter")
	}
	c.Floor("C22.id", nID, 5, "coin-creating live handlers")

	// ---- who
	nw := 0
	for _, fn := range c.AllFns {
		if fn.Synthetic != "" {
			continue
		}
		for _, s := range core.Sites(fn) {
			isCreator := false
			for k := range creators {
				if s.MethodIs(core.PkgState+"/coins", "Coins", k) {
					isCreator = true
				}
			}
			isCount := s.MethodIs(core.PkgState+"/app", "App", "SetCoinsCount")
			if !isCreator && !isCount {
				continue
			}
			nw++
			fname := core.ShortFn(fn)
			what := methodName(s)
			switch {
			case liveFn[fn] != nil:
				c.OK("C22.who", fname+"/"+what, s.Pos(), "live creating handler (C22.id)")
			case fname == "(*coreV2/state.State).Import":
				c.OK("C22.who", fname+"/"+what, s.Pos(), "genesis import")
			case strings.HasPrefix(core.PkgOf(fn), core.PkgTx) && isDataRun(fn):
				c.OK("C22.who", fname+"/"+what, s.Pos(), "superseded handler version, unreachable from the live decoder")
			case core.PkgOf(fn) == core.PkgState+"/coins" || core.PkgOf(fn) == core.PkgState+"/app":
				c.OK("C22.who", fname+"/"+what, s.Pos(), "module-internal plumbing")
			default:
				c.Bad("C22.who", fname+"/"+what, s.Pos(), "coin creation / counter write outside the creating handlers and genesis import")
			}
		}
	}
	c.Floor("C22.who", nw, 12, "creator / counter call sites")

	// ---- counter
	if fn := c.MustFn("C22.counter", "(*coreV2/state/app.App).GetNextCoinID"); fn != nil {
		ok := false
		for _, o := range core.ResultOrigins(fn, 0) {
			if bin, isBin := core.Unwrap(o).(*ssa.BinOp); isBin && bin.Op == token.ADD {
				if k, isK := core.ConstInt(bin.Y); isK && k == 1 && strings.HasSuffix(core.Path(bin.X), ".GetCoinsCount()") {
					ok = true
				}
			}
		}
		c.Check(ok, "C22.counter", "App.GetNextCoinID", fn.Pos(), "next id = GetCoinsCount() + 1", "GetNextCoinID is no longer GetCoinsCount()+1")
	}

	// ---- ticker / lp / mint
	for _, m := range models {
		name := m.H.TypeName
		switch name {
		case "CreateCoinData", "CreateTokenData":
			var create *MutSite
			for _, mu := range m.Mutators {
				if mu.Module == "Coins" && creators[mu.Method] {
					create = mu
				}
			}
			if create == nil {
				c.Bad("C22.ticker", name, m.Fn.Pos(), "no longer creates a coin")
				continue
			}
			uniq, allowed := false, false
			for _, f := range c.FactsAt(create.Site.Instr, 4) {
				cf, ok := f.AsCall()
				if !ok || cf.Op != token.ILLEGAL {
					continue
				}
				if cf.MethodName() == "ExistsBySymbol" && !f.Truth && cf.ArgPath(0) == "data.Symbol" {
					uniq = true
				}
				if cf.MethodName() == "checkAllowSymbol" && f.Truth && strings.HasPrefix(cf.ArgPath(0), "data.Symbol") {
					allowed = true
				}
			}
			c.Check(uniq, "C22.ticker", name+"/unique", create.Site.Pos(), "creation dominated by `ExistsBySymbol(data.Symbol) ⇒ reject`", "a coin can be created with a ticker that is already active")
			c.Check(allowed, "C22.ticker", name+"/allowed-symbol", create.Site.Pos(), "creation dominated by checkAllowSymbol(data.Symbol)", "a coin can be created with a reserved/disallowed ticker")
			c.Check(core.Path(create.Site.Arg(1)) == "data.Symbol", "C22.ticker", name+"/registers-own-symbol", create.Site.Pos(), "the ticker registered is data.Symbol", "the ticker registered is not the one that was checked: "+core.Path(create.Site.Arg(1)))
		case "RecreateCoinData", "RecreateTokenData", "EditCoinOwnerData":
			ok := len(m.Mutators) > 0
			for _, mu := range m.Mutators {
				h, _ := gateHolds(m, "ticker:data.Symbol", c.FactsAt(mu.Site.Instr, 4))
				if !h {
					ok = false
				}
			}
			c.Check(ok, "C22.ticker", name+"/owner-only", m.Fn.Pos(), "every effect dominated by the ticker-owner gate on data.Symbol", "a ticker can be recreated / re-owned by someone who is not its owner")
		case "CreateSwapPoolData":
			for _, mu := range m.Mutators {
				if mu.Module == "Coins" && mu.Method == "CreateToken" {
					owner := mu.Site.Arg(7)
					k, isK := core.Unwrap(owner).(*ssa.Const)
					c.Check(isK && k.Value == nil, "C22.lp", name+"/nil-owner", mu.Site.Pos(), "the pool token is created without a ticker owner", "the pool token gets a ticker owner, who could then mint it outside AddLiquidity")
				}
			}
		case "MintTokenData":
			var add *MutSite
			for _, mu := range m.Mutators {
				if mu.Module == "Coins" && mu.Method == "AddVolume" {
					add = mu
				}
			}
			if add == nil {
				c.Bad("C22.mint", name, m.Fn.Pos(), "MintToken no longer adds volume")
				continue
			}
			var hasInfo, version0, mintable, supply bool
			for _, f := range c.FactsAt(add.Site.Instr, 4) {
				if bin, ok := f.Cond.(*ssa.BinOp); ok && bin.Op == token.EQL && !f.Truth {
					if k, isK := core.Unwrap(bin.Y).(*ssa.Const); isK && k.Value == nil && strings.Contains(f.Path(bin.X), "GetSymbolInfo(") {
						hasInfo = true
					}
				}
				cf, ok := f.AsCall()
				if !ok {
					continue
				}
				switch {
				case cf.MethodName() == "Version" && cf.Op == token.NEQ && cf.Const == 0 && !f.Truth:
					version0 = true
				case cf.MethodName() == "IsMintable" && f.Truth && strings.HasSuffix(cf.RecvPath(), ".GetCoin(data.Coin)"):
					mintable = true
				case cf.MethodName() == "Cmp" && cf.Op == token.EQL && cf.Const == 1 && !f.Truth && strings.Contains(cf.RecvPath(), ".Volume(),data.Value)") && strings.HasSuffix(cf.ArgPath(0), ".MaxSupply()"):
					supply = true
				}
			}
			c.Check(hasInfo && version0, "C22.lp", name+"/needs-symbol-info", add.Site.Pos(), "minting is dominated by `GetSymbolInfo(…) == nil ⇒ reject` and `Version() != 0 ⇒ reject`: coins without a ticker owner (pool tokens) cannot be minted", "MintToken accepts coins without symbol info or archived versions")
			c.Check(mintable, "C22.mint", name+"/mintable", add.Site.Pos(), "dominated by GetCoin(data.Coin).IsMintable()", "a non-mintable token can be minted")
			c.Check(supply, "C22.mint", name+"/max-supply", add.Site.Pos(), "dominated by `Volume()+data.Value > MaxSupply() ⇒ reject`", "minting is not bounded by the max supply")
			c.Check(core.Path(add.Site.Arg(0)) == "data.Coin" && core.Path(add.Site.Arg(1)) == "data.Value", "C22.mint", name+"/adds-what-was-checked", add.Site.Pos(), "AddVolume(data.Coin, data.Value)", fmt.Sprintf("AddVolume(%s, %s) differs from the checked coin/value", core.Path(add.Site.Arg(0)), core.Path(add.Site.Arg(1))))
		}
	}
	c.Floor("C22.ticker", c.Count("C22.ticker"), 9, "ticker obligations")
	c.Floor("C22.lp", c.Count("C22.lp"), 2, "pool-token obligations")
	c.Floor("C22.mint", c.Count("C22.mint"), 3, "mint obligations")
}
