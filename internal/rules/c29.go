package rules

import (
	"fmt"
	"go/token"
	"sort"
	"strings"

	"golang.org/x/tools/go/ssa"

	"verif/internal/core"
)

func init() {
	register(&RuleSet{
		Meta: core.PropertyMeta{
			ID: "C29",
			Explanation: "Decides the record-set and synchronisation skeleton of state-sync: (records) the set of constant keys the AppDB ever reads or writes = the list Snapshot exports = the case list Restore accepts (a record missing from either side makes a restored node differ from a replaying one); " +
				"(wg) every AppDB store write outside Restore waits on the snapshot WaitGroup first, Snapshot performs all its store reads before releasing the WaitGroup, releases it on every return path, and Commit adds to the WaitGroup before spawning the snapshot goroutine — so a snapshot at height h sees exactly the records of h on every node; " +
				"(nocache) every AppDB loader caches only non-empty reads, so records written behind the caches by Restore on a fresh node are seen afterwards; (dirty) C09.dirty, because a restarted producer with a stale emission record would snapshot different contents. " +
				"NOT decided: IAVL export/import, chunking/compression, behaviour of later blocks.",
			Assumptions: stdAssumptions,
			Rules:       []string{"C29.records", "C29.wg", "C29.nocache", "C29.dirty", "C29.fromdisk", "C29.fallback", "C29.leaf", "C29.rebuild"},
		},
		Run: runC29,
	})
}

func runC29(c *core.Ctx) {
	defer checkLeafValues(c, "C29.leaf")
	f := loadAppDB(c)
	defer checkRebuildAfterRestore(c, "C29.rebuild", f)
	if f == nil {
		c.Unk("C29.records", "appdb.AppDB", token.NoPos, "type not found")
		return
	}
	snap := c.MustFn("C29.records", "(*coreV2/appdb.AppDB).Snapshot")
	rest := c.MustFn("C29.records", "(*coreV2/appdb.AppDB).Restore")
	if snap == nil || rest == nil {
		return
	}
	used := map[string]bool{}
	for _, a := range f.Accesses {
		if a.Key != "" {
			used[a.Key] = true
		}
	}
	// Snapshot: constants stored into the slice literal that the read loop ranges over
	snapKeys := map[string]bool{}
	var snapBlocks []*ssa.BasicBlock
	for _, g := range append([]*ssa.Function{snap}, c.Helpers(snap)...) {
		snapBlocks = append(snapBlocks, g.Blocks...)
	}
	for _, b := range snapBlocks {
		for _, in := range b.Instrs {
			st, ok := in.(*ssa.Store)
			if !ok {
				continue
			}
			if _, ok := st.Addr.(*ssa.IndexAddr); !ok {
				continue
			}
			if s, ok := constString(st.Val); ok {
				snapKeys[s] = true
			}
		}
	}
	// Restore: constants compared with item.Store.Name on the path to db.Set
	restKeys := map[string]bool{}
	var restSet *core.Site
	for _, a := range f.Accesses {
		if a.Fn == rest && a.Write {
			restSet = a.Site
		}
	}
	if restSet == nil {
		c.Unk("C29.records", "Restore/db.Set", rest.Pos(), "Restore no longer writes records to the store")
	} else {
		reachSet := map[*ssa.BasicBlock]bool{}
		for _, b := range rest.Blocks {
			if core.ReachFrom(b, nil)[restSet.Block()] {
				reachSet[b] = true
			}
		}
		for _, b := range rest.Blocks {
			iff := core.IfOf(b)
			if iff == nil {
				continue
			}
			bin, ok := iff.Cond.(*ssa.BinOp)
			if !ok || bin.Op != token.EQL {
				continue
			}
			s, ok := constString(bin.Y)
			other := bin.X
			if !ok {
				s, ok = constString(bin.X)
				other = bin.Y
			}
			if !ok || !strings.HasSuffix(core.Path(other), ".Name") {
				continue
			}
			// true edge must lead to the db.Set without passing another name test first
			t := b.Succs[0]
			if t == restSet.Block() || (core.IfOf(t) == nil && core.ReachFrom(t, nil)[restSet.Block()] && len(t.Instrs) <= 2) {
				restKeys[s] = true
			}
		}
		// the key written is the item's own name
		c.Check(strings.HasSuffix(core.Path(restSet.Arg(0)), ".Name"), "C29.records", "Restore/key-is-item-name", restSet.Pos(), "Restore writes each record under its own name", "Restore writes records under something other than the item's name")
	}
	all := map[string]bool{}
	for k := range used {
		all[k] = true
	}
	for k := range snapKeys {
		all[k] = true
	}
	for k := range restKeys {
		all[k] = true
	}
	var keys []string
	for k := range all {
		keys = append(keys, k)
	}
	sort.Strings(keys)
	for _, k := range keys {
		ok := used[k] && snapKeys[k] && restKeys[k]
		c.Check(ok, "C29.records", "record:"+k, snap.Pos(),
			"record is used by the AppDB, exported by Snapshot and accepted by Restore",
			fmt.Sprintf("record %q: used by AppDB=%v, exported by Snapshot=%v, accepted by Restore=%v — a state-synced node would miss (or choke on) it", k, used[k], snapKeys[k], restKeys[k]))
	}
	c.Floor("C29.records", len(keys), 8, "AppDB records")

	// ---- wg
	nW := 0
	for _, a := range f.Accesses {
		if !a.Write || a.Fn == rest {
			continue
		}
		nW++
		waited := false
		for _, s := range core.Sites(a.Fn) {
			if s.Callee == "(*sync.WaitGroup).Wait" && strings.HasSuffix(core.Path(s.Recv()), ".WG") && core.Dominates(s.Instr, a.Site.Instr) {
				waited = true
			}
		}
		// the write is done by a helper that is handed the key: the helper may wait itself
		if a.Raw != nil {
			for _, s := range core.Sites(a.Raw.Fn) {
				if s.Callee == "(*sync.WaitGroup).Wait" && strings.HasSuffix(core.Path(s.Recv()), ".WG") && core.Dominates(s.Instr, a.Raw.Instr) {
					waited = true
				}
			}
		}
		c.Check(waited, "C29.wg", "write:"+a.Fn.Name()+"/"+a.Key, a.Site.Pos(), "store write is preceded by WG.Wait()", "AppDB store write without waiting for a running snapshot: the snapshot of height h could contain records of h+1")
	}
	c.Floor("C29.wg", nW, 7, "AppDB store writes outside Restore")
	// Snapshot: reads before Done; Done on every return path
	var dones []*core.Site
	for _, s := range core.Sites(snap) {
		if s.Callee == "(*sync.WaitGroup).Done" && strings.HasSuffix(core.Path(s.Recv()), ".WG") {
			dones = append(dones, s)
		}
	}
	if len(dones) == 0 {
		c.Bad("C29.wg", "Snapshot/Done", snap.Pos(), "Snapshot never releases the WaitGroup: every later AppDB write would block forever")
	} else {
		readAfter := false
		for _, a := range f.Accesses {
			if a.Write {
				continue
			}
			// a read done by a helper of Snapshot happens where the helper is called
			at := a.Site
			if a.Fn != snap {
				at = nil
				if c.GroupRoot(a.Fn) == snap {
					for _, hs := range core.Sites(snap) {
						if hs.Common.StaticCallee() == a.Fn {
							at = hs
						}
					}
				}
			}
			if at == nil {
				continue
			}
			for _, d := range dones {
				if core.ReachFrom(d.Block(), nil)[at.Block()] && !(d.Block() == at.Block() && core.InstrIndex(at.Instr) < core.InstrIndex(d.Instr) && !selfLoop(d.Block())) {
					readAfter = true
				}
			}
		}
		c.Check(!readAfter, "C29.wg", "Snapshot/reads≺Done", dones[0].Pos(), "all record reads happen before the WaitGroup is released", "Snapshot reads a record after releasing the WaitGroup: a concurrent Commit may already have overwritten it")
		avoid := map[*ssa.BasicBlock]bool{}
		for _, d := range dones {
			avoid[d.Block()] = true
		}
		reach := core.ReachFrom(snap.Blocks[0], avoid)
		leak := false
		for _, r := range core.Returns(snap) {
			if reach[r.Block()] {
				leak = true
			}
		}
		c.Check(!leak, "C29.wg", "Snapshot/Done-on-every-return", snap.Pos(), "every return path of Snapshot releases the WaitGroup", "a return path of Snapshot does not release the WaitGroup")
		// the goroutine inside Snapshot must not read appDB records
		for _, an := range snap.AnonFuncs {
			for _, a := range f.Accesses {
				if a.Fn == an {
					c.Bad("C29.wg", "Snapshot/goroutine-read", a.Site.Pos(), "the chunk-writer goroutine reads an AppDB record after the WaitGroup was released")
				}
			}
		}
	}
	commit := c.Fn("(*coreV2/minter.Blockchain).Commit")
	if commit != nil {
		var add *core.Site
		var goSnap ssa.Instruction
		for _, s := range core.Sites(commit) {
			if s.Callee == "(*sync.WaitGroup).Add" && strings.HasSuffix(core.Path(s.Recv()), ".WG") {
				add = s
			}
			if _, isGo := s.Instr.(*ssa.Go); isGo && strings.HasSuffix(s.Callee, ".snapshot") {
				goSnap = s.Instr
			}
		}
		c.Check(add != nil && goSnap != nil && core.Dominates(add.Instr, goSnap), "C29.wg", "Commit/Add≺go-snapshot", commit.Pos(), "Commit raises the WaitGroup before spawning the snapshot goroutine", "the snapshot goroutine is spawned without first raising the WaitGroup: the next block's writes can race with the snapshot's reads")
	}

	// ---- nocache
	nL := 0
	for _, af := range analyseAppFields(c, f) {
		for fn, in := range loaderStores(c, f, af.Name) {
			nL++
			gated := false
			for _, g := range core.GatesBefore(in) {
				if isLenTest(g) {
					gated = true
				}
			}
			c.Check(gated, "C29.nocache", "loader:"+fn.Name()+"/"+af.Name, in.Pos(), "the cache is filled only from a non-empty read", "loader caches the result of an EMPTY read: a record restored behind the cache by state-sync would never be seen")
		}
	}
	c.Floor("C29.nocache", nL, 5, "AppDB loader stores")

	// ---- fromdisk: what a snapshot contains is what was committed — Snapshot (and what it calls
	// inside the appdb package) reads the records with db.Get and never through the in-memory
	// caches, which already hold the NEXT block's values between EndBlock and Commit
	fields := analyseAppFields(c, f)
	isData := map[string]bool{}
	for _, af := range fields {
		isData[af.Name] = true
	}
	pkgReach := func(root *ssa.Function) map[*ssa.Function]bool {
		seen := map[*ssa.Function]bool{}
		var walk func(fn *ssa.Function, d int)
		walk = func(fn *ssa.Function, d int) {
			if fn == nil || seen[fn] || d > 4 || fn.Blocks == nil || core.PkgOf(fn) != "coreV2/appdb" {
				return
			}
			seen[fn] = true
			for _, a := range fn.AnonFuncs {
				walk(a, d+1)
			}
			for _, s2 := range core.Sites(fn) {
				walk(s2.Common.StaticCallee(), d+1)
			}
		}
		walk(root, 0)
		return seen
	}
	nFD := 0
	for fn := range pkgReach(snap) {
		for _, b := range fn.Blocks {
			for _, in := range b.Instrs {
				fa, ok := in.(*ssa.FieldAddr)
				if !ok || !isAppDBPtr(fa.X.Type()) || !isData[fieldNameOf(fa)] {
					continue
				}
				if fieldNameOf(fa) == "lastHeight" {
					// write-through field (SetLastHeight stores and caches in one call, at Commit);
					// Snapshot uses it only to refuse a height that is not the committed one
					continue
				}
				nFD++
				c.Bad("C29.fromdisk", "Snapshot→"+fn.Name()+"/"+fieldNameOf(fa), fa.Pos(), "the snapshot reads the in-memory cache field "+fieldNameOf(fa)+" (through "+core.ShortFn(fn)+") instead of the committed record: between EndBlock and Commit the cache already holds the next block's value, so two nodes snapshot different contents for the same height")
			}
		}
	}
	if nFD == 0 {
		c.OK("C29.fromdisk", "Snapshot", snap.Pos(), fmt.Sprintf("Snapshot and the %d appdb functions it reaches read no cached record field", len(pkgReach(snap))))
	}
	// ---- fallback: a getter of a cached record consults the store when the cache is empty, so that
	// a record written behind the cache by Restore (state sync on a fresh node) is seen
	nFB := 0
	for _, af := range fields {
		loaders := map[*ssa.Function]bool{}
		for _, l := range af.Loaders {
			loaders[l.Fn] = true
		}
		if len(loaders) == 0 {
			continue
		}
		for _, g := range f.Methods {
			if g.Object() == nil || !g.Object().Exported() || g.Signature.Results().Len() == 0 || saversOrMutators(g, af) {
				continue
			}
			// does a result depend on the cached field?
			dep := false
			for i := 0; i < g.Signature.Results().Len(); i++ {
				for _, o := range core.ResultOrigins(g, i) {
					if core.DependsOn(o, func(v ssa.Value) bool {
						fa, ok := v.(*ssa.FieldAddr)
						return ok && isAppDBPtr(fa.X.Type()) && fieldNameOf(fa) == af.Name
					}) {
						dep = true
					}
				}
			}
			if !dep {
				continue
			}
			nFB++
			reaches := false
			for fn := range pkgReach(g) {
				if loaders[fn] {
					reaches = true
				}
			}
			c.Check(reaches, "C29.fallback", g.Name()+"/"+af.Name, g.Pos(), "the getter falls back to the stored record when the cache is empty", g.Name()+" returns the cached "+af.Name+" without ever consulting the store: after a state-sync restore (which writes the records behind the caches) the node keeps the empty value until it is restarted")
		}
	}
	c.Floor("C29.fallback", nFB, 4, "getters of cached app-DB records")

	// ---- dirty (shared with C09)
	flags := f.flagFields()
	n := 0
	for _, af := range fields {
		saverFns := map[*ssa.Function]bool{}
		for _, s := range af.Savers {
			saverFns[s.Fn] = true
		}
		for _, s := range af.Savers {
			for _, g := range core.GatesBefore(s.Site.Instr) {
				for _, fl := range flags {
					if !dependsOnAppField(g.If.Cond, fl) {
						continue
					}
					for m, in := range af.Mutators {
						if saverFns[m] {
							continue
						}
						n++
						key := fmt.Sprintf("AppDB.%s/saver:%s/guard:%s/mutator:%s", af.Name, s.Fn.Name(), fl, m.Name())
						c.Check(setsFlag(m, fl), "C29.dirty", key, in.Pos(), m.Name()+" sets "+fl, fmt.Sprintf("%s skips the write unless %s is set but %s does not set it: a restarted snapshot producer exports a stale %s record", s.Fn.Name(), fl, m.Name(), af.Name))
					}
				}
			}
		}
	}
	c.Floor("C29.dirty", n, 3, "guarded saver / mutator pairs")
}

func setsFlag(m *ssa.Function, flag string) bool {
	for _, b := range m.Blocks {
		for _, in := range b.Instrs {
			st, ok := in.(*ssa.Store)
			if !ok {
				continue
			}
			fa, ok := st.Addr.(*ssa.FieldAddr)
			if !ok || fieldNameOf(fa) != flag || !isAppDBPtr(fa.X.Type()) {
				continue
			}
			if k, ok := core.Unwrap(st.Val).(*ssa.Const); ok && k.Value != nil && k.Value.String() == "true" {
				return true
			}
		}
	}
	return false
}

// isLenTest: gate condition `len(x) != 0` passing on true, or `len(x) == 0` passing on false.
func isLenTest(g core.Gate) bool {
	bin, ok := g.If.Cond.(*ssa.BinOp)
	if !ok {
		return false
	}
	k, okK := core.ConstInt(bin.Y)
	call, okC := core.Unwrap(bin.X).(*ssa.Call)
	if !okK || !okC || k != 0 {
		return false
	}
	if b, ok := call.Call.Value.(*ssa.Builtin); !ok || b.Name() != "len" {
		return false
	}
	return (bin.Op == token.NEQ && g.PassTrue) || (bin.Op == token.EQL && !g.PassTrue) || (bin.Op == token.GTR && g.PassTrue)
}

// loaderStores returns, per function, the instruction that fills field `d` from a store read.
func loaderStores(c *core.Ctx, f *appDBFacts, d string) map[*ssa.Function]ssa.Instruction {
	out := map[*ssa.Function]ssa.Instruction{}
	for _, fn := range f.Methods {
		var gets []*dbAccess
		for _, a := range f.Accesses {
			if a.Fn == fn && !a.Write {
				gets = append(gets, a)
			}
		}
		if len(gets) == 0 {
			continue
		}
		// the read and the fill are both done by a helper that is handed the key and the cell:
		// loadUint64(&appDB.startHeight, startHeightPath) — the fill is the helper's store
		// through that parameter
		for _, g := range gets {
			h := g.Site.Common.StaticCallee()
			if g.Site.Common.IsInvoke() || h == nil {
				continue
			}
			for j, a := range g.Site.Common.Args {
				if fa, ok := core.Unwrap(a).(*ssa.FieldAddr); ok && fieldNameOf(fa) == d && isAppDBPtr(fa.X.Type()) && j < len(h.Params) {
					if in := f.fillThroughParam(h, h.Params[j], 0); in != nil {
						out[fn] = in
					}
				}
			}
		}
		for _, b := range fn.Blocks {
			for _, in := range b.Instrs {
				var addr, val ssa.Value
				switch x := in.(type) {
				case *ssa.Store:
					addr, val = x.Addr, x.Val
				case *ssa.Call:
					n := core.CalleeName(core.NormCall(&x.Call))
					if strings.HasPrefix(n, "sync/atomic.Store") && len(core.NormCall(&x.Call).Args) == 2 {
						addr, val = core.NormCall(&x.Call).Args[0], core.NormCall(&x.Call).Args[1]
					} else if len(core.NormCall(&x.Call).Args) >= 2 && (strings.HasSuffix(n, ".Unmarshal") || strings.HasSuffix(n, ".DecodeBytes")) {
						addr, val = core.Unwrap(core.NormCall(&x.Call).Args[1]), core.NormCall(&x.Call).Args[0]
						if _, isFA := addr.(*ssa.FieldAddr); !isFA {
							// DecodeBytes(result, appDB.price): the pointer loaded from the field
							if dependsOnAppField(core.NormCall(&x.Call).Args[1], d) {
								for _, g := range gets {
									gv := g.Site.Value()
									if gv != nil && core.DependsOn(val, func(v ssa.Value) bool { return v == gv }) {
										out[fn] = in
									}
								}
							}
							continue
						}
					}
				}
				fa, ok := addr.(*ssa.FieldAddr)
				if !ok || fieldNameOf(fa) != d || !isAppDBPtr(fa.X.Type()) {
					continue
				}
				for _, g := range gets {
					gv := g.Site.Value()
					if gv != nil && core.DependsOn(val, func(v ssa.Value) bool { return v == gv }) {
						out[fn] = in
					}
				}
			}
		}
	}
	return out
}

// fillThroughParam: the instruction of helper h (or of a helper it hands the cell on to) that
// stores what a store read returned through the pointer parameter p.
func (f *appDBFacts) fillThroughParam(h *ssa.Function, p *ssa.Parameter, depth int) ssa.Instruction {
	if h.Blocks == nil || depth > 2 {
		return nil
	}
	for _, b := range h.Blocks {
		for _, in := range b.Instrs {
			var addr, val ssa.Value
			switch x := in.(type) {
			case *ssa.Store:
				addr, val = x.Addr, x.Val
			case *ssa.Call:
				n := core.CalleeName(core.NormCall(&x.Call))
				switch {
				case strings.HasPrefix(n, "sync/atomic.Store") && len(core.NormCall(&x.Call).Args) == 2:
					addr, val = core.NormCall(&x.Call).Args[0], core.NormCall(&x.Call).Args[1]
				case len(core.NormCall(&x.Call).Args) >= 2 && (strings.HasSuffix(n, ".Unmarshal") || strings.HasSuffix(n, ".DecodeBytes")):
					addr, val = core.NormCall(&x.Call).Args[1], core.NormCall(&x.Call).Args[0]
				default:
					if g := x.Call.StaticCallee(); g != nil && core.PkgOf(g) == pkgAppDB {
						for j, a := range core.NormCall(&x.Call).Args {
							if core.Unwrap(a) == ssa.Value(p) && j < len(g.Params) {
								if r := f.fillThroughParam(g, g.Params[j], depth+1); r != nil {
									return r
								}
							}
						}
					}
				}
			}
			if addr == nil || core.Unwrap(addr) != ssa.Value(p) {
				continue
			}
			if core.DependsOn(val, func(v ssa.Value) bool { return f.getLike(v, 0) }) {
				return in
			}
		}
	}
	return nil
}

// saversOrMutators: g assigns the field (a setter / loader-only helper), so it is not a getter.
func saversOrMutators(g *ssa.Function, af *appField) bool {
	_, isMut := af.Mutators[g]
	return isMut && g.Signature.Results().Len() == 0
}

// ---------------------------------------------------------------- C29.leaf

// checkLeafValues — a snapshot travels as protobuf, which cannot tell an empty byte string from an
// absent one, and iavl's importer refuses a leaf whose value is nil ("value cannot be nil for leaf
// node") — yet the state tree does hold leaves with empty values (a validator's accumulated
// reward right after a pay-out), so a node built for Importer.Add must get a non-nil Key, and a
// non-nil Value unless it is an inner node. Decided per path from the construction of the
// ExportNode to the Add call (or to the return of the helper that builds it): the value last
// stored in the field is a literal / freshly made slice, or one the path compared with nil, or
// the path established Height != 0. `append(nil, v...)` of an empty v is nil again.
func checkLeafValues(c *core.Ctx, rule string) {
	t := c.Named(pkgAppDB, "AppDB")
	if t == nil {
		c.Unk(rule, "appdb.AppDB", token.NoPos, "type not found")
		return
	}
	restore := c.Method(t, "Restore")
	if restore == nil {
		c.Unk(rule, "AppDB.Restore", token.NoPos, "Restore not found")
		return
	}
	// the node is built by a helper and returned as result #index of the call
	builtBy := func(call *ssa.Call, index int, key string, s *core.Site) {
		if call == nil || call.Call.StaticCallee() == nil || call.Call.StaticCallee().Blocks == nil {
			c.Unk(rule, key, s.Pos(), "the node handed to the importer is built by code the rule cannot follow")
			return
		}
		h := call.Call.StaticCallee()
		bad, found := "", false
		for _, r := range core.Returns(h) {
			if index >= len(r.Results) {
				continue
			}
			if al, ok := core.Unwrap(r.Results[index]).(*ssa.Alloc); ok {
				found = true
				if b := leafPaths(al, r, r.Block(), true); b != "" && bad == "" {
					bad = b
				}
			}
		}
		if !found {
			c.Unk(rule, key, s.Pos(), "the helper "+h.Name()+" does not build the node in a recognised way")
			return
		}
		c.Check(bad == "", rule, key, s.Pos(), "every node built by "+h.Name()+" has a non-nil key and, unless it is an inner node, a non-nil value", "a node built by "+h.Name()+" can reach Importer.Add "+bad+": iavl rejects it and the restore of a snapshot that contains an empty-valued leaf aborts half way (height and hash already written)")
	}
	n := 0
	for _, s := range core.Sites(restore) {
		if !s.Common.IsInvoke() && s.Common.StaticCallee() == nil {
			continue
		}
		if methodName(s) != "Add" || !strings.Contains(s.Common.Signature().String(), "ExportNode") {
			continue
		}
		node := s.Arg(0)
		if s.Common.IsInvoke() {
			node = s.Common.Args[0]
		}
		n++
		key := fmt.Sprintf("Restore/Importer.Add#%d", n)
		switch x := core.Unwrap(node).(type) {
		case *ssa.Alloc:
			bad := leafPaths(x, s.Instr, s.Block(), false)
			c.Check(bad == "", rule, key, s.Pos(), "every node handed to the importer has a non-nil key and, unless it is an inner node, a non-nil value", "a node can reach Importer.Add "+bad+": iavl rejects it and the restore of a snapshot that contains an empty-valued leaf aborts half way (height and hash already written)")
		case *ssa.Extract:
			call, _ := x.Tuple.(*ssa.Call)
			builtBy(call, x.Index, key, s)
		case *ssa.Call:
			builtBy(x, 0, key, s)
		default:
			c.Unk(rule, key, s.Pos(), "the node handed to the importer is not a freshly built ExportNode")
		}
	}
	c.Floor(rule, n, 1, "Importer.Add calls in Restore")
}

// leafPaths walks every acyclic path from the allocation of the node to the target instruction
// and returns a description of the first path on which Key, or Value of a possible leaf, may be nil.
func leafPaths(al *ssa.Alloc, target ssa.Instruction, tb *ssa.BasicBlock, fromEntry bool) string {
	from := al.Block()
	if fromEntry {
		from = al.Parent().Blocks[0]
	}
	can := map[*ssa.BasicBlock]bool{}
	for _, b := range from.Parent().Blocks {
		if b == tb || core.ReachFrom(b, nil)[tb] {
			can[b] = true
		}
	}
	bad := ""
	count := 0
	type state struct {
		cur     map[string]ssa.Value
		alias   map[ssa.Value]ssa.Value
		nonnil  map[ssa.Value]bool
		nonzero []ssa.Value
	}
	clone := func(s state) state {
		n := state{cur: map[string]ssa.Value{}, alias: map[ssa.Value]ssa.Value{}, nonnil: map[ssa.Value]bool{}, nonzero: append([]ssa.Value{}, s.nonzero...)}
		for k, v := range s.cur {
			n.cur[k] = v
		}
		for k, v := range s.alias {
			n.alias[k] = v
		}
		for k, v := range s.nonnil {
			n.nonnil[k] = v
		}
		return n
	}
	var definitelyNonNil func(v ssa.Value, st state, d int) bool
	definitelyNonNil = func(v ssa.Value, st state, d int) bool {
		if v == nil || d > 6 {
			return false
		}
		if a, ok := st.alias[v]; ok {
			v = a
		}
		if st.nonnil[v] {
			return true
		}
		switch x := v.(type) {
		case *ssa.Slice:
			if _, ok := x.X.(*ssa.Alloc); ok {
				return true
			}
			return definitelyNonNil(x.X, st, d+1) && x.Low == nil
		case *ssa.MakeSlice:
			return true
		case *ssa.Call:
			if b, ok := x.Call.Value.(*ssa.Builtin); ok && b.Name() == "append" {
				return definitelyNonNil(core.NormCall(&x.Call).Args[0], st, d+1)
			}
		case *ssa.Phi:
			for _, e := range x.Edges {
				if !definitelyNonNil(e, st, d+1) {
					return false
				}
			}
			return len(x.Edges) > 0
		case *ssa.ChangeType:
			return definitelyNonNil(x.X, st, d+1)
		}
		return false
	}
	onPath := map[*ssa.BasicBlock]bool{}
	var dfs func(b *ssa.BasicBlock, st state, started bool)
	dfs = func(b *ssa.BasicBlock, st state, started bool) {
		if bad != "" || count > 4096 {
			return
		}
		onPath[b] = true
		defer func() { onPath[b] = false }()
		for _, in := range b.Instrs {
			if in == ssa.Instruction(al) {
				started = true
			}
			if !started {
				continue
			}
			if in == target {
				count++
				if !definitelyNonNil(st.cur["Key"], st, 0) {
					bad = "with a nil Key"
				} else if !heightNonZero(st.cur["Height"], st.nonzero) && !definitelyNonNil(st.cur["Value"], st, 0) {
					bad = "as a leaf (Height 0 not excluded) with a nil Value"
				}
				return
			}
			switch x := in.(type) {
			case *ssa.Store:
				if fa, ok := x.Addr.(*ssa.FieldAddr); ok && fa.X == ssa.Value(al) {
					st.cur[fieldNameOf(fa)] = x.Val
				}
			case *ssa.UnOp:
				if fa, ok := x.X.(*ssa.FieldAddr); ok && x.Op == token.MUL && fa.X == ssa.Value(al) {
					if v, ok := st.cur[fieldNameOf(fa)]; ok {
						st.alias[x] = v
					}
				}
			}
		}
		iff := core.IfOf(b)
		for i, s := range b.Succs {
			if !can[s] || onPath[s] {
				continue
			}
			ns := clone(st)
			if iff != nil {
				taken := i == 0
				if bin, ok := iff.Cond.(*ssa.BinOp); ok && (bin.Op == token.EQL || bin.Op == token.NEQ) {
					isEq := (bin.Op == token.EQL) == taken
					l, r := bin.X, bin.Y
					if k, ok := l.(*ssa.Const); ok && (k.IsNil() || k.Value != nil) {
						l, r = r, l
					}
					if k, ok := r.(*ssa.Const); ok {
						if a, ok := ns.alias[l]; ok {
							l = a
						}
						if k.IsNil() && !isEq {
							ns.nonnil[l] = true
						}
						if kk, ok := core.ConstInt(k); ok && kk == 0 && !isEq {
							ns.nonzero = append(ns.nonzero, l)
						}
					}
				}
			}
			for _, in := range s.Instrs {
				ph, ok := in.(*ssa.Phi)
				if !ok {
					break
				}
				for k, pred := range s.Preds {
					if pred == b && k < len(ph.Edges) {
						e := ph.Edges[k]
						if a, ok := ns.alias[e]; ok {
							e = a
						}
						ns.alias[ph] = e
					}
				}
			}
			dfs(s, ns, started)
		}
	}
	dfs(from, state{cur: map[string]ssa.Value{}, alias: map[ssa.Value]ssa.Value{}, nonnil: map[ssa.Value]bool{}}, false)
	_ = fromEntry
	if count == 0 && bad == "" {
		return "on a path the rule could not enumerate"
	}
	return bad
}

// heightNonZero: the value stored as the node's Height (or what it was converted from) is one the
// path compared with 0 and found different.
func heightNonZero(h ssa.Value, nonzero []ssa.Value) bool {
	if h == nil {
		return false
	}
	for _, v := range nonzero {
		if core.Unwrap(h) == core.Unwrap(v) || core.SamePath(h, v) || core.SamePath(core.Unwrap(h), v) {
			return true
		}
	}
	return false
}

// checkRebuildAfterRestore — C29.rebuild. A node that joins by state sync constructs its Blockchain
// object on an EMPTY app DB; the snapshot is restored afterwards and only initState() (called from
// the first BeginBlock) runs again. A field of Blockchain whose value comes from a record of the
// app DB must therefore be assigned in initState (or in a helper only it calls): assigned in the
// constructor alone it keeps, on the synced node, the value of the empty DB — e.g. height 0, so
// that every transaction of the first block is executed "at block 1" on that node only.
func checkRebuildAfterRestore(c *core.Ctx, rule string, f *appDBFacts) {
	bt := c.Named("coreV2/minter", "Blockchain")
	ctor := c.Fn("coreV2/minter.NewMinterBlockchain")
	init := c.Fn("(*coreV2/minter.Blockchain).initState")
	if bt == nil || ctor == nil || init == nil || f == nil {
		c.Unk(rule, "shape", token.NoPos, "Blockchain / NewMinterBlockchain / initState not found")
		return
	}
	// AppDB methods that read a record
	readers := map[*ssa.Function]bool{}
	for _, a := range f.Accesses {
		if !a.Write {
			readers[a.Fn] = true
		}
	}
	for round := 0; round < 2; round++ {
		for _, m := range f.Methods {
			for _, s := range core.Sites(m) {
				if h := s.Common.StaticCallee(); h != nil && readers[h] {
					readers[m] = true
				}
			}
		}
	}
	fromRecord := func(v ssa.Value) string {
		name := ""
		core.DependsOn(v, func(x ssa.Value) bool {
			if call, ok := x.(*ssa.Call); ok {
				if h := call.Call.StaticCallee(); h != nil && readers[h] {
					name = h.Name()
				}
			}
			return false
		})
		return name
	}
	inInit := map[string]bool{}
	for _, g := range append([]*ssa.Function{init}, c.Helpers(init)...) {
		for _, b := range g.Blocks {
			for _, in := range b.Instrs {
				var addr ssa.Value
				switch x := in.(type) {
				case *ssa.Store:
					addr = x.Addr
				case *ssa.Call:
					if n := core.CalleeName(&x.Call); strings.HasPrefix(n, "sync/atomic.Store") && len(x.Call.Args) == 2 {
						addr = x.Call.Args[0]
					}
				}
				if fa, ok := addr.(*ssa.FieldAddr); ok && namedOf(fa.X.Type()) == bt {
					inInit[fieldNameOf(fa)] = true
				}
			}
		}
	}
	n := 0
	seenInit := 0
	for fld := range inInit {
		_ = fld
		seenInit++
	}
	for _, g := range append([]*ssa.Function{ctor}, c.Helpers(ctor)...) {
		for _, b := range g.Blocks {
			for _, in := range b.Instrs {
				st, ok := in.(*ssa.Store)
				if !ok {
					continue
				}
				fa, ok := st.Addr.(*ssa.FieldAddr)
				if !ok || namedOf(fa.X.Type()) != bt {
					continue
				}
				n++
				rec := fromRecord(st.Val)
				if rec == "" {
					continue
				}
				fld := fieldNameOf(fa)
				c.Check(inInit[fld], rule, "Blockchain."+fld, st.Pos(), "taken from the app DB ("+rec+") in the constructor and assigned again by initState",
					"Blockchain."+fld+" is read from the app DB ("+rec+") in the constructor only: a node that restores a snapshot afterwards keeps the value of the empty DB — initState, the only thing that runs again, does not assign it")
			}
		}
	}
	c.Floor(rule, n, 12, "fields assigned by the Blockchain constructor")
	c.Floor(rule, seenInit, 3, "fields assigned by initState")
}
