package rules

import (
	"fmt"
	"go/token"
	"go/types"
	"strings"

	"golang.org/x/tools/go/ssa"

	"verif/internal/core"
)

func init() {
	register(&RuleSet{
		Meta: core.PropertyMeta{
			ID: "C16",
			Explanation: "Decides the schedule gates of staked coins: (due) every site that freezes funds (FrozenFunds.AddFund / bus AddFrozenFund) computes its release height as `block + GetUnbondPeriod()` (unbond, candidate removal, byzantine unbond), `currentBlock + GetMovePeriod()` (MoveStake) or the user's DueBlock gated `> currentBlock` (Lock), and only MoveStake sets a move target; " +
				"(release) only BeginBlock turns frozen items into balances or stakes, only for the items of the block's own height, the balance credit is reachable only on the `MoveToCandidateID == 0` branch and the Delegate credit only on the other, and the height's items are deleted afterwards; nothing else deletes frozen funds; " +
				"(target) a MoveStake is accepted only when Candidates().Exists(data.ToPubKey) holds on every accepting path (found and repaired) and the stored move target is that key's id; (lock) UnbondV3's effects are dominated by `GetLockStakeUntilBlock(sender) > currentBlock ⇒ reject`. " +
				"NOT decided: the numeric period values per chain id, behaviour when the move target is deleted before maturity (C07 known finding).",
			Assumptions: stdAssumptions,
			Rules:       []string{"C16.due", "C16.release", "C16.target", "C16.lock", "C16.height"},
		},
		Run: runC16,
	})
}

// isBlockPlusPeriod: v = <block> + types.Get<period>Period().
func isBlockPlusPeriod(v ssa.Value, period string) (bool, string) {
	bin, ok := core.Unwrap(v).(*ssa.BinOp)
	if !ok || bin.Op != token.ADD {
		return false, "not a sum"
	}
	a, b := bin.X, bin.Y
	isPeriod := func(x ssa.Value) bool {
		call, ok := core.Unwrap(x).(*ssa.Call)
		return ok && core.CalleeName(core.NormCall(&call.Call)) == "coreV2/types."+period
	}
	if isPeriod(a) {
		a, b = b, a
	}
	if !isPeriod(b) {
		return false, "no call of types." + period
	}
	p := core.Path(a)
	switch {
	case p == "currentBlock", p == "height":
		return true, p + " + " + period + "()"
	}
	return false, "block operand is " + p
}

func runC16(c *core.Ctx) {
	defer checkHeightPublished(c, "C16.height")
	live := map[*ssa.Function]*core.Handler{}
	if hs, err := c.Live(); err == nil {
		for _, h := range hs {
			live[h.Run] = h
		}
	} else {
		c.Unk("C16.due", "live-set", token.NoPos, err.Error())
		return
	}
	n := 0
	for _, fn := range c.AllFns {
		if fn.Synthetic != "" {
			continue
		}
		for _, s := range core.Sites(fn) {
			isAdd := s.MethodIs(core.PkgState+"/frozenfunds", "FrozenFunds", "AddFund") || (s.Common.IsInvoke() && s.Common.Method.Name() == "AddFrozenFund")
			if !isAdd {
				continue
			}
			fname := core.ShortFn(fn)
			key := fname
			h := s.Arg(0)
			var moveArg ssa.Value
			if !s.Common.IsInvoke() {
				moveArg = s.Arg(6)
			}
			moveZero := moveArg == nil
			if k, ok := core.ConstInt(moveArg); moveArg != nil && ok && k == 0 {
				moveZero = true
			}
			switch {
			case live[fn] != nil && live[fn].TypeName == "UnbondDataV3":
				n++
				ok, d := isBlockPlusPeriod(h, "GetUnbondPeriod")
				c.Check(ok && moveZero, "C16.due", key, s.Pos(), "unbonded coins are frozen until "+d+", no move target", "unbond freezes until something other than currentBlock+GetUnbondPeriod() ("+d+") or sets a move target")
			case live[fn] != nil && live[fn].TypeName == "MoveStakeData":
				n++
				ok, d := isBlockPlusPeriod(h, "GetMovePeriod")
				c.Check(ok, "C16.due", key, s.Pos(), "moved coins are frozen until "+d, "move freezes until something other than currentBlock+GetMovePeriod(): "+d)
				mp := core.Path(moveArg)
				c.Check(strings.HasSuffix(mp, ".Candidates.ID(data.ToPubKey)"), "C16.target", "MoveStakeData.Run/move-id", s.Pos(), "move target stored is Candidates.ID(data.ToPubKey)", "move target stored is not the id of data.ToPubKey: "+mp)
			case live[fn] != nil && live[fn].TypeName == "LockData":
				n++
				hp := core.Path(h)
				gated := false
				for _, f := range c.FactsAt(s.Instr, 3) {
					bin, ok := f.Cond.(*ssa.BinOp)
					if !ok {
						continue
					}
					px, py := f.Path(bin.X), f.Path(bin.Y)
					// uint64(data.DueBlock) <= currentBlock must be false  (or > true)
					if px == "data.DueBlock" && py == "currentBlock" && ((bin.Op == token.LEQ && !f.Truth) || (bin.Op == token.GTR && f.Truth)) {
						gated = true
					}
					if py == "data.DueBlock" && px == "currentBlock" && ((bin.Op == token.GEQ && !f.Truth) || (bin.Op == token.LSS && f.Truth)) {
						gated = true
					}
				}
				c.Check(hp == "data.DueBlock" && gated && moveZero, "C16.due", key, s.Pos(), "locked coins are frozen until data.DueBlock, which is gated `> currentBlock`", fmt.Sprintf("Lock freezes until %q; gate DueBlock > currentBlock present=%v; move target zero=%v", hp, gated, moveZero))
			case live[fn] != nil:
				n++
				c.Bad("C16.due", key, s.Pos(), "a live handler other than Unbond/MoveStake/Lock freezes funds; its schedule is not classified")
			case strings.HasPrefix(core.PkgOf(fn), core.PkgTx) && isDataRun(fn):
				// superseded handler versions are unreachable from the live decoder
			case fname == "(*coreV2/state.State).Import":
				n++
				c.OK("C16.due", key, s.Pos(), "genesis import restores exported items verbatim")
			case fname == "(*coreV2/state/frozenfunds.Bus).AddFrozenFund":
				n++
				c.Check(core.Path(h) == "height" && moveZero, "C16.due", key, s.Pos(), "bus forwarder passes its height through, no move target", "bus forwarder alters the height or sets a move target")
			case core.PkgOf(fn) == core.PkgState+"/candidates":
				// (a site inside a helper stands for each place the helper is called from)
				n += callWeight(c, fn)
				ok, d := isBlockPlusPeriod(h, "GetUnbondPeriod")
				c.Check(ok, "C16.due", key, s.Pos(), "protocol unbond (removal / kick / byzantine) freezes until "+d, "protocol unbond freezes until something other than height+GetUnbondPeriod(): "+d)
			default:
				n++
				c.Bad("C16.due", key, s.Pos(), "unclassified site freezing funds")
			}
		}
	}
	c.Floor("C16.due", n, 8, "sites that freeze funds")

	// the `height` handed to the candidates-package sites is the block height
	checkHeightArgs(c, "C16.due")

	// ---- release
	begin := c.MustFn("C16.release", "(*coreV2/minter.Blockchain).BeginBlock")
	if begin != nil {
		var get, del *core.Site
		var credit, deleg *core.Site
		for _, s := range c.GroupSites(begin) {
			switch {
			case s.MethodIs(core.PkgState+"/frozenfunds", "FrozenFunds", "GetFrozenFunds"):
				get = s
			case s.MethodIs(core.PkgState+"/frozenfunds", "FrozenFunds", "Delete"):
				del = s
			case s.MethodIs(core.PkgState+"/candidates", "Candidates", "Delegate"):
				deleg = s
			case s.MethodIs(core.PkgState+"/accounts", "Accounts", "AddBalance"):
				if strings.HasSuffix(core.Path(s.Arg(0)), ".Address") {
					credit = s
				}
			}
		}
		if get == nil || del == nil || credit == nil || deleg == nil {
			c.Unk("C16.release", "BeginBlock/shape", begin.Pos(), "GetFrozenFunds / Delete / AddBalance(item.Address…) / Delegate not all found in BeginBlock")
		} else {
			hp := core.Path(c.CallerArg(get.Arg(0)))
			c.Check(strings.HasSuffix(hp, "req.Header.Height") || hp == "req.Header.Height", "C16.release", "BeginBlock/only-own-height", get.Pos(), "matured items are those of req.Header.Height", "BeginBlock releases frozen funds of a height other than the block's: "+hp)
			branch := func(s *core.Site) (bool, bool) { // (found, moveIdIsZero)
				for _, f := range c.FactsAt(s.Instr, 0) {
					if cf, ok := f.AsCall(); ok && cf.MethodName() == "GetMoveToCandidateID" && cf.Op == token.EQL && cf.Const == 0 {
						return true, f.Truth
					}
					if cf, ok := f.AsCall(); ok && cf.MethodName() == "GetMoveToCandidateID" && cf.Op == token.NEQ && cf.Const == 0 {
						return true, !f.Truth
					}
				}
				return false, false
			}
			f1, z1 := branch(credit)
			f2, z2 := branch(deleg)
			c.Check(f1 && z1, "C16.release", "BeginBlock/balance-credit-only-without-move-target", credit.Pos(), "balance credit is reachable only when MoveToCandidateID == 0", "a matured item with a move target can be credited to the owner's balance")
			c.Check(f2 && !z2, "C16.release", "BeginBlock/delegate-only-with-move-target", deleg.Pos(), "Delegate is reachable only when MoveToCandidateID != 0", "a matured item without a move target can be delegated")
			// credited values are the item's own
			c.Check(strings.HasSuffix(core.Path(credit.Arg(1)), ".Coin") && strings.HasSuffix(core.Path(credit.Arg(2)), ".Value"), "C16.release", "BeginBlock/credit-is-item", credit.Pos(), "credits item.Coin / item.Value to item.Address", "the balance credit does not use the item's own coin and value")
			c.Check(strings.HasSuffix(core.Path(deleg.Arg(0)), ".Address") && strings.HasSuffix(core.Path(deleg.Arg(2)), ".Coin") && strings.HasSuffix(core.Path(deleg.Arg(3)), ".Value"), "C16.release", "BeginBlock/delegate-is-item", deleg.Pos(), "delegates item.Coin / item.Value for item.Address", "the matured move does not delegate the item's own address, coin and value")
			// delete after the loop, same height object
			c.Check(get.Fn == del.Fn && core.Dominates(get.Instr, del.Instr) && (strings.Contains(core.Path(del.Arg(0)), "Height()") || core.SamePath(c.CallerArg(del.Arg(0)), c.CallerArg(get.Arg(0))) || strings.Contains(core.Path(c.CallerArg(del.Arg(0))), "Height()")), "C16.release", "BeginBlock/delete-after-release", del.Pos(), "the released height is deleted afterwards", "released frozen funds are not deleted (they would be paid again) or another height is deleted")
		}
	}
	// who else deletes / pays frozen funds
	nw := 0
	for _, fn := range c.AllFns {
		if fn.Synthetic != "" || strings.HasSuffix(core.PkgOf(fn), "/frozenfunds") {
			continue
		}
		for _, s := range core.Sites(fn) {
			if s.MethodIs(core.PkgState+"/frozenfunds", "FrozenFunds", "Delete") {
				nw++
				c.Check(core.ShortFn(c.GroupRoot(fn)) == "(*coreV2/minter.Blockchain).BeginBlock", "C16.release", "who-deletes/"+core.ShortFn(c.GroupRoot(fn)), s.Pos(), "only BeginBlock deletes frozen funds", "frozen funds are deleted outside BeginBlock")
			}
		}
	}
	c.Floor("C16.release", nw, 1, "FrozenFunds.Delete call sites")

	// ---- target / lock via facts
	models := LiveModels(c, "C16.target")
	for _, m := range models {
		switch m.H.TypeName {
		case "MoveStakeData":
			var add *MutSite
			for _, mu := range m.Mutators {
				if mu.Method == "AddFund" {
					add = mu
				}
			}
			if add == nil {
				c.Bad("C16.target", "MoveStakeData/target-exists", m.Fn.Pos(), "MoveStake no longer freezes funds")
				continue
			}
			ok := false
			for _, f := range c.FactsAt(add.Site.Instr, 4) {
				if cf, isC := f.AsCall(); isC && cf.MethodName() == "Exists" && strings.Contains(cf.Name, "RCandidates") && f.Truth && cf.Op == token.ILLEGAL && cf.ArgPath(0) == "data.ToPubKey" {
					ok = true
				}
			}
			c.Check(ok, "C16.target", "MoveStakeData/target-exists", add.Site.Pos(), "accepting paths are dominated by Candidates().Exists(data.ToPubKey)", "MoveStake is accepted without checking that data.ToPubKey is an existing candidate: the move matures into the owner's balance after the (shorter) move period and bypasses the LockStake gate")
		case "UnbondDataV3":
			for _, mu := range m.Mutators {
				if mu.Method != "AddFund" && mu.Method != "SubStake" && !(mu.Module == "Waitlist" && mu.Method == "Delete") {
					continue
				}
				ok := false
				for _, f := range c.FactsAt(mu.Site.Instr, 2) {
					bin, isBin := f.Cond.(*ssa.BinOp)
					if !isBin {
						continue
					}
					op := bin.Op
					lockSide, other := bin.X, bin.Y
					call, isCall := core.Unwrap(lockSide).(*ssa.Call)
					if !isCall || !strings.HasSuffix(core.CalleeName(core.NormCall(&call.Call)), ".GetLockStakeUntilBlock") {
						lockSide, other = bin.Y, bin.X
						call, isCall = core.Unwrap(lockSide).(*ssa.Call)
						if !isCall || !strings.HasSuffix(core.CalleeName(core.NormCall(&call.Call)), ".GetLockStakeUntilBlock") {
							continue
						}
						switch op { // mirror
						case token.GTR:
							op = token.LSS
						case token.LSS:
							op = token.GTR
						case token.GEQ:
							op = token.LEQ
						case token.LEQ:
							op = token.GEQ
						}
					}
					cs := &core.Site{Instr: call, Common: &call.Call}
					if !m.isTxSender(cs.Arg(0)) || f.Path(other) != "currentBlock" {
						continue
					}
					// lock > currentBlock must be false on the way to the effect
					if (op == token.GTR && !f.Truth) || (op == token.LEQ && f.Truth) {
						ok = true
					}
				}
				c.Check(ok, "C16.lock", "UnbondDataV3/"+mu.Module+"."+mu.Method, mu.Site.Pos(), "dominated by `GetLockStakeUntilBlock(sender) > currentBlock ⇒ reject`", "stake leaves staking without the LockStake gate")
			}
		}
	}
	// frozen-fund / waitlist / stake records rebuilt from existing ones keep all persisted fields
	// (the move target and the candidate key travel with the item until it matures)
	nc := checkPartialCopies(c, "C16.copy", core.PkgState+"/frozenfunds", core.PkgState+"/waitlist", core.PkgState+"/candidates")
	c.Add("C16.copy", "summary", token.NoPos, core.Discharged, fmt.Sprintf("%d record copies found in the frozen-funds, waitlist and candidates modules", nc))
	c.Floor("C16.lock", c.Count("C16.lock"), 3, "unbond effects")
	c.Floor("C16.target", c.Count("C16.target"), 2, "move-stake target obligations")
}

func firstArg(cf core.CallFact) ssa.Value {
	s := &core.Site{Instr: cf.Call, Common: &cf.Call.Call}
	return s.Arg(0)
}

// checkHeightArgs: the `height` parameter of the candidates-package functions that freeze funds is
// fed from the block height by every caller in consensus code.
func checkHeightArgs(c *core.Ctx, rule string) {
	targets := map[string]int{ // function → index of the height parameter (source-level)
		"(*coreV2/state/candidates.Candidates).PunishByzantineCandidate": 0,
		"(*coreV2/state/candidates.Candidates).DeleteCandidate":          0,
	}
	for name, idx := range targets {
		fn := c.Fn(name)
		if fn == nil {
			c.Unk(rule, "height-arg/"+name, token.NoPos, "function not found")
			continue
		}
		for _, caller := range c.AllFns {
			if caller.Synthetic != "" || strings.HasSuffix(caller.Pkg.Pkg.Path(), "_test") {
				continue
			}
			for _, s := range core.Sites(caller) {
				if s.Callee != name {
					continue
				}
				p := core.Path(s.Arg(idx))
				ok := p == "height" || strings.HasSuffix(p, "req.Header.Height") || strings.HasSuffix(p, ".Height()")
				c.Check(ok, rule, "height-arg/"+fn.Name()+"←"+core.ShortFn(caller), s.Pos(), "called with the block height ("+p+")", "called with something other than the block height: "+p)
			}
		}
	}
}

// checkHeightPublished — C16.height. Code that runs under EndBlock learns the block number from
// blockchain.Height() (updateValidators → DeleteCandidate(height, …) freezes the stakes of a
// removed candidate at height + unbond period). Height() reads blockchain.height, which EndBlock
// itself sets to the block it is ending. Decided: in EndBlock the store of the request's height
// into blockchain.height dominates every call that can reach a read of that field; otherwise the
// callee sees the previous block's number and the funds mature a block early.
func checkHeightPublished(c *core.Ctx, rule string) {
	bt := c.Named("coreV2/minter", "Blockchain")
	if bt == nil {
		c.Unk(rule, "minter.Blockchain", token.NoPos, "type not found")
		return
	}
	end := c.Method(bt, "EndBlock")
	if end == nil {
		c.Unk(rule, "EndBlock", token.NoPos, "Blockchain.EndBlock not found")
		return
	}
	isHeightAddr := func(v ssa.Value) bool {
		fa, ok := v.(*ssa.FieldAddr)
		if !ok || fieldNameOf(fa) != "height" {
			return false
		}
		n := namedOf(fa.X.Type())
		return n != nil && n.Obj() == bt.Obj()
	}
	// readers of blockchain.height
	readers := map[*ssa.Function]bool{}
	for _, fn := range c.AllFns {
		if fn.Blocks == nil || !c.InRepo(fn) {
			continue
		}
		for _, s := range core.Sites(fn) {
			if strings.HasPrefix(core.CalleeName(s.Common), "sync/atomic.Load") && len(s.Common.Args) == 1 && isHeightAddr(s.Common.Args[0]) {
				readers[fn] = true
			}
		}
		for _, b := range fn.Blocks {
			for _, in := range b.Instrs {
				if ld, ok := in.(*ssa.UnOp); ok && ld.Op == token.MUL && isHeightAddr(ld.X) {
					readers[fn] = true
				}
			}
		}
	}
	// the publishing store in EndBlock
	var store ssa.Instruction
	for _, s := range core.Sites(end) {
		if strings.HasPrefix(core.CalleeName(s.Common), "sync/atomic.Store") && len(s.Common.Args) == 2 && isHeightAddr(s.Common.Args[0]) {
			p := core.Path(s.Common.Args[1])
			if strings.HasSuffix(p, "req.Height") || p == "height" {
				store = s.Instr
			}
		}
	}
	if store == nil {
		c.Bad(rule, "EndBlock/publish", end.Pos(), "EndBlock does not store the height of the block it ends into blockchain.height: everything that asks Height() keeps seeing the previous block")
		return
	}
	c.OK(rule, "EndBlock/publish", store.Pos(), "EndBlock stores the request's height into blockchain.height")
	cg := c.CG()
	n := 0
	for _, s := range core.Sites(end) {
		var callees []*ssa.Function
		if sc := s.Common.StaticCallee(); sc != nil {
			callees = append(callees, sc)
		}
		reaches := ""
		for _, cal := range callees {
			if !c.InRepo(cal) {
				continue
			}
			reach := cg.Reachable([]*ssa.Function{cal}, nil)
			for fn := range reach {
				if readers[fn] {
					reaches = core.PathTo(reach, fn)
				}
			}
		}
		if reaches == "" {
			continue
		}
		n++
		key := fmt.Sprintf("EndBlock/%s#%d", methodName(s), n)
		c.Check(core.Dominates(store, s.Instr), rule, key, s.Pos(), "runs after the block height was published ("+reaches+")",
			"this call reads blockchain.height ("+reaches+") but EndBlock has not yet stored the height of the block it is ending: the callee works with the previous block's number (stakes of a removed candidate are frozen until one block too early)")
	}
	c.Floor(rule, n, 1, "calls in EndBlock that read the published block height")
}

// checkFieldReadyBeforeRead — a field of the application object that one ABCI method (re)builds
// for the block it is processing — the presence map filled from the block's LastCommitInfo —
// has to be complete before that same method calls anything that reads it: every call in fn that
// can reach a reader of the field comes after every write of the field in fn (no write is
// reachable from the call, and a write dominates it).
func checkFieldReadyBeforeRead(c *core.Ctx, rule string, fn *ssa.Function, typ *types.Named, field string) int {
	isFieldAddr := func(v ssa.Value) bool {
		fa, ok := v.(*ssa.FieldAddr)
		if !ok || fieldNameOf(fa) != field {
			return false
		}
		n := namedOf(fa.X.Type())
		return n != nil && n.Obj() == typ.Obj()
	}
	loadsField := func(v ssa.Value) bool {
		ld, ok := core.Unwrap(v).(*ssa.UnOp)
		return ok && ld.Op == token.MUL && isFieldAddr(ld.X)
	}
	readers := map[*ssa.Function]bool{}
	for _, g := range c.AllFns {
		if g.Blocks == nil || !c.InRepo(g) || g == fn {
			continue
		}
		for _, b := range g.Blocks {
			for _, in := range b.Instrs {
				switch x := in.(type) {
				case *ssa.UnOp:
					if x.Op == token.MUL && isFieldAddr(x.X) {
						readers[g] = true
					}
				case *ssa.Call:
					if strings.HasPrefix(core.CalleeName(core.NormCall(&x.Call)), "sync/atomic.Load") && len(core.NormCall(&x.Call).Args) == 1 && isFieldAddr(core.NormCall(&x.Call).Args[0]) {
						readers[g] = true
					}
				}
			}
		}
	}
	var writes []ssa.Instruction
	for _, b := range fn.Blocks {
		for _, in := range b.Instrs {
			switch x := in.(type) {
			case *ssa.Store:
				if isFieldAddr(x.Addr) {
					writes = append(writes, in)
				}
			case *ssa.MapUpdate:
				if loadsField(x.Map) {
					writes = append(writes, in)
				}
			case *ssa.Call:
				if strings.HasPrefix(core.CalleeName(core.NormCall(&x.Call)), "sync/atomic.Store") && len(core.NormCall(&x.Call).Args) == 2 && isFieldAddr(core.NormCall(&x.Call).Args[0]) {
					writes = append(writes, in)
				}
			}
		}
	}
	// a helper of fn that writes the field: its call is where fn writes
	helperWrites := map[*ssa.Function]bool{}
	for _, h := range c.Helpers(fn) {
		for _, b := range h.Blocks {
			for _, in := range b.Instrs {
				switch x := in.(type) {
				case *ssa.Store:
					if isFieldAddr(x.Addr) {
						helperWrites[h] = true
					}
				case *ssa.MapUpdate:
					if loadsField(x.Map) {
						helperWrites[h] = true
					}
				case *ssa.Call:
					if strings.HasPrefix(core.CalleeName(core.NormCall(&x.Call)), "sync/atomic.Store") && len(core.NormCall(&x.Call).Args) == 2 && isFieldAddr(core.NormCall(&x.Call).Args[0]) {
						helperWrites[h] = true
					}
				}
			}
		}
	}
	for _, s := range core.Sites(fn) {
		if sc := s.Common.StaticCallee(); sc != nil && helperWrites[sc] {
			writes = append(writes, s.Instr)
		}
	}
	if len(writes) == 0 {
		c.Bad(rule, fn.Name()+"/"+field+"/writes", fn.Pos(), fn.Name()+" no longer builds blockchain."+field+" for the block it processes")
		return 0
	}
	cg := c.CG()
	n := 0
	for _, s := range core.Sites(fn) {
		sc := s.Common.StaticCallee()
		if sc == nil || !c.InRepo(sc) || helperWrites[sc] {
			continue
		}
		reaches := ""
		reach := cg.Reachable([]*ssa.Function{sc}, nil)
		for g := range reach {
			if readers[g] {
				reaches = core.PathTo(reach, g)
			}
		}
		if reaches == "" {
			continue
		}
		n++
		key := fmt.Sprintf("%s/%s/%s#%d", fn.Name(), field, methodName(s), n)
		dominated, late := false, ""
		for _, w := range writes {
			if core.Dominates(w, s.Instr) {
				dominated = true
			}
			if instrReaches(s.Instr, w) {
				late = c.PosStr(w.Pos())
			}
		}
		c.Check(dominated && late == "", rule, key, s.Pos(), "blockchain."+field+" is complete when this call reads it ("+reaches+")",
			"this call reads blockchain."+field+" ("+reaches+") before "+fn.Name()+" has finished building it for the current block (a write at "+late+" comes later, or none comes before): the callee works with the previous block's data")
	}
	return n
}

// callWeight: for an unexported helper that belongs to one function's group, the number of places
// it is called from (two identical loop bodies merged into one helper still count twice);
// 1 for every other function.
func callWeight(c *core.Ctx, fn *ssa.Function) int {
	if fn.Object() == nil || fn.Object().Exported() || c.GroupRoot(fn) == fn {
		return 1
	}
	k := 0
	for _, cl := range c.CG().Callers(fn) {
		for _, s := range core.Sites(cl) {
			if s.Common.StaticCallee() == fn {
				k++
			}
		}
	}
	if k < 1 {
		k = 1
	}
	return k
}
