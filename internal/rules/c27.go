package rules

import (
	"fmt"
	"go/token"
	"go/types"
	"sort"
	"strings"

	"golang.org/x/tools/go/ssa"

	"verif/internal/core"
)

func init() {
	register(&RuleSet{
		Meta: core.PropertyMeta{
			ID: "C27",
			Explanation: "Decides the dataflow shape of fee computation: (table) every live handler's CommissionData result is built from fields of the commission.Price it is given (no constants), and every field of commission.Price is covered by every place the table travels through — written by State.Import and by the live VoteCommission mapper, read by Commission.Export and by the UpdateCommissions event in EndBlock, and consumed by at least one fee computation in transaction code; " +
				"(formula) tx.Price = CommissionData(price) + payloadAndServiceDataLen()·PayloadByte, MulGasPrice = GasPrice·x, RunTx computes MulGasPrice(tx.Price(GetCommissions())), converts it through CheckSwap only under `!commissions.Coin.IsBaseCoin()`, and hands exactly that value to Run; every Run starts its commission from that parameter (C01.fee signatures); " +
				"(reach) the base-coin value of the fee is added to the reward pool (C01.fee: rewardPool.Add of price / the fee swap's output); (burn) ticker-creation fees: RunTx subtracts symbolPrice from the reward pool and credits the same value to the zero address, only for CreateCoin/CreateToken, with symbolPrice = MulGasPrice(PayForSymbol(commissions)) (converted like the fee). " +
				"(route) every CalculateCommission call compares the pool GetSwapper(X, base) with the reserve of GetCoin(X) for one and the same coin X — the inputs of the cheaper-route choice agree. NOT decided: that the cheaper of pool/reserve route is numerically the cheaper one, rounding of conversions.",
			Assumptions: stdAssumptions,
			Rules:       []string{"C27.table", "C27.cover", "C27.formula", "C27.burn", "C27.route", "C27.quote", "C27.order", "C27.first"},
		},
		Run: runC27,
	})
}

func isPriceField(v ssa.Value) (string, bool) {
	ld, ok := core.Unwrap(v).(*ssa.UnOp)
	if !ok || ld.Op != token.MUL {
		return "", false
	}
	fa, ok := ld.X.(*ssa.FieldAddr)
	if !ok {
		return "", false
	}
	t := fa.X.Type()
	if p, ok := t.Underlying().(*types.Pointer); ok {
		t = p.Elem()
	}
	n, ok := t.(*types.Named)
	if !ok || n.Obj().Name() != "Price" || n.Obj().Pkg() == nil || core.Short(n.Obj().Pkg().Path()) != core.PkgState+"/commission" {
		return "", false
	}
	return fieldNameOf(fa), true
}

func runC27(c *core.Ctx) {
	defer checkRouteInputs(c, "C27.route")
	defer checkPoolQuote(c, "C27.quote")
	defer checkGasPriceBeforeConversion(c, "C27.order")
	defer checkFeeBeforeTrade(c, "C27.first")
	priceT := c.Named(core.PkgState+"/commission", "Price")
	if priceT == nil {
		c.Unk("C27.table", "commission.Price", token.NoPos, "type not found")
		return
	}
	hs, err := c.Live()
	if err != nil {
		c.Unk("C27.table", "live", token.NoPos, err.Error())
		return
	}
	consumed := map[string]bool{}
	// ---- table: CommissionData of every live type
	for _, h := range hs {
		fn := c.Method(h.Type, "CommissionData")
		if fn == nil {
			c.Bad("C27.table", h.TypeName+".CommissionData", token.NoPos, "no CommissionData method")
			continue
		}
		fields := map[string]bool{}
		collect := func(f *ssa.Function) {
			for _, b := range f.Blocks {
				for _, in := range b.Instrs {
					if v, ok := in.(ssa.Value); ok {
						if name, ok := isPriceField(v); ok {
							fields[name] = true
						}
					}
				}
			}
		}
		collect(fn)
		for _, s := range core.Sites(fn) {
			if callee := s.Common.StaticCallee(); callee != nil && callee.Blocks != nil && core.PkgOf(callee) == core.PkgTx {
				collect(callee)
			}
		}
		// the result must be built from those fields: every origin of the result is a price
		// field load or an arithmetic call over them
		okRes := len(fields) > 0
		for _, o := range core.ResultOrigins(fn, 0) {
			if _, isField := isPriceField(o); isField {
				continue
			}
			if call, isCall := o.(*ssa.Call); isCall {
				if !core.DependsOn(call, func(v ssa.Value) bool { _, f := isPriceField(v); return f }) {
					// a helper (PayForSymbol) returning price fields
					dep := false
					if callee := call.Call.StaticCallee(); callee != nil && callee.Blocks != nil {
						for _, oo := range core.ResultOrigins(callee, 0) {
							if _, f := isPriceField(oo); f {
								dep = true
							}
						}
					}
					if !dep {
						okRes = false
					}
				}
				continue
			}
			okRes = false
		}
		var fl []string
		for f := range fields {
			fl = append(fl, f)
			consumed[f] = true
		}
		sort.Strings(fl)
		c.Check(okRes, "C27.table", h.TypeName+".CommissionData", fn.Pos(), "price of this type = f("+strings.Join(fl, ", ")+") of the price table", "CommissionData is not computed from the price table it is given (a constant or foreign value is returned)")
	}
	c.Floor("C27.table", c.Count("C27.table"), 37, "live CommissionData methods")
	// a price field belongs to one transaction type (ticker-length prices are shared by the two
	// symbol-creating types): a field charged by two types means one of them is charged another
	// type's price
	users := map[string][]string{}
	for _, h := range hs {
		fn := c.Method(h.Type, "CommissionData")
		if fn == nil {
			continue
		}
		seen := map[string]bool{}
		for _, b := range fn.Blocks {
			for _, in := range b.Instrs {
				if v, ok := in.(ssa.Value); ok {
					if name, ok := isPriceField(v); ok && !seen[name] {
						seen[name] = true
						users[name] = append(users[name], h.TypeName)
					}
				}
			}
		}
	}
	var fields []string
	for f := range users {
		fields = append(fields, f)
	}
	sort.Strings(fields)
	for _, f := range fields {
		c.Check(len(users[f]) == 1, "C27.table", "field-owner/"+f, priceT.Obj().Pos(), "charged by "+users[f][0]+" only", "price field "+f+" is charged by several transaction types ("+strings.Join(users[f], ", ")+"): one of them does not use its own type's price")
	}

	// other consumers in transaction code (PayloadByte, FailedTx, Coin …)
	for _, fn := range c.SrcFuncs(core.PkgTx) {
		for _, b := range fn.Blocks {
			for _, in := range b.Instrs {
				if v, ok := in.(ssa.Value); ok {
					if name, ok := isPriceField(v); ok {
						consumed[name] = true
					}
				}
			}
		}
	}

	// ---- cover
	imp := c.Fn("(*coreV2/state.State).Import")
	exp := c.Fn("(*coreV2/state/commission.Commission).Export")
	end := c.Fn("(*coreV2/minter.Blockchain).EndBlock")
	var mapper *ssa.Function
	for _, h := range hs {
		if h.ConstName == "TypeVoteCommission" {
			// the method that maps the voted table into a commission.Price (by result type)
			ms := c.Prog.MethodSets.MethodSet(types.NewPointer(h.Type))
			for i := 0; i < ms.Len(); i++ {
				if fn := c.Prog.FuncValue(ms.At(i).Obj().(*types.Func)); fn != nil && fn.Synthetic == "" && fn.Signature.Results().Len() == 1 && strings.HasSuffix(fn.Signature.Results().At(0).Type().String(), "commission.Price") {
					mapper = fn
				}
			}
			if mapper == nil {
				mapper = c.Method(h.Type, "price")
			}
		}
	}
	if imp == nil || exp == nil || end == nil || mapper == nil {
		c.Unk("C27.cover", "anchors", token.NoPos, "State.Import / Commission.Export / EndBlock / live VoteCommission.price not all found")
	} else {
		// a reference counts for fn when it is made by fn, a closure of it, or an unexported
		// helper in fn's own package that fn reaches (a literal moved into a helper is still
		// fn's work); walking further would let any user of the field count
		reachMemo := map[*ssa.Function]map[*ssa.Function]*ssa.Function{}
		inFn := func(refs []*core.FieldRef, fn *ssa.Function) bool {
			reach, ok := reachMemo[fn]
			if !ok {
				reach = c.CG().Reachable([]*ssa.Function{fn}, func(g *ssa.Function) bool {
					return g != fn && !(core.PkgOf(g) == core.PkgOf(fn) && g.Object() != nil && !g.Object().Exported())
				})
				reachMemo[fn] = reach
			}
			for _, r := range refs {
				root := r.Fn
				for root.Parent() != nil {
					root = root.Parent()
				}
				if root == fn {
					return true
				}
				if _, in := reach[root]; in && core.PkgOf(root) == core.PkgOf(fn) && root.Object() != nil && !root.Object().Exported() {
					return true
				}
			}
			return false
		}
		n := 0
		for _, f := range core.StructFields(priceT) {
			if f == "More" {
				continue // rlp tail for forward compatibility, gated `len == 0` in the vote handler (C23)
			}
			n++
			w := c.FieldWrites(priceT, f)
			r := c.FieldReads(priceT, f)
			var miss []string
			if !inFn(w, imp) {
				miss = append(miss, "not written by State.Import")
			}
			if !inFn(w, mapper) {
				miss = append(miss, "not written by "+core.ShortFn(mapper))
			}
			if !inFn(r, exp) {
				miss = append(miss, "not read by Commission.Export")
			}
			if !inFn(r, end) {
				miss = append(miss, "not read by EndBlock's UpdateCommissions event")
			}
			if !consumed[f] {
				miss = append(miss, "not used by any fee computation")
			}
			c.Check(len(miss) == 0, "C27.cover", "Price."+f, priceT.Obj().Pos(), "travels through import, vote mapper, export, update event and a fee computation", "price-table field "+f+": "+strings.Join(miss, "; "))
		}
		c.Floor("C27.cover", n, 48, "fields of commission.Price")
	}

	// ---- formula
	if fn := c.MustFn("C27.formula", "(*coreV2/transaction.Transaction).Price"); fn != nil {
		ok := false
		for _, o := range core.ResultOrigins(fn, 0) {
			call, isCall := o.(*ssa.Call)
			if !isCall || core.CalleeName(core.NormCall(&call.Call)) != "(*math/big.Int).Add" {
				continue
			}
			a, b := core.NormCall(&call.Call).Args[1], core.NormCall(&call.Call).Args[2]
			isCD := func(v ssa.Value) bool {
				cc, ok := core.Unwrap(v).(*ssa.Call)
				return ok && cc.Call.IsInvoke() && cc.Call.Method.Name() == "CommissionData" && core.Path(core.NormCall(&cc.Call).Args[0]) == "price"
			}
			isBytes := func(v ssa.Value) bool {
				cc, ok := core.Unwrap(v).(*ssa.Call)
				if !ok || core.CalleeName(core.NormCall(&cc.Call)) != "(*math/big.Int).Mul" {
					return false
				}
				x, y := core.NormCall(&cc.Call).Args[1], core.NormCall(&cc.Call).Args[2]
				isLen := func(v ssa.Value) bool { return strings.Contains(core.Path(v), "payloadAndServiceDataLen()") }
				isPB := func(v ssa.Value) bool { n, f := isPriceField(v); return f && n == "PayloadByte" }
				return (isLen(x) && isPB(y)) || (isLen(y) && isPB(x))
			}
			if (isCD(a) && isBytes(b)) || (isCD(b) && isBytes(a)) {
				ok = true
			}
		}
		c.Check(ok, "C27.formula", "Transaction.Price", fn.Pos(), "type price + payloadAndServiceDataLen()·PayloadByte", "tx.Price is no longer CommissionData(price) + bytes·PayloadByte")
	}
	if fn := c.MustFn("C27.formula", "(*coreV2/transaction.Transaction).payloadAndServiceDataLen"); fn != nil {
		p := ""
		for _, o := range core.ResultOrigins(fn, 0) {
			if bin, ok := core.Unwrap(o).(*ssa.BinOp); ok && bin.Op == token.ADD {
				p = core.Path(bin.X) + "+" + core.Path(bin.Y)
			}
		}
		c.Check(strings.Contains(p, "len(tx.Payload)") && strings.Contains(p, "len(tx.ServiceData)"), "C27.formula", "payloadAndServiceDataLen", fn.Pos(), "len(Payload)+len(ServiceData)", "byte count is no longer len(Payload)+len(ServiceData): "+p)
	}
	if fn := c.MustFn("C27.formula", "(*coreV2/transaction.Transaction).MulGasPrice"); fn != nil {
		ok := false
		for _, o := range core.ResultOrigins(fn, 0) {
			if call, isCall := o.(*ssa.Call); isCall && core.CalleeName(core.NormCall(&call.Call)) == "(*math/big.Int).Mul" {
				px, py := core.Path(core.NormCall(&call.Call).Args[1]), core.Path(core.NormCall(&call.Call).Args[2])
				if (strings.Contains(px, "tx.GasPrice") && py == "price") || (strings.Contains(py, "tx.GasPrice") && px == "price") {
					ok = true
				}
			}
		}
		c.Check(ok, "C27.formula", "MulGasPrice", fn.Pos(), "GasPrice · price", "MulGasPrice is no longer tx.GasPrice · price")
	}
	runTx := c.RunTx()
	if runTx == nil {
		c.Unk("C27.formula", "RunTx", token.NoPos, "not found")
		return
	}
	m := BuildRunModel(c, nil, runTx)
	disp := findDispatch(runTx)
	if disp != nil {
		priceArg := disp.Common.Args[4]
		var kinds []string
		okAll := true
		for _, o := range core.Origins(priceArg) {
			switch x := o.(type) {
			case *ssa.Call:
				p := core.Path(x)
				if strings.HasSuffix(core.CalleeName(core.NormCall(&x.Call)), ".MulGasPrice") && strings.Contains(p, ".Price(") && strings.Contains(p, "GetCommissions()") {
					kinds = append(kinds, "MulGasPrice(tx.Price(GetCommissions()))")
				} else {
					okAll = false
					kinds = append(kinds, "call:"+core.CalleeName(core.NormCall(&x.Call)))
				}
			case *ssa.Extract:
				if call, ok := x.Tuple.(*ssa.Call); ok && strings.HasSuffix(core.CalleeName(core.NormCall(&call.Call)), ".CheckSwap") && x.Index == 1 {
					// conversion: its input must be the same MulGasPrice value and it must sit under !Coin.IsBaseCoin()
					conv := false
					for _, f := range c.FactsAt(call, 0) {
						if cf, isC := f.AsCall(); isC && cf.MethodName() == "IsBaseCoin" && !f.Truth && strings.HasSuffix(cf.RecvPath(), ".Coin") {
							conv = true
						}
					}
					if !conv {
						okAll = false
					}
					kinds = append(kinds, "CheckSwap#1 under !commissions.Coin.IsBaseCoin()")
				} else {
					okAll = false
					kinds = append(kinds, "extract")
				}
			default:
				okAll = false
				kinds = append(kinds, fmt.Sprintf("%T", o))
			}
		}
		sort.Strings(kinds)
		c.Check(okAll && len(kinds) > 0, "C27.formula", "RunTx/price-passed-to-Run", disp.Pos(), "Run receives "+strings.Join(kinds, " | "), "the price handed to Run has another source: "+strings.Join(kinds, " | "))
	}
	// ---- burn
	var sub *core.Site
	var credit *core.Site
	for _, mu := range m.Mutators {
		if mu.Module == "rewardPool" && mu.Method == "Sub" {
			sub = mu.Site
		}
		if mu.Module == "Accounts" && mu.Method == "AddBalance" && !isOwnerCredit(mu.Site) {
			credit = mu.Site
		}
	}
	if sub == nil || credit == nil {
		c.Bad("C27.burn", "RunTx/ticker-fee", runTx.Pos(), "the ticker-fee burn (rewardPool.Sub + credit to the zero address) is no longer in RunTx")
		return
	}
	same := core.SameValue(sub.Arg(1), credit.Arg(2)) || equalOriginSets(sub.Arg(1), credit.Arg(2))
	zeroAddr := isZeroAddress(credit.Arg(0))
	baseCoin := false
	if k, ok := core.ConstInt(credit.Arg(1)); ok && k == 0 {
		baseCoin = true
	}
	c.Check(same && zeroAddr && baseCoin, "C27.burn", "RunTx/ticker-fee/paired", credit.Pos(), "what leaves the reward pool is credited, in base coin, to the zero address", fmt.Sprintf("ticker-fee burn not paired (same value=%v zero address=%v base coin=%v)", same, zeroAddr, baseCoin))
	typeGate := false
	for _, f := range c.FactsAt(sub.Instr, 0) {
		if bin, ok := f.Cond.(*ssa.BinOp); ok && bin.Op == token.EQL && f.Truth && strings.HasSuffix(core.Path(bin.X), ".Type") {
			typeGate = true
		}
	}
	// `a || b` compiles to two Ifs: check that the block is reachable only through Type == CreateCoin / CreateToken tests
	if !typeGate {
		typeGate = reachedOnlyThroughTypeTests(m, sub)
	}
	c.Check(typeGate, "C27.burn", "RunTx/ticker-fee/only-create", sub.Pos(), "burn happens only for TypeCreateCoin / TypeCreateToken", "the ticker-fee burn is not restricted to coin/token creation")
	okSrc := false
	for _, o := range core.Origins(sub.Arg(1)) {
		if call, ok := o.(*ssa.Call); ok && strings.HasSuffix(core.CalleeName(core.NormCall(&call.Call)), ".MulGasPrice") && strings.Contains(core.Path(call), "PayForSymbol(") {
			okSrc = true
		}
	}
	c.Check(okSrc, "C27.burn", "RunTx/ticker-fee/source", sub.Pos(), "symbolPrice = MulGasPrice(PayForSymbol(commissions)) (converted like the fee)", "the burned amount is not MulGasPrice(PayForSymbol(commissions))")
	// success only
	succ := false
	for _, f := range c.FactsAt(sub.Instr, 0) {
		if bin, ok := f.Cond.(*ssa.BinOp); ok && bin.Op == token.NEQ && !f.Truth {
			if k, isK := core.ConstInt(bin.Y); isK && k == 0 {
				succ = true
			}
		}
	}
	c.Check(succ && m.InDeliver(sub.Block()), "C27.burn", "RunTx/ticker-fee/success-deliver-only", sub.Pos(), "burn happens only for accepted transactions in deliver mode", "the ticker-fee burn can happen for rejected transactions or in CheckTx")
}

func equalOriginSets(a, b ssa.Value) bool {
	oa, ob := core.Origins(a), core.Origins(b)
	if len(oa) != len(ob) || len(oa) == 0 {
		return false
	}
	for _, x := range oa {
		f := false
		for _, y := range ob {
			if x == y {
				f = true
			}
		}
		if !f {
			return false
		}
	}
	return true
}

func isZeroAddress(v ssa.Value) bool {
	v = core.Unwrap(v)
	if k, ok := v.(*ssa.Const); ok {
		return k.Value == nil // zero value of the array type
	}
	if ld, ok := v.(*ssa.UnOp); ok {
		if al, ok := ld.X.(*ssa.Alloc); ok {
			// a zero-initialised local with no stores
			for _, r := range *al.Referrers() {
				if _, isStore := r.(*ssa.Store); isStore {
					return false
				}
			}
			return true
		}
	}
	return false
}

func reachedOnlyThroughTypeTests(m *RunModel, s *core.Site) bool {
	// `a || b` compiles to two Ifs sharing their true target: find a block that dominates the
	// site and whose every predecessor is the true edge of a `tx.Type == const` test
	for _, b := range m.Fn.Blocks {
		if !b.Dominates(s.Block()) || len(b.Preds) == 0 {
			continue
		}
		all := true
		for _, p := range b.Preds {
			iff := core.IfOf(p)
			if iff == nil || p.Succs[0] != b {
				all = false
				break
			}
			bin, ok := iff.Cond.(*ssa.BinOp)
			if !ok || bin.Op != token.EQL || !strings.HasSuffix(core.Path(bin.X), ".Type") {
				all = false
				break
			}
			if _, isK := core.ConstInt(bin.Y); !isK {
				all = false
				break
			}
		}
		if all {
			return true
		}
	}
	return false
}

// checkRouteInputs — "a commission paid in a custom coin uses the cheaper of the pool route and the
// bancor-reserve route": CalculateCommission compares the two routes for the coin model it is given
// (reserve route) and the pool it is given (pool route). Both have to be about the same coin — the
// coin the fee is debited in: the pool must be GetSwapper(X, base) and the coin model GetCoin(X) for
// one and the same X. A pool looked up for another coin makes the pool route look unavailable (or
// quotes a foreign pool), so the dearer route is taken.
func checkRouteInputs(c *core.Ctx, rule string) {
	type item struct {
		name string
		fn   *ssa.Function
	}
	var items []item
	for _, m := range LiveModels(c, rule) {
		items = append(items, item{m.H.TypeName + ".Run", m.Fn})
	}
	if fn := c.RunTx(); fn != nil {
		items = append(items, item{"RunTx", fn})
	}
	n := 0
	for _, it := range items {
		for _, s := range core.Sites(it.fn) {
			if !strings.HasSuffix(s.Callee, ".CalculateCommission") {
				continue
			}
			n++
			var poolCoin, modelCoin ssa.Value
			var baseOK bool
			for _, o := range core.Origins(s.Arg(1)) {
				if call, ok := o.(*ssa.Call); ok && methodNameOfCall(call) == "GetSwapper" {
					cs := &core.Site{Instr: call, Common: &call.Call}
					poolCoin = cs.Arg(0)
					baseOK = strings.HasSuffix(core.Path(cs.Arg(1)), "GetBaseCoinID()")
				}
			}
			for _, o := range core.Origins(s.Arg(2)) {
				if call, ok := o.(*ssa.Call); ok && methodNameOfCall(call) == "GetCoin" {
					cs := &core.Site{Instr: call, Common: &call.Call}
					modelCoin = cs.Arg(0)
				}
			}
			good := poolCoin != nil && modelCoin != nil && baseOK && core.SameValue(poolCoin, modelCoin)
			c.Check(good, rule, it.name+"/same-coin", s.Pos(), "CalculateCommission compares the pool of coin X with base against the reserve of the same coin X ("+core.Path(poolCoin)+")",
				"the pool route and the reserve route handed to CalculateCommission are about different coins (pool of "+core.Path(poolCoin)+", model of "+core.Path(modelCoin)+"): the cheaper-route choice is made against the wrong pool")
		}
	}
	c.Floor(rule, n, 38, "CalculateCommission call sites (live handlers + failure branch)")
}

// checkPoolQuote — C27.quote. A commission paid in a custom coin through its pool is *executed*
// with the order-book-aware swap (PairSellWithOrders / PairBuyWithOrders). The amount quoted
// beforehand — what CalculateCommission hands to the handlers as the commission — must come from
// the order-book-aware calculation too (Calculate…WithOrders, reached through CheckSwap);
// quoted with the pool-only formula it differs from what is executed whenever a limit order lies
// in the way, and the payer is charged (and the reward pool credited) something else than
// price × gas price.
func checkPoolQuote(c *core.Ctx, rule string) {
	cc := c.MustFn(rule, core.PkgTx+".CalculateCommission")
	if cc == nil {
		return
	}
	// the helper whose first result is the pool quote: the callee of CalculateCommission that
	// takes the swapper
	var quoteFn *ssa.Function
	for _, s := range core.Sites(cc) {
		sc := s.Common.StaticCallee()
		if sc == nil || core.PkgOf(sc) != core.PkgTx || sc.Blocks == nil {
			continue
		}
		for _, p := range sc.Params {
			if strings.HasSuffix(p.Type().String(), "swap.EditableChecker") {
				quoteFn = sc
			}
		}
	}
	if quoteFn == nil {
		c.Unk(rule, "CalculateCommission/pool-quote", cc.Pos(), "the helper that quotes the commission through the pool was not found")
		return
	}
	methods := map[string]bool{}
	var collect func(fn *ssa.Function, idx, depth int)
	collect = func(fn *ssa.Function, idx, depth int) {
		if depth > 3 {
			return
		}
		for _, o := range core.ResultOrigins(fn, idx) {
			var call *ssa.Call
			ridx := 0
			switch x := core.Unwrap(o).(type) {
			case *ssa.Call:
				call = x
			case *ssa.Extract:
				if cl, ok := x.Tuple.(*ssa.Call); ok {
					call, ridx = cl, x.Index
				}
			}
			if call == nil {
				continue
			}
			if call.Call.IsInvoke() {
				if strings.Contains(call.Call.Value.Type().String(), "swap.") {
					methods[call.Call.Method.Name()] = true
				}
				continue
			}
			if sc := call.Call.StaticCallee(); sc != nil && core.PkgOf(sc) == core.PkgTx && sc.Blocks != nil {
				collect(sc, ridx, depth+1)
			}
		}
	}
	collect(quoteFn, 0, 0)
	var names, bad []string
	for m := range methods {
		names = append(names, m)
		if strings.HasPrefix(m, "Calculate") && !strings.HasSuffix(m, "WithOrders") {
			bad = append(bad, m)
		}
	}
	sort.Strings(names)
	sort.Strings(bad)
	withOrders := false
	for _, m := range names {
		if strings.HasPrefix(m, "Calculate") && strings.HasSuffix(m, "WithOrders") {
			withOrders = true
		}
	}
	c.Check(withOrders && len(bad) == 0, rule, "CalculateCommission/pool-quote", quoteFn.Pos(), "the pool quote of the commission comes from "+strings.Join(names, ", "),
		fmt.Sprintf("the commission quoted for payment through the pool comes from %v — a pool-only calculation (%v) — while the payment itself is executed against pool and limit orders: quote and execution disagree whenever an order lies in the way", names, bad))
}

// checkGasPriceBeforeConversion — C27.order. When the price table is denominated in a custom
// coin, the fee is first multiplied by the gas price *in that coin* and the product is converted
// to the base coin through the pool (price := MulGasPrice(Price(table)); price = CheckSwap(…,
// price, …)). A pool quote is not linear, so sell(gasPrice·x) ≠ gasPrice·sell(x): both fee
// computations of RunTx (accepted and failed transaction) have to multiply before converting.
// Decided: every conversion through the pool of the price coin takes an amount that derives from
// tx.MulGasPrice, and no MulGasPrice is applied to an amount that derives from such a conversion.
func checkGasPriceBeforeConversion(c *core.Ctx, rule string) {
	fn := c.RunTx()
	if fn == nil {
		c.Unk(rule, "RunTx", token.NoPos, "live RunTx not found")
		return
	}
	isMul := func(v ssa.Value) bool {
		call, ok := core.Unwrap(v).(*ssa.Call)
		return ok && strings.HasSuffix(core.CalleeName(core.NormCall(&call.Call)), ".MulGasPrice")
	}
	isConversion := func(s *core.Site) bool {
		if !strings.HasSuffix(s.Callee, "transaction.CheckSwap") || len(s.Common.Args) < 4 {
			return false
		}
		// the swapper is the pool of the price-table coin
		return strings.Contains(core.Path(s.Common.Args[0]), "GetSwapper(") && strings.Contains(core.Path(s.Common.Args[0]), ".Coin")
	}
	n := 0
	for _, s := range core.Sites(fn) {
		if !isConversion(s) {
			continue
		}
		n++
		amount := s.Common.Args[3]
		fromMul := isMul(amount)
		for _, o := range core.Origins(amount) {
			if isMul(o) {
				fromMul = true
			}
		}
		c.Check(fromMul, rule, fmt.Sprintf("RunTx/conversion#%d", n), s.Pos(), "the amount converted from the price coin to the base coin is already multiplied by the gas price",
			"the amount converted from the price coin to the base coin through the pool does not come from tx.MulGasPrice: the gas price is applied after the conversion (or not at all), and a pool quote is not linear in the amount")
	}
	k := 0
	for _, s := range core.Sites(fn) {
		if !strings.HasSuffix(s.Callee, ".MulGasPrice") {
			continue
		}
		k++
		arg := s.Arg(0)
		afterConv := core.DependsOn(arg, func(v ssa.Value) bool {
			ex, ok := v.(*ssa.Extract)
			if !ok {
				return false
			}
			call, ok := ex.Tuple.(*ssa.Call)
			return ok && strings.HasSuffix(core.CalleeName(core.NormCall(&call.Call)), "transaction.CheckSwap")
		})
		c.Check(!afterConv, rule, fmt.Sprintf("RunTx/MulGasPrice#%d", k), s.Pos(), "the gas price multiplies an amount of the price table, not a converted one",
			"tx.MulGasPrice is applied to an amount that already went through the pool conversion: gasPrice × sell(x) instead of sell(gasPrice × x)")
	}
	c.Floor(rule, n, 2, "price-coin conversions in RunTx")
}

// checkFeeBeforeTrade — C27.first. The amount of the fee is quoted (CalculateCommission) and the
// validation phase simulates "fee conversion first, then the transaction's own trades" on the pool
// as it stands before the transaction. The deliver block therefore takes the fee — converts it in
// the pool or burns reserve, debits it, adds it to the reward pool — BEFORE any trade of its own:
// a trade of the transaction that runs first moves the very pool the quoted fee is sold in, and
// the validators then receive something other than gas price × table price (or the sender pays
// more than the limit that was checked). Decided per live handler: neither the fee's conversion
// (the sale of tx.CommissionCoin() for the base coin) nor the burn of its reserve can be
// preceded, on any path of the deliver block, by another Swap-module mutator of the transaction.
func checkFeeBeforeTrade(c *core.Ctx, rule string) {
	n := 0
	for _, m := range LiveModels(c, rule) {
		// where the fee is taken: its conversion in the pool, or the burn of reserve
		var fees, trades []*MutSite
		for _, mu := range m.Mutators {
			isFeeCoin := mu.Site.Arg(0) != nil && strings.HasSuffix(core.Path(mu.Site.Arg(0)), "CommissionCoin()")
			switch {
			case (mu.Module == "Swap" || mu.Module == "Swapper") && isFeeCoin && strings.Contains(core.Path(mu.Site.Arg(1)), "GetBaseCoinID()"):
				fees = append(fees, mu)
			case mu.Module == "Coins" && mu.Method == "SubReserve" && isFeeCoin:
				fees = append(fees, mu)
			case mu.Module == "Swap" || mu.Module == "Swapper":
				trades = append(trades, mu)
			}
		}
		if len(trades) == 0 || len(fees) == 0 {
			continue
		}
		n++
		bad := ""
		for _, t := range trades {
			for _, f := range fees {
				if instrReaches(t.Site.Instr, f.Site.Instr) {
					bad = t.Method + " at " + c.PosStr(t.Site.Pos())
				}
			}
		}
		c.Check(bad == "", rule, m.H.TypeName+".Run/fee-first", fees[0].Site.Pos(), fmt.Sprintf("the fee is converted or burnt before the transaction's %d pool operations", len(trades)),
			"the transaction's own pool operation ("+bad+") can run before the fee is converted: the fee quoted and validated on the untouched pool is then sold on a pool this transaction has already moved")
	}
	c.Floor(rule, n, 5, "live handlers that trade in pools")
}
