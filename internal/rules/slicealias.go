package rules

import (
	"fmt"
	"go/types"

	"golang.org/x/tools/go/ssa"

	"verif/internal/core"
)

// retainsParam: fn stores its idx-th parameter (a slice) — or a reslice of it — into memory that
// outlives the call (a struct field, a map/slice element, a global), directly or through a callee.
func retainsParam(c *core.Ctx, fn *ssa.Function, idx int, depth int) bool {
	if fn == nil || fn.Blocks == nil || idx >= len(fn.Params) || depth > 2 {
		return false
	}
	p := fn.Params[idx]
	alias := map[ssa.Value]bool{p: true}
	// values that are the parameter itself or a view of its backing array
	changed := true
	for changed {
		changed = false
		for _, b := range fn.Blocks {
			for _, in := range b.Instrs {
				v, ok := in.(ssa.Value)
				if !ok || alias[v] {
					continue
				}
				switch x := in.(type) {
				case *ssa.Slice:
					if alias[x.X] {
						alias[v] = true
						changed = true
					}
				case *ssa.Phi:
					for _, e := range x.Edges {
						if alias[e] {
							alias[v] = true
							changed = true
						}
					}
				case *ssa.ChangeType:
					if alias[x.X] {
						alias[v] = true
						changed = true
					}
				}
			}
		}
	}
	for _, b := range fn.Blocks {
		for _, in := range b.Instrs {
			switch x := in.(type) {
			case *ssa.Store:
				if !alias[x.Val] {
					continue
				}
				switch a := x.Addr.(type) {
				case *ssa.FieldAddr:
					// a field of a local composite that itself escapes counts too: conservative yes
					_ = a
					return true
				case *ssa.IndexAddr, *ssa.Global:
					return true
				}
			case *ssa.MapUpdate:
				if alias[x.Value] {
					return true
				}
			case ssa.CallInstruction:
				cc := x.Common()
				callee := cc.StaticCallee()
				if callee == nil || !c.InRepo(callee) {
					continue
				}
				for i, a := range cc.Args {
					if alias[a] && retainsParam(c, callee, i, depth+1) {
						return true
					}
				}
			}
		}
	}
	return false
}

// sharedBacking: the slice value v, used at a call inside a loop, may be backed by an array that
// was allocated before the loop (make outside the loop, reused via s = s[:0] / append).
func sharedBacking(v ssa.Value, callBlock *ssa.BasicBlock) (bool, ssa.Instruction) {
	seen := map[ssa.Value]bool{}
	var found ssa.Instruction
	var walk func(v ssa.Value)
	walk = func(v ssa.Value) {
		if v == nil || seen[v] || found != nil {
			return
		}
		seen[v] = true
		switch x := v.(type) {
		case *ssa.Phi:
			for _, e := range x.Edges {
				walk(e)
			}
		case *ssa.Slice:
			walk(x.X)
		case *ssa.ChangeType:
			walk(x.X)
		case *ssa.Call:
			if b, ok := x.Call.Value.(*ssa.Builtin); ok && b.Name() == "append" && len(core.NormCall(&x.Call).Args) > 0 {
				walk(core.NormCall(&x.Call).Args[0])
			}
		case *ssa.MakeSlice:
			mb := x.Block()
			inLoop := core.ReachFrom(callBlock, nil)[mb] && core.ReachFrom(mb, nil)[callBlock] && mb != callBlock
			if mb == callBlock {
				inLoop = true
			}
			if !inLoop {
				found = x
			}
		case *ssa.Alloc:
			// make([]T, n, constCap) is lowered to `new [cap]T` + slice
			if _, isArr := x.Type().(*types.Pointer).Elem().Underlying().(*types.Array); isArr {
				mb := x.Block()
				inLoop := mb == callBlock || (core.ReachFrom(callBlock, nil)[mb] && core.ReachFrom(mb, nil)[callBlock])
				if !inLoop {
					found = x
				}
			}
		case *ssa.UnOp:
			// load of a local cell: follow its stores
			if al, ok := x.X.(*ssa.Alloc); ok {
				for _, r := range *al.Referrers() {
					if st, ok := r.(*ssa.Store); ok && st.Addr == al {
						walk(st.Val)
					}
				}
			}
		}
	}
	walk(v)
	return found != nil, found
}

// checkRetainedSlices scans fns for calls inside loops that hand a callee-retained slice whose
// backing array is reused across iterations.
func checkRetainedSlices(c *core.Ctx, rule string, fns []*ssa.Function) int {
	n := 0
	for _, fn := range fns {
		if fn.Synthetic != "" {
			continue
		}
		for _, s := range core.Sites(fn) {
			if !core.InCycle(s.Block()) {
				continue
			}
			callee := s.Common.StaticCallee()
			if callee == nil || !c.InRepo(callee) || callee.Blocks == nil {
				continue
			}
			for i, a := range s.Common.Args {
				if _, isSlice := a.Type().Underlying().(*types.Slice); !isSlice {
					continue
				}
				if !retainsParam(c, callee, i, 0) {
					continue
				}
				n++
				shared, mk := sharedBacking(a, s.Block())
				key := fmt.Sprintf("%s→%s/arg%d", core.ShortFn(fn), callee.Name(), i)
				if shared {
					c.Bad(rule, key, s.Pos(), fmt.Sprintf("%s keeps the slice it is given, but the caller reuses one backing array (allocated at %s, outside the loop) for every iteration: all records built in this loop end up sharing — and overwriting — the same elements", core.ShortFn(callee), c.PosStr(mk.Pos())))
				} else {
					c.OK(rule, key, s.Pos(), "the retained slice is freshly built in each iteration")
				}
			}
		}
	}
	return n
}
